#!/bin/bash
# usage: tools/seeded_eval.sh <worktree with _mutation/ and the change applied> <seed name> <check ids...>
# confirms the demonstration (fails with the change, passes without), runs the given checks against the mutated tree,
# and stores the seeded change under /verif/seeded/<name>/.
WT=$1; NAME=$2; shift 2
OUT=/verif/seeded/$NAME; mkdir -p $OUT
cp $WT/_mutation/patch.diff $WT/_mutation/notes.md $OUT/ 2>/dev/null
cp $WT/_mutation/demo.* $WT/_mutation/build.sh $OUT/ 2>/dev/null
cd $WT
( timeout 300 bash _mutation/build.sh > $OUT/demo_with.log 2>&1 ); RC_WITH=$?
git diff > /tmp/.seeded_eval_$$.diff; git apply -R /tmp/.seeded_eval_$$.diff   # (git stash is shared between worktrees: never use it here)
( timeout 300 bash _mutation/build.sh > $OUT/demo_without.log 2>&1 ); RC_WITHOUT=$?
git apply /tmp/.seeded_eval_$$.diff; rm -f /tmp/.seeded_eval_$$.diff
echo "demo: with change rc=$RC_WITH, without rc=$RC_WITHOUT"
RES="{}"
for id in "$@"; do
  /verif/tools/on_tree $WT $id --tier quick > $OUT/check_$id.log 2>&1; rc=$?
  nv=$(grep -c "^VIOLATION" $OUT/check_$id.log); sigs=$(grep "signature:" $OUT/check_$id.log | sort | uniq -c | sort -rn | head -5 | tr '\n' ';')
  dr=$(grep -c "^DRIFT" $OUT/check_$id.log)
  echo "check $id: exit=$rc violations=$nv drift=$dr  $sigs"
done
rm -rf "/var/tmp/vp-build/$(echo "$WT" | tr -c 'A-Za-z0-9' '_')"
