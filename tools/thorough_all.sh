#!/bin/bash
# runs every check's thorough tier once (timing + sanity); one line per check
cd "$(dirname "$0")/.."
for id in ${*:-C01 C02 C03 C04 C05 C06 C07 C08 C09 C10 C11 C12 C13 C14 C15 C16 C17 C18}; do
  t0=$(date +%s)
  ./check $id --tier thorough > /tmp/thorough_$$.log 2>&1; rc=$?
  t1=$(date +%s)
  echo "id=$id exit=$rc wall=$((t1-t0))s $(grep -c '^VIOLATION' /tmp/thorough_$$.log) violations $(grep -c '^DRIFT' /tmp/thorough_$$.log) drift $(grep 'signature\|BROKEN' /tmp/thorough_$$.log | sort | uniq -c | head -3 | tr '\n' ';')"
  if [ $rc -ne 0 ]; then cp /tmp/thorough_$$.log thorough_fail_${id}.log; fi
done
rm -f /tmp/thorough_$$.log
