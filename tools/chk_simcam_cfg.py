"""C17: simulated cameras are memory-safe and honour the shape they report (configuration / shapes / buffer sizes).

  (1) TLC: SimCamConfig (code-shaped model of simcam_set / get* / start / stop / get_frame through the HAL, the two image
      buffers, and the streamer's capture -> render steps) exhaustively, complete unbounded-history graphs, one run per
      camera kind and bin2 variant; invariants RenderWithinBuffers, ReportedShapeConsistent, CopyExact, ReadBackInEffect,
      Bin2AlignmentOK.  The as-found variants (FIX_SIZE/FIX_LOCK/FIX_ALIGN = 0) must each be refuted (binding of the
      invariants to the defects they are about).
  (2) spec -> code: the same runs export a sample of client transitions with a witness history and the expected
      observables after every call; harness/simcam/simcam_cfg.c replays them into the REAL simulated.camera.c (+bin2,
      imfill, popcount, pcg; AVX2 and plain builds) through device/hal/camera.c and compares read-backs, shapes, strides,
      metadata maxima, allocation sizes, statuses and bytes copied                                    -> DRIFT only.
  (3) code -> spec: every replayed history, plus seeded random scenarios (random shapes/offsets/types/binning, re-sets
      while the streamer is parked between iterations / just after its capture / inside its render loop, restarts,
      too-small buffers, calls after stop) is recorded as an ndjson trace (calls, read-backs, allocations seen through the
      allocation seam of simulated.camera.o, bytes touched in the caller's buffer, canaries, crashes) and judged by the
      observation spec SimCamObs in TLC                                                               -> VIOLATION.
  (4) the same scenarios under -fsanitize=address in child processes; a sanitizer report becomes a StrayAccess event in
      the trace (instrument only; SimCamObs decides).
"""
import json, os, sys, time, random, re, concurrent.futures as cf
from vlib import *

PROP_RULES = {
    "SetNotInEffect", "BadReadBack", "DimsNotClamped", "ShapeNotReadBack", "StridesMismatch", "ShapeBeyondMax",
    "BufferSmallerThanRender", "FrameWrongSize", "FrameShapeMismatch", "CallerCanaryHit", "FrameRefused",
    "FrameErrTouchedBuffer", "StrayAccess", "Crash", "BadFree",
}
HARNESS_RULES = {"UnknownEvent", "HarnessHang", "MalformedEvent"}

SIM = "acquire-driver-common/src/simcams"
PCG = SIM + "/3rdParty/pcg-c-basic-0.9"
REDEF_CAM = {"malloc": "vh_malloc", "realloc": "vh_realloc", "free": "vh_free", "lock_acquire": "vh_lock_acquire",
             "lock_release": "vh_lock_release", "condition_variable_notify_all": "vh_cv_notify_all", "condition_variable_wait": "vh_cv_wait",
             "pcg32_random": "vh_pcg32_random", "thread_join": "vh_thread_join"}
REDEF_FILL = {"sinf": "vh_sinf"}
VARIANTS = {"avx": ["-mavx2"], "plain": []}


def redefine(obj, table):
    """Redirect the undefined references of ONE object file (the allocation / lock / render-call seams)."""
    args = []
    for a, b in table.items():
        args += ["--redefine-sym", "%s=%s" % (a, b)]
    run(["objcopy"] + args + [obj], check=True, timeout=60)
    rc, out = run(["nm", "-u", obj], timeout=60)
    return {b for b in table.values() if re.search(r"\bU %s\b" % re.escape(b), out)}


def build_variant(bdir, name, asan):
    d = os.path.join(bdir, name + ("_asan" if asan else ""))
    fl = list(VARIANTS[name]) + (["-fsanitize=address"] if asan else [])
    inc = [os.path.join(REPO, PCG)]
    objs = compile_objs(d, [
        SIM + "/simulated.camera.c", SIM + "/imfill.pattern.cpp", SIM + "/popcount.cpp", PCG + "/pcg_basic.c",
        "acquire-core-libs/src/acquire-device-hal/device/hal/camera.c",
        "acquire-core-libs/src/acquire-device-properties/device/props/components.c",
        "acquire-core-libs/src/acquire-core-platform/linux/platform.c",
        "acquire-core-libs/src/acquire-core-logger/logger.c",
        os.path.join(HARNESS, "simcam/simcam_cfg.c")],
        cflags=fl, cxxflags=fl + ["-fno-builtin-sinf"], defs=["NO_UNIT_TESTS"], extra_inc=inc, jobs=4)
    seen = redefine(objs[0], REDEF_CAM)
    need = {"vh_malloc", "vh_realloc", "vh_free", "vh_lock_acquire", "vh_lock_release"}
    if not need <= seen:
        raise Broken("seam missing in simulated.camera.o (%s): %s" % (name, sorted(need - seen)))
    redefine(objs[1], REDEF_FILL)
    return link(os.path.join(d, "simcam_cfg"), objs, ["-fsanitize=address"] if asan else [])


def build_all(bdir, asan=True):
    jobs = [(n, a) for n in VARIANTS for a in ((False, True) if asan else (False,))]
    with cf.ThreadPoolExecutor(max_workers=4) as ex:
        exes = list(ex.map(lambda j: build_variant(bdir, j[0], j[1]), jobs))
    return {(n, a): e for (n, a), e in zip(jobs, exes)}


# ----------------------------------------------------------------------------------------------------------------
# model

CONSTS = {
    "quick": dict(BINS="{0,1,2,3,8}", TYPES="{0,4,6}", XS="{1,2,31,32,33,65,4096,4097,8192,8193}",
                  YS="{1,2,31,32,33,65,4096,4097,8192,8193}", XS2="{1,33,8193}", YS2="{2,64}", OES="{0,2}", sample=70),
    "thorough": dict(BINS="{0,1,2,3,4,8,16}", TYPES="{0,1,2,3,4,5,6,7}",
                     XS="{1,2,3,31,32,33,63,64,65,2048,2049,4095,4096,4097,8192,8193}",
                     YS="{1,2,3,31,32,33,63,64,65,2048,2049,4095,4096,4097,8192,8193}",
                     XS2="{1,33,2049,8193}", YS2="{2,63,4097}", OES="{0,1,2}", sample=900),
    "demo": dict(BINS="{1,2,8}", TYPES="{0,4}", XS="{1,33,64}", YS="{2,48}", XS2="{1,8}", YS2="{2}", OES="{0}", sample=1),
}
INVARIANTS = "TypeOK ReportedShapeConsistent ReadBackInEffect CopyExact RenderWithinBuffers Bin2AlignmentOK"
ACTIONS = ["L_SetFirst", "L_SetNext", "L_Start", "L_Stop", "L_Frame", "L_FrameSmall", "L_StCapture", "L_StBegin", "L_StEnd"]


def model_cfg(path, c, kinds, fix=(1, 1, 1), export=False):
    t = "CONSTANTS KINDS = %s BINS = %s TYPES = %s\n XS = %s\n YS = %s\n XS2 = %s YS2 = %s OES = %s\n" % (
        kinds, c["BINS"], c["TYPES"], c["XS"], c["YS"], c["XS2"], c["YS2"], c["OES"])
    t += " AVXS = {0,1} FIX_SIZE = %d FIX_LOCK = %d FIX_ALIGN = %d ALIGN16 = TRUE SampleMod = %d\n" % (fix + (c["sample"],))
    t += "SPECIFICATION Spec\nVIEW View\nCHECK_DEADLOCK FALSE\nINVARIANTS %s\n" % INVARIANTS
    if export:
        t += "ACTION_CONSTRAINT EmitSample\n"
    return write_cfg(path, t)


# Observables tuple of SimCamConfig: <<hs, run, b,t,ox,oy,sx,sy,ex, w,h,ty, sh,sp, fs,rs, xh, oxh,oyh, st,cp>>
BPP = {0: 1, 1: 2, 2: 1, 3: 2, 4: 4, 5: 2, 6: 2, 7: 2}


def hist_to_line(idx, h, limit_bytes):
    """One exported history -> harness line; None if it streams a configuration above the size limit of the tier."""
    segs = []
    for s in h["h"]:
        op, a, x, at = s["op"], s["a"], s["x"], s["at"]
        if x[1] == 1 or op == "T":   # the camera runs after this call: its full-resolution render must be affordable
            full = x[2] * x[6] * x[2] * x[7] * BPP.get(x[3], 4)
            if full > limit_bytes:
                return None
        if x[14] + x[15] > 64 * limit_bytes:
            return None
        if op == "S":
            segs.append("S %d %s = %s" % (at, " ".join(map(str, a)), " ".join(map(str, x))))
        elif op == "F":
            segs.append("F %d = %s" % (a[0], " ".join(map(str, x))))
        else:
            segs.append("%s = %s" % (op, " ".join(map(str, x))))
    return "%d %d ; %s" % (idx, h["k"], " ; ".join(segs))


# ----------------------------------------------------------------------------------------------------------------
# scenarios generated here (code -> spec only, no expectations)

def random_scenarios(rng, n, big):
    """Seeded random histories: small random shapes incl. odd sizes, all kinds / types / binnings, re-sets while the
    streamer is parked at each gate, restarts, too-small buffers, calls after stop."""
    out = []
    dims = [1, 2, 3, 5, 7, 15, 16, 17, 31, 32, 33, 47, 63, 64, 65, 96, 100, 127, 128, 129]
    for i in range(n):
        kind = rng.randrange(3)
        def cfg():
            b = rng.choice([1, 1, 2, 2, 4, 8, 0, 3, 16])
            t = rng.choice([0, 1, 2, 3, 4, 5, 6, 7])
            if rng.random() < 0.08:
                nb = max(1, b) if b in (1, 2, 4, 8, 16, 0) else 1
                sx = 8192 // nb + rng.choice([0, 1, 5]) if rng.random() < 0.5 else rng.choice(dims)
                sy = rng.choice([1, 2, 3]) if sx > 512 else 8192 // nb + rng.choice([0, 1])
                if sx <= 512 and sy > 512:
                    sx = rng.choice([1, 2, 3])
            else:
                lim = 129 if big else 65
                sx = rng.choice([d for d in dims if d <= lim])
                sy = rng.choice([d for d in dims if d <= lim])
            ox = rng.choice([0, 0, 1, 13, 5000, 100000])
            oy = rng.choice([0, 0, 2, 17, 8191])
            ex = rng.choice([1, 1, 2, 30])
            return "%d %d %d %d %d %d %d" % (b, t, ox, oy, sx, sy, ex)
        def accepted(c):
            return int(c.split()[0]) in (0, 1, 2, 4, 8, 16)
        c0 = cfg()
        segs = ["S 0 " + c0]
        running = False
        armed = accepted(c0)
        for _ in range(rng.randrange(3, 9)):
            r = rng.random()
            if r < 0.30:
                c = cfg()
                segs.append("S %d %s" % (rng.choice([1, 2, 2, 3, 3]) if running else 0, c))
                if accepted(c):
                    armed = True
                else:                       # the HAL stops a camera that refuses its settings
                    armed = running = False
            elif r < 0.45:
                if armed and not running:   # client contract: start only an armed camera
                    segs.append("T")
                    running = True
            elif r < 0.80:
                m = rng.choice([0, 0, 0, 1, 1, 2])
                segs.append("F %d" % m)
                if m == 2 and running:      # a refused frame call stops the camera
                    armed = running = False
            else:
                segs.append("P")
                running = False
        out.append("%d %d ; %s" % (i, kind, " ; ".join(segs)))
    return out


def directed_scenarios():
    """The cases named in the design: binning with small/odd shapes for every kind, binning change while the shape stays,
    shrink / grow / binning change under a running streamer at each gate, get_frame after stop, restart."""
    out = []
    for kind in (0, 1, 2):
        for b in (2, 4, 8):
            for (w, h, t) in ((64, 48, 0), (33, 31, 1), (5, 3, 4), (1, 1, 0), (17, 2, 6)):
                out.append("%d ; S 0 %d %d 0 0 %d %d 1 ; T ; F 0 ; F 1 ; P ; F 0 ; T ; F 0 ; P" % (kind, b, t, w, h))
        out.append("%d ; S 0 1 0 0 0 8192 2 1 ; S 0 2 0 0 0 8192 2 1 ; S 0 8 0 0 0 8192 2 1 ; S 0 1 0 0 0 8192 2 1 ; T ; F 0 ; P" % kind)
        for g in (1, 2, 3):
            out.append("%d ; S 0 1 0 0 0 64 48 1 ; T ; F 0 ; S %d 1 0 0 0 8 8 1 ; F 0 ; S %d 1 4 0 0 80 80 1 ; F 0 ; P" % (kind, g, g))
            out.append("%d ; S 0 2 0 0 0 32 32 1 ; T ; F 0 ; S %d 1 0 0 0 32 32 1 ; F 0 ; S %d 8 0 0 0 4 4 1 ; F 0 ; P" % (kind, g, g))
        out.append("%d ; S 0 1 1 3 9 33 17 1 ; T ; F 2 ; F 0 ; S 0 1 1 0 0 33 17 1 ; T ; F 1 ; P" % kind)
        out.append("%d ; S 0 3 0 0 0 16 16 1 ; S 0 0 0 0 0 0 0 1 ; T ; F 0 ; S 0 5 0 0 0 16 16 1 ; F 0" % kind)
    return ["%d %s" % (i, l) for i, l in enumerate(out)]


# ----------------------------------------------------------------------------------------------------------------
# running the harness, with restart after a crash / sanitizer death

def run_harness(exe, hfile, trace, mis, nlines, asan=False, timeout=900, max_deaths=12, per_history_s=20):
    first, deaths, stats, drift = 0, 0, {}, []
    env = {"ASAN_OPTIONS": "detect_leaks=0:exitcode=23:allocator_may_return_null=1:max_malloc_fill_size=0"} if asan else {}
    t_end = time.time() + timeout
    stopped_early = False
    while first < nlines:
        rc, out = run([exe, hfile, trace, str(first), str(mis), str(per_history_s)], timeout=max(5, t_end - time.time()), env=env,
                      stderr=subprocess.DEVNULL)
        for l in out.splitlines():
            if l.startswith("DRIFT"):
                drift.append(l)
            elif l.startswith("{"):
                try:
                    for k, v in json.loads(l).items():
                        stats[k] = stats.get(k, 0) + v
                except Exception:
                    pass
        if rc == 0:
            break
        if rc == 2:
            rc2, out2 = run([exe, hfile, trace + ".again", str(first), str(mis)], timeout=120, env=env)
            raise Broken("harness usage/IO error: %s (first=%d mis=%d): %s" % (exe, first, mis, out2[-800:]))
        if rc == 124:            # our own time budget, not a hang of the camera (the harness has its own per-history alarm)
            stopped_early = True
            break
        deaths += 1
        last, tail = -1, ""
        with open(trace, "rb") as f:
            f.seek(0, 2)
            sz = f.tell()
            f.seek(max(0, sz - 200000))
            chunk = f.read().decode(errors="replace")
        for m in re.finditer(r'"e":"Open","id":(\d+)', chunk):
            last = int(m.group(1))
        lines = [x for x in chunk.splitlines() if x.strip()]
        tail = lines[-1] if lines else ""
        if not any(k in tail for k in ('"Crash"', '"StrayAccess"', '"Hang"')):
            with open(trace, "a") as f:
                f.write('\n{"e":"Crash","sig":%d}\n' % (-rc if rc < 0 else rc))
        if last < 0:
            raise Broken("harness died before its first history (rc=%s): %s" % (rc, exe))
        first = last + 1
        if deaths >= max_deaths or time.time() > t_end:
            stopped_early = True
            break
    stats["deaths"] = deaths
    stats["stopped_early"] = stopped_early
    return stats, drift


def clean_trace(path):
    """Keep well-formed event lines only (a dying process may leave a torn line)."""
    good = []
    with open(path, errors="replace") as f:
        for l in f:
            l = l.strip()
            if not l:
                continue
            try:
                e = json.loads(l)
            except Exception:
                continue
            if isinstance(e, dict) and "e" in e:
                good.append(l)
    with open(path, "w") as f:
        f.write("\n".join(good) + ("\n" if good else ""))
    return len(good)


def validate_trace(trace, workdir, timeout=900):
    cfg = os.path.join(SPECS, "SimCamObs.cfg")
    r = tlc("SimCamObs", cfg, workdir, workers=1, timeout=timeout, env={"TRACE": trace}, coverage=False, heap="4g")
    v = printed_json(r, "VERDICT")
    if not v:
        raise Broken("SimCamObs produced no verdict for %s: rc=%s %s\n%s" % (trace, r.rc, r.error, r.out[-2000:]))
    n = sum(1 for _ in open(trace))
    if v[0]["consumed"] != n:
        raise Broken("SimCamObs consumed %d of %d events of %s" % (v[0]["consumed"], n, trace))
    return v[0]


def history_of(events, line):
    """events: list of dicts (1-based line numbers). Returns the events of the history that contains `line`
    (from its Open to the event before the next Open) and the position of `line` in it."""
    i = line - 1
    while i > 0 and events[i]["e"] != "Open":
        i -= 1
    j = line
    while j < len(events) and events[j]["e"] != "Open":
        j += 1
    return events[i:j], line - 1 - i


def context_of(evs, pos, rule, variant, mis, script, asan=False, small=False):
    """Diagnostic context of a refusal, used in the signature so that distinct root causes stay distinct.  It is derived
    from the calls made so far, including the one in progress (a process that dies inside a call leaves no event for it)."""
    last = evs[pos]
    done = sum(1 for e in evs[:pos + 1] if e["e"] in ("Set", "Start", "Stop", "Frame"))
    steps = [x.split() for x in script.split(";")[1:]][:done + 1]
    running = racy = binned = False
    for st in steps:
        if not st:
            continue
        if st[0] == "T":
            running = True
        elif st[0] == "P":
            running = False
        elif st[0] == "S" and len(st) >= 3:
            b = int(st[2])
            if b in (2, 4, 8, 16, 32, 64, 128):
                binned = True
            elif b not in (0, 1):
                running = False
            if running and int(st[1]) in (0, 2, 3):
                racy = True
        elif st[0] == "F" and len(st) >= 2 and st[1] == "2":
            running = False
    if rule == "BufferSmallerThanRender":
        return "site=simcam_set cause=buffers-sized-for-binned-shape" if binned else "site=simcam_set"
    if rule not in ("StrayAccess", "Crash", "CallerCanaryHit", "BadFree", "FrameErrTouchedBuffer"):
        return "site=%s" % last["e"]              # not a memory rule: no cause guessing
    site = {"StrayAccess": "streamer", "Crash": "streamer"}.get(rule, last["e"])
    what = "stray=%s" % last.get("kind", "?") if rule == "StrayAccess" else "sig=%s" % last.get("sig") if rule == "Crash" else ""
    # The cause is a diagnostic guess (a process that dies inside a call leaves little behind), tried in this order:
    # a bare SIGSEGV of the AVX2 build on blocks that are not 32-byte aligned with binning on (the checking allocator
    # absorbs an overflow in its tail redzone and the sanitizer reports an overflow first, so that one is bin2's aligned
    # access); buffers the model already found too small; a set issued under a render in flight; binning on.
    if rule == "Crash" and last.get("sig") == 11 and variant == "avx" and (mis or asan) and binned:
        return "site=bin2.avx2 cause=aligned-vector-access-on-unaligned-buffer"
    if small:
        return "site=%s cause=buffers-sized-for-binned-shape" % site
    if racy:
        return "site=%s cause=set-while-rendering" % site
    if binned and rule in ("StrayAccess", "Crash", "CallerCanaryHit", "BadFree"):
        return "site=%s cause=buffers-sized-for-binned-shape" % site
    return ("site=%s %s" % (site if rule not in ("StrayAccess", "Crash") else "?", what)).strip()


def hang_repeats(r, evs, hlines, line, workdir):
    """A per-history alarm fired. The alarm is wall-clock time, so a starved machine can fire it: the history is run
    again alone, three times; only a hang that repeats is reported (as a broken check: C17 judges shapes and bytes)."""
    hev, pos = history_of(evs, line)
    hid = hev[0].get("id", -1)
    if not (0 <= hid < len(hlines)):
        return True
    one = os.path.join(workdir, "hang_%d_%d.txt" % (os.getpid(), line))
    with open(one, "w") as f:
        f.write("0 " + hlines[hid].split(" ", 1)[1] + "\n")
    exe = os.path.join(workdir, r["variant"] + ("_asan" if r["asan"] else ""), "simcam_cfg")
    env = {"ASAN_OPTIONS": "detect_leaks=0:exitcode=23:allocator_may_return_null=1:max_malloc_fill_size=0"} if r["asan"] else {}
    for k in range(3):
        rc, _ = run([exe, one, one + ".ndjson", "0", str(r["mis"]), "60"], timeout=200, env=env, stderr=subprocess.DEVNULL)
        if rc == 41:
            return True
    return False


def judge(chk, runs, workdir):
    """runs: list of dict(trace, hfile, variant, asan, mis, label). Validates all traces, reports refusals."""
    def one(r):
        r["events"] = clean_trace(r["trace"])
        if r["events"] == 0:
            raise Broken("empty trace: %s" % r["trace"])
        r["verdict"] = validate_trace(r["trace"], workdir)
        return r
    with cf.ThreadPoolExecutor(max_workers=max(2, NCPU // 2)) as ex:
        runs = list(ex.map(one, runs))
    total = 0
    by_sig = {}
    counts = {}
    for r in runs:
        total += r["events"]
        v = r["verdict"]
        if not v["bad"]:
            continue
        evs = [json.loads(l) for l in open(r["trace"])]
        hlines = open(r["hfile"]).read().splitlines()
        for rule, line in v["bad"]:
            counts[rule] = counts.get(rule, 0) + 1
            if rule == "HarnessHang" and not hang_repeats(r, evs, hlines, line, workdir):
                counts["HarnessHang (not repeated by 3 re-runs of the history alone: machine load, not judged)"] = \
                    counts.pop(rule, 1)
                continue
            if rule in HARNESS_RULES:
                raise Broken("harness-level refusal %s at %s:%d" % (rule, r["trace"], line))
            if rule not in PROP_RULES:
                continue
            hev, pos = history_of(evs, line)
            hid = hev[0].get("id", -1)
            hl = hlines[hid] if 0 <= hid < len(hlines) else ""
            script = " ; ".join(seg.split("=")[0].strip() for seg in hl.split(";"))
            first_line = line - pos          # 1-based line of the history's Open event
            small = any(rl == "BufferSmallerThanRender" and first_line <= ln <= first_line + len(hev) for rl, ln in v["bad"])
            ctx = context_of(hev, pos, rule, r["variant"], r["mis"], script, asan=r["asan"], small=small)
            sig = "rule=%s %s" % (rule, ctx)
            cand = (len(script), sig, rule, r, script, hev[pos], line)
            if sig not in by_sig or cand[0] < by_sig[sig][0]:
                by_sig[sig] = cand
        if v["nbad"] > len(v["bad"]):
            counts["(beyond the first 200 of a trace)"] = counts.get("(beyond the first 200 of a trace)", 0) + v["nbad"] - len(v["bad"])
    for sig, (_, _, rule, r, script, ev, line) in sorted(by_sig.items()):
        txt = "%s refused %s in history [%s] (%s build%s%s, %s)" % (
            rule, json.dumps(ev)[:300], script, r["variant"], ", ASan" if r["asan"] else "",
            ", image buffers 16- but not 32-byte aligned" if r["mis"] else "", r["label"])
        chk.violation(sig, txt, replay_obj={"kind": "simcam_history", "variant": r["variant"], "asan": r["asan"], "mis": r["mis"],
                                            "line": script, "rule": rule})
    if counts:
        chk.set("refusals_by_rule", counts)
    return total, runs


def replay_script(prop, path):
    obj = json.load(open(path))["replay"]
    bdir = build_dir("replay_" + prop)
    exe = build_variant(bdir, obj["variant"], obj["asan"])
    hf = os.path.join(bdir, "h.txt")
    line = obj["line"]
    line = "0 " + line.split(" ", 1)[1]
    open(hf, "w").write(line + "\n")
    tr = os.path.join(bdir, "trace.ndjson")
    run_harness(exe, hf, tr, obj["mis"], 1, asan=obj["asan"], timeout=120, max_deaths=1)
    clean_trace(tr)
    v = validate_trace(tr, bdir)
    for l in open(tr):
        log("  " + l.rstrip()[:400])
    hits = [b for b in v["bad"] if b[0] in PROP_RULES]
    if hits:
        log("VIOLATION property=%s replay=%s" % (prop, path))
        log("  refused: %s" % hits)
        return 1
    log("replay accepted by SimCamObs (no refusal)")
    return 0


def render_volume_drift(chk, trace):
    """Drift detector for the assumption behind BufferSmallerThanRender: the number of pcg32_random / sinf calls of one
    iteration must be what the model's full-resolution fill says (random: Align32(W*H*bpp)/4, sin: W*H)."""
    n = bad = 0
    kind, p, racy = 0, None, False
    for l in open(trace):
        e = json.loads(l)
        k = e["e"]
        if k == "Open":
            kind, p, racy = e["kind"], None, False
        elif k == "Set":
            if e["st"] == 0:
                p = e["out"]
            if e.get("run") == 1:
                racy = True
        elif k == "Start":
            racy = False
        elif k == "Frame" and e["st"] == 0 and p and not racy and e.get("rc", -1) >= 0 and kind in (0, 1):
            b, t, sx, sy = p[0], p[1], p[4], p[5]
            W, H = b * sx, b * sy
            exp = ((W * H * BPP.get(t, 0) + 31) // 32) * 8 if kind == 0 else (W * H if t <= 4 else 0)
            if exp >= 3:
                n += 1
                if e["rc"] != exp:
                    bad += 1
                    if bad <= 2:
                        chk.drift_note("render volume: kind %d props %s: %d render calls per iteration, the model's "
                                       "full-resolution fill needs %d" % (kind, p, e["rc"], exp))
    return n, bad


def main(prop, tier):
    chk = Check(prop, tier, "model_checking")
    thorough = tier == "thorough"
    bdir = build_dir(prop)
    sd = seed()
    rng = random.Random(sd)
    C = CONSTS["thorough" if thorough else "quick"]
    limit = (16 << 20) if thorough else (1 << 20)

    # ---- (1) model checking + export, concurrently with the build ---------------------------------------------------
    def run_mc(kind):
        cfg = model_cfg(os.path.join(bdir, "mc_k%d.cfg" % kind), C, "{%d}" % kind, export=True)
        r = tlc("SimCamConfig", cfg, bdir, workers=5, timeout=3000 if thorough else 600, heap="10g" if thorough else "4g")
        return kind, r

    def run_demo(which):
        fix = [1, 1, 1]
        fix[which] = 0
        cfg = model_cfg(os.path.join(bdir, "demo_%d.cfg" % which), CONSTS["demo"], "{0,2}", fix=tuple(fix))
        r = tlc("SimCamConfig", cfg, bdir, workers=1, timeout=300, coverage=False, heap="2g")
        return which, r

    with cf.ThreadPoolExecutor(max_workers=8) as ex:
        f_build = ex.submit(build_all, bdir, True)
        f_mc = [ex.submit(run_mc, k) for k in (0, 1, 2)]
        f_demo = [ex.submit(run_demo, w) for w in (0, 1, 2)]
        exes = f_build.result()
        mc = [f.result() for f in f_mc]
        demo = [f.result() for f in f_demo]

    states = transitions = 0
    hists = []
    for kind, r in mc:
        what = "SimCamConfig kind=%d" % kind
        if r.violated:
            raise Broken("%s: the implementation-shaped model (repaired variant) violates %s: the model is wrong or no "
                         "longer mirrors a correct camera (see %s)" % (what, r.violated, r.outpath))
        tlc_or_broken(r, what)
        require_coverage(r, ACTIONS, what)
        if r.queue != 0:
            raise Broken("%s: state graph not completed" % what)
        states += r.distinct
        transitions += r.generated
        chk.cov.setdefault("models", []).append({"model": what + " bin2 variants {plain, avx2}", "distinct_states": r.distinct,
                                                 "transitions": r.generated, "depth": r.depth, "complete": True,
                                                 "wall_s": round(r.wall, 1),
                                                 "actions": {a: r.coverage[a][1] for a in ACTIONS}})
        hists += list(iter_printed_json(r.outpath, "HIST"))
        r.printed = []
        try:
            os.remove(r.outpath)
        except OSError:
            pass
    chk.set("states", states)
    chk.set("transitions", transitions)
    expect = {0: "RenderWithinBuffers", 1: "RenderWithinBuffers", 2: "Bin2AlignmentOK"}
    names = {0: "FIX_SIZE=0 (buffers sized for the binned shape)", 1: "FIX_LOCK=0 (set does not wait for the render in flight)",
             2: "FIX_ALIGN=0 (aligned vector access on realloc memory)"}
    for which, r in demo:
        if r.violated != expect[which]:
            raise Broken("as-found variant %s is not refuted by %s (got %s, %s): the invariants do not bind" % (
                names[which], expect[which], r.violated, r.error))
    chk.set("as_found_variants_refuted", [names[w] + " -> " + expect[w] for w in (0, 1, 2)])

    # ---- (2) spec -> code ---------------------------------------------------------------------------------------------
    rng.shuffle(hists)
    lines, skipped = [], 0
    for h in hists:
        l = hist_to_line(len(lines), h, limit)
        if l is None:
            skipped += 1
        else:
            lines.append(l)
    if len(lines) < 500:
        raise Broken("export is vacuous: %d histories" % len(lines))
    chk.set("histories_exported", len(hists))
    chk.set("histories_skipped_too_large_for_tier", skipped)
    chk.sample({"exported_history": lines[0][:700]})

    # distribute over build variants / allocator modes; a slice also goes to the sanitizer builds
    targets = [("plain", False, 1), ("avx", False, 0), ("avx", False, 1)]
    n_asan = min(len(lines) // 8, 6000 if thorough else 1200)
    parts = []     # (variant, asan, mis, label, lines)
    per = 6 if thorough else 4
    body = lines[n_asan:]
    for ti, (v, a, m) in enumerate(targets):
        mine = body[ti::len(targets)]
        for c in range(per):
            parts.append((v, a, m, "model history", mine[c::per]))
    for ti, v in enumerate(("plain", "avx")):
        mine = [l for l in lines[:n_asan][ti::2]]
        for c in range(2):
            parts.append((v, True, 0, "model history", mine[c::2]))
    # scenarios of our own
    nrand = 6000 if thorough else 900
    scen = directed_scenarios()
    rnd = random_scenarios(rng, nrand, thorough)
    for (v, a, m) in targets + [("plain", True, 0), ("avx", True, 0)]:
        parts.append((v, a, m, "directed scenario", scen))
    for ti, (v, a, m) in enumerate(targets + [("plain", True, 0), ("avx", True, 0)]):
        parts.append((v, a, m, "random scenario seed %d" % sd, rnd[ti::5]))

    def renumber(ls):
        return ["%d %s" % (i, l.split(" ", 1)[1]) for i, l in enumerate(ls)]

    def run_part(i):
        v, a, m, label, ls = parts[i]
        ls = renumber(ls)
        hf = os.path.join(bdir, "h_%03d.txt" % i)
        open(hf, "w").write("\n".join(ls) + "\n")
        tr = os.path.join(bdir, "t_%03d.ndjson" % i)
        if os.path.exists(tr):
            os.remove(tr)
        st, drift = run_harness(exes[(v, a)], hf, tr, m, len(ls), asan=a, timeout=2400 if thorough else 240,
                                per_history_s=120 if thorough else 20)
        return dict(trace=tr, hfile=hf, variant=v, asan=a, mis=m, label=label, stats=st, drift=drift, n=len(ls))

    with cf.ThreadPoolExecutor(max_workers=NCPU) as ex:
        runs = list(ex.map(run_part, [i for i in range(len(parts)) if parts[i][4]]))

    tot = {}
    ndrift = 0
    for r in runs:
        for k, v in r["stats"].items():
            if isinstance(v, (int, float)) and not isinstance(v, bool):
                tot[k] = tot.get(k, 0) + v
        if r["stats"].get("stopped_early"):
            chk.notes.append("%s build%s: harness stopped after %d deaths in %s (%d histories in the file)" % (
                r["variant"], " ASan" if r["asan"] else "", r["stats"]["deaths"], r["label"], r["n"]))
        for d in r["drift"]:
            ndrift += 1
            if ndrift <= 4:
                chk.drift_note("simulated.camera.c disagrees with SimCamConfig (%s build): %s" % (r["variant"], d[:300]))
    chk.set("spec_histories_replayed_into_impl", sum(r["n"] for r in runs if r["label"] == "model history"))
    chk.set("scenario_histories_run", sum(r["n"] for r in runs if r["label"] != "model history"))
    chk.set("observables_compared_steps", tot.get("compared", 0))
    chk.set("frames_delivered", tot.get("frames", 0))
    chk.set("sets_with_streamer_parked", {"between_iterations": tot.get("parked_between", 0),
                                          "after_capture_or_unlock": tot.get("parked_after_capture", 0),
                                          "inside_render_loop": tot.get("parked_in_render", 0),
                                          "set_had_to_wait_for_the_renderer": tot.get("serialized", 0)})
    chk.set("harness_process_deaths", tot.get("deaths", 0))
    if tot.get("mismatches", 0) or ndrift:
        chk.set("drift_mismatches", max(tot.get("mismatches", 0), ndrift))
        chk.assume("DRIFT: the real camera no longer follows SimCamConfig on every replayed call; the exhaustive model-level "
                   "result does not transfer for this run, the verdict rests on the recorded traces judged by SimCamObs")

    # ---- (3)+(4) code -> spec --------------------------------------------------------------------------------------------
    total, runs = judge(chk, runs, bdir)
    rv_n = rv_bad = 0
    for r in runs:
        if r["label"] == "model history" and not r["asan"]:
            a, b = render_volume_drift(chk, r["trace"])
            rv_n += a
            rv_bad += b
    chk.set("render_volume_checked_frames", rv_n)
    if rv_bad:
        chk.assume("DRIFT: the renderer's volume per iteration differs from the model on %d frames; BufferSmallerThanRender "
                   "rests on the model's extent and must be re-derived" % rv_bad)
    chk.set("traces_validated_against_impl", len(runs))
    chk.set("events_validated", total)
    chk.set("exhaustive", True)
    chk.set("checker_cmd", "tlc SimCamConfig (per kind, VIEW View, invariants " + INVARIANTS + ") ; tlc SimCamObs with TRACE=<impl trace>")
    with open(runs[0]["trace"]) as f:
        chk.sample({"impl_trace_prefix": [json.loads(next(f)) for _ in range(10)]})

    # vacuity guards on what was actually executed
    clean = not chk.violations and not chk.known_hits
    if tot.get("compared", 0) < 1000 and clean:
        raise Broken("replay is vacuous: %d compared steps" % tot.get("compared", 0))
    if clean and (tot.get("frames", 0) < 500 or tot.get("parked_in_render", 0) < 10 or tot.get("parked_after_capture", 0) < 10):
        raise Broken("scenarios are vacuous: %s" % tot)

    chk.assume("MAX_IMAGE_WIDTH/HEIGHT = 8192 is used unscaled in the model; shapes/binnings/types are those of the boundary "
               "sets in CONSTS[%s]; histories are unbounded in the model (complete graph), replayed as witness paths" % tier)
    chk.assume("streaming configurations are executed only up to %d MiB of full-resolution image per frame in this tier; "
               "larger ones are covered by the model and by set/get/get_shape/get_meta replay only" % (limit >> 20))
    chk.assume("the frame trigger stays disabled and start is only issued on an armed camera (C18 covers triggers / ids); "
               "pixel types outside the SampleType enumeration are not exercised")
    chk.assume("BufferSmallerThanRender assumes realloc'ed blocks of simulated.camera.o are the image buffers and that the "
               "renderer fills at full resolution and bins in place (checked as drift through allocation sizes and render "
               "call counts); out-of-bounds inside the pixel loops beyond the transcribed index formulas is only caught by "
               "the canary / quarantine / ASan instruments on executed configurations")
    for r in runs:
        for f in (r["trace"], r["hfile"]):
            try:
                os.remove(f)
            except OSError:
                pass
    # ---- the concurrent camera: shape / sample type re-configured while it runs and a frame call may be pending -----------
    # (the real streamer thread under the deterministic scheduler; SimCamStreamObs' C17 clauses: the bytes delivered are those
    # of the shape reported with the frame, nothing is written past them, the image is filled to its end)
    import chk_simcam
    chk_simcam.reshape_family(chk, bdir, 1500 if thorough else 300, random.Random(sd * 31 + 17))
    return chk.finish()
