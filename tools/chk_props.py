"""C13: StorageProperties copies are deep, complete and independent (device/props/storage.c).

  (1) TLC: PropsImpl (code-shaped model: struct String {str,nbytes,is_ref}, dimension arrays, abstract heap) explored
      exhaustively for all call sequences up to a bounded number of calls, several argument universes; the property as
      invariants (no sharing, no dangling pointer, no leak, every free hits a live allocation, strings terminated at their
      recorded length) and action properties (copy: source untouched, destination equal field by field).
  (2) spec -> code: every transition of the depth-bounded graph (EDGE export: a call path + the expected return value and
      canonical projection) and simulated long behaviours (WALK export, compared after every step) are replayed into the
      real functions by harness/props/props_seq.cpp -> DRIFT only.
  (3) code -> spec: the replayed behaviours and seeded random call sequences (arbitrary strings, 0..6 dimensions, 2..4
      objects, two allocator policies) are recorded as observation traces (calls, full projection of every object after
      each call, malloc/realloc/free seen through the --wrap seam) and judged by the total trace spec PropsObs in TLC
      -> VIOLATION.  A second build with -fsanitize=address is an instrument only: a report becomes a `San` event.

  `python3 tools/chk_props.py selftest` (by hand, on a tree that has the repair): mutates scratch copies of storage.c and
  corrupts a recorded trace; every mutant / corruption must be refused (binding demonstration).
"""
import json, os, sys, time, shutil, concurrent.futures as cf
from vlib import *

RULES = {
    "C13": {"FreeNotLive", "ReallocNotLive", "LeakAfterAllDestroyed", "DanglingPointer", "SharedBuffer", "CopySharesMemory",
            "BystanderChanged", "CopySourceChanged", "CopyNotEqual", "StringNotTerminated", "StringOverrunsBuffer",
            "DimsOverrunBuffer", "DimsUnreadable", "SanitizerReport", "Crash"},
}
HARNESS_RULES = {"HarnessNestedCall", "HarnessAllocOutsideCall", "HarnessAllocatorReusedLive", "HarnessRetWithoutCall",
                 "HarnessEndInsideCall", "MalformedEvent", "UnknownEvent"}
STORAGE_C = "acquire-core-libs/src/acquire-device-properties/device/props/storage.c"
WRAPPED = ["malloc", "realloc", "free", "calloc"]
FN = ["?", "init", "set_uri", "set_meta", "set_keys", "set_dim", "set_ms", "copy", "destroy", "borrow"]
# model caller-string kind -> harness string spec (mode, length, generator)
KIND = {0: (0, 0, 0), 1: (1, 1, 1), 2: (1, 3, 1), 3: (1, 9, 1), 4: (2, 3, 2), 5: (3, 0, 1), 6: (0, 3, 0)}


def build(bdir, asan=False):
    """storage.c of the tree under test + the harness; malloc/realloc/free/calloc wrapped at link time."""
    san = ["-fsanitize=address", "-fsanitize-recover=address"] if asan else []
    objs = compile_objs(bdir, [STORAGE_C, os.path.join(HARNESS, "props/props_seq.cpp")], cflags=san,
                        cxxflags=san + ["-Wno-unknown-pragmas"])
    return link(os.path.join(bdir, "props_seq"), objs, wraps(WRAPPED) + (["-fsanitize=address"] if asan else []))


# ---------------------------------------------------------------------------------------------------------------------
# TLC on PropsImpl

FULL = dict(uri="{0,2,3,4}", meta="{0,3}", key="{0,2,3}", name="{2,3,4}", initd="{0,1,2}", borrow="{2,4}", tags="{1,2}",
            ms="{0,1}", bad=1)
ALLK = dict(uri="{0,1,2,3,4,5,6}", meta="{0,2,3,4}", key="{0,1,2,3,4}", name="{2,3,4}", initd="{0,1,2}", borrow="{0,2,4,5}",
            tags="{1,2,3}", ms="{0,1}", bad=1)
DIMS = dict(uri="{3}", meta="{0}", key="{}", name="{2,3}", initd="{0,1,2}", borrow="{}", tags="{1,2}", ms="{}", bad=1)
STRS = dict(uri="{0,2,3,4}", meta="{0,3}", key="{0,3}", name="{}", initd="{0}", borrow="{2,4}", tags="{1}", ms="{}", bad=0)
THREE = dict(uri="{3}", meta="{0}", key="{}", name="{2}", initd="{0,2}", borrow="{}", tags="{1}", ms="{}", bad=0)
MIXED = dict(uri="{0,3,4}", meta="{3}", key="{2}", name="{2,4}", initd="{0,2}", borrow="{4}", tags="{1}", ms="{1}", bad=0)
INVS = "NoErr NoShare NoDangling NoLeak DestroyedMeansEmpty Terminated"


def impl_cfg(path, nobj, depth, u, fixed=1, hist=0, sample=1, walk=0, view=True, export=False, invs=INVS, props=True):
    t = "CONSTANTS NObj = %d MaxDims = 2 FIXED = %d HistMode = %d SampleMod = %d WalkDepth = %d Depth = %d\n" % (
        nobj, fixed, hist, sample, walk, depth)
    t += " UriKinds = %s MetaKinds = %s KeyKinds = %s NameKinds = %s InitDims = %s BorrowKinds = %s DimTags = %s MsVals = %s WithBad = %d\n" % (
        u["uri"], u["meta"], u["key"], u["name"], u["initd"], u["borrow"], u["tags"], u["ms"], u["bad"])
    t += "SPECIFICATION Spec\nCHECK_DEADLOCK FALSE\n"
    if view:
        t += "VIEW View\n"
    if export:
        t += "ACTION_CONSTRAINT EmitSample\n"
    t += "INVARIANTS %s%s\n" % (invs, " DumpWalk" if walk else "")
    if props:
        t += "PROPERTIES CopyPost OthersUntouched\n"
    return write_cfg(path, t)


def kind(k):
    return list(KIND[k])


def call_to_op(c):
    """PropsImpl call <<f, o, x, y, z, w>> (objects 1-based, strings by kind) -> harness op (11 ints)."""
    f, o, x, y, z, w = c
    if f == 1:
        op = [1, o - 1, z] + kind(x) + kind(y)
    elif f in (2, 3):
        op = [f, o - 1] + kind(x)
    elif f == 4:
        op = [4, o - 1] + kind(x) + kind(y)
    elif f == 5:
        op = [5, o - 1, x] + kind(y) + [z, w]
    elif f == 6:
        op = [6, o - 1, x]
    elif f == 7:
        op = [7, o - 1, x - 1]
    elif f == 8:
        op = [8, o - 1]
    elif f == 9:
        op = [9, o - 1, x] + kind(y)
    else:
        raise Broken("unknown call in TLC export: %s" % (c,))
    return op + [0] * (11 - len(op))


def flat_expected(post):
    """PropsImpl ProjOf (list of objects) -> the flat integer list the harness computes from the real structs."""
    out = []
    for ob in post:
        for s in ob["s"]:
            out += list(s)
        out += [ob["f"], 2 * ob["px"], ob["px"], ob["ms"], ob["dp"], ob["dn"], ob["dl"]]
        for d in ob["d"]:
            out += list(d["nm"]) + [d["k"], 16 * d["v"], d["v"], 2 * d["v"]]
    return out


def beh_line(nobj, steps):
    """steps: list of (op, expected or None); expected = (ret, flat)."""
    parts = ["B", str(nobj), str(len(steps))]
    for op, exp in steps:
        parts += [str(x) for x in op]
        if exp is None:
            parts.append("0")
        else:
            parts += ["1", str(exp[0]), str(len(exp[1]))] + [str(x) for x in exp[1]]
    return " ".join(parts) + "\n"


def convert_edges(outpath, allpath, samplepath, sample2path, nobj, stride):
    """EDGE lines -> behaviour files: all edges (compared, not traced) and a sample (traced as well)."""
    n = ns = bad = 0
    fcount = {}
    ret0 = 0
    sample_e = None
    with open(allpath, "w") as fa, open(samplepath, "w") as fs, open(sample2path, "w") as fs2, open(outpath, errors="replace") as f:
        for l in f:
            if not l.startswith('<<"EDGE", "'):
                continue
            l = l.rstrip("\n")
            try:
                e = json.loads(l[len('<<"EDGE", "'):-3].replace('\\"', '"').replace("\\\\", "\\"))
                path = e["path"]
                steps = [(call_to_op(c), None) for c in path[:-1]] + [(call_to_op(path[-1]), (e["ret"], flat_expected(e["post"])))]
            except Broken:
                raise
            except Exception:
                bad += 1
                continue
            line = beh_line(nobj, steps)
            fa.write(line)
            n += 1
            f_last = path[-1][0]
            fcount[f_last] = fcount.get(f_last, 0) + 1
            if e["ret"] == 0:
                ret0 += 1
            if len(path) <= 2 or n % stride == 0:
                fs.write(line)
                ns += 1
            if len(path) <= 1 or n % stride == 1:
                fs2.write(line)
            if sample_e is None and f_last == 7 and len(path) == 3 and any(ob["dn"] > 0 for ob in e["post"]):
                sample_e = e
    return dict(edges=n, sampled=ns, unparsable=bad, by_function={FN[k]: v for k, v in sorted(fcount.items())}, ret0=ret0), sample_e


def convert_walks(outpath, behpath, nobj):
    seen = set()
    n = steps = 0
    fcount = {}
    with open(behpath, "w") as fo, open(outpath, errors="replace") as f:
        for l in f:
            if not l.startswith('<<"WALK", "') or l in seen:
                continue
            seen.add(l)
            try:
                w = json.loads(l.rstrip("\n")[len('<<"WALK", "'):-3].replace('\\"', '"').replace("\\\\", "\\"))
                st = [(call_to_op(s["c"]), (s["ret"], flat_expected(s["post"]))) for s in w]
            except Broken:
                raise
            except Exception:
                continue
            for s in w:
                fcount[s["c"][0]] = fcount.get(s["c"][0], 0) + 1
            fo.write(beh_line(nobj, st))
            n += 1
            steps += len(st)
    return dict(walks=n, steps=steps, by_function={FN[k]: v for k, v in sorted(fcount.items())})


def harness_json(out, what, rc):
    try:
        return json.loads(out.strip().splitlines()[-1])
    except Exception:
        raise Broken("%s failed (rc=%s): %s" % (what, rc, out[-1500:]))


def run_replay(exe, behfile, prefix, mode, chunk=40000, timeout=900):
    rc, out = run([exe, "replay", behfile, prefix, str(chunk), str(mode)], timeout=timeout)
    res = harness_json(out, "replay harness", rc)
    mism = [l for l in out.splitlines() if l.startswith("MISMATCH")]
    chunks = [] if prefix == "-" else [prefix + ".%04d.ndjson" % i for i in range(res["chunks"])]
    return res, mism, chunks


def run_random(exe, sd, nseq, maxlen, prefix, chunk=40000):
    rc, out = run([exe, "random", str(sd), str(nseq), str(maxlen), prefix, str(chunk)], timeout=900)
    res = harness_json(out, "random harness", rc)
    return res, [prefix + ".%04d.ndjson" % i for i in range(res["chunks"])]


# ---------------------------------------------------------------------------------------------------------------------
# code -> spec: PropsObs

def validate_trace(trace, workdir, timeout=900, heap="3g"):
    cfg = os.path.join(SPECS, "PropsObs.cfg")
    r = tlc("PropsObs", cfg, workdir, workers=1, timeout=timeout, env={"TRACE": trace}, coverage=False, heap=heap)
    v = printed_json(r, "VERDICT")
    if not v:
        raise Broken("PropsObs produced no verdict for %s: rc=%s %s\n%s" % (trace, r.rc, r.error, r.out[-2000:]))
    try:
        os.remove(r.outpath)
    except OSError:
        pass
    nlines = sum(1 for _ in open(trace))
    if v[0]["consumed"] != nlines:
        raise Broken("PropsObs consumed %d of %d events of %s" % (v[0]["consumed"], nlines, trace))
    return v[0]


def first_refusals(trace, badlines):
    """One pass over a trace: for every execution (Reset .. End) that contains refused events, the context of the FIRST one:
    {line: (reset event, ops up to that line, function of the call, where still-live allocations lost their last reference)}."""
    want = set(badlines)
    out = {}
    reset, ops, fn, live, lost, hit = None, [], "?", {}, {}, False
    with open(trace) as f:
        for i, l in enumerate(f, 1):
            if hit and i not in want and not l.startswith('{"e":"Reset"'):
                continue
            e = json.loads(l)
            k = e["e"]
            if k == "Reset":
                reset, ops, fn, live, lost, hit = e, [], "?", {}, {}, False
            elif hit:
                continue
            elif k == "Call":
                ops.append(e["op"])
                fn = e["f"]
            elif k == "M" and e["a"] > 0:
                live[e["a"]] = fn
            elif k == "R":
                if e.get("b", 0) > 0:
                    live.pop(e["a"], None)
                    lost.pop(e["a"], None)
                    live[e["b"]] = fn
            elif k == "F" and e.get("k") == 0:
                live.pop(e["a"], None)
                lost.pop(e["a"], None)
            if k == "Ret":
                refs = set()
                for ob in e["objs"]:
                    refs.update(s_[0] for s_ in ob["s"])
                    refs.add(ob["dp"])
                    refs.update(d["nm"][0] for d in ob["d"])
                for a in live:
                    if a not in refs and a not in lost:
                        lost[a] = fn
            if i in want and not hit:
                hit = True
                ctx = sorted(set(lost.get(a, "never(still-referenced)") for a in live))
                out[i] = (reset, list(ops), fn, ctx)
    return out


def trace_stats(traces):
    st = dict(executions=0, calls=0, copies=0, frees=0, reallocs=0, mallocs=0, san=0, crash=0)
    for t in traces:
        with open(t) as f:
            for l in f:
                k = l[6:9]
                if k == "Res":
                    st["executions"] += 1
                elif k == "Cal":
                    st["calls"] += 1
                    if '"f":"copy"' in l:
                        st["copies"] += 1
                elif k == 'F",':
                    st["frees"] += 1
                elif k == 'R",':
                    st["reallocs"] += 1
                elif k == 'M",':
                    st["mallocs"] += 1
                elif k == "San":
                    st["san"] += 1
                elif k == "Cra":
                    st["crash"] += 1
    return st


def judge(chk, prop, traces, workdir, kinds):
    """Only the first refused event of an execution is reported (with every rule that refused it): what the same execution
    shows afterwards is a consequence of a state the property already forbids."""
    with cf.ThreadPoolExecutor(max_workers=max(1, min(8, NCPU // 2))) as ex:
        verdicts = list(ex.map(lambda t: validate_trace(t, workdir), traces))
    total = 0
    by_rule = {}
    reported = {}
    for t, v in zip(traces, verdicts):
        total += v["consumed"]
        firsts = first_refusals(t, [b[1] for b in v["bad"]]) if v["bad"] else {}
        if v["nbad"] > len(v["bad"]):
            chk.notes.append("%s: %d refusals, only the first %d were listed by PropsObs" % (os.path.basename(t), v["nbad"], len(v["bad"])))
        for rule, line in v["bad"]:
            by_rule[rule] = by_rule.get(rule, 0) + 1
            if rule in HARNESS_RULES:
                raise Broken("PropsObs flagged the harness / trace itself: %s at %s:%d" % (rule, t, line))
            if rule not in RULES[prop]:
                continue
            if line not in firsts:
                continue
            reset, ops, fn, ctx = firsts[line]
            sig = "rule=%s f=%s" % (rule, fn)
            if rule == "LeakAfterAllDestroyed":
                sig += " lost_in=%s" % ("+".join(ctx) if ctx else "?")
            reported[sig] = reported.get(sig, 0) + 1
            if reported[sig] > 2:
                continue
            mode = (reset or {}).get("mode", 0)
            asan = (reset or {}).get("asan", 0)
            nobj = (reset or {}).get("nobj", 2)
            txt = "%s refused the state after %s (call %d of a %s execution, %d objects, allocator policy %d%s): %s" % (
                rule, fn, len(ops), kinds.get(t, "recorded"), nobj, mode, ", sanitizer build" if asan else "",
                " ; ".join(op_text(o) for o in ops[-8:]))
            chk.violation(sig, txt, replay_obj={"kind": "props_script", "nobj": nobj, "mode": mode, "asan": asan, "ops": ops,
                                                "rule": rule})
    if by_rule:
        chk.set("refusals_by_rule", by_rule)
    if reported:
        chk.set("first_refusals_by_signature", reported)
    return total, verdicts


def op_text(op):
    f = op[0]
    def s(i):
        m, l, g = op[i], op[i + 1], op[i + 2]
        return {0: "NULL/%d" % l, 1: "str%d" % l, 2: "unterminated%d" % l, 3: "buf/0", 4: "str%d+NUL" % l}.get(m, "?")
    o = op[1]
    if f == 1:
        return "init(%d,%s,%s,dims=%d)" % (o, s(3), s(6), op[2])
    if f in (2, 3):
        return "%s(%d,%s)" % (FN[f], o, s(2))
    if f == 4:
        return "set_keys(%d,%s,%s)" % (o, s(2), s(5))
    if f == 5:
        return "set_dim(%d,[%d],%s,kind=%d)" % (o, op[2], s(3), op[6])
    if f == 6:
        return "set_ms(%d,%d)" % (o, op[2])
    if f == 7:
        return "copy(dst=%d,src=%d)" % (o, op[2])
    if f == 8:
        return "destroy(%d)" % o
    if f == 9:
        if op[3] == 9:
            return "alias(%d,field%d,of object %d)" % (o, op[2], op[4])
        return "borrow(%d,field%d,%s)" % (o, op[2], s(3))
    return "?"


def write_script(path, nobj, ops):
    with open(path, "w") as f:
        f.write("%d\n" % nobj)
        for op in ops:
            f.write(" ".join(str(x) for x in op) + "\n")


def replay_script(prop, path):
    """./check C13 --replay file : re-run a saved witness on the real code and re-judge it."""
    obj = json.load(open(path))["replay"]
    bdir = build_dir("replay_" + prop)
    exe = build(os.path.join(bdir, "asan") if obj.get("asan") else bdir, asan=bool(obj.get("asan")))
    sc = os.path.join(bdir, "ops.txt")
    write_script(sc, obj["nobj"], obj["ops"])
    tr = os.path.join(bdir, "trace.ndjson")
    run([exe, "script", sc, tr, str(obj.get("mode", 0))], timeout=60, check=True)
    v = validate_trace(tr, bdir)
    for l in open(tr):
        log("  " + l.rstrip()[:400])
    hits = [b for b in v["bad"] if b[0] in RULES[prop]]
    if hits:
        log("VIOLATION property=%s replay=%s" % (prop, path))
        log("  refused: %s" % hits)
        return 1
    log("replay accepted by PropsObs (no refusal)")
    return 0


# ---------------------------------------------------------------------------------------------------------------------

def main(prop, tier):
    chk = Check(prop, tier, "model_checking")
    bdir = build_dir(prop)
    thorough = tier == "thorough"
    sd = seed()
    with cf.ThreadPoolExecutor(max_workers=2) as ex:
        fb = [ex.submit(build, os.path.join(bdir, "plain"), False), ex.submit(build, os.path.join(bdir, "asan"), True)]
        exe, exe_asan = fb[0].result(), fb[1].result()

    # ---- (1) exhaustive model checking, several argument universes ------------------------------------------------
    if thorough:
        mcs = [("all arguments", 2, 4, FULL, 10), ("dimensions", 2, 8, DIMS, 4), ("strings", 2, 5, STRS, 4),
               ("three objects", 3, 6, THREE, 4), ("mixed", 2, 5, MIXED, 3)]
        export = ("all arguments", 2, 3, FULL)
        nwalk, walk_workers, walk_depth = 1500, 8, 12
        nrand = 20000
        stride = 8
    else:
        mcs = [("dimensions", 2, 6, DIMS, 4), ("strings", 2, 4, STRS, 4), ("three objects", 3, 4, THREE, 2)]
        export = ("all arguments", 2, 3, FULL)
        nwalk, walk_workers, walk_depth = 200, 4, 10
        nrand = 2500
        stride = 64
    if os.environ.get("VERIF_C13_SKIP_MC"):
        # binding demonstration (selftest) only: the model-only runs do not depend on the tree under test
        mcs = []
    tmo = 3000 if thorough else 600

    def run_mc(c):
        name, nobj, depth, u, workers = c
        cfg = impl_cfg(os.path.join(bdir, "mc_%s.cfg" % name.replace(" ", "_")), nobj, depth, u)
        r = tlc("PropsImpl", cfg, bdir, workers=workers, timeout=tmo, coverage=False, heap="8g" if thorough else "4g")
        return c, r

    def run_export():
        name, nobj, depth, u = export
        cfg = impl_cfg(os.path.join(bdir, "export.cfg"), nobj, depth, u, hist=1, export=True)
        r = tlc("PropsImpl", cfg, bdir, workers=8, timeout=tmo, coverage=False, heap="6g")
        what = "PropsImpl export (%s, %d objects, depth %d)" % (name, nobj, depth)
        if r.violated:
            return r, what, None, None, None
        tlc_or_broken(r, what)
        allp, samp, samp2 = os.path.join(bdir, "edges_all.txt"), os.path.join(bdir, "edges_sample.txt"), os.path.join(bdir, "edges_sample2.txt")
        st, sample_e = convert_edges(r.outpath, allp, samp, samp2, nobj, stride)
        os.remove(r.outpath)
        res_all, mism, _ = run_replay(exe, allp, "-", 0)
        res_s0, m0, ch0 = run_replay(exe, samp, os.path.join(bdir, "tr_edges_m0"), 0)
        res_s1, m1, ch1 = run_replay(exe_asan, samp2, os.path.join(bdir, "tr_edges_asan"), 1)
        return r, what, (st, sample_e), (res_all, mism + m0 + m1, res_s0, res_s1), ch0 + ch1

    def run_walks():
        cfg = impl_cfg(os.path.join(bdir, "walk.cfg"), 3, 1000, ALLK, hist=2, walk=walk_depth, view=False)
        r = tlc("PropsImpl", cfg, bdir, workers=walk_workers, timeout=tmo, coverage=False, heap="4g", simulate=nwalk,
                depth=walk_depth + 1, seed_=sd)
        what = "PropsImpl simulation (3 objects, all argument kinds, %d calls)" % walk_depth
        if r.violated:
            return r, what, None, None, None
        tlc_or_broken(r, what)
        beh = os.path.join(bdir, "walks.txt")
        st = convert_walks(r.outpath, beh, 3)
        os.remove(r.outpath)
        a, ma, cha = run_replay(exe, beh, os.path.join(bdir, "tr_walk_m0"), 0)
        b, mb, chb = run_replay(exe, beh, os.path.join(bdir, "tr_walk_m1"), 1)
        c, mc_, chc = run_replay(exe_asan, beh, os.path.join(bdir, "tr_walk_asan"), 0)
        return r, what, st, (a, b, c, ma + mb + mc_), cha + chb + chc

    def run_ascoded():
        # the model of the code as it was: TLC shows the defect the repair removed (informational, never a verdict)
        cfg = impl_cfg(os.path.join(bdir, "ascoded.cfg"), 2, 3, FULL, fixed=0, props=False)
        r = tlc("PropsImpl", cfg, bdir, workers=2, timeout=300, coverage=False, heap="2g")
        calls = []
        for l in r.out.splitlines():
            if l.startswith("/\\ lastAct = [c |-> <<") and "ret" in l:
                nums = l[l.index("<<") + 2:l.index(">>")].split(",")
                c = [int(x) for x in nums]
                if c[0]:
                    calls.append(c)
        return r, calls

    with cf.ThreadPoolExecutor(max_workers=10) as ex:
        f_mc = [ex.submit(run_mc, c) for c in mcs]
        f_ex = ex.submit(run_export)
        f_wk = ex.submit(run_walks)
        f_as = ex.submit(run_ascoded)
        rnd, rnd_chunks = run_random(exe, sd, nrand, 14, os.path.join(bdir, "tr_rand"))
        rnd_a, rnd_a_chunks = run_random(exe_asan, sd + 1, nrand // 2, 14, os.path.join(bdir, "tr_rand_asan"))
        mc_res = [f.result() for f in f_mc]
        ex_r, ex_what, ex_st, ex_rep, ex_chunks = f_ex.result()
        wk_r, wk_what, wk_st, wk_rep, wk_chunks = f_wk.result()
        as_r, as_calls = f_as.result()

    states = transitions = 0
    for (name, nobj, depth, u, _w), r in mc_res + [((export[0] + " (export run)", export[1], export[2], export[3], 0), ex_r)]:
        what = "PropsImpl %s: %d objects, all call sequences of <= %d calls" % (name, nobj, depth)
        if r.violated:
            raise Broken("%s: the implementation-shaped model (FIXED = 1, the repaired code) violates %s; the model no longer "
                         "describes a correct storage.c (see %s)" % (what, r.violated, r.outpath))
        tlc_or_broken(r, what)
        if r.distinct < 100:
            raise Broken("%s: only %d states (vacuous)" % (what, r.distinct))
        states += r.distinct
        transitions += r.generated
        chk.cov.setdefault("models", []).append({"model": what, "distinct_states": r.distinct, "transitions": r.generated,
                                                 "complete_to_depth": r.queue == 0, "wall_s": round(r.wall, 1)})
    if wk_r.violated:
        raise Broken("%s: the model violates %s on a simulated behaviour (see %s)" % (wk_what, wk_r.violated, wk_r.outpath))
    chk.set("states", states)
    chk.set("transitions", transitions)
    chk.set("invariants", INVS.split() + ["CopyPost", "OthersUntouched"])

    # vacuity: every API function (and the failing set_dimension branch) labels exported transitions
    est, sample_e = ex_st
    need = [FN[i] for i in range(1, 10)]
    missing = [f for f in need if est["by_function"].get(f, 0) == 0]
    if missing or est["ret0"] == 0 or est["unparsable"]:
        raise Broken("export of PropsImpl is vacuous or damaged: functions never taken %s, failing calls %d, unparsable lines %d"
                     % (missing, est["ret0"], est["unparsable"]))
    chk.set("model_transitions_by_function", est["by_function"])
    if as_r.violated:
        chk.set("model_of_the_code_as_it_was", {"violates": as_r.violated, "after": [op_text(call_to_op(c)) for c in as_calls]})
    else:
        raise Broken("PropsImpl with FIXED = 0 (the code as it was) no longer violates the property: the switch is dead")

    # ---- (2) spec -> code -------------------------------------------------------------------------------------------
    res_all, mism, res_s0, res_s1 = ex_rep
    wa, wb, wc, wm = wk_rep
    compared = res_all["compared"] + res_s0["compared"] + res_s1["compared"] + wa["compared"] + wb["compared"] + wc["compared"]
    nmism = res_all["mismatches"] + res_s0["mismatches"] + res_s1["mismatches"] + wa["mismatches"] + wb["mismatches"] + wc["mismatches"]
    chk.set("spec_transitions_replayed_into_impl", res_all["compared"])
    chk.set("spec_behaviours_replayed_into_impl", {"edges": est["edges"], "walks": wk_st["walks"], "walk_steps": wk_st["steps"],
                                                   "steps_compared": compared, "mismatches": nmism})
    if res_all["compared"] < 1000 or wk_st["walks"] < 50:
        raise Broken("replay is vacuous: %s %s" % (res_all, wk_st))
    if sample_e:
        chk.sample({"exported_transition": {"path": [op_text(call_to_op(c)) for c in sample_e["path"]], "ret": sample_e["ret"],
                                            "post": sample_e["post"]}})
    if nmism:
        for m in (mism + wm)[:4]:
            chk.drift_note("storage.c disagrees with PropsImpl: " + m[:400])
        chk.assume("DRIFT: storage.c no longer follows PropsImpl on every replayed step (%d of %d); the exhaustive model-level "
                   "result does not transfer for this run, the verdict rests on the recorded executions" % (nmism, compared))

    # ---- (3) code -> spec --------------------------------------------------------------------------------------------
    script_chunks = []
    if as_calls:
        sc = os.path.join(bdir, "ascoded_ops.txt")
        write_script(sc, 2, [call_to_op(c) for c in as_calls])
        for m, e_, nm in ((0, exe, "m0"), (1, exe, "m1"), (0, exe_asan, "asan")):
            tr = os.path.join(bdir, "tr_ascoded_%s.ndjson" % nm)
            run([e_, "script", sc, tr, str(m)], timeout=60, check=True)
            script_chunks.append(tr)
    traces = ex_chunks + wk_chunks + rnd_chunks + rnd_a_chunks + script_chunks
    kinds = {}
    for t in ex_chunks:
        kinds[t] = "TLC-exported"
    for t in wk_chunks:
        kinds[t] = "TLC-simulated"
    for t in rnd_chunks + rnd_a_chunks:
        kinds[t] = "random"
    for t in script_chunks:
        kinds[t] = "model-counterexample"
    st = trace_stats(traces)
    if st["executions"] < 500 or st["copies"] < 500 or st["frees"] < 1000 or st["reallocs"] < 50:
        raise Broken("recorded executions are vacuous: %s" % st)
    total, verdicts = judge(chk, prop, traces, bdir, kinds)
    chk.set("traces_validated_against_impl", st["executions"])
    chk.set("trace_files", len(traces))
    chk.set("events_validated", total)
    chk.set("recorded", st)
    chk.set("random_sequences", rnd["behaviours"] + rnd_a["behaviours"])
    chk.set("sanitizer_build", {"executions": res_s1["behaviours"] + wc["behaviours"] + rnd_a["behaviours"],
                                "reports": res_s1["san_reports"] + wc["san_reports"] + rnd_a["san_reports"]})
    chk.set("exhaustive", True)
    chk.set("checker_cmd", "tlc PropsImpl (generated cfgs, VIEW View) ; tlc PropsObs with TRACE=<recorded trace>")
    with open(traces[0]) as f:
        head = []
        for _ in range(8):
            l = f.readline()
            if not l:
                break
            head.append(json.loads(l))
    chk.sample({"impl_trace_prefix": head})
    chk.assume("exhaustive for call sequences of bounded length over 2-3 objects, caller strings from {NULL, \"\", short, long, "
               "not terminated, zero-byte, NULL with a length}, 0..2 dimensions; longer sequences, 4 objects, strings up to 1000 "
               "bytes and up to 6 dimensions by seeded simulation / random sequences only")
    chk.assume("storage_properties_init is only applied to an object that owns no buffers, copy only to two distinct objects; "
               "allocation failure (malloc returning NULL) is not injected; for a name that is not NUL-terminated within "
               "bytes_of_name, storage_properties_set_dimension's strlen(name) reads on into the caller's memory: the harness "
               "keeps a terminator further on and does not judge that read")
    for f in traces:
        try:
            os.remove(f)
        except OSError:
            pass
    return chk.finish()


# ---------------------------------------------------------------------------------------------------------------------
# binding demonstration (run by hand)

MUTANTS = [
    ("copy_string no longer forces the terminator",
     "    if (dst->nbytes > 0)\n        dst->str[dst->nbytes - 1] = '\\0';\n", ""),
    ("destroy forgets the secret key",
     "                                       &self->access_key_id,\n                                       &self->secret_access_key };",
     "                                       &self->access_key_id };"),
    ("copy skips the metadata string",
     "    CHECK(\n      copy_string(&dst->external_metadata_json, &src->external_metadata_json));\n", ""),
    ("copy_string takes an owned source's pointer instead of allocating",
     "        CHECK(dst->str = malloc(src->nbytes)); // NOLINT\n        dst->nbytes = src->nbytes;\n        dst->is_ref = 0; // mark as owned\n",
     "        if (src->is_ref) {\n            CHECK(dst->str = malloc(src->nbytes)); // NOLINT\n            dst->is_ref = 0;\n        } else {\n"
     "            *dst = *src;\n            return 1;\n        }\n        dst->nbytes = src->nbytes;\n"),
    ("off-by-one in copy_string's growth test",
     "    if (src->nbytes > dst->nbytes) {\n        char* str = realloc", "    if (src->nbytes > dst->nbytes + 1) {\n        char* str = realloc"),
    ("set_dimension zeroes the entry without releasing the name",
     "    storage_dimension_destroy(dim);\n\n    struct String s", "    memset(dim, 0, sizeof(*dim));\n\n    struct String s"),
    ("copy keeps dst's pixel scale (struct copy restores one field too many)",
     "        dst->acquisition_dimensions = tmp_dims;\n", "        dst->acquisition_dimensions = tmp_dims;\n        dst->pixel_scale_um.y = 0;\n"),
]


def selftest():
    import subprocess
    root = os.path.join(BUILD_ROOT, "C13_selftest")
    shutil.rmtree(root, ignore_errors=True)
    results = []
    src_rel = "acquire-core-libs/src"
    for i, (what, old, new) in enumerate(MUTANTS):
        tree = os.path.join(root, "m%d" % i)
        os.makedirs(os.path.join(tree, "acquire-core-libs"), exist_ok=True)
        shutil.copytree(os.path.join(REPO, src_rel), os.path.join(tree, src_rel))
        p = os.path.join(tree, STORAGE_C)
        text = open(p).read()
        if old not in text:
            results.append((what, "NOT APPLICABLE (source text changed)"))
            continue
        open(p, "w").write(text.replace(old, new, 1))
        env = dict(os.environ, VERIF_REPO=tree, VERIF_BUILD=os.path.join(tree, "build"), VERIF_EVIDENCE=os.path.join(tree, "ev"),
                   VERIF_REPLAYS=os.path.join(tree, "rp"), VERIF_C13_SKIP_MC="1")
        pr = subprocess.run([sys.executable, "-c", "import sys; sys.path.insert(0, %r); import chk_props, vlib\n"
                             "try:\n    sys.exit(chk_props.main('C13', 'quick'))\nexcept vlib.Broken as e:\n    print('CHECK-BROKEN', e); sys.exit(2)"
                             % os.path.dirname(os.path.abspath(__file__))], env=env, stdout=subprocess.PIPE, stderr=subprocess.STDOUT, text=True)
        sigs = sorted(set(l.strip()[len("signature: "):] for l in pr.stdout.splitlines() if l.strip().startswith("signature:")))
        results.append((what, "exit %d; %s" % (pr.returncode, "; ".join(sigs) if sigs else pr.stdout[-300:])))
        log("MUTANT %d (%s): exit %d  %s" % (i, what, pr.returncode, sigs))
    shutil.rmtree(root, ignore_errors=True)
    return results


if __name__ == "__main__" and len(sys.argv) > 1 and sys.argv[1] == "selftest":
    selftest()
