"""C12: device selection agrees with enumeration; bad input gives errors, not crashes.

  (1) TLC on DeviceSelect: the enumeration table is read from the REAL device_manager_count/get (harness `enum`) and
      written into the cfg; the model builds every canonical regex AST up to a size bound over an alphabet drawn from
      the device names, checks two independent definitions of whole-name case-insensitive matching against each
      other (and soundness of Select) on every AST, and emits (pattern bytes, expected index per kind).
  (2) spec -> code: every emitted (kind, pattern) is handed to the real device_manager_select; results are compared
      with TLC's expectation (a disagreement is reported by (3); the comparison here only cross-checks the tooling).
  (3) code -> spec: every call is recorded as an event (Select / Get / Open / Count / Crash / Exception / Slow) and the
      traces are judged by the total observation spec DeviceSelectObs in TLC.  Only an Obs refusal is a VIOLATION.
      Grammar patterns (incl. case-flipped, NUL-padded, length-limited buffers, hand-built long patterns): exact rule.
      Arbitrary / malformed byte strings (seeded; TLC patterns with one token deleted / duplicated; embedded NULs):
      "Err, or Ok with an enumerated device of the requested kind; never a crash or an escaping exception".
  (4) staging: the harness executable runs from directories with the real common driver library (built here from
      the tree under test), without any driver library, with a second copy of it under the name of an optional
      driver, with unloadable / entry-point-less / failing-initialiser libraries under optional driver names, and
      with a small synthetic driver (harness/select/stub_names.c: upper-case names, names equal up to case, names
      containing regex metacharacters, a third device kind) under the name of an optional driver.
"""
import glob, json, os, random, shutil, sys, time, concurrent.futures as cf
from vlib import *

HAL = "acquire-core-libs/src/acquire-device-hal/device/hal/"
PROPS = "acquire-core-libs/src/acquire-device-properties/device/props/"
DRV = "acquire-driver-common/src/"
COMMON_SRCS = ["acquire-core-libs/src/acquire-core-logger/logger.c",
               "acquire-core-libs/src/acquire-core-platform/linux/platform.c",
               PROPS + "components.c", PROPS + "device.c", PROPS + "storage.c"]
OPTIONAL_DRIVERS = ["acquire-driver-hdcam", "acquire-driver-zarr", "acquire-driver-egrabber",
                    "acquire-driver-spinnaker", "acquire-driver-pvcam"]
KIND_CAMERA, KIND_STORAGE = 1, 2
VIOLATION_RULES = {"SelectSpurious", "SelectMissed", "SelectWrongDevice", "SelectNotEnumeratedKind", "UnknownKindAccepted",
                   "BadStatus", "GetFailed", "GetWrongIdentifier", "GetOutOfRangeAccepted", "OpenFailed", "OpenWrongKind",
                   "OpenWrongName", "CountMismatch", "Crash", "Exception", "MalformedAccepted"}
HARNESS_RULES = {"HarnessBadEvent", "HarnessBadAst", "HarnessAstMismatch", "HarnessBadCase", "UnknownEvent"}
SPECIALS = set(b"^$\\.*+?()[]{}|")
CLS_SPECIALS = set(b"\\][^-")


# ------------------------------------------------------------------------------------------------------------------
# building and staging

def driver_sources():
    def g(pat, excl=()):
        return sorted(os.path.relpath(p, REPO) for p in glob.glob(os.path.join(REPO, DRV, pat))
                      if not any(os.path.basename(p).startswith(e) for e in excl))
    # as in acquire-driver-common/src/**/CMakeLists.txt (bin2.*.c are #included by simulated.camera.c)
    srcs = [DRV + "basics.driver.c"] + g("simcams/*.c", ("bin2.",)) + g("simcams/*.cpp") + g("storage/*.c") + g("storage/*.cpp")
    srcs.append(DRV + "simcams/3rdParty/pcg-c-basic-0.9/pcg_basic.c")
    return srcs


def build(bdir):
    """Returns dict config name -> path of the staged harness executable."""
    def b_exe():
        objs = compile_objs(os.path.join(bdir, "obj_exe"),
                            [HAL + x for x in ("device.manager.cpp", "loader.c", "driver.c", "camera.c", "storage.c")]
                            + COMMON_SRCS + [os.path.join(HARNESS, "select/select_seq.cpp")], defs=["NO_UNIT_TESTS"], jobs=8)
        return link(os.path.join(bdir, "select_seq"), objs)

    def b_drv():
        objs = compile_objs(os.path.join(bdir, "obj_drv"), driver_sources() + COMMON_SRCS,
                            cflags=["-fPIC", "-mavx2"], cxxflags=["-fPIC", "-mavx2"], defs=["NO_UNIT_TESTS"],
                            extra_inc=[os.path.join(REPO, DRV, "simcams/3rdParty/pcg-c-basic-0.9")], jobs=8)
        return link(os.path.join(bdir, "libacquire-driver-common.so"), objs, ["-shared"])

    def b_stub(name):
        out = os.path.join(bdir, name + ".so")
        run(["gcc", "-shared", "-fPIC", "-std=gnu11", "-o", out, os.path.join(HARNESS, "select", name + ".c")] + incflags(), check=True, timeout=120)
        return out

    with cf.ThreadPoolExecutor(max_workers=4) as ex:
        fe, fd = ex.submit(b_exe), ex.submit(b_drv)
        fs = [ex.submit(b_stub, n) for n in ("stub_noentry", "stub_nullinit", "stub_names")]
        exe, so = fe.result(), fd.result()
        noentry, nullinit, names = [f.result() for f in fs]

    stage = {}

    def mk(name, libs):
        d = os.path.join(bdir, "stage_" + name)
        os.makedirs(d, exist_ok=True)
        shutil.copy(exe, os.path.join(d, "select_seq"))       # a copy, not a link: loader.c uses realpath of the module
        for libname, src in libs:
            dst = os.path.join(d, "lib%s.so" % libname)
            if src is None:
                with open(dst, "wb") as f:
                    f.write(b"this is not a shared library\n" * 8)
            else:
                shutil.copy(src, dst)
        stage[name] = os.path.join(d, "select_seq")

    mk("with", [("acquire-driver-common", so)])
    mk("without", [])
    mk("dup", [("acquire-driver-common", so), ("acquire-driver-zarr", so)])
    mk("broken", [("acquire-driver-common", so), ("acquire-driver-hdcam", None),
                  ("acquire-driver-egrabber", noentry), ("acquire-driver-spinnaker", nullinit)])
    mk("only_broken", [("acquire-driver-common", None), ("acquire-driver-pvcam", noentry)])
    mk("stub", [("acquire-driver-common", so), ("acquire-driver-zarr", names)])
    return stage


def enumerate_real(exe):
    rc, out = run([exe, "enum"], timeout=120)
    if rc < 0 or rc in (134, 139):
        # the device manager itself died in this staging: the supervised run below turns that into a Crash event
        return {"init": -1, "count": 0, "devs": [], "crashed": rc}
    try:
        return json.loads(out.strip().splitlines()[-1])
    except Exception:
        raise Broken("harness `enum` failed (rc=%s): %s" % (rc, out[-1500:]))


# ------------------------------------------------------------------------------------------------------------------
# model constants from the real enumeration

def dev_cells(devs):
    cells = []
    for i, d in enumerate(devs):
        if not (0 <= d["kind"] <= 255) or len(d["name"]) > 255 or any(b == 0 for b in d["name"]):
            raise Broken("enumeration entry %d cannot be encoded for the model: %s" % (i, d))
        cells.append(i * 65536 + d["kind"])
        for p, b in enumerate(d["name"], 1):
            cells.append(i * 65536 + p * 256 + b)
    return cells


def class_cells(classes):
    """classes: list of (neg, [(lo, hi), ...]); class ids are 1.."""
    cells = []
    for c, (neg, items) in enumerate(classes, 1):
        for o, (lo, hi) in enumerate(items, 1):
            cells.append(((c * 8 + o) * 2 + (1 if neg else 0)) * 65536 + lo * 256 + hi)
    return cells


def choose_alphabet(devs, nlit):
    """Literal bytes drawn from the device names: the bytes of the shortest name (so that it can be spelled out within the
    size bound), then for every device that is not the first of its kind a byte that tells it from the earlier devices of
    the kind (so that patterns exist which must skip earlier devices), then first bytes, one upper-case variant, punctuation."""
    names = [bytes(d["name"]) for d in devs if d["name"]]
    out = []

    def add(b):
        if b not in out and b != 0:
            out.append(b)
    if names:
        shortest = min(names, key=lambda n: (len(n), n))
        for b in shortest[:3]:
            add(b)
        for i, d in enumerate(devs):
            n = bytes(d["name"])
            earlier = [bytes(e["name"]) for e in devs[:i] if e["kind"] == d["kind"] and e["name"]]
            if not n or not earlier:
                continue
            low = lambda x: bytes([x]).lower()
            if all(low(e[-1]) != low(n[-1]) for e in earlier):
                add(n[-1])
            elif all(low(e[0]) != low(n[0]) for e in earlier):
                add(n[0])
            else:
                for b in n:
                    if all(low(b) not in e.lower() for e in earlier):
                        add(b)
                        break
        for n in names:
            add(n[0])
        for b in shortest:
            if chr(b).isalpha() and chr(b).islower():
                add(ord(chr(b).upper()))
                break
        for n in names:
            for b in n:
                if not chr(b).isalnum() and b != 32:
                    add(b)
        for n in names:
            for b in n:
                add(b)
    for b in b"xyzq":
        add(b)
    return out[:nlit]


def choose_classes(devs, ncls):
    firsts = sorted({chr(d["name"][0]).lower() for d in devs if d["name"] and chr(d["name"][0]).isalpha()})
    lo, hi = (ord(firsts[0]), ord(firsts[-1])) if firsts else (ord("a"), ord("m"))
    common = max(firsts, key=lambda c: sum(1 for d in devs if d["name"] and chr(d["name"][0]).lower() == c)) if firsts else "t"
    punct = next((b for d in devs for b in d["name"] if not chr(b).isalnum() and b != 32), ord("-"))
    classes = [(False, [(lo, hi)]),                                   # [r-t]
               (True, [(ord(common), ord(common)), (punct, punct)]),   # [^t\-]
               (False, [(ord(chr(lo).upper()), ord(chr(hi).upper()))]),  # [R-T]
               (True, [(ord("a"), ord("m")), (32, 32)])]                 # [^a-m ]
    return classes[:ncls]


def select_cfg(path, devs, alphabet, classes, maxnodes, kinds, emit=1):
    def st(xs):
        return "{" + ", ".join(map(str, xs)) + "}"
    t = "CONSTANTS\n DevCells = %s\n NDev = %d\n Alphabet = %s\n ClassCells = %s\n NClass = %d\n MaxNodes = %d\n Kinds = %s\n Emit = %d\n" % (
        st(dev_cells(devs)), len(devs), st(alphabet), st(class_cells(classes)), len(classes), maxnodes, st(kinds), emit)
    t += "SPECIFICATION Spec\nCHECK_DEADLOCK FALSE\nINVARIANTS ShapeOK MatchersAgree CaseInsensitive SelectSound RenderOK\n"
    return write_cfg(path, t)


def obs_cfg(path, classes):
    return write_cfg(path, "CONSTANTS\n ClassCells = {%s}\n NClass = %d\nSPECIFICATION Spec\nCHECK_DEADLOCK FALSE\n" % (
        ", ".join(map(str, class_cells(classes))), len(classes)))


# ------------------------------------------------------------------------------------------------------------------
# python mirror of DeviceSelect!Render for hand-built ASTs (DeviceSelectObs re-renders every AST and refuses a mismatch)

UNARY = {"grp", "star", "plus", "opt"}


def flat(tree):
    nodes = []

    def go(t):
        k = t[0]
        if k in ("lit", "cls"):
            nodes.append([k, t[1], 0, 0])
        elif k == "any":
            nodes.append([k, 0, 0, 0])
        elif k in UNARY:
            c = go(t[1])
            nodes.append([k, 0, c, 0])
        else:
            l = go(t[1])
            r = go(t[2])
            nodes.append([k, 0, l, r])
        return len(nodes)
    go(tree)
    return nodes


def render(tree, classes):
    prec = {"alt": 0, "cat": 1, "star": 2, "plus": 2, "opt": 2}

    def esc(b):
        return bytes([92, b]) if b in SPECIALS else bytes([b])

    def esc_cls(b):
        return bytes([92, b]) if b in CLS_SPECIALS else bytes([b])

    def w(t, p):
        r = go(t)
        return b"(" + r + b")" if prec.get(t[0], 3) < p else r

    def go(t):
        k = t[0]
        if k == "lit":
            return esc(t[1])
        if k == "any":
            return b"."
        if k == "cls":
            neg, items = classes[t[1] - 1]
            s = b"[" + (b"^" if neg else b"")
            for lo, hi in items:
                s += esc_cls(lo) if lo == hi else esc_cls(lo) + b"-" + esc_cls(hi)
            return s + b"]"
        if k == "grp":
            return b"(" + go(t[1]) + b")"
        if k in ("star", "plus", "opt"):
            return w(t[1], 3) + {"star": b"*", "plus": b"+", "opt": b"?"}[k]
        if k == "cat":
            return w(t[1], 1) + w(t[2], 1)
        return go(t[1]) + b"|" + go(t[2])
    return go(tree)


def lits(bs):
    t = ("lit", bs[0])
    for b in bs[1:]:
        t = ("cat", t, ("lit", b))
    return t


def cat(*ts):
    t = ts[0]
    for x in ts[1:]:
        t = ("cat", t, x)
    return t


DOTSTAR = ("star", ("any",))


def flip_case(bs):
    return bytes(ord(chr(b).swapcase()) if chr(b).isalpha() and b < 128 else b for b in bs)


def handmade_trees(devs):
    """Grammar patterns beyond the model's size bound, built from the enumerated names (expected results are computed by
    DeviceSelectObs, not here)."""
    trees = [DOTSTAR, ("plus", ("any",)), ("opt", ("any",)), ("any",)]
    names = [bytes(d["name"]) for d in devs if d["name"]]
    for n in dict.fromkeys(names):
        trees.append(lits(n))                                    # the exact name
        trees.append(lits(flip_case(n)))                         # ... in the other case
        if len(n) > 1:
            trees.append(lits(n[:-1]))                           # a proper prefix must NOT select it (whole name)
            trees.append(lits(n[1:]))                            # nor a proper suffix
            trees.append(cat(lits(n[:-1]), ("any",)))
            trees.append(cat(("any",), lits(n[1:])))
            trees.append(cat(lits(n[:max(1, len(n) // 2)]), DOTSTAR))
            trees.append(cat(DOTSTAR, lits(n[len(n) // 2:])))
            trees.append(cat(DOTSTAR, lits(n[1:-1] or n[:1]), DOTSTAR))
        trees.append(cat(lits(n), ("lit", ord("x"))))            # one byte too many
        trees.append(cat(lits(n), ("opt", ("lit", ord("x")))))
        trees.append(("grp", lits(n)))
        trees.append(("alt", lits(b"zz"), lits(n)))
        trees.append(("alt", lits(n), lits(b"zz")))
        t = ("any",)
        for _ in n[1:]:
            t = ("cat", t, ("any",))
        trees.append(t)                                          # as many dots as the name has bytes
        trees.append(cat(t, ("any",)))
    if len(names) >= 2:
        trees.append(("alt", lits(names[-1]), lits(names[0])))   # first match is by enumeration order, not by alternative order
    trees.append(cat(DOTSTAR, lits(b"random"), DOTSTAR))          # the pattern documented for the default camera
    return trees


# ------------------------------------------------------------------------------------------------------------------
# cases

class Cases:
    def __init__(self):
        self.lines = []
        self.meta = []      # per case: dict(family=..., exp=... or None)

    def add(self, op, kind, buf=b"", length=None, ast=None, opn=0, family="", exp=None):
        i = len(self.lines)
        a = "-" if ast is None else json.dumps(ast, separators=(",", ":"))
        self.lines.append("%d %s %d %d %s %s %d" % (i, op, kind, len(buf) if length is None else length,
                                                    buf.hex() if buf else "-", a, opn))
        self.meta.append({"family": family, "exp": exp})
        return i


def tokens(pat):
    out, i = [], 0
    while i < len(pat):
        if pat[i] == 92 and i + 1 < len(pat):
            out.append(pat[i:i + 2])
            i += 2
        else:
            out.append(pat[i:i + 1])
            i += 1
    return out


SOUP = [b"(", b")", b"[", b"]", b"{", b"}", b"*", b"+", b"?", b"|", b".", b"^", b"$", b"\\", b"-", b",", b":", b"=", b"!",
        b"(?:", b"(?=", b"(?!", b"[^", b"[[:alpha:]]", b"[[:digit:]", b"[[.", b".]]", b"[[=", b"=]]", b"\\d", b"\\w", b"\\s", b"\\b", b"\\B",
        b"\\1", b"\\2", b"\\9", b"\\0", b"\\x4", b"\\x74", b"\\u0074", b"\\u00", b"\\c", b"\\cA", b"{2}", b"{1,3}", b"{3,1}", b"{,2}", b"{99999}",
        b"{0}", b"*?", b"+?", b"??", b"a-z", b"z-a", b"\x00", b"\xff", b"\x80", b" ", b"\n"]


def arbitrary(rng, n, names, alphabet, tlc_pats):
    """Seeded arbitrary / malformed byte strings, 0..255 bytes."""
    out = []
    al = bytes(alphabet)
    while len(out) < n:
        r = rng.random()
        if r < 0.20:        # uniform bytes
            out.append(bytes(rng.randrange(256) for _ in range(rng.randrange(0, 256))))
        elif r < 0.55:      # regex token soup
            s = b""
            for _ in range(rng.randrange(1, 24)):
                s += rng.choice(SOUP) if rng.random() < 0.6 else bytes([rng.choice(al)]) if al else b"a"
            out.append(s[:255])
        elif r < 0.80 and tlc_pats:     # a modelled pattern with one token deleted / duplicated / replaced
            tk = tokens(rng.choice(tlc_pats))
            if not tk:
                continue
            i = rng.randrange(len(tk))
            m = rng.random()
            if m < 0.4:
                del tk[i]
            elif m < 0.8:
                tk.insert(i, tk[i])
            else:
                tk[i] = rng.choice(SOUP)
            out.append(b"".join(tk)[:255])
        elif names:         # a device name, edited
            s = bytearray(rng.choice(names))
            for _ in range(rng.randrange(1, 4)):
                m = rng.random()
                pos = rng.randrange(len(s) + 1)
                if m < 0.35:
                    s.insert(pos, rng.choice([0, 0, 255, 10, 13, 92, 40, 91, 42]))
                elif m < 0.6 and s:
                    del s[min(pos, len(s) - 1)]
                elif m < 0.8:
                    s += b"\x00" + bytes(rng.randrange(1, 256) for _ in range(rng.randrange(1, 6)))   # embedded NUL + junk
                else:
                    s = s + bytes(s)
            out.append(bytes(s[:255]))
    return out


FIXED_MALFORMED = [b"((", b"))", b"[a", b"a]", b"a{2,1}", b"\\", b"*", b"+a", b"?", b"|", b"()", b"(" * 255, b"()" * 127, b"[" * 255,
                   b"\\" * 255, b"a{99999}", b"((a{100}){100}){100}", b"\\1(a)", b"(a)\\2", b"[[:alpha:]]+", b"[[:nosuch:]]",
                   b"[[.hyphen.]]", b"[[.nosuch.]]", b"[[=a=]]", b"[z-a]", b"[\\d-z]", b"[a-\\d]", b"\\c", b"\\cJ", b"\\x", b"\\x7", b"\\u12",
                   b"(?=", b"(?!x", b"(?:", b"(?<x>a)", b"a{", b"a{1", b"a{1,", b"{1}", b"^*", b"$+", b"\\b*", b"a**", b"a+*?",
                   b"\xff\xfe[\x80-\x01]", b"[\x80-\xff]+", b"\xc3\xa9", b"%s%s%s%n", b"%n%n%n%n", b"." * 255, b"a" * 255, b"(a|" * 60]


def make_cases(config, devs, tlc_cases, classes, alphabet, tier, sd, sample=1):
    """Returns Cases for one staging configuration."""
    cs = Cases()
    rng = random.Random(sd * 1000003 + sum(map(ord, config)))
    n = len(devs)
    kinds_present = sorted({d["kind"] for d in devs}) or [KIND_CAMERA, KIND_STORAGE]
    names = [bytes(d["name"]) for d in devs if d["name"]]
    unknown_kinds = [0, 3, 4, 5, 6, 7, -1, 255, 256, 2147483647, -2147483648]
    unknown_kinds = [k for k in unknown_kinds if k not in kinds_present]
    thorough = tier == "thorough"
    full = config == "with"
    use_exp = full          # TLC's expectations were computed for the table of the 'with' staging

    # API: count, get (all + out of range), open every enumerated identifier (three rounds)
    cs.add("C", 0, family="count")
    for i in list(range(n)) + [n, n + 1, n + 7, 255, 256, 65535, 65536, 2**31 - 1, 2**31, 2**32 - 1]:
        cs.add("G", i, family="get")
    for _ in range(3):
        for i in range(n):
            cs.add("O", i, family="open")
    for k in [KIND_CAMERA, KIND_STORAGE] + unknown_kinds:
        cs.add("F", k, family="first")
        cs.add("D", k, family="default")
        cs.add("N", k, length=0, family="null_name")
        cs.add("N", k, length=5, family="null_name_nonzero_len")
        cs.add("S", k, b"", ast=[], family="empty")
        cs.add("S", k, b".*", ast=flat(DOTSTAR), family="unknown_kind" if k in unknown_kinds else "dotstar")
        cs.add("S", k, b"\x00\x00\x00", family="all_nul")
    # the default device and the pattern documented for it are asked one after the other (compared in python: drift only)
    for k, p, t in ((KIND_CAMERA, b".*random.*", cat(DOTSTAR, lits(b"random"), DOTSTAR)), (KIND_STORAGE, b"trash", lits(b"trash"))):
        cs.add("D", k, family="default_pair")
        cs.add("S", k, p, ast=flat(t), family="default_pair")

    # (2) TLC's table
    opened = set()
    tl = tlc_cases if sample == 1 else [c for i, c in enumerate(tlc_cases) if i % sample == 0]
    for c in tl:
        pat = bytes(c["pat"])
        for k, exp in c["exp"]:
            if k not in kinds_present and rng.random() > 0.02:
                continue
            opn = 0
            if exp >= 0 and ((k, exp) not in opened or rng.random() < 0.01):
                opened.add((k, exp))
                opn = 1
            cs.add("S", k, pat, ast=c["ast"], opn=opn if use_exp else 0, family="tlc", exp=exp if use_exp else None)
    # variants of TLC's patterns that the property says must behave identically
    var = tl if thorough else [c for i, c in enumerate(tl) if i % 4 == 0]
    for c in var:
        pat = bytes(c["pat"])
        k, exp = rng.choice([e for e in c["exp"] if e[0] in kinds_present] or c["exp"])
        m = rng.randrange(4)
        if m == 0 and pat:
            cs.add("S", k, flip_case(pat), ast=c["ast"], family="tlc_case_flipped", exp=exp if use_exp else None)
        elif m == 1 and pat:
            pad = rng.choice([1, 1, 2, 3, 8, 255 - len(pat)])
            cs.add("S", k, pat + b"\x00" * max(1, min(pad, 255 - len(pat))), ast=c["ast"], family="tlc_nul_padded", exp=exp if use_exp else None)
        elif m == 2:
            junk = bytes(rng.choice(b"abcxyz.*()[\\") for _ in range(rng.randrange(1, 9)))
            cs.add("S", k, pat + junk, length=len(pat), ast=c["ast"], family="tlc_length_limited", exp=exp if use_exp else None)
        else:
            cs.add("S", rng.choice(unknown_kinds), pat, ast=c["ast"], family="tlc_unknown_kind", exp=-1)

    # hand-built grammar patterns from the names (exact rule, expectation computed by the Obs spec)
    for t in handmade_trees(devs):
        pat = render(t, classes)
        if len(pat) > 255:
            continue
        a = flat(t)
        for k in kinds_present:
            cs.add("S", k, pat, ast=a, opn=1, family="handmade")
        cs.add("S", rng.choice(kinds_present), pat + b"\x00" * rng.randrange(1, 4), ast=a, family="handmade_nul_padded")
        cs.add("S", rng.choice(kinds_present), flip_case(pat), ast=a, family="handmade_case_flipped")

    # (3) arbitrary / malformed byte strings: weak rule
    for p in FIXED_MALFORMED:
        for k in kinds_present:
            cs.add("S", k, p, family="malformed")
    # the same device manager is asked again and again: a malformed pattern right after a successful selection, repeated
    for p in FIXED_MALFORMED:
        k = rng.choice(kinds_present)
        good = rng.choice([b".*", b"", rng.choice(names) if names else b".*"])
        cs.add("S", k, good, family="malformed_retry")
        for _ in range(3):
            cs.add("S", k, p, family="malformed_retry")
    narb = (100000 if thorough else 10000) if full else 600
    pats = [bytes(c["pat"]) for c in tl if c["pat"]]
    for p in arbitrary(rng, narb, names, alphabet, pats):
        k = rng.choice(kinds_present) if rng.random() < 0.95 else rng.choice(unknown_kinds)
        if not p.rstrip(b"\x00"):
            cs.add("S", k, p, family="all_nul")
        else:
            cs.add("S", k, p, family="arbitrary")
    return cs


# ------------------------------------------------------------------------------------------------------------------
# running the harness, judging traces

def run_harness(exe, lines, workdir, tag, watchdog_ms, nproc):
    """Splits the cases round-robin over nproc harness processes. Returns list of (trace, cases file, summary)."""
    nproc = max(1, min(nproc, (len(lines) + 199) // 200))
    # contiguous blocks: every harness process works through its cases in the generated order (sequences of calls on one
    # device manager - e.g. a malformed pattern repeated after a successful selection - stay together)
    per = -(-len(lines) // nproc)
    parts = [lines[i * per:(i + 1) * per] for i in range(nproc)]
    parts = [p_ for p_ in parts if p_]
    nproc = len(parts)

    def one(i):
        cf_ = os.path.join(workdir, "%s_%02d.cases" % (tag, i))
        tr = os.path.join(workdir, "%s_%02d.ndjson" % (tag, i))
        with open(cf_, "w") as f:
            f.write("\n".join(parts[i]) + "\n")
        rc, out = run([exe, "run", cf_, tr, str(watchdog_ms)], timeout=3000)
        try:
            res = json.loads(out.strip().splitlines()[-1])
        except Exception:
            raise Broken("harness run failed (rc=%s) on %s: %s" % (rc, cf_, out[-1500:]))
        return tr, cf_, res
    with cf.ThreadPoolExecutor(max_workers=nproc) as ex:
        return list(ex.map(one, range(nproc)))


def validate_trace(trace, workdir, cfg, timeout=2400, heap="3g"):
    r = tlc("DeviceSelectObs", cfg, workdir, workers=1, timeout=timeout, env={"TRACE": trace}, coverage=False, heap=heap)
    v = printed_json(r, "VERDICT")
    if not v:
        raise Broken("DeviceSelectObs produced no verdict for %s: rc=%s %s\n%s" % (trace, r.rc, r.error, r.out[-2500:]))
    nlines = sum(1 for _ in open(trace))
    if v[0]["consumed"] != nlines:
        raise Broken("DeviceSelectObs consumed %d of %d events of %s" % (v[0]["consumed"], nlines, trace))
    return v[0]


def read_trace(trace):
    with open(trace) as f:
        return [json.loads(l) for l in f]


def pat_text(buf):
    return "".join(chr(b) if 32 <= b < 127 and b != 92 else "\\x%02x" % b for b in buf)


def judge(chk, prop, config, runs, workdir, cfg, case_lines, meta, classes, confirm_exe):
    """Validates the traces of one configuration; returns (events, counters, slow list)."""
    with cf.ThreadPoolExecutor(max_workers=max(1, NCPU * 3 // 4)) as ex:
        verdicts = list(ex.map(lambda r: validate_trace(r[0], workdir, cfg), runs))
    total = 0
    cnt = {}
    slow = []
    per_rule = {}
    mism = 0
    flagged_ids = set()
    for (tr, cfile, res), v in zip(runs, verdicts):
        total += v["consumed"]
        for k, x in v["cnt"].items():
            cnt[k] = cnt.get(k, 0) + x
        evs = read_trace(tr)
        for e in evs:
            if e.get("e") == "Slow":
                if e.get("init"):
                    raise Broken("staging '%s': the device manager did not initialise / shut down within the watchdog (%s)" % (config, tr))
                slow.append(e.get("id"))
        for rule, line in v["bad"]:
            e = evs[line - 1]
            if rule in HARNESS_RULES:
                raise Broken("harness / tooling error flagged by DeviceSelectObs: %s at %s:%d %s" % (rule, tr, line, json.dumps(e)[:400]))
            flagged_ids.add(e.get("id"))
            per_rule[rule] = per_rule.get(rule, 0) + 1
            reported = chk.cov.setdefault("_reported", {})
            if reported.get(rule, 0) >= 3:
                continue
            reported[rule] = reported.get(rule, 0) + 1
            cid = e.get("id", -1)
            cl = case_lines[cid] if 0 <= cid < len(case_lines) else None
            fam = meta[cid]["family"] if cl else "?"
            if e.get("e") == "Select":
                what = "%s(kind=%s, pattern=\"%s\", len=%s) -> status=%s index=%s" % (
                    {"S": "device_manager_select", "N": "device_manager_select(NULL name)", "F": "device_manager_select_first",
                     "D": "device_manager_select_default"}.get(e.get("op"), "select"),
                    e.get("kind"), pat_text(e.get("pat", []))[:120], e.get("len"), e.get("status"), e.get("index"))
            elif e.get("e") == "Crash":
                what = "process died (signal %s, exit %s, phase %s) during case: %s" % (e.get("signal"), e.get("exit"), e.get("phase"), cl)
            else:
                what = json.dumps(e)
            sig = "rule=%s site=%s family=%s" % (rule, e.get("e"), fam)
            txt = "%s refused [%s, driver staging '%s']: %s" % (rule, fam, config, what)
            # (the calls that preceded it on the same device manager are replayed with it: selection may depend on history)
            replay = {"kind": "select_cases", "config": config, "rule": rule, "cases": case_lines[max(0, cid - 8):cid + 1] if cl else [],
                      "classes": [[1 if n else 0, [list(i) for i in items]] for n, items in classes]}
            # a refusal is re-run once before it is believed (the harness is deterministic)
            if cl and not confirm(replay, rule, workdir, confirm_exe):
                chk.notes.append("refusal not reproduced on re-run (ignored): " + txt[:300])
                continue
            chk.violation(sig, txt, replay_obj=replay)
        # tooling cross-check: TLC's exported expectation vs. what the code returned, must coincide with Obs's judgement
        complete = v["nbad"] == len(v["bad"])       # the spec keeps the first 200 refusals only
        for e in evs:
            if e.get("e") != "Select":
                continue
            cid = e.get("id", -1)
            if not (0 <= cid < len(meta)) or meta[cid]["exp"] is None:
                continue
            exp = meta[cid]["exp"]
            got = e["index"] if e["status"] == 0 else -1
            if got != exp:
                mism += 1
                if complete and cid not in flagged_ids:
                    raise Broken("oracle inconsistency: TLC expected %s, code returned %s, but DeviceSelectObs accepted %s" % (exp, got, json.dumps(e)[:300]))
    if per_rule:
        chk.cov.setdefault("refusals_by_rule", {})[config] = per_rule
    return total, cnt, slow, mism


def run_cases_once(exe, lines, workdir, tag, watchdog_ms=5000):
    renum = []
    for i, l in enumerate(lines):
        f = l.split(" ")
        f[0] = str(i)
        renum.append(" ".join(f))
    cfile = os.path.join(workdir, tag + ".cases")
    tr = os.path.join(workdir, tag + ".ndjson")
    with open(cfile, "w") as f:
        f.write("\n".join(renum) + "\n")
    rc, out = run([exe, "run", cfile, tr, str(watchdog_ms)], timeout=600)
    if rc != 0:
        raise Broken("harness run failed (rc=%s): %s" % (rc, out[-1500:]))
    return tr


def confirm(replay, rule, workdir, exe):
    tr = run_cases_once(exe, replay["cases"], workdir, "confirm_" + uniq())
    cfg = obs_cfg(os.path.join(workdir, "confirm_%s.cfg" % uniq()), [(bool(n), [tuple(i) for i in items]) for n, items in replay["classes"]])
    v = validate_trace(tr, workdir, cfg)
    return any(b[0] == rule for b in v["bad"])


def replay_script(prop, path):
    """./check C12 --replay file : re-run saved cases on the real code (same driver staging) and re-judge them."""
    obj = json.load(open(path))["replay"]
    bdir = build_dir("replay_" + prop)
    stage = build(bdir)
    exe = stage.get(obj.get("config", "with"))
    if exe is None:
        raise Broken("unknown staging configuration in replay file: %s" % obj.get("config"))
    tr = run_cases_once(exe, obj["cases"], bdir, "replay")
    cfg = obs_cfg(os.path.join(bdir, "replay_obs.cfg"), [(bool(n), [tuple(i) for i in items]) for n, items in obj["classes"]])
    v = validate_trace(tr, bdir, cfg)
    for l in open(tr):
        log("  " + l.rstrip()[:400])
    hits = [b for b in v["bad"] if b[0] in VIOLATION_RULES]
    if hits:
        log("VIOLATION property=%s replay=%s" % (prop, path))
        log("  refused: %s" % hits)
        return 1
    log("replay accepted by DeviceSelectObs (no refusal)")
    return 0


# ------------------------------------------------------------------------------------------------------------------

def main(prop, tier):
    chk = Check(prop, tier, "model_checking")
    bdir = build_dir(prop)
    thorough = tier == "thorough"
    sd = seed()
    stage = build(bdir)

    # (b) the enumeration table, from the real device_manager_count / device_manager_get
    tables = {name: enumerate_real(exe) for name, exe in stage.items()}
    for name, t in tables.items():
        if t["init"] != 0:
            chk.notes.append("device_manager_init failed in staging '%s'" % name)
        if t["count"] != len(t["devs"]) or any(d["status"] != 0 for d in t["devs"]):
            chk.notes.append("staging '%s': count=%s but %d entries enumerated (some failed)" % (name, t["count"], len(t["devs"])))
    main_tab = tables["with"]
    devs = main_tab["devs"]
    dead = [name for name, t in tables.items() if "crashed" in t]
    if "with" in dead:
        # nothing can be enumerated; record the crash through the supervised harness and the Obs spec, then stop
        ocfg0 = obs_cfg(os.path.join(bdir, "DeviceSelectObs.cfg"), choose_classes([], 2))
        cs0 = Cases()
        cs0.add("C", 0, family="count")
        runs0 = run_harness(stage["with"], cs0.lines, bdir, "with", 5000, 1)
        judge(chk, prop, "with", runs0, bdir, ocfg0, cs0.lines, cs0.meta, choose_classes([], 2), stage["with"])
        if not chk.violations and not chk.known_hits:
            raise Broken("harness `enum` died in the 'with' staging (rc=%s) but the supervised run did not" % main_tab["crashed"])
        return chk.finish()
    if main_tab["init"] != 0 or not devs:
        raise Broken("the real common driver did not enumerate any device (init=%s count=%s): nothing to check" % (main_tab["init"], main_tab["count"]))
    if not any(d["kind"] == KIND_CAMERA for d in devs) or not any(d["kind"] == KIND_STORAGE for d in devs):
        raise Broken("enumeration lacks a camera or a storage device: %s" % [(d["kind"], bytes(d["name"])) for d in devs])
    chk.set("enumeration", [{"index": i, "kind": d["kind"], "name": bytes(d["name"]).decode("latin-1")} for i, d in enumerate(devs)])
    chk.set("staging", {name: {"init": t["init"], "count": t["count"]} for name, t in tables.items()})

    nlit, ncls, maxn = 7, 2, 5
    alphabet = choose_alphabet(devs, nlit)
    classes = choose_classes(devs, 4 if thorough else ncls)
    kinds_present = sorted({d["kind"] for d in devs})
    absent_kind = next(k for k in (3, 4, 0, 5, 6, 7, 8, 9) if k not in kinds_present)
    kinds = kinds_present + [absent_kind]

    # (1) TLC: the model over the real table.  The big run goes without -coverage (5x slower with it); a small run with
    # coverage provides the per-action vacuity guard.
    runs_mc = [("main", alphabet, classes[:ncls], maxn, 1, False)]
    runs_mc.append(("cov", alphabet, classes[:ncls], 3, 0, True))
    if thorough:
        runs_mc.append(("deep", choose_alphabet(devs, 4), classes[:ncls], 6, 1, False))     # larger ASTs over fewer literals
        runs_mc.append(("wide", choose_alphabet(devs, 14), classes, 4, 1, False))           # smaller ASTs over more literals / classes

    def run_mc(c):
        tag, al, cl, mn, emit, cov = c
        cfg = select_cfg(os.path.join(bdir, "DeviceSelect_%s.cfg" % tag), devs, al, cl, mn, kinds, emit)
        r = tlc("DeviceSelect", cfg, bdir, workers=2 if tag == "cov" else NCPU if tag in ("main", "deep") else NCPU // 2,
                timeout=2400 if thorough else 600, coverage=cov, heap="10g" if tag == "deep" else "6g")
        return c, r
    with cf.ThreadPoolExecutor(max_workers=4) as ex:
        mc_res = list(ex.map(run_mc, runs_mc))

    states = transitions = 0
    tlc_cases = []
    seen_pat = {}
    for (tag, al, cl, mn, emit, cov), r in mc_res:
        what = "DeviceSelect[%s] alphabet=%s classes=%d MaxNodes=%d" % (tag, bytes(al).decode("latin-1"), len(cl), mn)
        if r.violated:
            raise Broken("%s: invariant %s violated -- the model's two definitions of matching / selection disagree (see %s)" % (what, r.violated, r.outpath))
        tlc_or_broken(r, what)
        if cov:
            require_coverage(r, ["PushLeaf", "ApplyUnary", "ApplyBinary", "Complete", "EmitCase"], what)
        states += r.distinct
        transitions += r.generated
        n = 0
        if emit:
            for c in iter_printed_json(r.outpath, "CASE"):
                n += 1
                key = (bytes(c["pat"]), tuple(map(tuple, sorted(c["exp"]))))
                pk = bytes(c["pat"])
                if pk in seen_pat:
                    if seen_pat[pk] != key[1]:
                        raise Broken("model inconsistency: pattern %r rendered from two ASTs with different expectations" % pk)
                    continue
                seen_pat[pk] = key[1]
                c["exp"] = sorted(c["exp"])
                tlc_cases.append(c)
            os.remove(r.outpath)
        chk.cov.setdefault("models", []).append({"model": what, "distinct_states": r.distinct, "transitions": r.generated,
                                                 "asts": n if emit else None, "complete": r.queue == 0, "wall_s": round(r.wall, 1)})
    if len(tlc_cases) < 200:
        raise Broken("TLC emitted only %d patterns" % len(tlc_cases))
    node_kinds = {nd[0] for c in tlc_cases for nd in c["ast"]}
    if node_kinds != {"lit", "any", "cls", "grp", "star", "plus", "opt", "cat", "alt"}:
        raise Broken("AST enumeration does not cover the grammar: %s" % sorted(node_kinds))
    hits = {k: sum(1 for c in tlc_cases for kk, e in c["exp"] if kk == k and e >= 0) for k in kinds}
    if any(hits[k] == 0 for k in kinds_present) or hits[absent_kind] != 0:
        raise Broken("expectations are degenerate: patterns selecting a device per kind = %s" % hits)
    distinct_targets = {(k, e) for c in tlc_cases for k, e in c["exp"] if e >= 0}
    chk.set("states", states)
    chk.set("transitions", transitions)
    chk.set("tlc_patterns", len(tlc_cases))
    chk.set("tlc_patterns_selecting_a_device_by_kind", hits)
    chk.set("devices_selected_by_some_tlc_pattern", sorted(distinct_targets))
    chk.set("alphabet", bytes(alphabet).decode("latin-1"))
    chk.set("classes", [render(("cls", i + 1), classes).decode("latin-1") for i in range(len(classes))])
    ex_c = next((c for c in tlc_cases if len(c["ast"]) >= 4 and any(e >= 0 for _, e in c["exp"])), tlc_cases[0])
    chk.sample({"tlc_case": {"pattern": bytes(ex_c["pat"]).decode("latin-1"), "ast": ex_c["ast"], "expected_index_by_kind": ex_c["exp"]}})

    # the Obs cfg must know every class an AST may refer to
    ocfg = obs_cfg(os.path.join(bdir, "DeviceSelectObs.cfg"), classes)

    # (2)+(3) run everything against the real code, per staging configuration
    watchdog = 2500 if thorough else 1500
    plans = [("with", 1), ("stub", 5 if not thorough else 3), ("dup", 9 if not thorough else 5), ("broken", 13 if not thorough else 7),
             ("without", 40), ("only_broken", 40)]
    all_runs = {}
    case_sets = {}

    def do_config(p):
        name, sample = p
        cs = make_cases(name, tables[name]["devs"], tlc_cases, classes, alphabet, tier, sd, sample)
        runs = run_harness(stage[name], cs.lines, bdir, name, watchdog, NCPU * 3 // 4 if name == "with" else 2)
        return name, cs, runs
    with cf.ThreadPoolExecutor(max_workers=3) as ex:
        for name, cs, runs in ex.map(do_config, plans):
            all_runs[name] = runs
            case_sets[name] = cs

    total_events = 0
    ntraces = 0
    cnt_all = {}
    slow_all = []
    for name, _ in plans:
        cs, runs = case_sets[name], all_runs[name]
        total, cnt, slow, mism = judge(chk, prop, name, runs, bdir, ocfg, cs.lines, cs.meta, classes, stage[name])
        total_events += total
        ntraces += len(runs)
        for k, x in cnt.items():
            cnt_all[k] = cnt_all.get(k, 0) + x
        fam = {}
        for m in cs.meta:
            fam[m["family"]] = fam.get(m["family"], 0) + 1
        summ = {"cases": len(cs.lines), "by_family": fam, "events": total, "judged": cnt,
                "harness": {k: sum(r[2][k] for r in runs) for k in ("workers", "crashes", "slow")},
                "tlc_expectation_mismatches": mism}
        chk.cov.setdefault("configurations", {})[name] = summ
        for sid in slow[:10]:
            if sid is not None and 0 <= sid < len(cs.lines):
                f = cs.lines[sid].split(" ")
                slow_all.append({"config": name, "kind": int(f[2]), "pattern": pat_text(bytes.fromhex(f[4]) if f[4] != "-" else b"")[:80], "family": cs.meta[sid]["family"]})
        # embedded NUL bytes: recorded, not judged beyond the weak rule
    # default device vs. the documented default pattern (implementation detail: drift only)
    for name in ("with",):
        evs = [e for r in all_runs[name] for e in read_trace(r[0]) if e.get("e") == "Select"]
        by_id = {e["id"]: e for e in evs}
        cs = case_sets[name]
        for i, m in enumerate(cs.meta):
            if m["family"] == "default_pair" and cs.lines[i].split(" ")[1] == "D" and i in by_id and i + 1 in by_id:
                a, b = by_id[i], by_id[i + 1]
                if (a["status"], a["index"]) != (b["status"], b["index"]):
                    chk.drift_note("select_default(kind=%d) returned (%d,%d) but the documented default pattern selects (%d,%d)" % (
                        a["kind"], a["status"], a["index"], b["status"], b["index"]))
        emb = [e for e in evs if e["op"] == "S" and e["g"] == 0 and 0 in e["pat"][:e["len"]] and any(b != 0 for b in e["pat"][e["pat"][:e["len"]].index(0):e["len"]])]
        chk.set("embedded_nul_patterns", {"tried": len(emb), "returned_ok": sum(1 for e in emb if e["status"] == 0),
                                          "note": "a NUL byte inside the pattern is outside the modelled grammar; only the weak rule is applied"})
        if evs:
            chk.sample({"impl_trace_events": [e for e in evs if e["g"] == 1 and e["status"] == 0][:2] + [e for e in evs if e["g"] == 0][:1]})

    chk.cov.pop("_reported", None)
    chk.set("traces_validated_against_impl", ntraces)
    chk.set("events_validated", total_events)
    chk.set("events_judged_by_rule_family", cnt_all)
    chk.set("slow_calls", {"count": sum(s["harness"]["slow"] for s in chk.cov["configurations"].values()), "watchdog_ms": watchdog,
                           "examples": slow_all[:8], "note": "SLOW: the call exceeded the watchdog; the property bounds neither time nor memory, never a violation"})
    chk.set("exhaustive", True)
    chk.set("level_note", "model_checking for the modelled regex grammar (exact expectations, every AST of the bound); exploration for "
                          "arbitrary / malformed byte strings (weak rule)")
    chk.set("checker_cmd", "tlc DeviceSelect (cfg generated from the real enumeration) ; tlc DeviceSelectObs with TRACE=<impl trace>")
    # vacuity guards on the code -> spec side
    need = {"exact": 1000, "exact_some": 100, "weak": 500, "unknown_kind": 20, "get_in": len(devs), "get_out": 5, "open": len(devs), "count": 1, "padded": 20}
    short = {k: (cnt_all.get(k, 0), v) for k, v in need.items() if cnt_all.get(k, 0) < v}
    if short:
        raise Broken("observation rules judged too few events (got, needed): %s" % short)
    wo = chk.cov["configurations"]["without"]
    if tables["without"]["count"] != 0 or wo["judged"].get("exact_some", 0) != 0 and not chk.violations:
        chk.notes.append("staging without driver libraries enumerated %d devices" % tables["without"]["count"])
    chk.assume("regex grammar modelled: literal, '.', character class (ranges, negation), '*', '+', '?', alternation, grouping; "
               "exact expectations exist for every canonical AST of <= %d nodes over literals '%s' and %d classes%s, plus hand-built "
               "patterns derived from the enumerated names" % (maxn, bytes(alphabet).decode("latin-1"), ncls,
                                                                " (thorough: also <= 6 nodes over 4 literals and <= 4 nodes over 14 literals / 4 classes)" if thorough else ""))
    chk.assume("excluded from the enumeration: star/plus over an operand that is nullable, contains star/plus, or contains an alternation "
               "whose branches can start with the same byte (libstdc++'s backtracking matcher may not terminate in practice; slowness is not a violation)")
    chk.assume("arbitrary and malformed byte strings (0..255 bytes, seeded), anchors/escapes/back-references/look-ahead/counted repeats and patterns "
               "with an embedded NUL byte are judged by the weak rule only: Err, or Ok with an enumerated device of the requested kind; level for these: exploration")
    chk.assume("trailing NUL bytes of a pattern are ignored (as if stripped); an empty or all-NUL pattern selects the first device of the kind")
    chk.assume("of the six driver libraries only acquire-driver-common exists offline; 'present' subsets are simulated by a second copy of it, by a "
               "synthetic driver (stub_names.c) and by unloadable / entry-point-less / failing-initialiser libraries under the optional drivers' "
               "names; process locale is \"C\"")
    chk.assume("NULL `self`/`out` arguments are outside the header's contract and are not exercised; a NULL name is (with length 0 and > 0)")
    for runs in all_runs.values():
        for tr, cfile, _ in runs:
            for f in (tr, cfile):
                try:
                    os.remove(f)
                except OSError:
                    pass
    return chk.finish()
