#!/bin/bash
# usage: tools/seed_sweep.sh "<seeds>" "<ids>"  -- runs quick checks under several VERIF_SEED values; prints one line per run
cd "$(dirname "$0")/.."
for s in $1; do
  for id in $2; do
    t0=$(date +%s)
    VERIF_SEED=$s ./check $id --tier quick > /tmp/sweep_$$.log 2>&1; rc=$?
    t1=$(date +%s)
    echo "seed=$s id=$id exit=$rc wall=$((t1-t0))s $(grep -c '^VIOLATION' /tmp/sweep_$$.log) violations $(grep -c '^DRIFT' /tmp/sweep_$$.log) drift $(grep 'signature\|BROKEN' /tmp/sweep_$$.log | sort | uniq -c | head -3 | tr '\n' ';')"
    if [ $rc -ne 0 ]; then cp /tmp/sweep_$$.log sweep_fail_${id}_seed$s.log; fi
  done
done
rm -f /tmp/sweep_$$.log
