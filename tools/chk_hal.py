"""C11: the device HAL wrappers (camera.c, storage.c, driver.c) enforce the device protocol and never touch a
closed device.

  (1) TLC: Hal (implementation-shaped model, camera and storage separately): every HAL function x every status the
      driver may answer (Ok/Err; every DeviceState incl. out-of-protocol ones; failing open/describe/close; NULL
      driver, NULL device, NULL vtable entry at open). The state graph is complete (unbounded call depth). The
      protocol rules are invariants. The variants of the code as it was before each repair are checked too and
      must violate their invariant (the model can show the defect).
  (2) spec -> code: every transition of the exported graph becomes a script (shortest witness history + the
      transition: HAL call + scripted driver answers) replayed by harness/hal/hal_seq.c into the real wrappers
      with a scripted mock driver; driver calls issued, return code and HAL state are compared after every call
      -> DRIFT only.
  (3) code -> spec: the call log seen by the mock driver and the HAL's returns, recorded during (2), during an
      implementation-driven exploration of the real wrappers' state graph (every call x every answer from every
      reachable concrete state) and during seeded random histories, is judged by DeviceProtocolObs in TLC
      -> VIOLATION. The same histories run in a build with -fsanitize=address in which the mock really frees the
      device in close (instrument only: a sanitizer abort becomes a Crash event in the trace).
"""
import json, os, sys, collections, concurrent.futures as cf
from vlib import *

RULES = {"C11": {"StopWithoutStart", "FrameOutsideRunning", "AppendOutsideRunning", "CallAfterClose", "WriteAfterClose",
                 "DoubleClose", "CallOnUnknownDevice", "OpenNotClosed", "CloseNotForwarded", "ReportedStateNotFromDriver", "StatusNotFromDriver",
                 "Crash"}}
HARNESS_RULES = {"Malformed", "UnknownEvent", "UnknownHandle", "DrvOutsideCall"}

HAL_SRCS = [
    "acquire-core-libs/src/acquire-device-hal/device/hal/camera.c",
    "acquire-core-libs/src/acquire-device-hal/device/hal/storage.c",
    "acquire-core-libs/src/acquire-device-hal/device/hal/driver.c",
    "acquire-core-libs/src/acquire-core-logger/logger.c",
    "acquire-core-libs/src/acquire-device-properties/device/props/device.c",
]
CAM_ACTIONS = ["OpenNoDriver", "OpenFails", "OpenDescribeFails", "OpenNullEntry", "OpenOk", "CamSet", "CamGet", "CamStart",
               "CamStop", "CamTrigger", "CamGetFrame", "CamClose", "GetState", "NullSelf", "NullArg"]
STO_ACTIONS = ["OpenNoDriver", "OpenFails", "OpenDescribeFails", "OpenNullEntry", "OpenOk", "StoSet", "StoGet", "StoStart",
               "StoStop", "StoAppend", "StoClose", "GetState", "NullSelf", "NullArg"]
INVARIANTS = "TypeOK NoErr NoLeak ReportedStateFollowsDriver ClosedMeansClosed RunningIsTrue"
PROPERTIES = "SetLeavesNoRunner"
# the code as it is meant to be (all repairs in)
FIXED = dict(FixOpenLeak=True, FixDescribeLeak=True, CloseStateFirst=True, SetKeepsRunning=True, SetStopsRejected=True, Strict=False)
# code as it was before a repair -> invariant the model must then violate
AS_IT_WAS = [
    ("camera", dict(FixOpenLeak=False), "NoLeak", "camera_open does not close the device when a vtable entry is NULL"),
    ("camera", dict(FixDescribeLeak=False), "NoLeak", "driver_open_device does not close the device when describe fails"),
    ("storage", dict(FixDescribeLeak=False), "NoLeak", "driver_open_device does not close the device when describe fails"),
    ("storage", dict(CloseStateFirst=False), "NoErr", "storage_close stores Closed after the driver released the device"),
    ("storage", dict(SetKeepsRunning=False), "RunningIsTrue|ReportedStateFollowsDriver|property|none",
     "storage_set overwrites Running with the driver's Armed (tolerated by C11: property C08 decides)"),
    ("storage", dict(SetStopsRejected=False), "property",
     "storage_set stores a rejection over Running without stopping the device (C16: its file is never closed)"),
]


def build(bdir, asan=False):
    sub = os.path.join(bdir, "asan" if asan else "plain")
    flags = ["-fsanitize=address", "-DHAL_REALLY_FREE"] if asan else []
    objs = compile_objs(sub, HAL_SRCS + [os.path.join(HARNESS, "hal/hal_seq.c")], cflags=flags)
    return link(os.path.join(sub, "hal_seq"), objs, ldflags=["-fsanitize=address"] if asan else [])


def tla_bool(b):
    return "TRUE" if b else "FALSE"


def hal_cfg(path, kind, maxopens, consts, export=False):
    c = dict(FIXED)
    c.update(consts)
    t = 'CONSTANTS Kind = "%s" MaxOpens = %d %s\n' % (kind, maxopens, " ".join("%s = %s" % (k, tla_bool(v)) for k, v in c.items()))
    t += "SPECIFICATION Spec\nVIEW View\nCHECK_DEADLOCK FALSE\nINVARIANTS %s\nPROPERTIES %s\n" % (INVARIANTS, PROPERTIES)
    if export:
        t += "ACTION_CONSTRAINT EmitEdge\n"
    return write_cfg(path, t)


# ---------------------------------------------------------------------------------------------- spec -> code
def edges_to_scripts(edges, kind, path):
    """Every edge of the exported graph -> one script: shortest witness history to its source + the edge."""
    key = lambda v: json.dumps(v)
    succ = collections.defaultdict(list)
    for e in edges:
        succ[key(e["s"])].append(e)
    init = key([False, 0, False, 0, 0, "none", 0])
    if init not in succ:
        raise Broken("exported Hal graph (%s) has no initial state" % kind)
    wit = {init: []}
    order = [init]
    i = 0
    while i < len(order):
        n = order[i]
        i += 1
        for e in succ.get(n, []):
            d = key(e["d"])
            if d not in wit:
                wit[d] = wit[n] + [e["a"]]
                order.append(d)
    nscripts = nsteps = 0
    with open(path, "w") as f:
        for e in edges:
            s = key(e["s"])
            if s not in wit:
                continue
            nscripts += 1
            f.write("R %s %s%d\n" % (kind, kind[0], nscripts))
            for a in wit[s] + [e["a"]]:
                f.write("C %s %d | %s | %s | %d %d\n" % (a["f"], a["a"], " ".join(map(str, a["rs"])), " ".join(a["cs"]), a["rc"], a["st"]))
                nsteps += 1
            f.write("E\n")
    return nscripts, nsteps, len(wit)


QUERIES = {"get", "get_meta", "get_shape", "get_state", "reserve"}


def edges_to_graph(edges, path):
    """The model graph without the pure queries and the NULL-argument calls, for `hal_seq walk` (state 0 = initial)."""
    key = lambda v: json.dumps(v)
    ids = {key([False, 0, False, 0, 0, "none", 0]): 0}
    n = 0
    with open(path, "w") as f:
        for e in edges:
            a = e["a"]
            if a["a"] in (-9, -8) or a["f"] in QUERIES:
                continue
            s = ids.setdefault(key(e["s"]), len(ids))
            d = ids.setdefault(key(e["d"]), len(ids))
            f.write("%d %d C %s %d | %s | %s | %d %d\n" % (s, d, a["f"], a["a"], " ".join(map(str, a["rs"])), " ".join(a["cs"]),
                                                        a["rc"], a["st"]))
            n += 1
    return n


def last_json(out, what, rc):
    try:
        return json.loads(out.strip().splitlines()[-1])
    except Exception:
        crash_or_broken(rc, out, "hal_seq", what)      # a crash signal of the plain build: the wrappers crashed under a HAL call


# ---------------------------------------------------------------------------------------------- code -> spec
def validate_trace(trace, workdir, strict=False, timeout=900):
    cfg = os.path.join(SPECS, "DeviceProtocolObs.cfg")
    env = {"TRACE": trace, "STRICT": "1" if strict else "0"}
    r = tlc("DeviceProtocolObs", cfg, workdir, workers=1, timeout=timeout, env=env, coverage=False, heap="4g")
    v = printed_json(r, "VERDICT")
    if not v:
        raise Broken("DeviceProtocolObs produced no verdict for %s: rc=%s %s\n%s" % (trace, r.rc, r.error, r.out[-2000:]))
    nlines = sum(1 for _ in open(trace))
    if v[0]["consumed"] != nlines:
        raise Broken("DeviceProtocolObs consumed %d of %d events of %s" % (v[0]["consumed"], nlines, trace))
    return v[0]


def witness(lines, n):
    """History (from Reset) containing event number n (1-based), extended to the return of the HAL call."""
    i = n - 1
    while i > 0 and '"e":"Reset"' not in lines[i]:
        i -= 1
    j = n - 1
    while j + 1 < len(lines) and '"e":"Ret"' not in lines[j] and '"e":"End"' not in lines[j]:
        j += 1
    evs = [json.loads(x) for x in lines[i:j + 1]]
    kind = evs[0].get("kind", "camera") if evs and evs[0].get("e") == "Reset" else "camera"
    steps = []
    for e in evs:
        if e.get("e") == "Hal":
            steps.append({"f": e["f"], "a": e.get("a", 0), "rs": []})
        elif e.get("e") == "Drv" and steps:
            steps[-1]["rs"].append(e["r"])
    return kind, steps, evs


def describe_step(s):
    t = s["f"]
    if s["a"]:
        t += "(a=%d)" % s["a"]
    if s["rs"]:
        t += "->" + ",".join(map(str, s["rs"]))
    return t


def case_of(kind, steps, evs):
    """A word that tells apart the ways one rule can be broken at one site."""
    if not steps:
        return "none"
    s = steps[-1]
    if s["f"] == "open":
        if len(s["rs"]) >= 2 and s["rs"][1] == 1:
            return "describe-failed"
        if s["a"] > 0:
            return "null-vtable-entry"
        return "open"
    return "a%d" % s["a"] if s["a"] else "call"


def judge(chk, prop, traces, workdir, strict=False):
    with cf.ThreadPoolExecutor(max_workers=max(1, NCPU // 2)) as ex:
        verdicts = list(ex.map(lambda t: validate_trace(t[1], workdir, strict), traces))
    total = 0
    counts = collections.Counter()
    reported = set()
    for (what, t), v in zip(traces, verdicts):
        total += v["consumed"]
        lines = None
        for rule, line in v["bad"]:
            counts[rule] += 1
            if rule in HARNESS_RULES:
                raise Broken("DeviceProtocolObs flagged a harness/trace problem: %s at %s:%d" % (rule, t, line))
            if rule not in RULES[prop]:
                continue
            if lines is None:
                lines = open(t).read().splitlines()
            kind, steps, evs = witness(lines, line)
            site = "%s_%s" % (kind, steps[-1]["f"] if steps else "none")
            sig = "rule=%s site=%s case=%s" % (rule, site, case_of(kind, steps, evs))
            if sig in reported:
                continue
            reported.add(sig)
            txt = "%s refused %s (%s, %s): history %s" % (rule, lines[line - 1], what, kind,
                                                         " ; ".join(describe_step(s) for s in steps))
            chk.violation(sig, txt, replay_obj={"kind": "hal_script", "device": kind, "steps": steps, "rule": rule,
                                                "strict": strict})
    return total, counts, verdicts


def write_script(path, kind, steps):
    with open(path, "w") as f:
        f.write("R %s w\n" % kind)
        for s in steps:
            f.write("C %s %d | %s | ? | 0 0\n" % (s["f"], s["a"], " ".join(map(str, s["rs"]))))
        f.write("E\n")


def run_asan(exe, args, trace, what):
    """Run the sanitizer build; a sanitizer abort is turned into a Crash event at the end of the trace."""
    rc, out = run([exe] + args + [trace], timeout=900, env={"ASAN_OPTIONS": "detect_leaks=0:abort_on_error=0:exitcode=77"})
    crashed = None
    if rc != 0:
        if "AddressSanitizer" not in out and rc != 77:
            crash_or_broken(rc, out, "hal_seq_asan", what + " (sanitizer build)")
        kindline = [l for l in out.splitlines() if "ERROR: AddressSanitizer" in l]
        frames = [l.strip() for l in out.splitlines() if l.strip().startswith("#") and ("camera.c" in l or "storage.c" in l or "driver.c" in l)]
        crashed = (kindline[0].split("ERROR: AddressSanitizer:")[-1].strip()[:120] if kindline else "abort rc=%d" % rc)
        if frames:
            crashed += " at " + frames[0].split(" in ", 1)[-1][:160]
        # the process died inside a HAL call: close the trace so that the Obs spec can consume it
        with open(trace, "a") as f:
            f.write(json.dumps({"e": "Crash", "what": crashed}) + "\n")
    return crashed, out


def replay_script(prop, path):
    """./check C11 --replay file : re-run a saved witness on the real wrappers and re-judge it."""
    obj = json.load(open(path))["replay"]
    bdir = build_dir("replay_" + prop)
    exe = build(bdir)
    sc = os.path.join(bdir, "witness.txt")
    write_script(sc, obj["device"], obj["steps"])
    tr = os.path.join(bdir, "trace.ndjson")
    if obj.get("rule") == "Crash":
        exe = build(bdir, asan=True)
        run_asan(exe, ["script", sc], tr, "witness replay")
    else:
        run([exe, "script", sc, tr], timeout=60, check=True)
    v = validate_trace(tr, bdir, strict=obj.get("strict", False))
    for l in open(tr):
        log("  " + l.rstrip())
    hits = [b for b in v["bad"] if b[0] in RULES[prop]]
    if hits:
        log("VIOLATION property=%s replay=%s" % (prop, path))
        log("  refused: %s" % hits)
        return 1
    log("replay accepted by DeviceProtocolObs (no refusal)")
    return 0


def main(prop, tier):
    chk = Check(prop, tier, "model_checking")
    bdir = build_dir(prop)
    thorough = tier == "thorough"
    sd = seed()
    maxopens = 3 if thorough else 2
    with cf.ThreadPoolExecutor(max_workers=2) as ex:
        fb = [ex.submit(build, bdir, False), ex.submit(build, bdir, True)]
        exe, exe_asan = fb[0].result(), fb[1].result()

    # ---- (1) TLC on Hal: fixed model, export, and the as-it-was variants --------------------------------------
    def run_mc(kind):
        cfg = hal_cfg(os.path.join(bdir, "mc_%s.cfg" % kind), kind, maxopens, {})
        return kind, tlc("Hal", cfg, bdir, workers=2, timeout=600, heap="2g")

    def run_export(kind):
        cfg = hal_cfg(os.path.join(bdir, "ex_%s.cfg" % kind), kind, maxopens, {}, export=True)
        r = tlc("Hal", cfg, bdir, workers=1, timeout=600, coverage=False, heap="2g")
        tlc_or_broken(r, "export of Hal (%s)" % kind)
        return kind, printed_json(r, "EDGE")

    def run_aswas(i):
        kind, consts, inv, what = AS_IT_WAS[i]
        cfg = hal_cfg(os.path.join(bdir, "was_%d_%s.cfg" % (i, kind)), kind, maxopens, consts)
        return i, tlc("Hal", cfg, bdir, workers=1, timeout=600, coverage=False, heap="2g")

    def run_strict(kind):
        cfg = hal_cfg(os.path.join(bdir, "strict_%s.cfg" % kind), kind, maxopens, {"Strict": True})
        return tlc("Hal", cfg, bdir, workers=1, timeout=600, coverage=False, heap="2g")

    with cf.ThreadPoolExecutor(max_workers=8) as ex:
        f_mc = [ex.submit(run_mc, k) for k in ("camera", "storage")]
        f_ex = [ex.submit(run_export, k) for k in ("camera", "storage")]
        f_was = [ex.submit(run_aswas, i) for i in range(len(AS_IT_WAS))]
        f_strict = ex.submit(run_strict, "storage")
        # meanwhile: implementation-driven exploration and random histories
        xp = {}
        traces = []
        for kind in ("camera", "storage"):
            t = os.path.join(bdir, "explore_%s.ndjson" % kind)
            rc, out = run([exe, "explore", kind, "12" if thorough else "8", str(maxopens + 1), t], timeout=600)
            xp[kind] = last_json(out, "explore " + kind, rc)
            traces.append(("implementation-driven exploration", t))
        rnd_t = os.path.join(bdir, "random.ndjson")
        rc, out = run([exe, "random", str(sd), str(4000 if thorough else 400), "40", rnd_t], timeout=600)
        rnd = last_json(out, "random histories", rc)
        traces.append(("random histories seed %d" % sd, rnd_t))
        mc_res = [f.result() for f in f_mc]
        ex_res = [f.result() for f in f_ex]
        was_res = [f.result() for f in f_was]
        strict_res = f_strict.result()

    states = transitions = 0
    for kind, r in mc_res:
        what = "Hal kind=%s MaxOpens=%d" % (kind, maxopens)
        if r.violated:
            raise Broken("%s: the implementation-shaped model of the repaired wrappers violates %s; the model no longer "
                         "mirrors correct code (see %s)" % (what, r.violated, r.outpath))
        tlc_or_broken(r, what)
        require_coverage(r, CAM_ACTIONS if kind == "camera" else STO_ACTIONS, what)
        if r.queue != 0:
            raise Broken("%s: state graph not complete" % what)
        states += r.distinct
        transitions += r.generated
        chk.cov.setdefault("models", []).append({"model": what, "distinct_states": r.distinct, "transitions": r.generated,
                                                 "depth": r.depth, "complete": True, "wall_s": round(r.wall, 1)})
    chk.set("states", states)
    chk.set("transitions", transitions)
    for i, r in was_res:
        kind, consts, inv, what = AS_IT_WAS[i]
        if r.error or r.timed_out:
            raise Broken("Hal as-it-was variant %s: TLC failed: %s" % (consts, r.error))
        got = r.violated or "none"
        if got not in inv.split("|"):
            raise Broken("Hal with %s (%s) was expected to violate %s, TLC says %s: the model cannot show the defect"
                         % (consts, what, inv, got))
        chk.cov.setdefault("model_of_code_as_it_was", []).append({"kind": kind, "variant": consts, "what": what, "violates": got})
    chk.set("strict_reading", {
        "what": "reading in which only a start answered Running makes a storage device running (STRICT=1 / Strict=TRUE); "
                "not the default: set answered Running, then stop/append reach the driver without a start",
        "model_violates": strict_res.violated or "none"})

    # ---- (2) spec -> code ---------------------------------------------------------------------------------------
    replayed = 0
    drift = False
    for kind, edges in ex_res:
        if len(edges) < 100:
            raise Broken("export of Hal (%s) is vacuous: %d edges" % (kind, len(edges)))
        sc = os.path.join(bdir, "scripts_%s.txt" % kind)
        nscripts, nsteps, nstates = edges_to_scripts(edges, kind, sc)
        t = os.path.join(bdir, "replay_%s.ndjson" % kind)
        rc, out = run([exe, "replay", sc, t], timeout=600)
        res = last_json(out, "replay " + kind, rc)
        mism = [l for l in out.splitlines() if l.startswith("MISMATCH")]
        if res["scripts"] != nscripts or res["steps"] < nscripts:
            raise Broken("replay of %s scripts incomplete: %s of %d" % (kind, res, nscripts))
        replayed += nscripts
        chk.cov.setdefault("replay", []).append({"kind": kind, "transitions_replayed": nscripts, "hal_calls": res["steps"],
                                                 "mismatches": res["mismatches"]})
        if res["mismatches"]:
            drift = True
            for m in mism[:4]:
                chk.drift_note("%s wrappers disagree with Hal: %s" % (kind, m[:300]))
        traces.append(("replay of model transitions", t))
        # every history of the model up to a depth (pure queries left out): deep ones compared only, shorter ones judged too
        gr = os.path.join(bdir, "graph_%s.txt" % kind)
        edges_to_graph(edges, gr)
        deep = (8 if kind == "camera" else 7) if thorough else 6
        rc, out = run([exe, "walk", gr, kind, str(deep), "-"], timeout=1500)
        wres = last_json(out, "walk " + kind, rc)
        tw = os.path.join(bdir, "walk_%s.ndjson" % kind)
        rc, out2 = run([exe, "walk", gr, kind, str(5 if thorough else 4), tw], timeout=900)
        wres2 = last_json(out2, "walk " + kind, rc)
        if wres["histories"] < 10000 or wres2["histories"] < 1000:
            raise Broken("bounded-history replay of %s is vacuous: %s %s" % (kind, wres, wres2))
        chk.cov.setdefault("bounded_histories", []).append({"kind": kind, "depth": deep, "histories": wres["histories"],
                                                            "hal_calls": wres["steps"], "mismatches": wres["mismatches"],
                                                            "judged_depth": 5 if thorough else 4,
                                                            "judged_histories": wres2["histories"]})
        if wres["mismatches"]:
            drift = True
            for m in [l for l in out.splitlines() if l.startswith("MISMATCH")][:2]:
                chk.drift_note("%s wrappers disagree with Hal on a bounded history: %s" % (kind, m[:300]))
        traces.append(("bounded model histories", tw))
        # the same histories in the sanitizer build (mock really frees in close)
        ta = os.path.join(bdir, "asan_%s.ndjson" % kind)
        crashed, _ = run_asan(exe_asan, ["script", sc], ta, "replay " + kind)
        traces.append(("sanitizer build, model transitions", ta))
        e0 = next((e for e in edges if e["a"]["f"] in ("set", "get_frame", "close") and len(e["a"]["cs"]) > 1), edges[0])
        chk.sample({"exported_transition": e0})
    ta = os.path.join(bdir, "asan_random.ndjson")
    run_asan(exe_asan, ["random", str(sd + 1), str(2000 if thorough else 300), "40"], ta, "random histories")
    traces.append(("sanitizer build, random histories", ta))
    chk.set("spec_transitions_replayed_into_impl", replayed)
    if drift:
        chk.assume("DRIFT: the wrappers no longer follow Hal on every transition; the exhaustive model-level result does not "
                   "transfer for this run, the verdict rests on the implementation-driven exploration and the recorded traces")

    # ---- (3) code -> spec ---------------------------------------------------------------------------------------
    for kind in ("camera", "storage"):
        if xp[kind]["transitions"] < 300 or xp[kind]["states"] < 8:
            raise Broken("implementation-driven exploration of %s is vacuous: %s" % (kind, xp[kind]))
        chk.cov.setdefault("impl_exploration", []).append(xp[kind])
    total, counts, verdicts = judge(chk, prop, traces, bdir)
    chk.set("traces_validated_against_impl", len(traces))
    chk.set("events_validated", total)
    chk.set("impl_states_explored", sum(xp[k]["states"] for k in xp))
    chk.set("impl_transitions_judged_by_obs", sum(xp[k]["transitions"] for k in xp))
    chk.set("random_histories", rnd["histories"])
    chk.set("exhaustive", True)
    chk.set("checker_cmd", "tlc Hal (cfgs generated per kind/variant) ; tlc DeviceProtocolObs with TRACE=<recorded trace>")
    if counts:
        chk.set("refusals_by_rule", dict(counts))
    with open(traces[1][1]) as f:
        head = []
        for l in f:
            head.append(json.loads(l))
            if len(head) >= 3000:
                break
    start = next((i for i, e in enumerate(head) if e.get("e") == "Hal" and e.get("f") == "close" and
                  i + 2 < len(head) and head[i + 1].get("f") == "stop"), 0)
    while start > 0 and head[start].get("e") != "Reset":
        start -= 1
    chk.sample({"impl_trace_excerpt": head[start:start + 16]})
    chk.assume("one device of one kind at a time per history; at most %d open attempts per history in the model (%d in the "
               "implementation-driven exploration), 6 in random histories" % (maxopens, maxopens + 1))
    chk.assume("the driver's open leaves the new device in AwaitingConfiguration (kit/driver.h); the client does not use a "
               "device after closing it; DeviceState answers outside 0..3 are represented by DeviceStateCount (4)")
    chk.assume("running, for a storage device, is what the driver answered last (Armed answered to set while running keeps it "
               "running); the stricter reading (only a successful start) is reported under strict_reading, not judged")
    chk.assume("reads of a released device that are neither calls through its function table nor through its driver pointer "
               "are only visible to the sanitizer build")
    for _, t in traces:
        try:
            os.remove(t)
        except OSError:
            pass
    return chk.finish()
