"""Common machinery for /verif checks: building from /repo, running TLC / Apalache,
trace validation, known-findings matching, evidence writing, verdict printing.

Exit codes used by checks:  0 = property held on everything explored (KNOWN-FINDING lines allowed)
                            1 = VIOLATION (line `VIOLATION property=<id> replay=<path>` printed)
                            2 = the check itself is broken (build failure, TLC error, vacuity)
"""
import json, os, re, shutil, subprocess, sys, time, hashlib, random, concurrent.futures as cf

VERIF = os.path.dirname(os.path.dirname(os.path.abspath(__file__)))
REPO = os.environ.get("VERIF_REPO", "/repo")
SPECS = os.path.join(VERIF, "specs")
HARNESS = os.path.join(VERIF, "harness")
BUILD_ROOT = os.environ.get("VERIF_BUILD", os.path.join(VERIF, "build"))
EVIDENCE = os.environ.get("VERIF_EVIDENCE", os.path.join(VERIF, "evidence"))
REPLAYS = os.environ.get("VERIF_REPLAYS", os.path.join(VERIF, "replays"))
GUARD = "ACQUIRE_COMMON_VERIF"
TLA_JAR = "/opt/veriftools/tla/tla2tools.jar:/opt/veriftools/tla/CommunityModules-deps.jar"
NCPU = os.cpu_count() or 4


import itertools, threading
_uniq = itertools.count(1)
_uniq_lock = threading.Lock()


def uniq():
    with _uniq_lock:
        return "%d_%d" % (os.getpid(), next(_uniq))


class Broken(Exception):
    """The check itself cannot run (exit 2)."""


class Crashed(Exception):
    """The code under test crashed inside a harness (signal / sanitizer abort): a verdict (exit 1), not a broken check.
    The harnesses are exercised on the unchanged tree in every run, where they do not crash."""

    def __init__(self, site, text, replay=None):
        Exception.__init__(self, text)
        self.site, self.text, self.replay = site, text, replay


CRASH_RCS = {-11: "SIGSEGV", -6: "SIGABRT", -7: "SIGBUS", -8: "SIGFPE", -4: "SIGILL", 139: "SIGSEGV", 134: "SIGABRT", 135: "SIGBUS", 136: "SIGFPE"}


def crash_or_broken(rc, out, site, what, replay=None):
    """A harness run ended abnormally: raise Crashed if the process died of a crash signal or a sanitizer report, else Broken."""
    sig = CRASH_RCS.get(rc)
    if sig is None and ("AddressSanitizer" in (out or "") or "stack smashing" in (out or "")):
        sig = "sanitizer"
    if sig:
        raise Crashed(site, "the code under test crashed (%s) in %s: %s" % (sig, what, (out or "")[-600:].replace("\n", " | ")), replay)
    raise Broken("%s failed (rc=%s): %s" % (what, rc, (out or "")[-1500:]))


def log(*a):
    print(*a, flush=True)


def seed():
    try:
        return int(os.environ.get("VERIF_SEED", "1"))
    except ValueError:
        return 1


def build_dir(name, clean=True):
    d = os.path.join(BUILD_ROOT, name)
    if clean and os.path.isdir(d):
        shutil.rmtree(d, ignore_errors=True)
    os.makedirs(d, exist_ok=True)
    return d


def run(cmd, timeout=None, cwd=None, env=None, stdout=None, stderr=subprocess.STDOUT, check=False, input=None):
    e = dict(os.environ)
    if env:
        e.update(env)
    if stdout is None:
        stdout = subprocess.PIPE
    try:
        p = subprocess.run(cmd, cwd=cwd, env=e, stdout=stdout, stderr=stderr, timeout=timeout,
                           shell=isinstance(cmd, str), text=True, input=input, errors="replace")
    except subprocess.TimeoutExpired as ex:
        out = ex.stdout if isinstance(ex.stdout, str) else (ex.stdout or b"").decode(errors="replace") if ex.stdout else ""
        return 124, out
    if check and p.returncode != 0:
        raise Broken("command failed (%d): %s\n%s" % (p.returncode, cmd if isinstance(cmd, str) else " ".join(cmd), (p.stdout or "")[-4000:]))
    return p.returncode, p.stdout or ""


# ----------------------------------------------------------------------------------------------
# building pieces of /repo (a handful of translation units, no cmake)

INC = [
    "acquire-core-libs/src/acquire-core-logger",
    "acquire-core-libs/src/acquire-core-platform/linux",
    "acquire-core-libs/src/acquire-device-properties",
    "acquire-core-libs/src/acquire-device-kit",
    "acquire-core-libs/src/acquire-device-hal",
    "acquire-video-runtime/src",
    "acquire-driver-common/src",
    "acquire-driver-common/src/simcams",
]


def incflags(extra=()):
    return ["-I" + os.path.join(REPO, i) for i in INC] + ["-I" + os.path.join(HARNESS, "include")] + ["-I" + x for x in extra]


def compile_objs(bdir, sources, cflags=(), cxxflags=(), defs=(), cc="gcc", cxx="g++", extra_inc=(), jobs=None):
    """sources: list of paths (absolute, or relative to REPO). Returns list of object files."""
    os.makedirs(bdir, exist_ok=True)
    tasks = []
    objs = []
    for s in sources:
        src = s if os.path.isabs(s) else os.path.join(REPO, s)
        if not os.path.exists(src):
            raise Broken("source file missing: " + src)
        o = os.path.join(bdir, re.sub(r"[^A-Za-z0-9_.]", "_", os.path.relpath(src, "/")) + ".o")
        objs.append(o)
        iscxx = src.endswith((".cpp", ".cc", ".cxx"))
        cmd = [cxx if iscxx else cc, "-c", src, "-o", o, "-g", "-O1", "-fno-omit-frame-pointer", "-D" + GUARD + "=1"]
        cmd += ["-std=c++20"] if iscxx else ["-std=gnu11"]
        cmd += ["-D" + d for d in defs]
        cmd += incflags(extra_inc)
        cmd += list(cxxflags if iscxx else cflags)
        tasks.append(cmd)
    with cf.ThreadPoolExecutor(max_workers=jobs or NCPU) as ex:
        for rc, out in ex.map(lambda c: run(c, timeout=600), tasks):
            if rc != 0:
                raise Broken("compile failed:\n" + out[-6000:])
    return objs


def link(out, objs, ldflags=(), cxx="g++"):
    cmd = [cxx, "-o", out] + list(objs) + list(ldflags) + ["-lpthread", "-ldl", "-lm"]
    rc, o = run(cmd, timeout=600)
    if rc != 0:
        raise Broken("link failed:\n" + o[-6000:])
    return out


def wraps(symbols):
    return ["-Wl,--wrap=" + s for s in symbols]


# ----------------------------------------------------------------------------------------------
# TLC

class TlcResult:
    def __init__(self):
        self.rc = None
        self.out = ""
        self.generated = 0
        self.distinct = 0
        self.queue = 0
        self.depth = 0
        self.coverage = {}      # action name -> (taken(distinct), generated)
        self.violated = None    # name of violated invariant / property, if any
        self.error = None       # TLC-level error (parse, evaluation, ...)
        self.printed = []       # PrintT lines (raw strings)
        self.wall = 0.0
        self.timed_out = False

    def ok(self):
        return self.rc == 0 and not self.error and not self.violated


def tlc(spec, cfg, workdir, workers=None, timeout=600, env=None, simulate=None, depth=None, coverage=True,
        deadlock=False, heap="8g", extra=(), dfs_queue=False, keep_out=None, seed_=None, dump=None):
    """Run TLC on specs/<spec>.tla with config <cfg> (path). workdir gets the metadir and output."""
    t0 = time.time()
    os.makedirs(workdir, exist_ok=True)
    u = uniq()
    meta = os.path.join(workdir, "meta_" + u)
    # (java.io.tmpdir: TLC and SANY leave tlc-*/SANY* directories behind; keep them in the build directory, not /tmp)
    jtmp = os.path.join(workdir, "jtmp")
    os.makedirs(jtmp, exist_ok=True)
    jopts = ["-XX:+UseParallelGC", "-Xmx" + heap, "-Xss16m", "-Djava.io.tmpdir=" + jtmp]
    if dfs_queue:
        jopts.append("-Dtlc2.tool.queue.IStateQueue=StateDeque")
    cmd = ["java"] + jopts + ["-cp", TLA_JAR, "tlc2.TLC", "-metadir", meta, "-config", cfg,
                              "-workers", str(workers or NCPU), "-noGenerateSpecTE"]
    if coverage:
        cmd += ["-coverage", "1"]
    if not deadlock:
        pass  # deadlock checking is controlled by CHECK_DEADLOCK in the cfg
    if simulate:
        cmd += ["-simulate", "num=%d" % simulate]
        if depth:
            cmd += ["-depth", str(depth)]
        if seed_ is not None:
            cmd += ["-seed", str(seed_)]
    if dump:
        cmd += ["-dump", dump]
    cmd += list(extra)
    cmd += [spec if spec.endswith(".tla") else spec + ".tla"]
    outpath = keep_out or os.path.join(workdir, "tlc_%s_%s.out" % (os.path.basename(cfg), u))
    e = dict(os.environ)
    if env:
        e.update({k: str(v) for k, v in env.items()})
    r = TlcResult()
    # TLC reports progress once a minute. A run whose output stops growing for STALL_S seconds is stuck (seen once: a model that
    # takes a minute printed its first progress line and then nothing for 50 minutes on an overloaded machine); it is killed
    # and started again, once. Only the overall timeout makes the result `timed_out`.
    STALL_S = 900
    for attempt in (1, 2):
        stalled = False
        with open(outpath, "w") as fo:
            p = subprocess.Popen(cmd, cwd=SPECS, env=e, stdout=fo, stderr=subprocess.STDOUT)
            t_start, last_size, last_change = time.time(), -1, time.time()
            while True:
                try:
                    r.rc = p.wait(timeout=5)
                    break
                except subprocess.TimeoutExpired:
                    pass
                now = time.time()
                try:
                    sz = os.path.getsize(outpath)
                except OSError:
                    sz = last_size
                if sz != last_size:
                    last_size, last_change = sz, now
                if now - t_start > timeout or (attempt == 1 and now - last_change > STALL_S):
                    stalled = now - t_start <= timeout
                    p.kill()
                    p.wait()
                    r.rc = 124
                    r.timed_out = not stalled
                    break
        if not stalled:
            break
        shutil.rmtree(meta, ignore_errors=True)
        log("NOTE: TLC on %s produced no output for %d s; started again" % (os.path.basename(cfg), STALL_S))
    shutil.rmtree(meta, ignore_errors=True)
    r.wall = time.time() - t0
    r.outpath = outpath
    parse_tlc_output(r, outpath)
    return r


_cov_re = re.compile(r"^<(\w+) line (\d+), col (\d+) to line (\d+), col (\d+) of module (\w+)(?: \([\d ]+\))?>: (\d+):(\d+)")


def parse_tlc_output(r, outpath):
    tail = []
    with open(outpath, errors="replace") as f:
        for line in f:
            if line.startswith('<<"'):
                r.printed.append(line.rstrip("\n"))
                continue
            tail.append(line)
            if len(tail) > 4000:
                del tail[:2000]
            m = re.match(r"^(\d+) states generated, (\d+) distinct states found, (\d+) states left on queue", line)
            if m:
                r.generated, r.distinct, r.queue = int(m.group(1)), int(m.group(2)), int(m.group(3))
                continue
            m = re.match(r"^The depth of the complete state graph search is (\d+)", line)
            if m:
                r.depth = int(m.group(1))
                continue
            m = _cov_re.match(line)
            if m:
                name = m.group(1)
                a, b = int(m.group(7)), int(m.group(8))
                old = r.coverage.get(name, (0, 0))
                r.coverage[name] = (old[0] + a, old[1] + b)
                continue
            m = re.match(r"^Error: Invariant (\w+) is violated", line)
            if m:
                r.violated = m.group(1)
                continue
            if line.startswith("Error: Action property") or line.startswith("Error: Temporal properties were violated"):
                r.violated = r.violated or "property"
                continue
            m = re.match(r"^Error: (.*)", line)
            if m and not r.violated and not r.error:
                msg = m.group(1)
                if "The behavior up to this point" in msg or "The following behavior" in msg:
                    continue
                r.error = msg.strip()
            m = re.match(r"^Progress\(\d+\) at .*: ([\d,]+) states generated.*, ([\d,]+) distinct states found.*, ([\d,]+) states left", line)
            if m and r.generated == 0:
                r._prog = (int(m.group(1).replace(",", "")), int(m.group(2).replace(",", "")), int(m.group(3).replace(",", "")))
    r.out = "".join(tail)
    if r.generated == 0 and hasattr(r, "_prog"):
        r.generated, r.distinct, r.queue = r._prog
    if "Error: Postcondition" in r.out or "POSTCONDITION" in r.out and "violated" in r.out:
        r.violated = r.violated or "postcondition"


def tlc_or_broken(r, what):
    if r.timed_out:
        raise Broken("%s: TLC timed out after %.0fs" % (what, r.wall))
    if r.error or (r.rc not in (0,) and not r.violated):
        raise Broken("%s: TLC failed rc=%s error=%s\n%s" % (what, r.rc, r.error, r.out[-3000:]))


def write_cfg(path, text):
    with open(path, "w") as f:
        f.write(text)
    return path


def printed_json(r, tag):
    """Lines printed as PrintT(<<tag, ToJson(x)>>) -> list of python objects."""
    res = []
    pre = '<<"%s", "' % tag
    for l in r.printed:
        if l.startswith(pre) and l.endswith('">>'):
            body = l[len(pre):-3]
            body = body.replace('\\"', '"').replace("\\\\", "\\")
            try:
                res.append(json.loads(body))
            except Exception:
                pass
    return res


def iter_printed_json(outpath, tag):
    pre = '<<"%s", "' % tag
    with open(outpath, errors="replace") as f:
        for l in f:
            if l.startswith(pre):
                l = l.rstrip("\n")
                if l.endswith('">>'):
                    body = l[len(pre):-3].replace('\\"', '"').replace("\\\\", "\\")
                    try:
                        yield json.loads(body)
                    except Exception:
                        continue


# ----------------------------------------------------------------------------------------------
# Apalache

def apalache(spec, workdir, args, timeout=600):
    t0 = time.time()
    outdir = os.path.join(workdir, "apalache_" + uniq())
    cmd = ["apalache-mc", "check", "--out-dir=" + outdir, "--run-dir=" + os.path.join(outdir, "run")] + list(args) + [spec]
    rc, out = run(cmd, cwd=SPECS, timeout=timeout)
    shutil.rmtree(outdir, ignore_errors=True)
    return rc, out, time.time() - t0


# ----------------------------------------------------------------------------------------------
# known findings

def load_known():
    p = os.path.join(VERIF, "known_findings.json")
    if not os.path.exists(p):
        return []
    with open(p) as f:
        d = json.load(f)
    return [e for e in d.get("findings", []) if e.get("status") == "open"]


def match_known(prop, signature, known=None):
    """signature: string such as 'rule=EmptyNotDrained site=channel_read_map'. An open finding matches when
    every token of its 'signature' occurs in the given signature."""
    for e in (known if known is not None else load_known()):
        if e.get("property") != prop:
            continue
        toks = e.get("signature", "").split()
        if toks and all(t in signature.split() for t in toks):
            return e
    return None


# ----------------------------------------------------------------------------------------------
# verdicts + evidence

CURRENT = [None]   # the Check of this process (the `check` wrapper reports its violations even if a later stage cannot run)


class Check:
    def __init__(self, prop, tier, level):
        CURRENT[0] = self
        self.prop = prop
        self.tier = tier
        self.level = level
        self.t0 = time.time()
        self.cov = {"samples": []}
        self.assumptions = []
        self.violations = []      # (signature, replay path, text)
        self.known_hits = {}
        self.drift = []
        self.notes = []

    def add(self, key, n):
        self.cov[key] = self.cov.get(key, 0) + n

    def set(self, key, v):
        self.cov[key] = v

    def sample(self, s, limit=6):
        if len(self.cov["samples"]) < limit:
            self.cov["samples"].append(s)

    def assume(self, s):
        if s not in self.assumptions:
            self.assumptions.append(s)

    def drift_note(self, s):
        if len(self.drift) < 50:
            self.drift.append(s)
        log("DRIFT: property=%s %s" % (self.prop, s))

    def violation(self, signature, text, replay_obj=None, replay_path=None):
        """Report an Obs-level rejection. Matched against known_findings.json first."""
        k = match_known(self.prop, signature)
        if k is not None:
            key = k.get("signature")
            if key not in self.known_hits:
                self.known_hits[key] = k
                log("KNOWN-FINDING: property=%s %s" % (self.prop, k.get("what", signature)))
            return False
        if replay_path is None:
            os.makedirs(REPLAYS, exist_ok=True)
            h = hashlib.sha1((signature + text).encode()).hexdigest()[:10]
            replay_path = os.path.join(REPLAYS, "%s_%s.json" % (self.prop, h))
            with open(replay_path, "w") as f:
                json.dump({"property": self.prop, "signature": signature, "what": text, "replay": replay_obj}, f, indent=1)
        if len(self.violations) < 20:
            log("VIOLATION property=%s replay=%s" % (self.prop, replay_path))
            log("  signature: %s" % signature)
            log("  %s" % text[:600])
        self.violations.append((signature, replay_path, text))
        return True

    def finish(self):
        os.makedirs(EVIDENCE, exist_ok=True)
        cov = self.cov
        if not cov["samples"]:
            cov["samples"] = ["(no sample recorded)"]
        if self.drift:
            cov["drift_transitions"] = len(self.drift)
            cov["drift_examples"] = self.drift[:5]
        if self.known_hits:
            cov["known_findings_reproduced"] = sorted(self.known_hits)
        if self.notes:
            cov["notes"] = self.notes
        ev = {
            "property_id": self.prop, "tier": self.tier, "seed": seed(), "level": self.level,
            "coverage": cov, "assumptions": self.assumptions, "wall_s": round(time.time() - self.t0, 2),
            "violations": len(self.violations),
        }
        with open(os.path.join(EVIDENCE, self.prop + ".json"), "w") as f:
            json.dump(ev, f, indent=1, default=str)
        if self.violations:
            log("RESULT property=%s tier=%s violations=%d wall=%.1fs" % (self.prop, self.tier, len(self.violations), ev["wall_s"]))
            return 1
        log("RESULT property=%s tier=%s OK wall=%.1fs" % (self.prop, self.tier, ev["wall_s"]))
        return 0


def require_coverage(r, names, what):
    """Vacuity guard: every named action must have generated at least one successor."""
    missing = [n for n in names if r.coverage.get(n, (0, 0))[1] == 0]
    if missing:
        raise Broken("%s: actions never taken (vacuous): %s" % (what, missing))


def parallel_map(fn, items, workers=None):
    with cf.ThreadPoolExecutor(max_workers=workers or NCPU) as ex:
        return list(ex.map(fn, items))
