"""C18: simulated cameras deliver fresh, increasing, trigger-gated frames; stop unblocks a pending frame call.

  (1) TLC: SimCamStream (PlusCal: streamer / controller / caller with the lock, both condition variables and the unlocked
      flag reads where the code has them): safety invariant + liveness (stop returns, a pending call is released) under fairness.
  (2) code -> spec: the real simulated.camera.c under the deterministic scheduler (random / PCT / starvation schedules,
      spurious wake-ups, trigger on/off, restarts), hang oracle; every trace judged by SimCamStreamObs in TLC.
"""
import json, os, random
from vlib import *
from chk_chanconc import PLATFORM_WRAPS, run_many, concat, exec_of

RULES = {"FrameIdInvalid", "FrameIdNotIncreasing", "FrameWithoutTrigger", "FrameWithoutTriggerAfterEnable", "FrameIdBeyondTriggers", "FrameSameImageTwice",
         "FrameIdBeyondGenerated", "StopDidNotReturn",
         "FrameCallNotReleased", "HangOther"}
# C17 clauses SimCamStreamObs also evaluates on these executions (a camera re-configured while a frame call is pending);
# they are judged by the C17 check (chk_simcam_cfg.py calls reshape_family below), not by C18
RULES_C17 = {"FrameWritesPastImage", "FrameNotFilled"}


def build(bdir):
    srcs = ["acquire-driver-common/src/simcams/simulated.camera.c", "acquire-driver-common/src/simcams/popcount.cpp",
            "acquire-driver-common/src/simcams/imfill.pattern.cpp",
            "acquire-driver-common/src/simcams/3rdParty/pcg-c-basic-0.9/pcg_basic.c",
            "acquire-core-libs/src/acquire-core-logger/logger.c", "acquire-core-libs/src/acquire-core-platform/linux/platform.c",
            "acquire-core-libs/src/acquire-device-properties/device/props/components.c",
            "acquire-core-libs/src/acquire-device-properties/device/props/device.c",
            os.path.join(HARNESS, "simcam/simcam_vs.c"), os.path.join(HARNESS, "vsched/vsched.c")]
    objs = compile_objs(bdir, srcs, extra_inc=[os.path.join(HARNESS, "vsched"),
                                               os.path.join(REPO, "acquire-driver-common/src/simcams/3rdParty/pcg-c-basic-0.9")],
                        cflags=["-mavx2"], cxxflags=["-mavx2"])
    return link(os.path.join(bdir, "simcam_vs"), objs, wraps(PLATFORM_WRAPS))


def gen_config(rng, out, reshape=False):
    lines = ["seed %d" % rng.randint(1, 10**9)]
    strat = rng.choice(["random", "random", "pct", "starve", "starve"])
    lines.append("strategy " + strat)
    if strat == "pct":
        lines += ["pct_depth %d" % rng.randint(1, 4), "pct_len %d" % rng.choice([100, 300, 800])]
    if strat == "starve":
        lines.append("starve %d %d" % (rng.randint(0, 3), rng.choice([5, 15, 40, 100, 250])))
    if rng.random() < 0.2:
        lines.append("spurious %d" % rng.choice([2, 3, 5]))
    trig = 1 if rng.random() < 0.6 else 0
    lines += ["kind %d" % rng.choice([0, 1, 2, 2]), "trig %d" % trig, "caller %d" % rng.randint(1, 5)]
    ctl = []
    if not reshape and rng.random() < 0.2:
        # re-gating: the camera runs freely (a trigger may be fired meanwhile, or the trigger was on and is switched off),
        # some frames are taken, then the trigger is enabled while no frame call is in progress: from then on one trigger
        # per frame, but for the exposure in flight
        first = rng.random() < 0.3
        lines[-2:] = ["trig %d" % (1 if first else 0), "caller %d" % rng.randint(4, 8)]
        ctl = ["start"]
        if first:
            ctl += ["trigger"] * rng.randint(0, 2) + ["yield", str(rng.choice([0, 5, 30])), "settrig", "0"]
        for _ in range(rng.randint(0, 2)):
            ctl += ["trigger", "yield", str(rng.choice([0, 1, 5, 20, 60]))]
        if rng.random() < 0.7:
            ctl += ["waitframes", str(rng.randint(1, 3))]
        if rng.random() < 0.5:
            ctl += ["trigger"]
        ctl += ["yield", str(rng.choice([0, 3, 20, 80])), "pause", "mark", "settrig", "1", "resume", "yield", str(rng.choice([20, 60, 150]))]
        if rng.random() < 0.7:
            # the streamer (thread 2 in the first run) lags from the mark on: an exposure in flight stays in flight until
            # the caller has asked for a frame again
            lines.append("window ctl_mark 0 2 %d x" % rng.choice([15, 40, 100]))
        for _ in range(rng.randint(0, 2)):
            ctl += ["trigger", "yield", str(rng.choice([5, 40]))]
        ctl += ["stop"]
        lines.append("ctl " + " ".join(ctl))
        lines.append("out " + out)
        return "\n".join(lines) + "\n"
    if not reshape and rng.random() < 0.08:
        # stop right after start: the freshly created streamer (thread 2) has not run yet when stop arrives, while the caller's
        # first frame call is somewhere between its entry and its wait - stop has to release it all the same
        ctl = ["mark", "start"] + (["yield", str(rng.choice([0, 1, 2, 4]))] if rng.random() < 0.6 else []) + ["stop"]
        lines.append("window ctl_mark 0 2 %d x" % rng.choice([30, 80, 200]))
        lines.append("ctl " + " ".join(ctl))
        lines.append("out " + out)
        return "\n".join(lines) + "\n"
    for run in range(rng.randint(1, 3)):
        # re-configuration while stopped: any number of trigger toggles (incl. off-and-on-again) before the next start
        if reshape and rng.random() < 0.4:
            ctl += ["setshape", str(rng.choice([2, 4, 8, 33, 64])), str(rng.choice([1, 4, 17, 32])), str(rng.choice([0, 1, 4]))]
        for _ in range(rng.choice([0, 0, 0, 1, 2, 2, 3])):
            trig = 1 - trig
            ctl += ["settrig", str(trig)]
            if rng.random() < 0.3:
                ctl += ["yield", str(rng.choice([0, 2, 8]))]
        ctl += ["start"]
        for _ in range(rng.randint(0, 5)):
            r = rng.random()
            if r < 0.5:
                ctl += ["trigger"]
            elif r < 0.6 and trig:
                ctl += ["trigger", "trigger"]
            elif r < 0.65:
                trig = 1 - trig
                ctl += ["settrig", str(trig)]
            elif r < 0.72:
                ctl += ["settrig", str(trig)]      # a reconfiguration while running that leaves the trigger setting as it is
            elif r < 0.78:
                ctl += ["setline", str(rng.choice([0, 1, 2, 7]))]   # ... naming another input line for the frame trigger
            elif reshape and r < 0.95:
                # another shape / sample type while running (a frame call may be pending): SampleType u8 u16 i8 i16 f32 u10 u12 u14
                ctl += ["setshape", str(rng.choice([1, 3, 4, 16, 33, 64])), str(rng.choice([1, 2, 5, 17, 40])), str(rng.choice([0, 1, 2, 3, 4, 6]))]
            ctl += ["yield", str(rng.choice([0, 1, 3, 8, 20, 60]))]
        if rng.random() < 0.3:
            ctl += ["waitframes", str(rng.randint(1, 3))] if not trig else []
        ctl += ["stop"]
        if rng.random() < 0.5:
            ctl += ["yield", str(rng.choice([0, 2, 10]))]
    lines.append("ctl " + " ".join(ctl))
    lines.append("out " + out)
    return "\n".join(lines) + "\n"


def validate(trace, workdir):
    cfg = os.path.join(SPECS, "SimCamStreamObs.cfg")
    r = tlc("SimCamStreamObs", cfg, workdir, workers=1, timeout=1200, env={"TRACE": trace}, coverage=False, heap="4g")
    v = printed_json(r, "VERDICT")
    if not v:
        raise Broken("SimCamStreamObs produced no verdict: rc=%s %s\n%s" % (r.rc, r.error, r.out[-2000:]))
    if v[0]["consumed"] != sum(1 for _ in open(trace)):
        raise Broken("SimCamStreamObs did not consume the whole trace")
    return v[0]


def judge(chk, trace, idx, cfgs, bdir, rules=None):
    rules = rules or RULES
    v = validate(trace, bdir)
    lines = open(trace).read().splitlines()
    per = {}
    for rule, line in v["bad"]:
        if rule not in rules:
            if rule in RULES | RULES_C17:
                continue     # the other property's clause
            raise Broken("SimCamStreamObs flagged %s at line %d: %s" % (rule, line, lines[line - 1][:200]))
        e = exec_of(idx, line)
        first = [f for f, i in idx if i == e][0]
        # context: was the run restarted before, was the trigger enabled
        restarted = sum(1 for l in lines[first - 1:line] if '"StartCall"' in l) > 1
        sig = "rule=%s event=%s%s" % (rule, json.loads(lines[line - 1])["e"], " restarted" if restarted else "")
        per[sig] = per.get(sig, 0) + 1
        if per[sig] > 3:
            continue
        cfgtxt = open(cfgs[e]).read()
        chk.violation(sig, "%s refused %s\nconfig:\n%s" % (rule, lines[line - 1][:200], cfgtxt), replay_obj={"kind": "simcam_vs", "config": cfgtxt, "rule": rule})
    chk.cov.setdefault("refusal_signatures", {}).update(per)
    return v


def replay_script(prop, path):
    obj = json.load(open(path))["replay"]
    bdir = build_dir("replay_" + prop)
    exe = build(bdir)
    out = os.path.join(bdir, "replay.ndjson")
    cfgp = os.path.join(bdir, "replay.cfg")
    open(cfgp, "w").write("\n".join(l for l in obj["config"].splitlines() if not l.startswith("out ")) + "\nout %s\n" % out)
    run([exe, cfgp], timeout=120)
    v = validate(out, bdir)
    for l in open(out):
        if '"Sched"' not in l:
            log("  " + l.rstrip())
    hits = [b for b in v["bad"] if b[0] in RULES]
    if hits:
        log("VIOLATION property=%s replay=%s" % (prop, path))
        log("  refused: %s" % hits)
        return 1
    log("replay accepted by SimCamStreamObs")
    return 0


def model_cfg(path, enable, runs, maxtrig, maxget, fixed, props=True, toggle=False, nsets=None, maxfid=6, clear=True):
    """toggle: every simcam_set of the model switches the software trigger over (nsets of them); clear=False is the seeded
    variant C18i (the streamer clears `triggered` only while the trigger is enabled), used for the self-test."""
    t = "CONSTANTS Enable = %s Runs = %d MaxTrig = %d MaxGet = %d ResetAtStart = %s MaxFid = %d NSets = %d Toggle = %s ClearAlways = %s\n" % (
        "TRUE" if enable else "FALSE", runs, maxtrig, maxget, "TRUE" if fixed else "FALSE", maxfid,
        nsets if nsets is not None else (1 if enable else 0), "TRUE" if toggle else "FALSE", "TRUE" if clear else "FALSE")
    t += "SPECIFICATION Spec\nINVARIANTS NoBad NoSetWhileRendering\nCONSTRAINT Bounded\nCHECK_DEADLOCK FALSE\n"
    if props:
        t += "PROPERTIES StopReturns CallReleased SetReturns\n"
    return write_cfg(path, t)


def reshape_family(chk, bdir, n, rng):
    """C17 on the concurrent camera: executions in which shape and sample type change while the camera runs (a frame call may
    be pending), judged by SimCamStreamObs' C17 clauses. Called by chk_simcam_cfg.py."""
    sub = os.path.join(bdir, "vs")
    exe = build(sub)
    cfgs, traces = [], []
    for i in range(n):
        out = os.path.join(sub, "s_%d.ndjson" % i)
        p = os.path.join(sub, "s_%d.cfg" % i)
        open(p, "w").write(gen_config(rng, out, reshape=True))
        cfgs.append(p); traces.append(out)
    res = run_many(exe, cfgs, timeout=120)
    bad = [(c, rc, o) for c, (rc, o) in zip(cfgs, res) if rc != 0]
    if bad:
        crash_or_broken(bad[0][1], bad[0][2], "simcam_vs", "simcam_vs on " + open(bad[0][0]).read().replace("\n", "; ")[:600])
    allp = os.path.join(sub, "all.ndjson")
    idx = concat(traces, allp)
    v = judge(chk, allp, idx, cfgs, sub, rules=RULES_C17)
    txt = open(allp).read()
    nset = txt.count('"e":"SetTrig"')
    nframes = sum(1 for l in txt.splitlines() if '"GetFrameRet"' in l and '"rc":0' in l and '"nbytes":0' not in l)
    if nframes < n // 4 or nset < n // 2:
        raise Broken("vacuous reshape family: %d frames, %d sets in %d runs" % (nframes, nset, n))
    chk.cov["reconfigure_while_running"] = {"runs": n, "sets": nset, "data_frames": nframes, "events": v["consumed"]}
    for f in traces + cfgs + [allp]:
        try: os.remove(f)
        except OSError: pass
    return v["consumed"]


def main(prop, tier):
    chk = Check(prop, tier, "model_checking")
    bdir = build_dir(prop)
    exe = build(bdir)
    thorough = tier == "thorough"
    rng = random.Random(seed() * 7919 + 18)
    # (1) model
    models = [(True, 2, 2, 2), (False, 2, 1, 2)] if not thorough else [(True, 2, 3, 3), (False, 2, 2, 3), (True, 3, 2, 2)]
    # ... and with the trigger switched over by simcam_set while the camera runs (toggle: enable, maxtrig, maxget, nsets, maxfid):
    # the model carries SimCamStreamObs' trigger accounting (FrameWithoutTrigger, FrameWithoutTriggerAfterEnable) as ghost state,
    # so NoBad says that no interleaving of the code as it is can be refused by those rules
    toggles = [(False, 1, 2, 1, 2)] if not thorough else [(True, 1, 2, 2, 3), (False, 1, 3, 1, 4), (True, 1, 3, 2, 3)]
    states = trans = 0
    import concurrent.futures as cf
    def run_model(m):
        if len(m) == 5:
            cfg = model_cfg(os.path.join(bdir, "mt_%d_%d_%d_%d_%d.cfg" % (int(m[0]), m[1], m[2], m[3], m[4])), m[0], 1, m[1], m[2], True,
                            props=True, toggle=True, nsets=m[3], maxfid=m[4])
            return m, tlc("SimCamStream", cfg, bdir, workers=5, timeout=2400, heap="8g")
        cfg = model_cfg(os.path.join(bdir, "m_%d_%d_%d_%d.cfg" % (int(m[0]), m[1], m[2], m[3])), m[0], m[1], m[2], m[3], True, props=m[0])
        return m, tlc("SimCamStream", cfg, bdir, workers=6, timeout=1500, heap="8g")
    with cf.ThreadPoolExecutor(max_workers=3) as ex:
        futs = [ex.submit(run_model, m) for m in models + toggles]
        # (2) executions meanwhile
        n = 4000 if thorough else 800
        cfgs, traces = [], []
        for i in range(n):
            out = os.path.join(bdir, "r_%d.ndjson" % i)
            p = os.path.join(bdir, "r_%d.cfg" % i)
            open(p, "w").write(gen_config(rng, out, reshape=(i % 5 == 4)))
            cfgs.append(p); traces.append(out)
        res = run_many(exe, cfgs, timeout=120)
        bad = [(c, rc, o) for c, (rc, o) in zip(cfgs, res) if rc != 0]
        if bad:
            crash_or_broken(bad[0][1], bad[0][2], "simcam_vs", "simcam_vs on " + open(bad[0][0]).read().replace("\n", "; ")[:600])
        mres = [f.result() for f in futs]
    for m, r in mres:
        what = ("SimCamStream trigger=%s runs=%d maxtrig=%d maxget=%d" % m) if len(m) == 4 else \
               ("SimCamStream trigger initially %s, switched over by %d set(s), maxtrig=%d maxget=%d maxfid=%d" % (m[0], m[3], m[1], m[2], m[4]))
        if r.violated:
            raise Broken("%s violates %s (model of the repaired camera is wrong): %s" % (what, r.violated, r.outpath))
        tlc_or_broken(r, what)
        states += r.distinct; trans += r.generated
        chk.cov.setdefault("models", []).append({"model": what, "distinct_states": r.distinct, "transitions": r.generated, "wall_s": round(r.wall, 1)})
    chk.set("states", states); chk.set("transitions", trans)
    # an observation outside the property (DESIGN 15.6), reproduced by the model: a disabling set can leave the streamer asleep
    # on trigger_ready although the trigger is off. Recorded in the evidence only; the result does not depend on it.
    scfg = write_cfg(os.path.join(bdir, "stall.cfg"),
                     "CONSTANTS Enable = TRUE Runs = 1 MaxTrig = 1 MaxGet = 2 ResetAtStart = TRUE MaxFid = 2 NSets = 1 Toggle = TRUE ClearAlways = TRUE\n"
                     "SPECIFICATION Spec\nINVARIANT NeverStalled\nCONSTRAINT Bounded\nCHECK_DEADLOCK FALSE\n")
    rs = tlc("SimCamStream", scfg, bdir, workers=4, timeout=600, heap="4g")
    chk.set("observation_free_running_camera_can_wait_for_a_trigger", {"model_state_reachable": bool(rs.violated), "judged": False})
    allp = os.path.join(bdir, "all.ndjson")
    idx = concat(traces, allp)
    v = judge(chk, allp, idx, cfgs, bdir)
    txt = open(allp).read()
    stats = {k: txt.count('"e":"%s"' % k) for k in ("GetFrameRet", "Trig", "StartCall", "StopCall", "Hang", "SetTrig")}
    stats["data_frames"] = sum(1 for l in txt.splitlines() if '"GetFrameRet"' in l and '"rc":0' in l and '"nbytes":0' not in l)
    chk.set("execution_stats", stats)
    if stats["data_frames"] < 200 or stats["StartCall"] < n:
        raise Broken("vacuous executions: %s" % stats)
    chk.set("traces_validated_against_impl", len(idx))
    chk.set("events_validated", v["consumed"])
    chk.sample({"config": open(cfgs[0]).read().splitlines()})
    chk.sample({"trace_prefix": [json.loads(l) for l in open(traces[0]).read().splitlines()[:12]]})
    chk.assume("client contract: start is not issued while a frame call of the previous run is still in flight")
    chk.assume("sequentially consistent accesses to the unlocked flags (is_running, frame_wanted)")
    chk.set("checker_cmd", "tlc SimCamStream (safety+liveness); tlc SimCamStreamObs with TRACE=<vsched traces>")
    for f in traces + cfgs:
        try: os.remove(f)
        except OSError: pass
    return chk.finish()
