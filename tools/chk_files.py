"""C14 C15 C16: what the storage devices (raw / tiff / tiff-json / trash) write to files and how they treat descriptors.

  (1) TLC on the implementation-shaped models RawWriter / TiffWriter (+ composite) composed with the OS model FileOsModel:
      exhaustive for small constants; invariants = the property clauses (file = appended frames; directory chain of exactly
      N entries ending in 0; sections disjoint and inside the file; only owned descriptors; failure reported; no unbounded
      recursion).  The as-it-was variants (FIXED / FIX_* = 0) are run as well and must violate them (recorded as evidence).
  (2) spec -> code: TLC exports every transition of a bounded graph with a witness history (set/start/append*/stop cycles,
      packets, short-write scripts, fault index); harness/files/files_seq.cpp drives the REAL devices through the REAL HAL
      along each history, the OS seam plays the script, and the returned states and the exact OS call sequence (call,
      descriptor, offset, length, result) are compared with the model after every step      -> DRIFT only.
  (3) code -> spec: every execution's trace (device calls + OS calls + read-back of raw files) is judged by the total trace
      spec FileObs in TLC (C14, C16); every finished .tif / metadata.json is parsed by the independent reader
      tools/tiffread.py and its events judged by TiffObs (C15)                               -> VIOLATION.
  (4) seeded random histories (shapes incl. odd sizes, all sample types, metadata, pixel scales, file:// URIs, byte-granular
      short writes) and, for C16, exhaustive fault enumeration: every fallible OS call index of reference histories x
      transient/persistent x storage kind, each case in a child process with a small stack and a watchdog.
"""
import json, os, random, shutil, time, concurrent.futures as cf
from vlib import *
import tiffread

DRIVER_SRCS = [
    "acquire-driver-common/src/basics.driver.c",
    "acquire-driver-common/src/storage/basic.storage.c",
    "acquire-driver-common/src/storage/raw.c",
    "acquire-driver-common/src/storage/trash.c",
    "acquire-driver-common/src/storage/tiff.cpp",
    "acquire-driver-common/src/storage/side-by-side-tiff.cpp",
    "acquire-driver-common/src/simcams/simulated.camera.c",
    "acquire-driver-common/src/simcams/popcount.cpp",
    "acquire-driver-common/src/simcams/imfill.pattern.cpp",
    "acquire-driver-common/src/simcams/3rdParty/pcg-c-basic-0.9/pcg_basic.c",
    "acquire-core-libs/src/acquire-core-logger/logger.c",
    "acquire-core-libs/src/acquire-core-platform/linux/platform.c",
    "acquire-core-libs/src/acquire-device-hal/device/hal/driver.c",
    "acquire-core-libs/src/acquire-device-hal/device/hal/storage.c",
    "acquire-core-libs/src/acquire-device-properties/device/props/components.c",
    "acquire-core-libs/src/acquire-device-properties/device/props/device.c",
    "acquire-core-libs/src/acquire-device-properties/device/props/storage.c",
]
OS_WRAPS = ["open", "close", "pwrite", "flock", "unlink", "access"]

RULES = {
    "C14": {"RawFileMissing", "RawFileShiftedByHole", "RawFileMismatch", "OpenWrongPath"},
    "C15": {"BadHeader", "FirstLinkOutsideFile", "DirectoryOutsideFile", "RequiredTagMissing", "StripOutsideFile",
            "DescriptionOutsideFile", "LinkOutsideFile", "StructuresOverlap", "WrongWidthHeight", "WrongBitsPerSample",
            "WrongSampleFormat", "StripBytesDiffer", "DescriptionNotJson", "DescriptionWrongIds", "MetadataNotOnFirstFrame",
            "MetadataNotTheUsers", "MetadataOnLaterFrame", "FileMissing", "TooFewDirectories", "TooManyDirectories", "ChainNotTerminated",
            "MetadataJsonWrong"},
    "C16": {"DoubleClose", "CloseForeignDescriptor", "CloseStdDescriptor", "CloseNeverOpened", "WriteAfterClose",
            "WriteForeignDescriptor", "WriteNeverOpened", "FlockAfterClose", "FlockForeignDescriptor", "FlockNeverOpened",
            "DescriptorLeak", "FailureNotReported", "RunningAfterCreateFailed", "Crash", "StackOverflow", "Timeout", "OpenWrongPath"},
}
HARNESS_RULES = {"HarnessBadEvent", "HarnessNestedCall", "HarnessFdNotLowestFree", "HarnessPwriteResult",
                 "HarnessFileModelMismatch", "UnknownEvent", "ChainOrderBroken", "HarnessEofCount", "HarnessBadAcq",
                 "HarnessPacketNotCellAligned"}
TYPES = ["u8", "u16", "i8", "i16", "f32", "u10", "u12", "u14"]
BPP = tiffread.BPP
METAS = ['{"k":1}', '{"hello":"world","n":[1,2,3]}', '{"a":{"b":"c d"},"e":1.5}', '{}', '{"list":[{"x":1},{"x":2}],"s":"\\u00e9"}',
         # characters that are special to printf-style formatting, JSON escaping and C strings
         '{"laser_power":"50% of max","zoom":"150%"}', '{"fmt":"%s %d %n %%","q":"a\\"b","bs":"c\\\\d"}', '{"pct":"100%","t":"\\t"}']
SCALES = [(1, 1), (0.5, 0.25), (2, 3), (0, 0), (1.5, 0.001), (6.5, 6.5)]
TLC_WORKERS = max(2, min(8, NCPU // 2))


def build_files(bdir):
    objs = compile_objs(bdir, DRIVER_SRCS + [os.path.join(HARNESS, "files/files_seq.cpp")],
                        cflags=["-mavx2"], cxxflags=["-mavx2"], defs=["NO_UNIT_TESTS"],
                        extra_inc=[os.path.join(REPO, "acquire-driver-common/src/simcams/3rdParty/pcg-c-basic-0.9")])
    return link(os.path.join(bdir, "files_seq"), objs, wraps(OS_WRAPS))


# ------------------------------------------------------------------------------------------------ cases
def frame_tok(f):
    return "%d,%d,%s,%d,%d,%d,%d,%d" % (f["w"], f["h"], f["ty"], f["pad"], f["id"], f["hw"], f["trt"], f["thw"]) + (",z" if f.get("z") else "")


def ext_of(kind):
    return {"raw": ".raw", "tiff": ".tif", "tiff-json": ".d", "trash": ".x"}[kind]


def case_text(c):
    L = ["case %d" % c["id"], "unit %d" % c.get("unit", 0), "stack %d" % c.get("stack", 256), "timeout %d" % c.get("timeout", 20)]
    if c.get("fault"):
        L.append("fault %d %s" % (c["fault"][0], c["fault"][1]))
    for d, k in sorted(c["devs"].items()):
        L.append("dev %d %s" % (int(d), k))
    for p, name in sorted(c["paths"].items()):
        L.append("path %d %s" % (int(p), name))
    for m, txt in sorted(c.get("metas", {}).items()):
        L.append("meta %d %s" % (int(m), txt))
    for o in c["ops"]:
        t = "op %s %d" % (o["op"], o["d"])
        if o["op"] == "set":
            t += " %d %s %s %r %r" % (o["pid"], o.get("form", "plain"), o["mid"] if o.get("mid") else "-", o.get("sx", 1), o.get("sy", 1))
        elif o["op"] == "append":
            t += " " + " ".join(frame_tok(f) for f in o["frames"])
        if o.get("sw"):
            t += " sw " + ",".join(o["sw"])
        L.append(t)
    L.append("end")
    return "\n".join(L) + "\n"


def norm_case(c):
    """JSON round trips turn int keys into strings."""
    c["devs"] = {int(k): v for k, v in c["devs"].items()}
    c["paths"] = {int(k): v for k, v in c["paths"].items()}
    c["metas"] = {int(k): v for k, v in c.get("metas", {}).items()}
    if c.get("fault"):
        c["fault"] = tuple(c["fault"])
    return c


def run_chunk(exe, cases, bdir, tag):
    cf_ = os.path.join(bdir, tag + ".cases")
    tr = os.path.join(bdir, tag + ".ndjson")
    wd = os.path.join(bdir, tag + ".w")
    shutil.rmtree(wd, ignore_errors=True)
    os.makedirs(wd)
    with open(cf_, "w") as f:
        for c in cases:
            f.write(case_text(c))
    rc, out = run([exe, cf_, tr, wd], timeout=120 + 25 * len(cases))
    if rc != 0:
        raise Broken("files_seq failed (rc=%s) on %s: %s" % (rc, cf_, out[-800:]))
    return tr, wd


def run_cases(exe, cases, bdir, tag, nchunks=None):
    """Runs the cases in parallel chunks. Returns list of (cases, trace, workdir)."""
    n = nchunks or max(1, min(NCPU, (len(cases) + 39) // 40))
    chunks = [cases[i::n] for i in range(n)]
    chunks = [c for c in chunks if c]
    with cf.ThreadPoolExecutor(max_workers=NCPU) as ex:
        res = list(ex.map(lambda ic: run_chunk(exe, ic[1], bdir, "%s_%02d" % (tag, ic[0])), enumerate(chunks)))
    return [(c, tr, wd) for c, (tr, wd) in zip(chunks, res)]


def split_trace(trace):
    """-> list of (first_line_number, [events]) per execution, and the raw lines."""
    lines = open(trace).read().splitlines()
    execs = []
    for i, l in enumerate(lines, 1):
        e = json.loads(l)
        if e["e"] == "Reset":
            execs.append((i, [e]))
        elif execs:
            execs[-1][1].append(e)
    return execs, lines


def per_op(events):
    """Group one execution's events by harness op: [{call, os:[...], ret, reads:[...]}...], exit event."""
    ops, ex = [], None
    cur = None
    for e in events[1:]:
        k = e["e"]
        if k == "Call":
            cur = {"call": e, "os": [], "ret": None, "reads": [], "skip": False}
            ops.append(cur)
        elif k == "Skip":
            ops.append({"call": e, "os": [], "ret": None, "reads": [], "skip": True})
            cur = None
        elif k == "Ret":
            if cur is not None:
                cur["ret"] = e
        elif k == "FileRead":
            if ops:
                ops[-1]["reads"].append(e)
        elif k == "Exit":
            ex = e
        elif cur is not None:
            cur["os"].append(e)
    return ops, ex


# ------------------------------------------------------------------------------------------------ TLC helpers
def mc_cfg(path, consts, invariants, export=False):
    t = "CONSTANTS " + " ".join("%s = %s" % kv for kv in consts.items()) + "\nSPECIFICATION Spec\nVIEW View\nCHECK_DEADLOCK FALSE\n"
    if export:
        t += "ACTION_CONSTRAINT EmitEdge\n"
    if invariants:
        t += "INVARIANTS " + " ".join(invariants) + "\n"
    return write_cfg(path, t)


def tla(v):
    if isinstance(v, bool):
        return "TRUE" if v else "FALSE"
    return str(v)


RAW_INV = ["NoErr", "TypeOK", "OwnsItsFile", "RunningFile"]
TIFF_INV = ["NoErr", "NoCrash", "TypeOK", "OwnsItsFile", "Cursors", "InnerFollowsOuter"]


def raw_consts(**kw):
    c = dict(NDev=2, NPaths=3, MaxCycles=2, MaxAppends=2, PacketSizes="{1, 2, 3}", NScripts=5, MaxFaultAt=8, FIXED=1, SetRunning="TRUE", FIX_SET=1,
             MaxFd=5, Ghost="TRUE", Export="FALSE")
    c.update({k: tla(v) for k, v in kw.items()})
    return c


def tiff_consts(**kw):
    c = dict(NDev=1, NPaths=3, Kinds1='{"tiff", "sbs"}', MaxCycles=2, MaxAppends=2, MaxPacket=2, Real="FALSE", NKinds=2, NScripts=3,
             MaxFaultAt=0, MaxDepth=4, FIX_TIFF=1, FIX_SBS=1, FIX_META=1, SetRunning="TRUE", FIX_SET=1, MaxFd=5, Ghost="TRUE",
             Export="FALSE")
    c.update({k: tla(v) for k, v in kw.items()})
    return c


def run_mc(spec, name, consts, inv, bdir, timeout, workers=None):
    cfg = mc_cfg(os.path.join(bdir, name + ".cfg"), consts, inv)
    r = tlc(spec, cfg, bdir, workers=workers or TLC_WORKERS, timeout=timeout, coverage=False, heap="3g")
    return r


def run_export(spec, name, consts, bdir, timeout):
    c = dict(consts)
    c["Export"] = "TRUE"
    cfg = mc_cfg(os.path.join(bdir, name + ".cfg"), c, ["TypeOK"], export=True)
    r = tlc(spec, cfg, bdir, workers=1, timeout=timeout, coverage=False, heap="3g")
    tlc_or_broken(r, "export of " + name)
    edges = list(iter_printed_json(r.outpath, "EDGE"))
    os.remove(r.outpath)
    return r, edges


def validate(spec, trace, workdir, heap="3g"):
    cfg = os.path.join(SPECS, spec + ".cfg")
    r = tlc(spec, cfg, workdir, workers=1, timeout=1500, env={"TRACE": trace}, coverage=False, heap=heap)
    v = printed_json(r, "VERDICT")
    if not v:
        raise Broken("%s produced no verdict for %s: rc=%s %s\n%s" % (spec, trace, r.rc, r.error, r.out[-2500:]))
    nlines = sum(1 for _ in open(trace))
    if v[0]["consumed"] != nlines:
        raise Broken("%s consumed %d of %d events of %s" % (spec, v[0]["consumed"], nlines, trace))
    try:
        os.remove(r.outpath)
    except OSError:
        pass
    return v[0]


# ------------------------------------------------------------------------------------------------ model history -> case
RAW_UNITS = [104, 97, 128, 131, 100, 160]
RAW_SW = {"F": "F", "Z": "Z"}


def shape_for(rng, room, aligned_pad=None):
    """A frame shape whose pixel bytes fit into `room` bytes; returns (w, h, ty, pad)."""
    for _ in range(20):
        ty = rng.choice(TYPES)
        b = BPP[ty]
        if room // b >= 1:
            break
    else:
        ty, b = "u8", 1
    mx = room // b
    w = rng.randint(1, min(mx, 9))
    h = rng.randint(1, max(1, min(mx // w, 7)))
    return w, h, ty, room - w * h * b


def digits(rng, n):
    return rng.randint(10 ** (n - 1) if n > 1 else 0, 10 ** n - 1)


def raw_frames(rng, ncells, U, nid):
    frames, left = [], ncells
    while left > 0:
        c = rng.randint(1, left)
        w, h, ty, pad = shape_for(rng, c * U - 96)
        frames.append(dict(w=w, h=h, ty=ty, pad=pad, id=nid + len(frames), hw=rng.randint(0, 2 ** 40), trt=rng.randint(0, 2 ** 50),
                           thw=rng.randint(0, 2 ** 50)))
        left -= c
    return frames


def raw_edge_to_case(edge, cid, rng):
    U = rng.choice(RAW_UNITS)
    f = edge["fault"]
    c = dict(id=cid, unit=U, fault=(f["at"], "p" if f["pers"] else "t") if f["at"] else None, devs={}, paths={}, metas={}, ops=[],
             expect=[], origin="RawWriter")
    nid = {}
    for st in edge["path"]:
        d = st["d"] - 1
        c["devs"][d] = "raw"
        o = dict(op=st["op"], d=d)
        if st["op"] == "set":
            p = st["arg"]
            c["paths"][p] = "x%d_p%d.raw" % (cid, p)
            o.update(pid=p, form=rng.choice(["plain", "file"]), mid=None, sx=1, sy=1)
        elif st["op"] == "start":
            nid[d] = 0
        elif st["op"] == "append":
            o["frames"] = raw_frames(rng, st["arg"], U, nid.get(d, 0))
            nid[d] = nid.get(d, 0) + len(o["frames"])
            o["sw"] = [{"H": "h%d" % U, "S1": "S%d" % U}.get(t, t) for t in st["sw"]]
        exp = []
        for x in st["os"]:
            if x["c"] == "open":
                exp.append(("Open", x["a"], x["r"]))
            elif x["c"] == "unlink":
                exp.append(("Unlink", x["a"], 0))
            elif x["c"] == "pwrite":
                exp.append(("Pwrite", x["a"], x["off"] * U, x["n"] * U, x["r"] * U if x["r"] > 0 else x["r"]))
            else:
                exp.append((x["c"].capitalize(), x["a"], x["r"]))
        c["ops"].append(o)
        c["expect"].append(dict(st=st["st"], os=exp))
    return c


TIFF_KINDS = {1: (8, 77), 2: (13, 88), 3: (24, 81)}     # FrameKinds of TiffWriter with Real = TRUE: strip bytes, description bytes
META_REAL = '{"k":1}'                                  # 7 bytes: MjSz = 7, MetaSz = 12 + 7


def tiff_frame(rng, kind, idx):
    d, s = TIFF_KINDS[kind]
    w, h, ty, pad = shape_for(rng, d)
    nd = s - 73 - 2          # digits left for the two timestamps (frame id and hardware id take one each)
    a = rng.randint(1, nd - 1)
    return dict(w=w, h=h, ty=ty, pad=pad, id=idx, hw=rng.randint(0, 9), trt=digits(rng, a), thw=digits(rng, nd - a))


def tiff_edge_to_case(edge, cid, rng):
    f = edge["fault"]
    c = dict(id=cid, unit=0, fault=(f["at"], "p" if f["pers"] else "t") if f["at"] else None, devs={}, paths={}, metas={1: META_REAL},
             ops=[], expect=[], origin="TiffWriter")
    nid = {}
    for st in edge["path"]:
        d = st["d"] - 1
        o = dict(op=st["op"], d=d)
        if st["op"] == "open":
            c["devs"][d] = "tiff-json" if st["arg"][0] == "sbs" else "tiff"
        elif st["op"] == "set":
            p, meta = st["arg"]
            c["paths"][p] = "x%d_p%d%s" % (cid, p, ext_of(c["devs"][d]))
            sx, sy = rng.choice(SCALES)
            o.update(pid=p, form=rng.choice(["plain", "file"]), mid=1 if meta else None, sx=sx, sy=sy)
        elif st["op"] == "start":
            nid[d] = 0
        elif st["op"] == "append":
            o["frames"] = [tiff_frame(rng, k, nid.get(d, 0) + i) for i, k in enumerate(st["arg"])]
            nid[d] = nid.get(d, 0) + len(o["frames"])
        if st["sw"]:
            o["sw"] = list(st["sw"])
        exp = []
        for x in st["os"]:
            if x["c"] == "open":
                exp.append(("Open", x["a"], x["r"]))
            elif x["c"] == "unlink":
                exp.append(("Unlink", x["a"], 0))
            elif x["c"] == "pwrite":
                exp.append(("Pwrite", x["a"], x["off"], x["n"], x["r"]))
            else:
                exp.append((x["c"].capitalize(), x["a"], x["r"]))
        c["ops"].append(o)
        c["expect"].append(dict(st=st["st"], os=exp))
    return c


def os_tuple(e):
    k = e["e"]
    if k == "Open":
        return ("Open", e["path"], e["r"])
    if k == "Unlink":
        return ("Unlink", e["path"], 0)
    if k == "Pwrite":
        return ("Pwrite", e["fd"], e["off"], e["req"], e["r"])
    if k in ("Flock", "Close"):
        return (k, e["fd"], e["r"])
    return (k,)


def compare(case, ops, ex):
    """Model expectation vs what the real code did: returned state and the exact OS call sequence of every step."""
    out = []
    for i, exp in enumerate(case["expect"]):
        if exp["st"] < 0:      # the model says the process dies here (unbounded recursion)
            if ex is None or ex["how"] == "ok":
                out.append("step %d (%s): model predicts stack exhaustion, code survived" % (i, case["ops"][i]["op"]))
            break
        if i >= len(ops) or ops[i]["ret"] is None:
            out.append("step %d (%s): no return observed (exit %s)" % (i, case["ops"][i]["op"], ex and ex["how"]))
            break
        got = [os_tuple(e) for e in ops[i]["os"] if e["e"] not in ("Access", "Suppressed")]
        want = [tuple(x) for x in exp["os"]]
        if ops[i]["ret"]["st"] != exp["st"]:
            out.append("step %d (%s): state %d, model %d" % (i, case["ops"][i]["op"], ops[i]["ret"]["st"], exp["st"]))
        if got != want:
            j = next((k for k in range(min(len(got), len(want))) if got[k] != want[k]), min(len(got), len(want)))
            out.append("step %d (%s): OS call #%d is %s, model %s" % (i, case["ops"][i]["op"], j, got[j] if j < len(got) else "none",
                                                                        want[j] if j < len(want) else "none"))
        if out:
            break
    return out


# ------------------------------------------------------------------------------------------------ TIFF read-back
def tiff_acquisitions(case, ops):
    """Finished acquisitions of tiff / tiff-json devices in which no call reported a failure and N >= 1 frames were appended."""
    st = {}
    acqs = []
    for o, g in zip(case["ops"], ops):
        if g["skip"] or g["ret"] is None:
            if g["ret"] is None and not g["skip"]:
                break
            continue
        d = o["d"]
        s = st.setdefault(d, dict(pid=None, mid=None, a=0, cur=None))
        kind = case["devs"][d]
        if kind not in ("tiff", "tiff-json"):
            continue
        ret = g["ret"]["st"]
        failed = any(e["e"] in ("Open", "Flock", "Pwrite") and e["r"] < 0 for e in g["os"])
        if o["op"] == "set":
            if g["ret"]["rc"] == 0:          # accepted; a running device stays Running and keeps writing the file named at start
                s["pid"], s["mid"] = o["pid"], o.get("mid")
                # the tiff writer puts the metadata on the first frame: settings accepted before it is written still count
                # (tiff-json wrote metadata.json at start); TiffWriter.tla: fwant
                if s["cur"] is not None and kind == "tiff" and not s["cur"]["frames"] and s["cur"]["clean"]:
                    s["cur"]["meta"] = case["metas"].get(s["mid"]) if s["mid"] else None
            elif s["cur"] is not None:       # rejected while running: the acquisition is over, its file is not judged
                s["cur"]["clean"] = False
        elif o["op"] == "start":
            # a path used again: what an earlier acquisition left there is overwritten, only the last one is read back
            acqs[:] = [q for q in acqs if not (q["d"] == d and q["pid"] == s["pid"])]
            if ret == 3:
                s["a"] += 1
                s["cur"] = dict(x=case["id"], a=s["a"], kind=kind, pid=s["pid"], meta=case["metas"].get(s["mid"]) if s["mid"] else None,
                                frames=[], clean=not failed, d=d)
            else:
                s["cur"] = None
        elif o["op"] == "append" and s["cur"] is not None:
            if ret == 3 and not failed:
                s["cur"]["frames"] += o["frames"]
            else:
                s["cur"]["clean"] = False
        elif o["op"] in ("stop", "close") and s["cur"] is not None:
            if s["cur"]["clean"] and not failed and s["cur"]["frames"]:
                acqs.append(s["cur"])
            s["cur"] = None
    return acqs


def tiff_events_for(case, ops, workdir):
    evs = []
    for a in tiff_acquisitions(case, ops):
        base = os.path.join(workdir, case["paths"][a["pid"]])
        if a["kind"] == "tiff":
            evs.append((a, tiffread.events(base, a)))
        else:
            evs.append((a, tiffread.events(os.path.join(base, "data.tif"), a, os.path.join(base, "metadata.json"))))
    return evs


# ------------------------------------------------------------------------------------------------ judging
class Judge:
    def __init__(self, chk, prop, bdir):
        self.chk, self.prop, self.bdir = chk, prop, bdir
        self.per_sig = {}
        self.events = 0
        self.traces = 0
        self.other = {}

    def _report(self, rule, sig, text, case, obs):
        if rule in HARNESS_RULES:
            raise Broken("%s flagged a harness problem: %s: %s" % (obs, rule, text[:400]))
        if rule not in RULES[self.prop]:
            self.other[rule] = self.other.get(rule, 0) + 1
            return
        self.per_sig[sig] = self.per_sig.get(sig, 0) + 1
        if self.per_sig[sig] > 2:
            return
        c = {k: v for k, v in case.items() if k != "expect"}
        self.chk.violation(sig, text, replay_obj={"kind": "files_case", "obs": obs, "rule": rule, "case": c})

    def file_obs(self, runs):
        """runs: list of (cases, trace, workdir). Judges every execution by FileObs."""
        with cf.ThreadPoolExecutor(max_workers=max(2, NCPU // 2)) as ex:
            verdicts = list(ex.map(lambda r: validate("FileObs", r[1], self.bdir), runs))
        for (cases, trace, wd), v in zip(runs, verdicts):
            self.events += v["consumed"]
            self.traces += len(cases)
            if not v["bad"]:
                continue
            execs, lines = split_trace(trace)
            starts = [s for s, _ in execs]
            for rule, line in v["bad"]:
                xi = max(i for i, s in enumerate(starts) if s <= line)
                case, evs = cases[xi], execs[xi][1]
                ev = json.loads(lines[line - 1])
                d = ev.get("d")
                upto = evs[:line - starts[xi] + 1]
                calls = [e for e in upto if e["e"] == "Call" and (d is None or e["d"] == d)]
                op = calls[-1]["op"] if calls else "-"
                dd = d if d is not None else (calls[-1]["d"] if calls else None)
                kind = case["devs"].get(dd, "-") if dd is not None else "-"
                sig = "rule=%s kind=%s op=%s" % (rule, kind, op)
                hist = " ; ".join("%s(%d)%s" % (o["op"], o["d"], ("[sw " + ",".join(o["sw"]) + "]") if o.get("sw") else "") for o in case["ops"])
                txt = "%s refused %s  | %s device, during %s; fault=%s; history: %s" % (rule, short(lines[line - 1]), kind, op, case.get("fault"), hist[:700])
                self._report(rule, sig, txt, case, "FileObs")
            if v["nbad"] > len(v["bad"]):
                self.chk.notes.append("%d refusals in %s, first %d examined" % (v["nbad"], os.path.basename(trace), len(v["bad"])))

    def tiff_obs(self, runs):
        """Parses every finished tiff acquisition of the runs with the independent reader and judges the events by TiffObs."""
        jobs = []
        for ci, (cases, trace, wd) in enumerate(runs):
            execs, _ = split_trace(trace)
            idx, out = [], os.path.join(self.bdir, os.path.basename(trace) + ".tiff.ndjson")
            n = 0
            with open(out, "w") as f:
                for case, (_, evs) in zip(cases, execs):
                    ops, ex = per_op(evs)
                    for a, tev in tiff_events_for(case, ops, wd):
                        idx.append((n + 1, case, a))
                        for e in tev:
                            f.write(json.dumps(e) + "\n")
                        n += len(tev)
            if n:
                jobs.append((out, idx))
        with cf.ThreadPoolExecutor(max_workers=max(2, NCPU // 2)) as ex:
            verdicts = list(ex.map(lambda j: validate("TiffObs", j[0], self.bdir), jobs))
        nacq = 0
        for (out, idx), v in zip(jobs, verdicts):
            self.events += v["consumed"]
            nacq += len(idx)
            lines = open(out).read().splitlines()
            for rule, line in v["bad"]:
                first, case, a = [t for t in idx if t[0] <= line][-1]
                sig = "rule=%s kind=%s" % (rule, a["kind"])
                hist = " ; ".join("%s(%d)" % (o["op"], o["d"]) + ("[%d frames]" % len(o["frames"]) if o["op"] == "append" else "") for o in case["ops"])
                txt = "%s refused %s | acquisition %d of device %d (%s, %d frames, metadata %s); history: %s" % (
                    rule, lines[line - 1][:300], a["a"], a["d"], a["kind"], len(a["frames"]), "yes" if a["meta"] else "no", hist[:600])
                self._report(rule, sig, txt, case, "TiffObs")
            os.remove(out)
        return nacq

    def finish(self):
        if self.per_sig:
            self.chk.set("refusal_signatures", self.per_sig)
        if self.other:
            self.chk.notes.append("refusals by rules of other properties (reported by their own checks): %s" % self.other)


def short(line, n=300):
    """A trace line with long cell lists abbreviated."""
    import re
    return re.sub(r'"cells":\[((?:\d+,){6})[\d,]*\]', r'"cells":[\1...]', line)[:n]


def cleanup(runs):
    for cases, tr, wd in runs:
        shutil.rmtree(wd, ignore_errors=True)
        for p in (tr, tr[:-7] + ".cases"):
            try:
                os.remove(p)
            except OSError:
                pass


# ------------------------------------------------------------------------------------------------ random cases
def rnd_frame(rng, idx, align=True, empty_ok=False):
    ty = rng.choice(TYPES)
    w, h = rng.randint(1, 9), rng.randint(1, 7)
    if empty_ok and rng.random() < 0.12:
        w = 0          # a frame without pixels: its header is all there is (raw / trash only: no TIFF directory describes it)
    npx = w * h * BPP[ty]
    pad = (-(96 + npx)) % 8 if align else rng.randint(0, 7)
    return dict(w=w, h=h, ty=ty, pad=pad, id=idx, hw=rng.randint(0, 2 ** rng.choice([3, 20, 40])), trt=rng.randint(0, 2 ** rng.choice([4, 30, 62])),
                thw=rng.randint(0, 2 ** rng.choice([4, 30, 62])))


def rnd_script(rng, maxz=99):
    """Short-write script for one HAL call. maxz < 3: the write-all loop never gives up (three empty writes are an I/O failure)."""
    n = rng.choice([0, 0, 1, 1, 2, 3, 5])
    toks = []
    for _ in range(n):
        t = rng.choice(["H", "Z", "F", "S%d" % rng.randint(1, 150), "S1", "H", "Z"])
        if t == "Z" and toks.count("Z") >= maxz:
            t = "H"
        toks.append(t)
    return toks


def rnd_case(rng, cid, kinds, unit, ndev_max=2, scripts=True, maxz=99):
    """set/start/append*/stop cycles on one or two devices, interleaved; paths are fresh per acquisition."""
    nd = rng.choice([1, 1, 2]) if ndev_max > 1 else 1
    c = dict(id=cid, unit=unit, fault=None, devs={d: rng.choice(kinds) for d in range(nd)}, paths={}, metas={}, ops=[], expect=None, origin="random")
    for i, m in enumerate(METAS, 1):
        c["metas"][i] = m
    progs = []
    npath = 0
    for d in range(nd):
        p = [dict(op="open", d=d)]
        ncyc = rng.choice([1, 1, 2, 3])
        prev = None
        last_set = None
        for cyc in range(ncyc):
            npath += 1
            name = "x%d_p%d%s" % (cid, npath, ext_of(c["devs"][d]))
            # path names related to the device's previous one: an extension of it, or a proper prefix of it (still a fresh path)
            if prev is not None and prev.endswith(".bak") and rng.random() < 0.5:
                name = prev[:-4]
            elif prev is not None and rng.random() < 0.15:
                name = prev + ".bak"
            elif rng.random() < 0.2:
                name += ".bak"
            if name in c["paths"].values():
                name = "x%d_p%d%s" % (cid, npath, ext_of(c["devs"][d]))
            prev = name
            c["paths"][npath] = name
            sx, sy = rng.choice(SCALES)
            # (tiff-json refuses a configuration without metadata, so it mostly gets one)
            allm = list(range(1, len(METAS) + 1))
            mids = ([None] + allm + allm) if c["devs"][d] == "tiff-json" else ([None, None] + allm)
            pid_now = npath
            if c["devs"][d] in ("tiff", "tiff-json") and last_set is not None and last_set.get("mid") and rng.random() < 0.25:
                # the same file / dataset directory again, with other metadata. `file_create` does not truncate (platform
                # behaviour outside the properties), so the new metadata is at least as long as the one it replaces; only the
                # last acquisition into a path is read back (tiff_acquisitions).
                longer = [m for m in allm if m != last_set["mid"] and len(METAS[m - 1]) >= len(METAS[last_set["mid"] - 1])]
                if longer:
                    pid_now = last_set["pid"]
                    mids = longer
            p.append(dict(op="set", d=d, pid=pid_now, form=rng.choice(["plain", "file"]), mid=rng.choice(mids), sx=sx, sy=sy))
            last_set = p[-1]
            if rng.random() < 0.12:
                p.append(dict(p[-1]))          # the same settings given twice before the start (acquire_configure called twice)
            if rng.random() < 0.08:
                continue                       # configured, never started
            p.append(dict(op="start", d=d))
            idx = rng.choice([0, 0, 0, 7])
            rejected = False
            cur_set = p[-2]
            for _ in range(rng.choice([1, 1, 2, 3, 4]) if rng.random() > 0.05 else 0):
                if rng.random() < 0.1:
                    # acquire_configure during an acquisition: storage_set on the running device. Accepted settings (same
                    # metadata and scale, another fresh path) leave it running; rejected ones (a path in a directory that does
                    # not exist) end the acquisition - the device has to be configured and started again.
                    npath += 1
                    rejected = rng.random() < 0.5
                    c["paths"][npath] = ("nodir_x%d/p%d%s" if rejected else "x%d_p%d%s") % (cid, npath, ext_of(c["devs"][d]))
                    p.append(dict(cur_set, pid=npath, form=rng.choice(["plain", "file"])))
                    if rejected and rng.random() < 0.6:
                        break
                fr = [rnd_frame(rng, idx + i, align=rng.random() < 0.8, empty_ok=c["devs"][d] in ("raw", "trash")) for i in range(rng.randint(1, 3))]
                idx += len(fr)
                o = dict(op="append", d=d, frames=fr)
                if scripts:
                    o["sw"] = rnd_script(rng, maxz)
                p.append(o)
            if rejected and rng.random() < 0.5:
                continue                       # (storage_stop would do nothing: the HAL no longer reports Running)
            if cyc < ncyc - 1 or rng.random() < 0.7:     # only the last acquisition may be ended by close
                o = dict(op="stop", d=d)
                if scripts and rng.random() < 0.3:
                    o["sw"] = rnd_script(rng, maxz)
                p.append(o)
        p.append(dict(op="close", d=d))
        progs.append(p)
    while any(progs):                          # random interleaving that keeps each device's order
        p = rng.choice([q for q in progs if q])
        c["ops"].append(p.pop(0))
    return c


# ------------------------------------------------------------------------------------------------ fault enumeration (C16)
def fr_simple(i, w=3, h=2, ty="u16"):
    return dict(w=w, h=h, ty=ty, pad=(-(96 + w * h * BPP[ty])) % 8, id=i, hw=i + 100, trt=1000 + i, thw=2000 + i)


def reference_histories(kind, other):
    """Life-cycle histories of the property's quantifier; device 0 has the kind under test, device 1 competes for descriptors."""
    A = lambda d, ids: dict(op="append", d=d, frames=[fr_simple(i) for i in ids])
    S = lambda d, p, mid=None: dict(op="set", d=d, pid=p, form="plain" if p % 2 else "file", mid=mid, sx=1, sy=1)
    O = lambda op, d: dict(op=op, d=d)
    H = {
        "never_started": [O("open", 0), S(0, 1, 1), O("close", 0)],
        "opened_only": [O("open", 0), O("close", 0)],
        "one_cycle": [O("open", 0), S(0, 1, 1), O("start", 0), A(0, [0, 1]), A(0, [2]), O("stop", 0), O("close", 0)],
        "close_while_running": [O("open", 0), S(0, 1), O("start", 0), A(0, [0]), O("close", 0)],
        "two_cycles": [O("open", 0), S(0, 1, 1), O("start", 0), A(0, [0]), O("stop", 0), S(0, 2), O("start", 0), A(0, [0, 1]), O("stop", 0), O("close", 0)],
        "restart_after_failure": [O("open", 0), S(0, 1), O("start", 0), A(0, [0]), A(0, [1]), O("stop", 0), S(0, 2), O("start", 0), A(0, [0]), O("stop", 0), O("close", 0)],
        # acquire_configure during an acquisition: accepted settings keep the device running; rejected ones end the acquisition
        "set_while_running": [O("open", 0), S(0, 1, 1), O("start", 0), A(0, [0]), S(0, 2, 1), A(0, [1]), O("stop", 0), O("start", 0), A(0, [0]),
                              O("stop", 0), O("close", 0)],
        "rejected_set_while_running": [O("open", 0), S(0, 1, 1), O("start", 0), A(0, [0]), S(0, 9, 1), O("stop", 0), S(0, 2, 1), O("start", 0),
                                       A(0, [0, 1]), O("stop", 0), O("close", 0)],
        "rejected_set_then_close": [O("open", 0), S(0, 1, 1), O("start", 0), A(0, [0]), S(0, 9, 1), O("close", 0)],
        "two_devices": [O("open", 0), S(0, 1), O("start", 0), A(0, [0]), O("open", 1), S(1, 2), O("stop", 0), O("start", 1), A(0, [1]), A(1, [0]),
                        O("close", 0), A(1, [1]), O("stop", 1), O("close", 1)],
        "two_devices_late_close": [O("open", 0), S(0, 1), O("start", 0), A(0, [0]), A(0, [1]), O("open", 1), S(1, 2), O("start", 1), A(1, [0]), A(0, [2]),
                                   O("stop", 0), O("stop", 1), O("close", 1), O("close", 0)],
    }
    out = []
    for name, ops in H.items():
        two = any(o["d"] == 1 for o in ops)
        out.append((name, {0: kind, 1: other} if two else {0: kind}, ops))
    return out


def meta_sweep_cases(rng, cid0, lo, hi):
    """One-frame acquisitions whose user metadata runs through every length lo..hi-1: the first frame's description (and
    metadata.json) passes through every length in a window - buffer-size boundaries of the writer included."""
    out = []
    for n, L in enumerate(range(lo, hi)):
        kind = "tiff" if n % 3 else "tiff-json"
        body = "".join(rng.choice("abcdefghijklmnopqrstuvwxyz0123456789 _-") for _ in range(max(0, L - 8)))
        meta = '{"k":"%s"}' % body if L >= 8 else "{}"
        cid = cid0 + n
        c = dict(id=cid, unit=0, fault=None, devs={0: kind}, paths={1: "x%d_m%s" % (cid, ext_of(kind))}, metas={1: meta}, ops=[], expect=None,
                 origin="metasweep")
        fr = [fr_simple(i) for i in range(1 + n % 2)]     # fixed ids and timestamps: the description length grows with L alone
        c["ops"] = [dict(op="open", d=0), dict(op="set", d=0, pid=1, form="plain", mid=1, sx=1, sy=1), dict(op="start", d=0),
                    dict(op="append", d=0, frames=fr), dict(op="stop", d=0), dict(op="close", d=0)]
        out.append(c)
    return out


def big_case(rng, cid, kind):
    """One acquisition whose file grows beyond 4 GiB: offsets, links and lengths above 2^32."""
    c = dict(id=cid, unit=0, fault=None, devs={0: kind}, paths={1: "x%d_big%s" % (cid, ext_of(kind))}, metas={1: METAS[0]}, ops=[], expect=None,
             origin="bigfile", timeout=300)
    small = lambda i: rnd_frame(rng, i, align=True)
    def huge(i):
        w, h = rng.choice([(40000, 40000), (36000, 44000), (65536, 24000)])
        return dict(w=w, h=h, ty="u8", pad=(-(96 + w * h)) % 8, id=i, hw=1000 + i, trt=5000 + i, thw=7000 + i, z=True)
    ops = [dict(op="open", d=0), dict(op="set", d=0, pid=1, form=rng.choice(["plain", "file"]), mid=1, sx=1, sy=1), dict(op="start", d=0)]
    seq = [[small(0)], [huge(1)], [small(2), small(3)], [huge(4)], [huge(5)], [small(6)], [small(7), small(8)]]
    for fr in seq:
        ops.append(dict(op="append", d=0, frames=fr))
    ops += [dict(op="stop", d=0), dict(op="close", d=0)]
    c["ops"] = ops
    return c


def make_case(cid, devs, ops, unit, fault=None):
    c = dict(id=cid, unit=unit, fault=fault, devs=dict(devs), paths={}, metas={1: '{"k":1}'}, ops=[dict(o) for o in ops], expect=None, origin="fault")
    for o in c["ops"]:
        if o["op"] == "set":    # (path 9 lies in a directory that does not exist: such settings are rejected)
            c["paths"][o["pid"]] = ("nodir_x%d/p%d%s" if o["pid"] == 9 else "x%d_p%d%s") % (cid, o["pid"], ext_of(devs[o["d"]]))
    return c


# ------------------------------------------------------------------------------------------------ replay
def replay_script(prop, path):
    obj = json.load(open(path))["replay"]
    case = norm_case(obj["case"])
    bdir = build_dir("replay_" + prop)
    exe = build_files(bdir)
    runs = run_cases(exe, [case], bdir, "replay", nchunks=1)
    cases, trace, wd = runs[0]
    for l in open(trace):
        log("  " + short(l.rstrip(), 240))
    hits = []
    if obj.get("obs") == "TiffObs":
        execs, _ = split_trace(trace)
        ops, ex = per_op(execs[0][1])
        out = os.path.join(bdir, "replay.tiff.ndjson")
        with open(out, "w") as f:
            for a, tev in tiff_events_for(case, ops, wd):
                for e in tev:
                    f.write(json.dumps(e) + "\n")
                    log("  " + json.dumps(e)[:240])
        if os.path.getsize(out):
            v = validate("TiffObs", out, bdir)
            hits = [b for b in v["bad"] if b[0] in RULES[prop]]
    else:
        v = validate("FileObs", trace, bdir)
        hits = [b for b in v["bad"] if b[0] in RULES[prop]]
    if hits:
        log("VIOLATION property=%s replay=%s" % (prop, path))
        log("  refused: %s" % hits)
        return 1
    log("replay accepted by %s (no refusal of a %s rule)" % (obj.get("obs", "FileObs"), prop))
    return 0


# ------------------------------------------------------------------------------------------------ model stage
def model_stage(chk, prop, bdir, thorough):
    """(1) exhaustive TLC on the repaired models; the as-it-was variants must violate. Returns nothing; fills evidence."""
    jobs = []
    T = 2400 if thorough else 600
    if prop in ("C14", "C16"):
        jobs.append(("RawWriter", "mc_raw", raw_consts(MaxCycles=3 if thorough else 2, MaxFaultAt=10 if thorough else 8,
                                                       NScripts=7 if thorough else 5, NPaths=4 if thorough else 3,
                                                       MaxAppends=3 if thorough and prop == "C14" else 2), RAW_INV, True))
        jobs.append(("RawWriter", "asis_raw", raw_consts(FIXED=0, NDev=2, MaxFaultAt=4), RAW_INV, False))
        if prop == "C16":
            jobs.append(("RawWriter", "asis_set_raw", raw_consts(FIX_SET=0, NDev=1, MaxFaultAt=4), RAW_INV, False))
    if prop in ("C15", "C16"):
        if prop == "C15":
            jobs.append(("TiffWriter", "mc_tiff", tiff_consts(NDev=1, NKinds=3, NScripts=5 if thorough else 4, MaxPacket=3 if thorough else 2,
                                                               MaxAppends=2), TIFF_INV, True))
            jobs.append(("TiffWriter", "mc_tiff2", tiff_consts(NDev=2, NKinds=2, NScripts=2, MaxAppends=2 if thorough else 1), TIFF_INV, True))
        else:
            jobs.append(("TiffWriter", "mc_tiff_faults", tiff_consts(NDev=2 if thorough else 1, NKinds=2, NScripts=3 if thorough else 2,
                                                                      MaxFaultAt=15, MaxAppends=2 if thorough else 1), TIFF_INV, True))
            jobs.append(("TiffWriter", "mc_tiff2", tiff_consts(NDev=2, NKinds=2, NScripts=2, MaxAppends=1), TIFF_INV, True))
            jobs.append(("TiffWriter", "asis_tiff", tiff_consts(FIX_TIFF=0, NDev=2, MaxAppends=1, NScripts=1, MaxFaultAt=8, Kinds1='{"tiff"}'), TIFF_INV, False))
        jobs.append(("TiffWriter", "asis_sbs", tiff_consts(FIX_SBS=0, Kinds1='{"sbs"}', NScripts=1, MaxAppends=1), TIFF_INV, False))
        if prop == "C16":
            jobs.append(("TiffWriter", "asis_set_tiff", tiff_consts(FIX_SET=0, NScripts=1, MaxAppends=1, MaxFaultAt=4), TIFF_INV, False))
        if prop == "C15":
            jobs.append(("TiffWriter", "asis_meta", tiff_consts(FIX_META=0, Kinds1='{"tiff"}', NScripts=1, MaxAppends=1), TIFF_INV, False))
    with cf.ThreadPoolExecutor(max_workers=3) as ex:
        res = list(ex.map(lambda j: run_mc(j[0], j[1], j[2], j[3], bdir, T, workers=TLC_WORKERS if j[4] else 2), jobs))
    states = trans = 0
    for (spec, name, consts, inv, repaired), r in zip(jobs, res):
        what = "%s %s" % (spec, name)
        if repaired:
            if r.violated:
                raise Broken("%s: the implementation-shaped model (repaired variant) violates %s; the model no longer mirrors "
                             "correct code (see %s)" % (what, r.violated, r.outpath))
            tlc_or_broken(r, what)
            if r.distinct < 50:
                raise Broken("%s: vacuous state space (%d states)" % (what, r.distinct))
            states += r.distinct
            trans += r.generated
            chk.cov.setdefault("models", []).append({"model": what, "constants": {k: v for k, v in consts.items() if k not in ("Ghost", "Export")},
                                                     "distinct_states": r.distinct, "transitions": r.generated, "depth": r.depth,
                                                     "complete": r.queue == 0, "wall_s": round(r.wall, 1)})
        else:
            if r.timed_out or r.error:
                raise Broken("%s: TLC failed: %s" % (what, r.error or "timeout"))
            chk.cov.setdefault("as_it_was_models", []).append({"model": what, "violates": r.violated or "nothing",
                                                               "states_until_violation": r.distinct})
            if not r.violated:
                chk.notes.append("%s: the as-it-was variant no longer violates an invariant" % what)
    chk.set("states", states)
    chk.set("transitions", trans)


def replay_stage(chk, prop, exe, bdir, thorough, rng, judge):
    """(2)+(3) for TLC-exported histories: replay, compare (drift), judge traces and files by the Obs specs."""
    exports = []
    if prop == "C14":
        exports.append(("RawWriter", "ex_raw", raw_consts(NDev=1, MaxFaultAt=0, NScripts=7 if thorough else 5, MaxCycles=3 if thorough else 2, MaxAppends=3), raw_edge_to_case))
    elif prop == "C15":
        # (scripts 1..3 are partial writes the write-all loop absorbs; giving up after three empty writes is a failure: C16)
        exports.append(("TiffWriter", "ex_tiff", tiff_consts(NDev=1, Real=True, Ghost=False, NKinds=3 if thorough else 2, NScripts=3,
                                                             MaxPacket=3 if thorough else 2), tiff_edge_to_case))
    else:
        exports.append(("RawWriter", "ex_raw", raw_consts(NDev=2, MaxFaultAt=8, NScripts=3, MaxAppends=1 if not thorough else 2, PacketSizes="{1, 2}"), raw_edge_to_case))
        exports.append(("TiffWriter", "ex_tiff", tiff_consts(NDev=1, Real=True, Ghost=False, NKinds=2, NScripts=2, MaxAppends=1, MaxFaultAt=15), tiff_edge_to_case))
    cap = 20000 if thorough else 1600
    all_runs = []
    replayed = drift = 0
    for spec, name, consts, conv in exports:
        r, edges = run_export(spec, name, consts, bdir, 2400 if thorough else 600)
        ops_seen = {}
        for e in edges:
            k = e["path"][-1]["op"]
            ops_seen[k] = ops_seen.get(k, 0) + 1
        missing = [o for o in ("open", "set", "start", "append", "stop", "close") if not ops_seen.get(o)]
        if missing or len(edges) < 30:
            raise Broken("export of %s is vacuous: %d transitions, calls never taken: %s" % (name, len(edges), missing))
        total = len(edges)
        if total > cap:
            edges = rng.sample(edges, cap)
        cases = [conv(e, i + 1, rng) for i, e in enumerate(edges)]
        runs = run_cases(exe, cases, bdir, name)
        nd = 0
        for cs, trace, wd in runs:
            execs, _ = split_trace(trace)
            if len(execs) != len(cs):
                raise Broken("trace %s has %d executions for %d cases" % (trace, len(execs), len(cs)))
            for case, (_, evs) in zip(cs, execs):
                ops, ex = per_op(evs)
                d = compare(case, ops, ex)
                if d:
                    nd += 1
                    if nd <= 3:
                        chk.drift_note("%s history %s: %s" % (spec, " ".join("%s%d" % (o["op"], o["d"]) for o in case["ops"]), d[0]))
        chk.cov.setdefault("replay", []).append({"model": "%s %s" % (spec, name), "transitions_in_graph": total, "histories_replayed": len(cases),
                                                 "calls_by_kind": ops_seen, "histories_disagreeing": nd, "export_states": r.distinct})
        chk.sample({"exported_history": {"fault": edges[0]["fault"], "path": edges[min(len(edges) - 1, 40)]["path"]}})
        replayed += len(cases)
        drift += nd
        all_runs += runs
    chk.set("spec_histories_replayed_into_impl", replayed)
    if drift:
        chk.assume("DRIFT: the storage code no longer follows the writer models on %d of %d replayed histories; the exhaustive "
                   "model-level result does not transfer for this run, the verdict rests on the executed traces" % (drift, replayed))
    return all_runs, drift


def main(prop, tier):
    chk = Check(prop, tier, "fault_enumeration" if prop == "C16" else "model_checking")
    bdir = build_dir(prop)
    exe = build_files(bdir)
    thorough = tier == "thorough"
    rng = random.Random(seed() * 1000003 + int(prop[1:]))
    judge = Judge(chk, prop, bdir)

    t0 = time.time()
    with cf.ThreadPoolExecutor(max_workers=2) as ex:
        fm = ex.submit(model_stage, chk, prop, bdir, thorough)
        runs, drift = replay_stage(chk, prop, exe, bdir, thorough, rng, judge)
        log("  replay stage done after %.0fs" % (time.time() - t0))
        fm.result()
    log("  model stage done after %.0fs" % (time.time() - t0))

    # ---- (4) implementation-driven cases ------------------------------------------------------------------------------
    extra = []
    nontrivial = 0
    if prop == "C14":
        n = 3000 if thorough else 400
        if drift and not thorough:
            n *= 3
        cases = [rnd_case(rng, 100000 + i, ["raw"], unit=1) for i in range(n)]
        extra = run_cases(exe, cases, bdir, "rnd")
        chk.set("random_histories", n)
    elif prop == "C15":
        n = 4000 if thorough else 500
        if drift and not thorough:
            n *= 3
        cases = [rnd_case(rng, 100000 + i, ["tiff", "tiff-json"], unit=0, scripts=(i % 2 == 0), maxz=2) for i in range(n)]
        sweep = meta_sweep_cases(rng, 500000, 0, 4200 if thorough else 420)
        extra = run_cases(exe, cases + sweep, bdir, "rnd")
        chk.set("random_histories", n)
        chk.set("metadata_length_sweep", len(sweep))
    else:
        cid = 200000
        refs, todo = [], []
        for kind, other in (("raw", "tiff"), ("tiff", "raw"), ("tiff-json", "tiff"), ("trash", "raw")):
            for name, devs, ops in reference_histories(kind, other):
                cid += 1
                refs.append((name, make_case(cid, devs, ops, unit=8)))
        ref_runs = run_cases(exe, [c for _, c in refs], bdir, "ref")
        counts = {}
        for cs, trace, wd in ref_runs:
            execs, _ = split_trace(trace)
            for case, (_, evs) in zip(cs, execs):
                counts[case["id"]] = max([e.get("k", 0) for e in evs] + [0])
        for name, c in refs:
            K = counts.get(c["id"], 0)
            for k in range(1, K + 1):
                for mode in ("t", "p"):
                    cid += 1
                    fc = make_case(cid, c["devs"], c["ops"], c["unit"], fault=(k, mode))
                    fc["ref"] = name
                    todo.append(fc)
        fault_runs = run_cases(exe, todo, bdir, "flt")
        hit = 0
        for cs, trace, wd in fault_runs:
            with open(trace) as f:
                txt = f.read()
            hit += sum(1 for seg in txt.split('{"e":"Reset"')[1:] if '"inj":1' in seg)
        nontrivial = hit
        if len(todo) < 100 or hit < len(todo) // 2:
            raise Broken("fault enumeration is vacuous: %d cases, %d with the fault injected" % (len(todo), hit))
        extra = ref_runs + fault_runs
        chk.set("reference_histories", len(refs))
        chk.set("fault_cases", len(todo))
        chk.set("fault_cases_where_fault_struck", hit)
        chk.sample({"fault_case": {k: v for k, v in todo[len(todo) // 3].items() if k in ("devs", "fault", "ref")},
                    "ops": ["%s(%d)" % (o["op"], o["d"]) for o in todo[len(todo) // 3]["ops"]]})
        if thorough:
            rc = [rnd_case(rng, 300000 + i, ["raw", "tiff", "tiff-json", "trash"], unit=0) for i in range(1500)]
            for i, c in enumerate(rc):
                c["fault"] = (rng.randint(1, 30), rng.choice("tp"))
            extra += run_cases(exe, rc, bdir, "rndflt")

    # ---- (3) judge everything that was executed ----------------------------------------------------------------------------
    log("  implementation-driven cases executed after %.0fs" % (time.time() - t0))
    all_runs = runs + extra
    nacq = 0
    if prop == "C15":
        # files beyond 4 GiB - what BigTIFF is for: frames of more than a GiB with all-zero pixels (written sparsely by the
        # harness' OS seam, so nearly no disk is used), small frames before, between and after them; judged by TiffObs only
        # (positions in units of 8 bytes; the OS-level events of this run carry 64-bit offsets FileObs cannot hold)
        big = [big_case(rng, 400000 + i, kind) for i, kind in enumerate(["tiff", "tiff-json"] if thorough else [rng.choice(["tiff", "tiff-json"])])]
        big_runs = run_cases(exe, big, bdir, "big", nchunks=len(big))
        nbig = judge.tiff_obs(big_runs)
        if nbig != len(big):
            raise Broken("large-file case: %d of %d acquisitions finished and were parsed" % (nbig, len(big)))
        chk.set("files_beyond_4GiB_parsed", nbig)
        cleanup(big_runs)
        nacq = judge.tiff_obs(all_runs)
        if nacq < 50:
            raise Broken("vacuous: only %d finished tiff acquisitions were parsed" % nacq)
        chk.set("tiff_files_parsed", nacq)
    else:
        judge.file_obs(all_runs)
    judge.finish()
    log("  traces judged after %.0fs" % (time.time() - t0))
    ncases = sum(len(r[0]) for r in all_runs)
    if judge.events < 500:
        raise Broken("vacuous: only %d events judged" % judge.events)
    with open(all_runs[-1][1]) as f:
        head = [json.loads(next(f)) for _ in range(14)]
    chk.sample({"impl_trace_prefix": [{k: (v if not isinstance(v, list) or len(v) < 8 else v[:8] + ["..."]) for k, v in e.items()} for e in head]})
    cleanup(all_runs)

    chk.set("traces_validated_against_impl", ncases if prop != "C15" else nacq)
    chk.set("executions", ncases)
    chk.set("events_validated", judge.events)
    chk.set("evaluations", ncases)
    chk.set("distinct_nontrivial", nontrivial if prop == "C16" else (nacq if prop == "C15" else ncases))
    chk.set("rule", {
        "C14": "every transition of the bounded RawWriter graph with a witness history (distinct by construction) + seeded random histories; "
               "non-trivial = the execution reached a start",
        "C15": "every transition of the bounded TiffWriter graph (real section sizes) with a witness history + seeded random histories; "
               "counted = finished acquisitions with >= 1 frame whose file was parsed by the independent reader",
        "C16": "reference life-cycle histories x every fallible OS call index x transient/persistent x storage kind (exhaustive), plus "
               "TLC-exported fault histories; non-trivial = the injected fault was actually hit by an OS call",
    }[prop])
    chk.set("exhaustive", True)
    chk.set("checker_cmd", "tlc RawWriter/TiffWriter (generated MC cfgs) ; tlc FileObs / TiffObs with TRACE=<impl trace>")
    chk.assume("paths are fresh per acquisition (file_create never truncates; re-using a path is outside the properties)")
    chk.assume("the OS seam is the only way the devices reach files (platform.c: open, close, pwrite, flock, unlink, access); "
               "directory creation by the composite goes through std::filesystem and is not faulted")
    chk.assume("exhaustiveness is for the model constants listed under 'models'; beyond them seeded random histories")
    if prop == "C15":
        chk.assume("C15 file clauses are judged for acquisitions without OS failures (faults belong to C16)")
    return chk.finish()
