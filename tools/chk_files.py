"""placeholder; build only"""
import json, os, random, math, concurrent.futures as cf
from vlib import *

DRIVER_SRCS = [
    "acquire-driver-common/src/basics.driver.c",
    "acquire-driver-common/src/storage/basic.storage.c",
    "acquire-driver-common/src/storage/raw.c",
    "acquire-driver-common/src/storage/trash.c",
    "acquire-driver-common/src/storage/tiff.cpp",
    "acquire-driver-common/src/storage/side-by-side-tiff.cpp",
    "acquire-driver-common/src/simcams/simulated.camera.c",
    "acquire-driver-common/src/simcams/popcount.cpp",
    "acquire-driver-common/src/simcams/imfill.pattern.cpp",
    "acquire-driver-common/src/simcams/3rdParty/pcg-c-basic-0.9/pcg_basic.c",
    "acquire-core-libs/src/acquire-core-logger/logger.c",
    "acquire-core-libs/src/acquire-core-platform/linux/platform.c",
    "acquire-core-libs/src/acquire-device-hal/device/hal/driver.c",
    "acquire-core-libs/src/acquire-device-hal/device/hal/storage.c",
    "acquire-core-libs/src/acquire-device-properties/device/props/components.c",
    "acquire-core-libs/src/acquire-device-properties/device/props/device.c",
    "acquire-core-libs/src/acquire-device-properties/device/props/storage.c",
]
OS_WRAPS = ["open", "close", "pwrite", "flock", "unlink", "access"]


def build_files(bdir):
    objs = compile_objs(bdir, DRIVER_SRCS + [os.path.join(HARNESS, "files/files_seq.cpp")],
                        cflags=["-mavx2"], cxxflags=["-mavx2"], defs=["NO_UNIT_TESTS"],
                        extra_inc=[os.path.join(REPO, "acquire-driver-common/src/simcams/3rdParty/pcg-c-basic-0.9")])
    return link(os.path.join(bdir, "files_seq"), objs, wraps(OS_WRAPS))
