#!/bin/sh
# Nothing is prebuilt: every check compiles what it needs from /repo's working tree. This only verifies the tools.
set -e
for t in java gcc g++ python3 jq; do command -v $t >/dev/null || { echo "missing tool: $t"; exit 1; }; done
test -f /opt/veriftools/tla/tla2tools.jar || { echo "missing tla2tools.jar"; exit 1; }
mkdir -p "$(dirname "$0")/../build" "$(dirname "$0")/../evidence"
echo "setup ok"
