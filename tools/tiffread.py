"""Independent little-endian BigTIFF reader (stdlib only) used by the C15 check.

It shares no code and no layout assumptions with tiff.cpp: it follows the directory chain from the header, decodes
the 20-byte tag entries, and reduces what it finds to small events for the observation spec specs/TiffObs.tla:

  Acq{x,a,kind,n,meta,frames[{w,h,bits,fmt,npx}]}    what the harness appended (expected), from the case description
  Hdr{exists,size,ok,first}
  Ifd{i,off,len,next,tags_ok,w,h,bits,fmt,so,sl,bytes_ok,doff,dlen,json_ok,ids_ok,has_meta,meta_ok}
  Eof{n,stop,mj_exists,mj_ok}                         stop in zero | outside | cycle | toomany | nofile

Tag order and the padded strip length are reported nowhere: the property does not speak about them.

Files of a GiB and more (TLC's integers are 32 bit): every position and length is reported in units of 8 bytes, the
alignment of all sections (Acq.unit = 8; a region [off, off+len) becomes [off // 8, ceil((off+len) / 8))); the file is
memory-mapped, and frames marked `z` (all-zero pixels, written sparsely by the harness) are compared in chunks.
"""
import json, mmap, os, struct, sys

TYPESZ = {1: 1, 2: 1, 3: 2, 4: 4, 5: 8, 6: 1, 7: 1, 8: 2, 9: 4, 10: 8, 11: 4, 12: 8, 16: 8, 17: 8, 18: 8}
BPP = {"u8": 1, "i8": 1, "u16": 2, "i16": 2, "f32": 4, "u10": 2, "u12": 2, "u14": 2}
FMT = {"u8": 1, "u16": 1, "u10": 1, "u12": 1, "u14": 1, "i8": 2, "i16": 2, "f32": 3}
M64 = (1 << 64) - 1


ZCHUNK = bytes(1 << 24)


def strip_ok(b, so, case_id, acq, fr):
    """does the file hold the frame's pixel bytes at so?"""
    n = fr["w"] * fr["h"] * BPP[fr["ty"]]
    if so + n > len(b):
        return False
    if fr.get("z"):
        for o in range(0, n, len(ZCHUNK)):
            k = min(len(ZCHUNK), n - o)
            if b[so + o:so + o + k] != ZCHUNK[:k]:
                return False
        return True
    return b[so:so + n] == pixels(case_id, acq, fr)


def pixels(case_id, acq, fr):
    """The harness' deterministic pixel pattern (files_seq.cpp, op append)."""
    n = fr["w"] * fr["h"] * BPP[fr["ty"]]
    base = (fr["id"] * 37 + acq * 5 + case_id * 3 + 3)
    return bytes((((base + j * 11) & M64) % 251) for j in range(n))


def read_ifd(b, off):
    """Decode one directory. Returns (dict | None, reason)."""
    n = len(b)
    if off + 8 > n:
        return None, "outside"
    nt, = struct.unpack_from("<Q", b, off)
    if nt > 4096 or off + 8 + 20 * nt + 8 > n:
        return None, "outside"
    tags = {}
    ok = True
    ext = []   # out-of-line value regions
    for i in range(nt):
        eo = off + 8 + 20 * i
        t, ty, cnt = struct.unpack_from("<HHQ", b, eo)
        raw = b[eo + 12:eo + 20]
        sz = TYPESZ.get(ty, 0) * cnt
        if ty not in TYPESZ:
            ok = False
            continue
        if sz <= 8:
            val, where = raw[:sz], (0, 0)
        else:
            o, = struct.unpack("<Q", raw)
            where = (o, sz)
            val = b[o:o + sz] if o + sz <= n else None
        if t not in tags:
            tags[t] = (ty, cnt, val, where)
    nxt, = struct.unpack_from("<Q", b, off + 8 + 20 * nt)
    return {"off": off, "len": 8 + 20 * nt + 8, "next": nxt, "tags": tags, "ok": ok}, ""


def uint_tag(d, t):
    e = d["tags"].get(t)
    if e is None or e[2] is None or e[1] < 1 or e[0] not in (1, 3, 4, 16):
        return None
    return int.from_bytes(e[2][:TYPESZ[e[0]]], "little")


def events(path, acq, meta_json_path=None):
    """acq: {x, a, kind, meta (str|None), frames:[{w,h,ty,id,hw,trt,thw[,z]}]} -> list of event dicts."""
    fr = acq["frames"]
    size = os.path.getsize(path) if os.path.isfile(path) else 0
    U = 8 if size >= 2 ** 30 else 1            # unit of all reported positions and lengths
    P = lambda off: min(off // U, 2 ** 30)      # position
    L = lambda off, ln: min(-(-(off + ln) // U) - off // U, 2 ** 30)   # length of [off, off+ln) in units
    evs = [{"e": "Acq", "x": acq["x"], "a": acq["a"], "kind": acq["kind"], "n": len(fr), "meta": acq.get("meta") is not None,
            "unit": U,
            "frames": [{"w": f["w"], "h": f["h"], "bits": 8 * BPP[f["ty"]], "fmt": FMT[f["ty"]],
                        "npx": -(-(f["w"] * f["h"] * BPP[f["ty"]]) // U)} for f in fr]}]
    mj_exists = mj_ok = False
    if meta_json_path is not None and os.path.exists(meta_json_path):
        mj_exists = True
        try:
            mj_ok = acq.get("meta") is not None and json.loads(open(meta_json_path, "rb").read().decode("utf8")) == json.loads(acq["meta"])
        except Exception:
            mj_ok = False
    if not os.path.isfile(path):
        evs.append({"e": "Hdr", "exists": False, "size": 0, "ok": False, "first": 0})
        evs.append({"e": "Eof", "n": 0, "stop": "nofile", "mj_exists": mj_exists, "mj_ok": mj_ok})
        return evs
    fh = open(path, "rb")
    b = mmap.mmap(fh.fileno(), 0, access=mmap.ACCESS_READ) if size else b""
    n = len(b)
    hdr_ok, first = False, 0
    if n >= 16:
        fmt, ver, so, z, first = struct.unpack_from("<HHHHQ", b, 0)
        hdr_ok = (fmt, ver, so, z) == (0x4949, 43, 8, 0)
    evs.append({"e": "Hdr", "exists": True, "size": min(-(-n // U), 2 ** 30), "ok": hdr_ok, "first": P(first) if hdr_ok else 0})
    off, seen, i, stop = (first if hdr_ok else 0), set(), 0, "zero"
    if not hdr_ok:
        stop = "outside"
    while off and hdr_ok:
        if off in seen:
            stop = "cycle"
            break
        if i > len(fr) + 1:
            stop = "toomany"
            break
        seen.add(off)
        d, why = read_ifd(b, off)
        if d is None:
            stop = why
            break
        w, h, bits, sf = uint_tag(d, 256), uint_tag(d, 257), uint_tag(d, 258), uint_tag(d, 339)
        so, sl = uint_tag(d, 273), uint_tag(d, 279)
        tags_ok = d["ok"] and None not in (w, h, bits, sf, so, sl) and 270 in d["tags"]
        ev = {"e": "Ifd", "i": i, "off": P(d["off"]), "len": L(d["off"], d["len"]), "next": P(d["next"]), "tags_ok": bool(tags_ok),
              "w": min(w or 0, 2**30), "h": min(h or 0, 2**30), "bits": bits or 0, "fmt": sf or 0,
              "so": P(so or 0), "sl": L(so or 0, sl or 0), "bytes_ok": False, "doff": 0, "dlen": 0, "json_ok": False,
              "ids_ok": False, "has_meta": False, "meta_ok": False}
        exp = fr[i] if i < len(fr) else None
        if exp is not None and so is not None and sl is not None:
            ev["bytes_ok"] = sl >= exp["w"] * exp["h"] * BPP[exp["ty"]] and strip_ok(b, so, acq["x"], acq["a"], exp)
        de = d["tags"].get(270)
        if de is not None and de[0] == 2:
            # (a value of at most 8 bytes is stored inside the directory entry: TiffObs asks for dlen > 8 // unit)
            ev["doff"], ev["dlen"] = P(de[3][0]), (L(de[3][0], de[3][1]) if de[3][1] > 8 else 0)
            if de[2] is not None:
                try:
                    j = json.loads(de[2].split(b"\0")[0].decode("utf8"))
                    ev["json_ok"] = isinstance(j, dict)
                    if ev["json_ok"] and exp is not None:
                        ts = j.get("timestamps") if isinstance(j.get("timestamps"), dict) else {}
                        ev["ids_ok"] = (j.get("frame_id") == exp["id"] and j.get("hardware_frame_id") == exp["hw"]
                                        and ts.get("runtime") == exp["trt"] and ts.get("hardware") == exp["thw"])
                        ev["has_meta"] = "metadata" in j
                        ev["meta_ok"] = ev["has_meta"] and acq.get("meta") is not None and j["metadata"] == json.loads(acq["meta"])
                except Exception:
                    pass
        evs.append(ev)
        i += 1
        off = d["next"]
    evs.append({"e": "Eof", "n": i, "stop": stop, "mj_exists": mj_exists, "mj_ok": mj_ok})
    if size:
        b.close()
    fh.close()
    return evs


if __name__ == "__main__":
    for p in sys.argv[1:]:
        for e in events(p, {"x": 0, "a": 1, "kind": "tiff", "meta": None, "frames": []}):
            print(json.dumps(e))
