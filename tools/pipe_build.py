"""Builds the real runtime + HAL from /repo together with the vsched scheduler and the pipeline harness."""
import os
from vlib import *
from chk_chanconc import PLATFORM_WRAPS

RUNTIME_SRCS = [
    "acquire-video-runtime/src/acquire.c",
    "acquire-video-runtime/src/runtime/channel.c",
    "acquire-video-runtime/src/runtime/filter.c",
    "acquire-video-runtime/src/runtime/frame_iterator.c",
    "acquire-video-runtime/src/runtime/sink.c",
    "acquire-video-runtime/src/runtime/source.c",
    "acquire-video-runtime/src/runtime/throttler.c",
    "acquire-video-runtime/src/runtime/vfslice.c",
    "acquire-core-libs/src/acquire-core-logger/logger.c",
    "acquire-core-libs/src/acquire-core-platform/linux/platform.c",
    "acquire-core-libs/src/acquire-device-hal/device/hal/camera.c",
    "acquire-core-libs/src/acquire-device-hal/device/hal/device.manager.cpp",
    "acquire-core-libs/src/acquire-device-hal/device/hal/driver.c",
    "acquire-core-libs/src/acquire-device-hal/device/hal/loader.c",
    "acquire-core-libs/src/acquire-device-hal/device/hal/storage.c",
    "acquire-core-libs/src/acquire-device-properties/device/props/components.c",
    "acquire-core-libs/src/acquire-device-properties/device/props/device.c",
    "acquire-core-libs/src/acquire-device-properties/device/props/storage.c",
]


def build_pipe(bdir, harness="pipeline/pipe_vs.c", name="pipe_vs", extra_wraps=("driver_load", "channel_new"), defs=()):
    objs = compile_objs(bdir, RUNTIME_SRCS + [os.path.join(HARNESS, harness), os.path.join(HARNESS, "vsched/vsched.c")],
                        extra_inc=[os.path.join(HARNESS, "vsched")], defs=list(defs) + ["NO_UNIT_TESTS"])
    return link(os.path.join(bdir, name), objs, wraps(PLATFORM_WRAPS + list(extra_wraps)))
