"""C03: a blocked writer always resumes (space released / writes refused); concurrent channel.

  (1) TLC: ChannelConc (writer, readers, controller over ChannelImpl's operators under lock/cv control, one action per
      run-to-next-scheduling-point): safety invariants incl. NoLostWakeup exhaustively; liveness (WriterResumes,
      WriterFinishes, RefusalUnblocks with readers that may stall for good) under FairSpec.
  (2) spec -> code: TLC-simulated behaviours exported as thread schedules + per-thread op scripts and replayed
      verbatim on the real channel.c under the deterministic scheduler; scheduling point and channel cursors
      compared after every step (DRIFT), the op trace judged by ChannelObs.
  (3) code -> spec: seeded random / PCT / starvation schedules of looping readers (full, partial, holding, stalling),
      a writer program and a controller that refuses (and re-accepts) writes at a scheduler-chosen moment; hang oracle =
      deadlock / fair livelock of the scheduler; every trace judged by ChannelObs (Hang*, Blocked*, Write* rules).
"""
import json, os, random, concurrent.futures as cf
from vlib import *
import chk_channel as seq

PLATFORM_WRAPS = ["lock_init", "lock_acquire", "try_lock_acquire", "lock_release", "condition_variable_init",
                  "condition_variable_wait", "condition_variable_notify_all", "event_init", "event_destroy", "event_set",
                  "event_wait", "event_notify_all", "thread_init", "thread_create", "thread_join", "clock_init", "clock_tic",
                  "clock_toc", "clock_toc_ms", "clock_cmp_now", "clock_sleep_ms"]

RULES = {"WriterAsleepThoughGrantable", "DrainNotBounded", "BlockedWhileDrained", "BlockedWhileRefusing", "WriteRefusedWhileAccepting", "WriteGrantedWhileRefusing",
         "HangWriterAsleepWhileRefusing", "HangWriterAsleepWhileDrained",
         # a read that comes back empty although committed bytes are unread: a reader that keeps reading never reaches the
         # drained state (the bounded-drain half of C03; the same refusal counts for C01)
         "EmptyNotDrained"}
# "HangOther" (writer asleep, accepting, readers not drained, or some other deadlock) is NOT a violation by itself: a writer may
# legitimately wait forever for readers that have stopped reading. The spurious-wake probe turns the illegitimate cases into
# WriterAsleepThoughGrantable.
IGNORED_RULES = {"HangOther"}

PC_AT = {"wm_lock": "lock_acquire", "wu_lock": "lock_acquire", "wa_lock": "lock_acquire", "rm_lock": "lock_acquire",
         "ru_lock": "lock_acquire", "ca_lock": "lock_acquire", "wm_rel": "lock_released", "wx_rel": "lock_released",
         "rm_rel": "lock_released", "ru_rel": "lock_released", "ca_rel": "lock_released", "w_hold": "op_done",
         "r_hold": "op_done", "idle": "op_done", "wm_cvw": "cv_wait_enter", "wm_sleep": "cv_sleep",
         "ru_ntf": "notify_all", "ca_ntf": "notify_all", "done": "exit"}


def build_conc(bdir):
    objs = compile_objs(bdir, [
        "acquire-video-runtime/src/runtime/channel.c",
        "acquire-core-libs/src/acquire-core-platform/linux/platform.c",
        "acquire-core-libs/src/acquire-core-logger/logger.c",
        os.path.join(HARNESS, "channel/chan_conc.c"),
        os.path.join(HARNESS, "vsched/vsched.c")], extra_inc=[os.path.join(HARNESS, "vsched")])
    return link(os.path.join(bdir, "chan_conc"), objs, wraps(PLATFORM_WRAPS))


def build_rt(bdir):
    """The same harness on REAL pthreads with the real platform.c (no deterministic scheduler): exercises platform.c's
    lock / condition-variable / thread wrappers, which vsched replaces."""
    os.makedirs(bdir, exist_ok=True)
    objs = compile_objs(bdir, [
        "acquire-video-runtime/src/runtime/channel.c",
        "acquire-core-libs/src/acquire-core-platform/linux/platform.c",
        "acquire-core-libs/src/acquire-core-logger/logger.c",
        os.path.join(HARNESS, "channel/chan_conc.c"),
        os.path.join(HARNESS, "vsched/rt_sched.c")], extra_inc=[os.path.join(HARNESS, "vsched")], defs=["RT_MODE"])
    return link(os.path.join(bdir, "chan_rt"), objs, wraps(["lock_release", "condition_variable_wait"]))


def conc_cfg(path, cap, nr, mw, nwrites, ntoggles, locked=True, full=False, stall=False, spec="CSpec", invs=(), props=(), extra=""):
    t = "CONSTANTS Cap = %d MaxReaders = %d MaxWrite = %d WithAccept = TRUE FIXED = 1 SampleMod = 1\n" % (cap, nr, mw)
    t += "CONSTANTS NWrites = %d NToggles = %d LockedAccept = %s FullReaders = %s MayStall = %s\n" % (
        nwrites, ntoggles, "TRUE" if locked else "FALSE", "TRUE" if full else "FALSE", "TRUE" if stall else "FALSE")
    t += extra
    t += "SPECIFICATION %s\nCHECK_DEADLOCK FALSE\n" % spec
    if spec != "HSpec":
        t += "VIEW CView\n"
    if invs:
        t += "INVARIANTS " + " ".join(invs) + "\n"
    if props:
        t += "PROPERTIES " + " ".join(props) + "\n"
    return write_cfg(path, t)


def walk_to_config(walk, cap, nr, out, steps):
    wprog, rprog, ctl, sched = [], {r: [] for r in range(1, nr + 1)}, [], []
    val = 0
    for st in walk:
        t, a, x = st["t"], st["a"], st["x"]
        sched.append(t)
        if a == "w_call":
            wprog.append([x, "c"])
        elif a == "w_abort_call":
            wprog[-1][1] = "a"
        elif a == "r_map_call":
            rprog[t - 1].append("m")
        elif a == "r_unmap_call":
            rprog[t - 1].append("u%d" % x)
        elif a in ("c_call", "c_store_unlocked"):
            ctl.append(val)
            val = 1 - val
    lines = ["cap %d" % cap, "seed 1", "strategy rr", "stop_after_schedule 1"]
    lines.append("writer " + " ".join("%d%s" % (n, k) for n, k in wprog))
    for r in range(1, nr + 1):
        lines.append("reader script " + " ".join(rprog[r]))
    lines.append("controller " + " ".join(map(str, ctl)) if ctl else "controller 0")
    if not ctl:
        # the controller thread must exist (thread ids) but must never act within the schedule
        lines[-1] = "controller 0"
        lines.append("cdelay 100000")
    lines.append("schedule " + " ".join(map(str, sched)))
    lines.append("out " + out)
    lines.append("steps " + steps)
    return "\n".join(lines) + "\n"


def compare_steps(walk, stepsfile, nr):
    """Returns None if the real run followed the model on every step, else a description of the first difference."""
    try:
        lines = open(stepsfile).read().splitlines()
    except OSError:
        return "no step log"
    if len(lines) < len(walk) + 1:
        return "run ended after %d of %d steps" % (len(lines) - 1, len(walk))
    for i, st in enumerate(walk):
        l = lines[i + 1]
        left, right = l.split("|")
        t, at, runnable = left.split()
        vals = list(map(int, right.split()))
        exp_at = PC_AT.get(st["pc"], "?")
        if int(t) != st["t"]:
            return "step %d: thread %s ran, model expected %d" % (i + 1, t, st["t"])
        if at != exp_at:
            return "step %d (%s): thread %d stopped at '%s', model expects '%s' (%s)" % (i + 1, st["a"], st["t"], at, exp_at, st["pc"])
        s = st["s"]
        exp = s[:5]
        n = s[4]
        got = vals[:5]
        if got != exp:
            return "step %d (%s): channel (head,high,cycle,accepting,n) = %s, model expects %s" % (i + 1, st["a"], got, exp)
        for k in range(n):
            if vals[5 + 2 * k] != s[5 + k] or vals[6 + 2 * k] != s[5 + nr + k]:
                return "step %d (%s): reader bookmark %d = (%d,%d), model expects (%d,%d)" % (
                    i + 1, st["a"], k + 1, vals[5 + 2 * k], vals[6 + 2 * k], s[5 + k], s[5 + nr + k])
    return None


def random_config(rng, i, out):
    cap = rng.choice([2, 3, 3, 4, 5, 6, 8])
    nr = rng.choice([1, 1, 2, 2, 3])
    nwr = rng.randint(3, 12)
    lines = ["cap %d" % cap, "seed %d" % rng.randint(1, 10**9)]
    strat = rng.choice(["random", "random", "pct", "starve", "starve"])
    lines.append("strategy " + strat)
    if strat == "pct":
        lines.append("pct_depth %d" % rng.randint(1, 4))
    if strat == "starve":
        lines.append("starve %d %d" % (rng.randint(1, 2 + nr), rng.choice([5, 10, 20, 40, 80])))
    if rng.random() < 0.2:
        lines.append("spurious %d" % rng.choice([2, 3, 5]))
    lines.append("writer " + " ".join("%d%s" % (rng.randint(1, cap - 1), "a" if rng.random() < 0.1 else "c") for _ in range(nwr)))
    pol = []
    for r in range(nr):
        pol.append(rng.choice(["full", "rand", "hold", "stall", "pstall", "hpstall", "full"]))
        lines.append("reader loop " + pol[-1])
    mode = rng.random()
    stalls = "stall" in pol or "pstall" in pol or "hpstall" in pol
    if mode < 0.75 and not (stalls and rng.random() < 0.4):
        # with a stalled reader only a refusal that stays in force can release the writer (40% of the stalled runs have no
        # controller at all: the writer may then block for good, which is legitimate unless the probe shows otherwise)
        lines.append("controller 0" if (stalls or rng.random() < 0.6) else "controller 0 1")
        lines.append("cdelay %d" % rng.choice([0, 1, 2, 3, 5, 8, 12, 20, 30, 45]))
    lines.append("out " + out)
    return "\n".join(lines) + "\n"


def window_configs(rng, nbase):
    """Systematic sweep of C03's quantifier: for seeded base programs in which the writer runs into a full ring while a
    reader holds / lags, the k next steps of thread t are placed right after the i-th time the writer stops between its
    predicate check and its sleep (scheduling point cv_wait_enter). Readers end with a partial unmap and then stall, so a
    wake-up lost inside the window is never repaired by a later notify; the spurious-wake probe then decides."""
    out = []
    for b in range(nbase):
        cap = rng.choice([3, 4, 4, 5, 8])
        nr = rng.choice([1, 1, 2])
        base = ["cap %d" % cap, "seed %d" % rng.randint(1, 10**9), "strategy rr" if b % 2 == 0 else "strategy random"]
        sizes = [cap - 1] + [rng.randint(1, cap - 1) for _ in range(rng.randint(2, 5))]
        base.append("writer " + " ".join("%dc" % n for n in sizes))
        for r in range(nr):
            base.append("reader loop " + (rng.choice(["hpstall", "hpstall", "pstall"]) if r == 0 else rng.choice(["hpstall", "full", "rand", "hold"])))
        has_ctl = rng.random() < 0.4
        if has_ctl:
            base += ["controller 0", "cdelay %d" % rng.choice([0, 2, 6, 15])]
        threads = list(range(2, 2 + nr)) + ([2 + nr] if has_ctl else [])
        for i in range(2):
            for t in threads:
                for k in (1, 2, 3, 4, 5, 6, 8):
                    out.append(base + ["window cv_wait_enter %d %d %d" % (i, t, k)])
    return out


def run_many(exe, cfgs, timeout=60):
    def one(c):
        rc, out = run([exe, c], timeout=timeout)
        return rc, out
    with cf.ThreadPoolExecutor(max_workers=NCPU) as ex:
        return list(ex.map(one, cfgs))


def concat(traces, dst):
    """Concatenate per-execution traces; returns list of (first line number, source index)."""
    idx = []
    line = 1
    with open(dst, "w") as fo:
        for i, t in enumerate(traces):
            try:
                data = open(t).read()
            except OSError:
                continue
            if not data:
                continue
            idx.append((line, i))
            fo.write(data)
            line += data.count("\n")
    return idx


def exec_of(idx, line):
    cur = idx[0][1]
    for first, i in idx:
        if first <= line:
            cur = i
        else:
            break
    return cur


def judge(chk, trace, idx, cfgs, bdir, kind, rules=None):
    rules = rules or RULES
    v = seq.validate_trace(trace, bdir, heap="6g")
    hits = 0
    done = set()
    for rule, line in v["bad"]:
        if rule in seq.HARNESS_RULES:
            raise Broken("harness misuse flagged by ChannelObs: %s at %s:%d" % (rule, trace, line))
        if rule in IGNORED_RULES:
            chk.add("hangs_with_legitimately_blocked_writer", 1)
            continue
        if rule not in rules:
            chk.notes.append("refusal by a rule of another property: %s" % rule)
            continue
        e = exec_of(idx, line)
        if (rule, e) in done:
            continue
        done.add((rule, e))
        ev = open(trace).read().splitlines()[line - 1]
        cfgtxt = open(cfgs[e]).read()
        hits += 1
        chk.violation("rule=%s site=%s" % (rule, json.loads(ev)["e"]),
                      "%s refused %s in a %s run; config:\n%s" % (rule, ev[:300], kind, cfgtxt[:600]),
                      replay_obj={"kind": "chan_conc", "config": cfgtxt, "rule": rule})
    return v


def replay_script(prop, path):
    obj = json.load(open(path))["replay"]
    if obj.get("kind") == "channel_script":
        seq.RULES[prop] = RULES
        return seq.replay_script(prop, path)
    bdir = build_dir("replay_" + prop)
    exe = build_conc(bdir)
    cfgp = os.path.join(bdir, "replay.cfg")
    out = os.path.join(bdir, "replay.ndjson")
    txt = "\n".join(l for l in obj["config"].splitlines() if not l.startswith(("out ", "steps "))) + "\nout %s\n" % out
    open(cfgp, "w").write(txt)
    run([exe, cfgp], timeout=120)
    v = seq.validate_trace(out, bdir)
    for l in open(out):
        log("  " + l.rstrip()[:300])
    hits = [b for b in v["bad"] if b[0] in (RULES if prop == "C03" else seq.RULES[prop])]
    if hits:
        log("VIOLATION property=%s replay=%s" % (prop, path))
        log("  refused: %s" % hits)
        return 1
    log("replay accepted by ChannelObs")
    return 0


def concurrent_family(chk, prop, bdir, n, rng):
    """For C01 / C02 (called by chk_channel.py): real writer and reader threads under the deterministic scheduler - states only
    a sleeping and re-awakened writer reaches (its wait loop re-evaluates the placement after readers have moved) - judged by
    ChannelObs with that property's rules."""
    sub = os.path.join(bdir, "conc")
    exe = build_conc(sub)
    cfgs, traces = [], []
    for i in range(n):
        out = os.path.join(sub, "k_%d.ndjson" % i)
        p = os.path.join(sub, "k_%d.cfg" % i)
        open(p, "w").write(random_config(rng, i, out))
        cfgs.append(p); traces.append(out)
    res = run_many(exe, cfgs)
    broken = [(c, rc, o) for c, (rc, o) in zip(cfgs, res) if rc != 0]
    if broken:
        crash_or_broken(broken[0][1], broken[0][2], "chan_conc", "chan_conc on " + open(broken[0][0]).read().replace("\n", "; ")[:400])
    allp = os.path.join(sub, "conc_all.ndjson")
    idx = concat(traces, allp)
    v = judge(chk, allp, idx, cfgs, sub, "concurrent (vsched)", rules=seq.RULES[prop])
    chk.cov["concurrent_family"] = {"runs": n, "events": v["consumed"]}
    for f in traces + cfgs + [allp]:
        try: os.remove(f)
        except OSError: pass
    return v["consumed"]


def main(prop, tier):
    chk = Check(prop, tier, "model_checking")
    bdir = build_dir(prop)
    exe = build_conc(bdir)
    thorough = tier == "thorough"
    sd = seed()
    rng = random.Random(sd)

    # ---- (1) TLC on ChannelConc ----------------------------------------------------------------------
    safety = [(3, 2, 2, 2, 1)] if not thorough else [(3, 2, 2, 3, 2), (4, 2, 3, 2, 1)]
    live = [(3, 1, 2, 3, 1, True), (3, 2, 2, 2, 1, False)] if not thorough else [(3, 2, 2, 3, 2, True), (3, 2, 2, 3, 1, False), (4, 1, 3, 3, 1, True)]
    jobs = []
    for c in safety:
        cfg = conc_cfg(os.path.join(bdir, "safe_%d_%d_%d_%d_%d.cfg" % c), *c, invs=["NoErr", "NoLostWakeup", "SleepSound", "LockSound", "Cursors"])
        jobs.append(("safety cap=%d readers=%d maxwrite=%d writes=%d toggles=%d" % c, cfg, 8))
    for c in live:
        cap, nr, mw, nwr, nt, stall = c
        cfg = conc_cfg(os.path.join(bdir, "live_%d_%d_%d_%d_%d_%d.cfg" % c), cap, nr, mw, nwr, nt, full=True, stall=stall, spec="FairSpec",
                       invs=["NoErr", "NoLostWakeup"], props=["RefusalUnblocks"] if stall else ["WriterResumes", "WriterFinishes", "RefusalUnblocks"])
        jobs.append(("liveness cap=%d readers=%d maxwrite=%d writes=%d toggles=%d stall=%s" % c, cfg, 6))

    def run_tlc(j):
        what, cfg, w = j
        return what, tlc("ChannelConc", cfg, bdir, workers=w, timeout=3000 if thorough else 900, heap="10g")

    # export walks
    depth = 90 if thorough else 70
    wcfg = conc_cfg(os.path.join(bdir, "walk.cfg"), 3, 2, 2, 8, 2, spec="HSpec", invs=["NoErr", "Dump"], extra="CONSTANT WalkDepth = %d\n" % depth)

    def run_walks(_):
        return tlc("MCChannelConc", wcfg, bdir, workers=4, timeout=600, simulate=(150 if thorough else 40), depth=depth,
                   coverage=False, seed_=sd, heap="4g")

    import apalache_obl
    with cf.ThreadPoolExecutor(max_workers=6) as ex:
        f_ap = ex.submit(apalache_obl.discharge, chk, bdir, "sync", thorough)
        f_t = [ex.submit(run_tlc, j) for j in jobs]
        f_w = ex.submit(run_walks, 0)
        # ---- (3) random / PCT / starvation runs meanwhile ----------------------------------------------
        nrand = 6000 if thorough else 1500
        cfgs = []
        traces = []
        for i in range(nrand):
            out = os.path.join(bdir, "r_%d.ndjson" % i)
            p = os.path.join(bdir, "r_%d.cfg" % i)
            open(p, "w").write(random_config(rng, i, out))
            cfgs.append(p)
            traces.append(out)
        nwin = 0
        for wl in window_configs(rng, 150 if thorough else 40):
            i = len(cfgs)
            out = os.path.join(bdir, "r_%d.ndjson" % i)
            p = os.path.join(bdir, "r_%d.cfg" % i)
            open(p, "w").write("\n".join(wl) + "\nout %s\n" % out)
            cfgs.append(p)
            traces.append(out)
            nwin += 1
        chk.set("window_sweep_runs", nwin)
        res = run_many(exe, cfgs)
        broken = [(c, rc, o) for c, (rc, o) in zip(cfgs, res) if rc != 0]
        if broken:
            crash_or_broken(broken[0][1], broken[0][2], "chan_conc", "chan_conc on " + open(broken[0][0]).read().replace("\n", "; ")[:400])
        tlc_res = [f.result() for f in f_t]
        wres = f_w.result()
        f_ap.result()

    states = transitions = 0
    for what, r in tlc_res:
        if r.violated:
            raise Broken("ChannelConc (%s) violates %s: the model of the repaired channel is wrong (%s)" % (what, r.violated, r.outpath))
        tlc_or_broken(r, "ChannelConc " + what)
        require_coverage(r, ["WTry", "WSleep", "RNotify", "CStore", "CNotify", "WCommit"], "ChannelConc " + what)
        states += r.distinct
        transitions += r.generated
        chk.cov.setdefault("models", []).append({"model": "ChannelConc " + what, "distinct_states": r.distinct, "transitions": r.generated,
                                                 "complete": r.queue == 0, "wall_s": round(r.wall, 1)})
    chk.set("states", states)
    chk.set("transitions", transitions)

    rall = os.path.join(bdir, "random_all.ndjson")
    idx = concat(traces, rall)
    hangs = sum(1 for t in traces if '"Hang"' in open(t).read())
    blocks = 0
    v = judge(chk, rall, idx, cfgs, bdir, "random/PCT/starvation schedule")
    chk.set("random_schedule_runs", len(idx))
    chk.set("hangs_observed", hangs)
    with open(rall) as f:
        blocks = sum(1 for l in f if '"WBlock"' in l)
    chk.set("writer_block_events_observed", blocks)
    if blocks < 50:
        raise Broken("random runs never made the writer block (%d WBlock events): vacuous" % blocks)
    events = v["consumed"]

    # ---- (2) replay of exported behaviours ---------------------------------------------------------------
    tlc_or_broken(wres, "export of ChannelConc walks")
    walks = printed_json(wres, "WALK")
    if len(walks) < 20:
        raise Broken("too few exported walks: %d" % len(walks))
    wcfgs, wtraces, wsteps = [], [], []
    for i, w in enumerate(walks):
        out = os.path.join(bdir, "w_%d.ndjson" % i)
        stp = os.path.join(bdir, "w_%d.steps" % i)
        p = os.path.join(bdir, "w_%d.cfg" % i)
        open(p, "w").write(walk_to_config(w, 3, 2, out, stp))
        wcfgs.append(p); wtraces.append(out); wsteps.append(stp)
    res = run_many(exe, wcfgs)
    drift = 0
    steps_compared = 0
    for w, stp, c in zip(walks, wsteps, wcfgs):
        d = compare_steps(w, stp, 2)
        steps_compared += len(w)
        if d:
            drift += 1
            if drift <= 3:
                chk.drift_note("schedule replay %s: %s" % (os.path.basename(c), d))
    wall = os.path.join(bdir, "walks_all.ndjson")
    widx = concat(wtraces, wall)
    v2 = judge(chk, wall, widx, wcfgs, bdir, "replayed ChannelConc behaviour")
    events += v2["consumed"]
    # ---- real threads, real platform.c ---------------------------------------------------------------------------------
    rt_exe = build_rt(os.path.join(bdir, "rt"))
    rt_cfgs, rt_traces = [], []
    for i in range(600 if thorough else 160):
        out = os.path.join(bdir, "rt_%d.ndjson" % i)
        p = os.path.join(bdir, "rt_%d.cfg" % i)
        open(p, "w").write(random_config(rng, i, out))
        rt_cfgs.append(p)
        rt_traces.append(out)
    res = run_many(rt_exe, rt_cfgs, timeout=120)
    brk = [(c, rc, o) for c, (rc, o) in zip(rt_cfgs, res) if rc != 0]
    if brk:
        crash_or_broken(brk[0][1], brk[0][2], "chan_rt", "chan_rt (real threads) on " + open(brk[0][0]).read().replace("\n", "; ")[:400])
    rtall = os.path.join(bdir, "rt_all.ndjson")
    rtidx = concat(rt_traces, rtall)
    v4 = judge(chk, rtall, rtidx, rt_cfgs, bdir, "real-thread (platform.c)")
    events += v4["consumed"]
    chk.set("real_thread_runs", len(rtidx))
    for f in rt_traces + rt_cfgs:
        try:
            os.remove(f)
        except OSError:
            pass

    # ---- sequential exploration judged with C03's rules (drain bound, blocked-while-drained on every transition) ----
    seq_exe = seq.build_seq(os.path.join(bdir, "seq"))
    seq_traces = []
    seq_cfgs = [(3, 2, 2, 1, 120000), (4, 2, 3, 0, 120000)] + ([(5, 2, 4, 0, 120000), (3, 3, 2, 0, 120000), (6, 2, 5, 0, 800000)] if thorough else [])
    if drift and not thorough:
        # the code no longer follows the model step by step: look deeper at once - capacities at which a write can be larger
        # than a whole earlier lap (a parked reader then limits the writer below the request), truncated breadth-first
        seq_cfgs += [(6, 2, 5, 0, 500000), (7, 2, 6, 0, 400000)]
        chk.notes.append("drift: sequential exploration escalated to capacities 6 and 7")
    for cap, nr, mw, acc, maxst in seq_cfgs:
        pre = os.path.join(bdir, "sx_%d_%d" % (cap, nr))
        rc, out = run([seq_exe, "explore", str(cap), str(nr), str(mw), str(acc), str(maxst), pre, "400000"], timeout=1200)
        try:
            r = json.loads(out.strip().splitlines()[-1])
            if 'chunks' not in r:
                raise ValueError("not a result line")
        except Exception:
            crash_or_broken(rc, out, "chan_seq_explore", "chan_seq exploration (cap=%d readers=%d)" % (cap, nr))
        seq_traces += [pre + ".%04d.ndjson" % i for i in range(r["chunks"])]
    probes = 0
    import concurrent.futures as cf3
    with cf3.ThreadPoolExecutor(max_workers=8) as ex3:
        verdicts3 = list(ex3.map(lambda t: seq.validate_trace(t, bdir), seq_traces))
    for t, v3 in zip(seq_traces, verdicts3):
        probes += sum(1 for l in open(t) if '"DrainProbe"' in l)
        events += v3["consumed"]
        done3 = set()
        for rule, line in v3["bad"]:
            if rule in RULES and rule not in done3:
                done3.add(rule)
                path = seq.witness_path(t, line)
                cap_, ops = seq.events_to_script(path)
                chk.violation("rule=%s site=%s" % (rule, path[-1]["e"]), "%s refused %s after %d ops (sequential exploration, capacity %d): ... %s" % (
                    rule, json.dumps(path[-1]), len(ops), cap_, " ; ".join(ops[-12:])), replay_obj={"kind": "channel_script", "cap": cap_, "ops": ops, "rule": rule})
        os.remove(t)
    chk.set("drain_probes_judged", probes)
    if probes < 1000:
        raise Broken("vacuous: only %d drain probes" % probes)
    chk.set("spec_behaviours_replayed", len(walks))
    chk.set("spec_steps_compared", steps_compared)
    chk.set("traces_validated_against_impl", len(idx) + len(widx))
    chk.set("events_validated", events)
    if drift:
        chk.set("replays_with_drift", drift)
        chk.assume("DRIFT: channel.c no longer follows ChannelConc step by step; the model-level liveness result does not transfer, "
                   "the verdict rests on the executed schedules")
    chk.sample({"exported_schedule_prefix": walks[0][:8]})
    chk.sample({"random_run_config": open(cfgs[0]).read().splitlines()})
    with open(traces[0]) as f:
        chk.sample({"trace_prefix": [json.loads(l) for l in f.read().splitlines()[:8]]})
    chk.set("checker_cmd", "tlc ChannelConc (safety + FairSpec liveness cfgs); tlc ChannelObs with TRACE=<vsched traces>")
    chk.assume("sequentially consistent byte-sized flag accesses (vsched serialises threads; x86-TSO in practice)")
    chk.assume("readers eventually unmap what they mapped; liveness is under weak fairness of every thread")
    chk.assume("exhaustive for capacity 3%s, <= 2 readers, <= 3 writes, <= 2 toggles; beyond that by seeded schedules" % ("-4" if thorough else ""))
    for f in traces + wtraces + wsteps + cfgs + wcfgs:
        try:
            os.remove(f)
        except OSError:
            pass
    return chk.finish()
