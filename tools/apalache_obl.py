"""Inductive-invariant obligations discharged by Apalache (symbolic constants)."""
import os, concurrent.futures as cf
from vlib import *

CURSORS = [  # (name, args)
    ("ChannelCursors: Init => IndInv", ["--cinit=%(c)s", "--init=Init", "--inv=IndInv", "--length=0", "ChannelCursors.tla"]),
    ("ChannelCursors: IndInv /\\ Next => IndInv'", ["--cinit=%(c)s", "--init=IndInv", "--inv=IndInv", "--length=1", "ChannelCursors.tla"]),
    ("ChannelCursors: IndInv => WriterRegionFree", ["--cinit=%(c)s", "--init=IndInv", "--inv=WriterRegionFree", "--length=0", "ChannelCursors.tla"]),
]
SYNC = [
    ("ChannelSync(locked): Init => IndInv", ["--cinit=CInitLocked", "--init=Init", "--inv=IndInv", "--length=0", "ChannelSync.tla"]),
    ("ChannelSync(locked): IndInv /\\ Next => IndInv'", ["--cinit=CInitLocked", "--init=InitInd", "--inv=IndInv", "--length=1", "ChannelSync.tla"]),
]
# must FAIL: the unlocked accept_writes is not inductive (sanity check that the obligation is not vacuous)
SYNC_NEG = ("ChannelSync(unlocked) must not be inductive", ["--cinit=CInit", "--init=InitInd", "--inv=IndInv", "--length=1", "ChannelSync.tla"])


def discharge(chk, bdir, which, thorough):
    """Runs the obligations in parallel; raises Broken if one is not discharged. Records them in the evidence."""
    obls = []
    if which == "cursors":
        obls = [(n, [a % {"c": "CInitFixed" if thorough else "CInitFixed3"} for a in args], True) for n, args in CURSORS]
    elif which == "sync":
        obls = [(n, args, True) for n, args in SYNC] + [(SYNC_NEG[0], SYNC_NEG[1], False)]

    def one(o):
        name, args, expect_ok = o
        rc, out, wall = apalache(args[-1], bdir, args[:-1], timeout=1500)
        ok = "EXITCODE: OK" in out
        return name, ok == expect_ok, round(wall, 1), out[-600:]
    with cf.ThreadPoolExecutor(max_workers=3) as ex:
        res = list(ex.map(one, obls))
    for name, good, wall, tail in res:
        if not good:
            raise Broken("Apalache obligation not discharged: %s\n%s" % (name, tail))
    chk.set("apalache_obligations", [{"obligation": n, "discharged": True, "wall_s": w} for n, g, w, t in res])
    chk.set("obligations", len(res))
    chk.set("discharged", len(res))
    chk.set("trusted_base", ["Apalache 0.58 / Z3", "TLC", "transcription ChannelCursors/ChannelSync (cross-checked by TLC on ChannelImpl's Cursors invariant and by the per-transition replay)"])
    chk.assume("symbolic capacity >= 2 with %d reader slots (cursor level)" % (8 if thorough else 3) if which == "cursors"
               else "symbolic K >= 1, NW >= 1 (synchronisation skeleton)")
