#!/usr/bin/env python3
"""Regenerates /verif/MANIFEST.json from the table below (single place to edit)."""
import json, os
V = os.path.dirname(os.path.dirname(os.path.abspath(__file__)))
ALL = ["C%02d" % i for i in range(1, 19)]

CHECKS = {
 "C01": dict(
    category="model_checking", design_ref="DESIGN.md section 6 (C01), section 15",
    technique="TLA+ model checking (TLC, complete unbounded-history graphs of ChannelImpl) bound to channel.c by per-transition replay and by TLC trace validation of an implementation-driven exhaustive exploration against ChannelObs",
    text="TLC explores the complete state graph of the code-shaped model ChannelImpl (relative ghost state, so histories are unbounded) for small capacities and checks in-order/exactly-once/empty-means-drained; every exported transition (incl. must-block ones) is replayed into the real channel.c; independently the real struct's own state graph is explored exhaustively and every transition of the real code is judged by the TLA+ observation spec ChannelObs in TLC; seeded random programs cover capacities up to 64 and 8 readers.",
    note="Trusted: TLC, the harness's event recording (offsets, lengths and the bytes actually read), capacities <= 4 (quick) / <= 7 (thorough) exhaustively with <= 3 readers; well-behaved readers (map/unmap discipline)."),
 "C02": dict(
    category="model_checking", design_ref="DESIGN.md section 6 (C02), section 15",
    technique="TLA+ model checking (TLC on ChannelImpl) + TLC trace validation of exhaustive implementation exploration against ChannelObs (writer-region / reader-region disjointness rules)",
    text="Same runs as C01, judged by the writer-side rules of ChannelObs: a granted write region lies inside the buffer and contains no byte any joined reader still has to see (mapped or unconsumed); a mapped reader region is re-read just before unmap and must be unchanged.",
    note="Trusted: as C01."),
 "C03": dict(
    category="model_checking", design_ref="DESIGN.md section 6 (C03), section 15",
    technique="TLA+ model checking (TLC: safety invariants incl. NoLostWakeup and liveness under weak fairness on ChannelConc) bound to channel.c by exact replay of exported thread schedules under a deterministic scheduler and by TLC trace validation (ChannelObs) of seeded random/PCT/starvation schedules with a deadlock/livelock oracle",
    text="ChannelConc runs the sequential channel operators under explicit lock/condition-variable control, one action per run-to-next-scheduling-point; TLC checks exhaustively that a sleeping writer always has a notify on its way (NoLostWakeup) and, under fairness, that it resumes, finishes, and is released by a refusal even when readers have stalled for good. Simulated behaviours are exported as schedules and replayed step by step on the real channel.c under the deterministic scheduler (scheduling point + cursors compared after every step); thousands of seeded schedules with stalling/holding/partial readers and a controller refusing writes at a scheduler-chosen instant are run with a hang oracle, every trace judged by ChannelObs.",
    note="Trusted: TLC; the deterministic scheduler's model of lock/cv semantics (platform.c's pthread wrappers are bypassed); sequentially consistent byte-sized flag accesses; readers eventually unmap; exhaustive for capacity 3(-4), <=2 readers, <=3 writes, <=2 toggles."),
}

def main():
    checks = []
    for pid in ALL:
        if pid not in CHECKS:
            continue
        c = CHECKS[pid]
        checks.append({
            "property_id": pid,
            "quick_cmd": "./check %s --tier quick" % pid,
            "thorough_cmd": "./check %s --tier thorough" % pid,
            "evidence_file": "/verif/evidence/%s.json" % pid,
            "replay_cmd_template": "./check %s --replay {path}" % pid,
            "engine": "tlc",
            "level_claimed": {"category": c["category"], "text": c["text"], "design_ref": c["design_ref"]},
            "level_note": c["note"],
            "technique": c["technique"],
        })
    na = [{"property_id": p, "reason": NA.get(p, "check not built yet in this round (planned per DESIGN.md section 6); nothing is claimed for it")}
          for p in ALL if p not in CHECKS]
    m = {
        "version": 1,
        "setup_cmd": "sh tools/setup.sh",
        "hooks": {
            "guard": "ACQUIRE_COMMON_VERIF",
            "enable": "checks compile the needed /repo sources themselves with -DACQUIRE_COMMON_VERIF=1 (see tools/vlib.py compile_objs); the normal cmake build never defines it",
            "baseline_off_cmd": "cmake -G Ninja -S /repo -B /repo/_build && cmake --build /repo/_build && ctest --test-dir /repo/_build -j8 --timeout 900",
            "source_commits": HOOK_COMMITS,
            "add_only": True,
        },
        "engines": [
            {"name": "tlc", "path": "/usr/local/bin/tlc", "serves_properties": sorted(CHECKS), "kind_free_text": "TLA+ explicit-state model checker; also used as the trace validator for implementation traces"},
            {"name": "apalache", "path": "/usr/local/bin/apalache-mc", "serves_properties": [p for p in ("C01", "C02", "C03") if p in CHECKS], "kind_free_text": "symbolic checker used for inductive invariants with symbolic capacity"},
        ],
        "checks": checks,
        "not_applicable": na,
        "notes": "All checks: ./check <id> --tier quick|thorough. Specs in /verif/specs, harnesses in /verif/harness (compiled from /repo's working tree on every run), known findings in /verif/known_findings.json.",
    }
    with open(os.path.join(V, "MANIFEST.json"), "w") as f:
        json.dump(m, f, indent=1)
    print("MANIFEST.json written: %d checks, %d not_applicable" % (len(checks), len(na)))

NA = {}
HOOK_COMMITS = []
if __name__ == "__main__":
    main()
