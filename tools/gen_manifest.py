#!/usr/bin/env python3
"""Regenerates /verif/MANIFEST.json from the table below (single place to edit)."""
import json, os
V = os.path.dirname(os.path.dirname(os.path.abspath(__file__)))
ALL = ["C%02d" % i for i in range(1, 19)]

# what was added to each check while independent seeded changes were evaluated (DESIGN 15.7): appended to the check's text
EXTRA = {
 "C01": " Also run: real writer/reader threads under the deterministic scheduler (a writer that sleeps and is woken again), judged with this property's rules; abort-then-unmap (the source's idiom for an empty frame) as an operation. Refusals (accept_writes(0)) at any point, also between a write's map and unmap with a reader lagging behind a wrap (capacity 5); a stale `mapped` field left by a refused unmap is part of the explored state and of ChannelImpl's VIEW.",
 "C02": " Also run: real writer/reader threads under the deterministic scheduler (a writer that sleeps and is woken again), judged with this property's rules. Refusals (accept_writes(0)) at any point, also between a write's map and unmap with a reader lagging behind a wrap (capacity 5); a stale `mapped` field left by a refused unmap is part of the explored state and of ChannelImpl's VIEW.",
 "C03": " On DRIFT (the code no longer follows ChannelConc step by step) the sequential exploration escalates at once to capacities 6 and 7, where a write can exceed a whole earlier lap.",
 "C04": " Families added: fullring (the consumer lags exactly one lap when the acquisition ends; software-triggered camera + scheduler exclusion window), exactly-filled rings, all eight sample types, type / shape changes between acquisitions, empty frame calls, write delay, the same scenario on stream 1 with stream 0 unconfigured; Pipeline.tla models the write delay and recorded executions with a delay are checked to be its behaviours.",
 "C05": " Also: sample-type changes at unchanged dimensions between acquisitions, cameras whose per-frame shape differs from get_shape at the same byte size, averaging family.",
 "C06": " Also: averaging while monitoring, polls while nothing runs (any stream), two streams half of the time, a region held across abort and released in part afterwards.",
 "C07": " Also: stop from a second thread, the scenario on stream 1 only, the client programs of the lifecycle family (stop/abort twice, before any start, after the acquisition finished by itself) judged with this property's rules, partial release of a region held across stop/abort.",
 "C08": " Also: the read-only API calls (shape, configuration read-back, metadata, backlog) with device-use events, cameras that reject their settings (while not running), unopenable devices; Lifecycle.tla also offers both streams the same storage device: the second start is refused, acquire_start fails and winds down what it had started (invariant FailedStartWindsDown, liveness of that join), bound by the same trace refinement (executions with a refused start are among the 64 per run).",
 "C09": " Also: get_shape failures, empty frame calls, the scenario on stream 1 only, averaging windows 1..3, a start right after the fault without configuring the failed device again (refused or not), a client that only polls the state after the fault.",
 "C10": " Also: another window size between acquisitions, all integer sample types incl. u10/u12/u14.",
 "C11": " Also: a driver whose open fails after it stored a pointer in *out; a driver call with a pointer that is none of the driver's devices (CallOnUnknownDevice); a crash of the wrappers under a HAL call is a verdict.",
 "C12": " Also: a malformed pattern repeated right after a successful selection on the same device manager; a pattern the regex library itself refuses to compile must give an error (MalformedAccepted); refusals are confirmed together with the calls that preceded them.",
 "C14": " Also: storage_set on a running device (accepted / rejected), path names that extend or are proper prefixes of the previous one, the file a start creates must be the configured one whatever the URI spelling (OpenWrongPath).",
 "C13": " Also: a destination field that refers to the source's own buffer (alias, as after a shallow struct copy) and is then copied over.",
 "C15": " Also: a second acquisition into the same file / dataset directory with other metadata (only the last acquisition into a path is read back); one acquisition beyond 4 GiB (multi-GiB all-zero frames written sparsely by the OS seam, positions reported in 8-byte units), a sweep over every metadata length 0..419 (thorough 0..4199), storage_set on a running device.",
 "C16": " Also: storage_set on a running device (accepted / rejected: finding F10), OpenWrongPath.",
 "C17": " Also: the concurrent camera (real streamer thread under the deterministic scheduler) re-configured in shape / sample type while it runs and a frame call may be pending: nothing is written past the image reported with the frame and it is filled to its end.",
 "C18": " Also: sets that keep the trigger setting while running, shape changes while running; the trigger enabled while the camera runs is judged (FrameWithoutTriggerAfterEnable: frame already published + exposure in flight + a latch not provably consumed may still arrive), with the same accounting carried as ghost state in SimCamStream's Toggle configurations (every set switches the trigger over), so that TLC shows no interleaving of the code as it is can be refused by the rule.",
}


CHECKS = {
 "C01": dict(
    category="model_checking", design_ref="DESIGN.md section 6 (C01), section 15",
    technique="TLA+ model checking (TLC, complete unbounded-history graphs of ChannelImpl) bound to channel.c by per-transition replay and by TLC trace validation of an implementation-driven exhaustive exploration against ChannelObs",
    text="TLC explores the complete state graph of the code-shaped model ChannelImpl (relative ghost state, so histories are unbounded) for small capacities and checks in-order/exactly-once/empty-means-drained; every exported transition (incl. must-block ones) is replayed into the real channel.c; independently the real struct's own state graph is explored exhaustively and every transition of the real code is judged by the TLA+ observation spec ChannelObs in TLC; seeded random programs cover capacities up to 64 and 8 readers.",
    note="Trusted: TLC, the harness's event recording (offsets, lengths and the bytes actually read), capacities <= 4 (quick) / <= 7 (thorough) exhaustively with <= 3 readers; well-behaved readers (map/unmap discipline)."),
 "C02": dict(
    category="model_checking", design_ref="DESIGN.md section 6 (C02), section 15",
    technique="TLA+ model checking (TLC on ChannelImpl) + TLC trace validation of exhaustive implementation exploration against ChannelObs (writer-region / reader-region disjointness rules)",
    text="Same runs as C01, judged by the writer-side rules of ChannelObs: a granted write region lies inside the buffer and contains no byte any joined reader still has to see (mapped or unconsumed); a mapped reader region is re-read just before unmap and must be unchanged.",
    note="Trusted: as C01."),
 "C03": dict(
    category="model_checking", design_ref="DESIGN.md section 6 (C03), section 15",
    technique="TLA+ model checking (TLC: safety invariants incl. NoLostWakeup and liveness under weak fairness on ChannelConc) bound to channel.c by exact replay of exported thread schedules under a deterministic scheduler and by TLC trace validation (ChannelObs) of seeded random/PCT/starvation schedules with a deadlock/livelock oracle",
    text="ChannelConc runs the sequential channel operators under explicit lock/condition-variable control, one action per run-to-next-scheduling-point; TLC checks exhaustively that a sleeping writer always has a notify on its way (NoLostWakeup) and, under fairness, that it resumes, finishes, and is released by a refusal even when readers have stalled for good. Simulated behaviours are exported as schedules and replayed step by step on the real channel.c under the deterministic scheduler (scheduling point + cursors compared after every step); thousands of seeded schedules with stalling/holding/partial readers and a controller refusing writes at a scheduler-chosen instant are run with a hang oracle, every trace judged by ChannelObs.",
    note="Trusted: TLC; the deterministic scheduler's model of lock/cv semantics (platform.c's pthread wrappers are bypassed); sequentially consistent byte-sized flag accesses; readers eventually unmap; exhaustive for capacity 3(-4), <=2 readers, <=3 writes, <=2 toggles."),
 "C04": dict(
    category="model_checking", design_ref="DESIGN.md section 6 (C04), section 15",
    technique="TLA+ observation specification (PipelineObs) evaluated by TLC over recorded traces of the real runtime executed under a deterministic scheduler (seeded random/PCT/starvation schedules, abort/fault sweeps, hang oracle)",
    text="Every acquired frame reaches storage exactly once, in order, bit-exact: the real runtime (acquire.c/source.c/sink.c/filter.c/channel.c/HAL) runs under the deterministic scheduler with a mock driver and rings of 1.2-5 frames under seeded random/PCT/starvation schedules, 1-2 streams, 1-3 acquisitions, write delays, slow storage, polling clients; every execution trace is judged event by event by the TLA+ spec PipelineObs in TLC (StorAppend must continue the camera's sequence with identical ids/hardware ids/shape/pixel hash, packet stable during the call, stop of a clean finite run must have delivered exactly N).",
    note="Trusted: TLC as the judge of PipelineObs; the deterministic scheduler's model of platform.h primitives; the mock driver (deterministic payloads, scripted pacing/faults); sequentially consistent flag accesses; client contract: a monitoring client keeps polling until the acquisition ends before it calls stop (a lagging registered monitor that calls stop on a full ring cannot be drained by anyone), and does not call start while another client call is in flight."),
 "C05": dict(
    category="model_checking", design_ref="DESIGN.md section 6 (C05), section 15",
    technique="TLA+ observation specification (PipelineObs) evaluated by TLC over recorded traces of the real runtime executed under a deterministic scheduler (seeded random/PCT/starvation schedules, abort/fault sweeps, hang oracle)",
    text="Packets are whole, exactly chained, 8-byte aligned frames: the same executions, judged by PipelineObs' layout rules on every storage packet and every monitor mapping (alignment of every header, size field = 8*ceil((hdr+w*h*bpp)/8) for all residues mod 8 and sample types, stepping lands exactly on the packet end, shape equals the camera's).",
    note="Trusted: TLC as the judge of PipelineObs; the deterministic scheduler's model of platform.h primitives; the mock driver (deterministic payloads, scripted pacing/faults); sequentially consistent flag accesses; client contract: a monitoring client keeps polling until the acquisition ends before it calls stop (a lagging registered monitor that calls stop on a full ring cannot be drained by anyone), and does not call start while another client call is in flight."),
 "C06": dict(
    category="model_checking", design_ref="DESIGN.md section 6 (C06), section 15",
    technique="TLA+ observation specification (PipelineObs) evaluated by TLC over recorded traces of the real runtime executed under a deterministic scheduler (seeded random/PCT/starvation schedules, abort/fault sweeps, hang oracle)",
    text='Monitoring client sees a gap-free, duplicate-free, fresh sequence: client programs with partial unmaps, holding, first map in later acquisitions, maps after stop/abort; PipelineObs requires consecutive ids continuing the consumed cursor, frames identical to what the camera delivered in the *current* acquisition (payload depends on the acquisition), unchanged while mapped, nothing after stop/abort returned, map/unmap keep succeeding, storage rules unaffected.',
    note="Trusted: TLC as the judge of PipelineObs; the deterministic scheduler's model of platform.h primitives; the mock driver (deterministic payloads, scripted pacing/faults); sequentially consistent flag accesses; client contract: a monitoring client keeps polling until the acquisition ends before it calls stop (a lagging registered monitor that calls stop on a full ring cannot be drained by anyone), and does not call start while another client call is in flight."),
 "C07": dict(
    category="model_checking", design_ref="DESIGN.md section 6 (C07), section 15",
    technique="TLA+ observation specification (PipelineObs) evaluated by TLC over recorded traces of the real runtime executed under a deterministic scheduler (seeded random/PCT/starvation schedules, abort/fault sweeps, hang oracle)",
    text='Abort and stop always return and leave a reusable runtime: abort injected at a sweep of scheduling distances and from a second client thread, with trigger-blocked cameras, infinite acquisitions, full rings, client holding a mapped region; hang oracle (deadlock / fair livelock) + PipelineObs rules at return (no worker alive, camera and storage stopped, Armed, storage got a gap-free prefix) and a complete correct acquisition afterwards.',
    note="Trusted: TLC as the judge of PipelineObs; the deterministic scheduler's model of platform.h primitives; the mock driver (deterministic payloads, scripted pacing/faults); sequentially consistent flag accesses; client contract: a monitoring client keeps polling until the acquisition ends before it calls stop (a lagging registered monitor that calls stop on a full ring cannot be drained by anyone), and does not call start while another client call is in flight."),
 "C09": dict(
    category="fault_enumeration", design_ref="DESIGN.md section 6 (C09), section 15",
    technique="TLA+ observation specification (PipelineObs) evaluated by TLC over recorded traces of the real runtime executed under a deterministic scheduler (seeded random/PCT/starvation schedules, abort/fault sweeps, hang oracle)",
    text='A failing camera or storage winds the acquisition down cleanly: every frame index for camera faults and every append index for storage faults over random shapes/rings/schedules incl. slow storage (writer blocked on a full ring); hang oracle for stop and abort; PipelineObs: nothing appended after a storage failure, camera stopped, not Running once workers exited, later acquisition (after re-configure) complete and correct.',
    note="Trusted: TLC as the judge of PipelineObs; the deterministic scheduler's model of platform.h primitives; the mock driver (deterministic payloads, scripted pacing/faults); sequentially consistent flag accesses; client contract: a monitoring client keeps polling until the acquisition ends before it calls stop (a lagging registered monitor that calls stop on a full ring cannot be drained by anyone), and does not call start while another client call is in flight."),
 "C10": dict(
    category="model_checking", design_ref="DESIGN.md section 6 (C10), section 15",
    technique="TLA+ observation specification (PipelineObs) evaluated by TLC over recorded traces of the real runtime executed under a deterministic scheduler (seeded random/PCT/starvation schedules, abort/fault sweeps, hang oracle)",
    text='Frame averaging emits the exact mean of each window: k in {2,3}, all integer types, rings of ~1.2-5 accumulators pre-filled with non-zero bytes, random schedules; PipelineObs: f32 frames, id = first frame of the window, windows consecutive, complete windows only after their inputs, mean within 1 ulp of sum/k recomputed from the camera payload, at least floor(N/k) frames at stop and at most one extra.',
    note="Trusted: TLC as the judge of PipelineObs; the deterministic scheduler's model of platform.h primitives; the mock driver (deterministic payloads, scripted pacing/faults); sequentially consistent flag accesses; client contract: a monitoring client keeps polling until the acquisition ends before it calls stop (a lagging registered monitor that calls stop on a full ring cannot be drained by anyone), and does not call start while another client call is in flight."),
 "C18": dict(
    category="model_checking", design_ref="DESIGN.md section 6 (C18), section 15",
    technique="TLA+/PlusCal model of the camera's streamer/controller/caller threads checked by TLC (safety + liveness under fairness) and TLC trace validation (SimCamStreamObs) of the real simulated.camera.c executed under a deterministic scheduler",
    text="SimCamStream models simulated.camera.c's streamer, trigger, start/stop and get_frame at scheduling-point granularity (lock, both condition variables, unlocked flag reads where the code has them); TLC checks ids strictly increasing, trigger gating, no stale frame and, under fairness, that stop returns and releases a pending frame call. The real camera code runs under the deterministic scheduler (random/PCT/starvation schedules, spurious wake-ups, trigger toggled while live, up to 3 restarts) with a hang oracle; every call trace, ordered by linearization points taken under the camera lock, is judged by SimCamStreamObs in TLC.",
    note="Trusted: TLC; the deterministic scheduler's model of lock/cv/thread primitives; sequentially consistent unlocked flag accesses; client contract: start is not issued while a frame call of the previous run is in flight; trigger gating from the first frame is judged only for runs during which the trigger setting stayed enabled (a disabling set fires the trigger by design), gating after an enable while running with the allowance stated in the check description; start is not issued while a set is in progress."),
 "C08": dict(
    category="model_checking", design_ref="DESIGN.md section 6 (C08), section 15",
    technique="TLA+ model checking (TLC on Lifecycle.tla: API-level life cycle over 2 streams x 2 cameras x 2 storages, safety + liveness) bound to the code by checking that recorded executions are behaviours of the model (LifecycleTrace), plus the TLA+ observation spec LifecycleObs evaluated by TLC over device-call traces of grammar-generated client programs run under a deterministic scheduler",
    text="Lifecycle.tla models acquire_configure/start/stop/abort/get_state/shutdown, the per-stream open/close/set logic and the HAL state guards as micro-steps that each emit at most one observable event, with worker threads abstracted to 'alive' plus the device stops they issue; TLC explores all client programs up to 6 (9 thorough) calls for every finite/infinite stream combination and checks the device protocol per handle, 'Running only while workers are alive', 'Armed after stop/abort', and that stop/abort/shutdown return. Recorded executions of the real runtime are projected to the model's events and must be behaviours of the model (64/64 accepted per run; a corrupted return state is rejected). Independently, programs from the full usage grammar (incl. monitoring, triggers, restart-on-Armed without stop, slow camera stop) are judged per device handle by LifecycleObs.",
    note="Trusted: as the pipeline checks. Well-formedness assumptions stated in DESIGN.md: a stream's device assignment is not changed while its workers are alive; stop is only called when every running stream is finite; a client that has mapped a stream keeps polling until the acquisition is over before calling stop."),
 "C11": dict(
    category="model_checking", design_ref="DESIGN.md section 6 (C11), section 15",
    technique="TLA+ model checking (TLC, complete graph of Hal.tla for camera and storage x every driver answer) bound to camera.c/storage.c/driver.c by per-transition replay, exhaustive bounded-history walks and implementation-driven exploration whose call logs are judged by the TLA+ observation spec DeviceProtocolObs in TLC",
    text="Hal.tla models the HAL state field against the driver-side truth for every HAL function x every status/state the driver may answer (incl. NULL vtable entries, describe/open/close failures, out-of-range states); TLC explores the complete graph (so histories of any length) and checks: no stop without a successful start, no frame/append outside running, exactly one close per open and nothing afterwards, reported state follows the driver's last answer. Every exported transition and every history to depth 6 (8 thorough) is replayed into the real wrappers with a scripted mock driver whose close poisons and shadow-copies the released block (any later vtable call or write is an event); the real wrappers' own state graph is explored exhaustively; all call logs are judged by DeviceProtocolObs.",
    note="Trusted: TLC; the mock driver's poisoning (plain reads of a released block are only visible to the ASan instrument build); one device per history; storage drivers' returned state is taken as the driver-side truth (strict reading available as a switch, reported separately)."),
 "C12": dict(
    category="model_checking", design_ref="DESIGN.md section 6 (C12), section 15",
    technique="TLA+ specification of regex-AST matching and first-match selection over the real enumeration table, enumerated by TLC; the (kind, pattern, expected) table and seeded arbitrary byte strings are run against the real device manager and judged by the TLA+ observation spec DeviceSelectObs in TLC",
    text="DeviceSelect.tla defines whole-name, case-insensitive matching of a regex AST (literals, classes, any, grouping, star/plus/opt, concatenation, alternation) twice (span-splitting and position automaton, checked to agree), Render(ast) and Select(kind, ast) = first enumerated index of that kind; the enumeration table is read from the real device_manager at run time. TLC enumerates every canonical AST up to size 5 (6 thorough) and emits expected results; the harness runs them, case-flipped / NUL-padded / length-limited variants, select_first/default, every index incl. out of range, opens every identifier, and 10^4 (10^5) seeded arbitrary / malformed byte strings in supervised child processes against the real device.manager.cpp + loader.c + the common driver .so built from the tree, in stagings with absent / broken / duplicate / synthetic driver libraries; DeviceSelectObs judges every event (exact rule in the modelled grammar, weak rule 'error or an enumerated device of that kind, never a crash/exception' elsewhere).",
    note="Trusted: TLC; libstdc++ regex only through the code under test; exact expectations only for the modelled grammar and size bounds; pathological backtracking patterns are recorded as SLOW, never judged; embedded NUL bytes in a pattern get the weak rule."),
 "C13": dict(
    category="model_checking", design_ref="DESIGN.md section 6 (C13), section 15",
    technique="TLA+ model checking (TLC on PropsImpl: abstract heap, all call sequences to a bounded depth) bound to storage.c by replay of every exported transition and by TLC trace validation (PropsObs) of allocator + projection traces recorded through a malloc/realloc/free link seam",
    text="PropsImpl.tla models init/set_uri/set_external_metadata/set_access_key_and_secret/set_dimension/set_enable_multiscale/copy/destroy over 2-3 objects with an abstract heap (allocation ids never reused, live flags, who points where), seven caller-string kinds (NULL, empty, short, long, unterminated, zero-byte, NULL-with-length, borrowed) and 0..2 dimensions; TLC explores all call sequences to depth 3-6 (4-8 thorough) and checks no sharing, every free hits a live cell, nothing dangling or leaked, strings terminated, copy leaves the source unchanged and dst equal. All exported transitions plus simulated walks are replayed into the real functions (projection compared per step); every execution (incl. an ASan-instrumented build and seeded random sequences with both a never-reuse and a LIFO-reuse allocator policy) is judged by PropsObs in TLC.",
    note="Trusted: TLC; the link-time allocator seam (only allocations made inside library calls are recorded); init only on objects that own nothing, copy only between distinct objects; allocation failure is not injected; exhaustive for <= 3 objects, <= 2 dimensions, the seven string kinds to the stated depths."),
 "C17": dict(
    category="model_checking", design_ref="DESIGN.md section 6 (C17), section 15",
    technique="TLA+ model checking (TLC, complete graph of SimCamConfig: properties in effect, clamping, strides, buffer sizes vs. rendered extent incl. both bin2 variants' index formulas, streamer capture/render phases) bound to simulated.camera.c by replay of exported histories (21 observables per call) and by TLC trace validation (SimCamObs) of allocator/shape/frame traces; sanitizer and checking-allocator reports enter only as events",
    text="SimCamConfig.tla mirrors the camera's structs (properties, im.shape, both buffer sizes, HAL state, the streamer's capture/render pc with its captured full-resolution shape) with one action per HAL call over the real MAX of 8192, kinds x binning {1,2,4,8} x sample types x a boundary shape set x offsets; TLC completes the graph (unbounded histories) and checks reported shape/strides = clamped dims, read-back = in effect, frame copies exactly bytes_of_image, render extent (max of fill and every bin2 pass, AVX2 and plain) within the buffers, vector accesses legal for the buffers' alignment. Witness histories are replayed on the real code (AVX2 and plain builds); replayed plus directed/seeded scenarios (sets raced against the streamer at three gates, restarts, too-small caller buffers) run with a canary/quarantine allocator and under ASan, and every trace is judged by SimCamObs.",
    note="Trusted: TLC; the transcription of the bin2 index formulas (watched by a drift counter on pcg/sinf calls); streaming executed only up to 1 MiB (16 MiB thorough) per frame, larger configurations by model and set/get replay; out-of-bounds accesses not captured by the transcribed formulas are caught only by the instruments on executed configurations; trigger off (C18 covers triggering)."),
 "C14": dict(
    category="model_checking", design_ref="DESIGN.md section 6 (C14), section 15",
    technique="TLA+ model checking (TLC on RawWriter composed with an OS model: write-all loop, short writes, start/stop cycles) bound to raw.c + platform.c by replay of every exported transition through a libc link seam and by TLC trace validation (FileObs) of OS-call traces with file read-back",
    text="RawWriter.tla models the device's state, descriptor, running offset and the platform write-all loop with retries over an OS model with scripted short writes; TLC explores all set/start/append/stop/close histories for small constants and checks that the file equals the concatenation of the packets appended since the matching start. Every exported transition is replayed through the real HAL + raw device with the pwrite seam playing the short-write script (state and exact OS call sequence compared per step); all traces plus seeded random histories (all sample types, odd sizes, file:// URIs, 1-3 cycles, two interleaved devices, byte-granular short writes) are judged by FileObs in TLC with the files read back.",
    note="Trusted: TLC; the libc seam for platform.c (virtual descriptors issued lowest-free, so a stale number really lands in another device's file); the independent BigTIFF reader tools/tiffread.py (C15); each case runs in a child with a 256 KB stack and a watchdog so recursion / hangs become events; paths are fresh per acquisition (file_create does not truncate); close/unlink/access are never made to fail."),
 "C15": dict(
    category="model_checking", design_ref="DESIGN.md section 6 (C15), section 15",
    technique="TLA+ model checking (TLC on TiffWriter incl. the side-by-side composite: offsets, sections, chain patching) bound to tiff.cpp / side-by-side-tiff.cpp by transition replay, with every produced file parsed by an independent BigTIFF reader whose events are judged by the TLA+ observation spec TiffObs in TLC",
    text="TiffWriter.tla models last_offset_/last_ifd_next_offset_/frame_count_, the IFD/data/strings sections with 8-byte alignment, link patching, stop-only-when-Running and the composite device driving the inner writer; TLC checks for small constants that the chain has exactly N directories ending in zero, sections are disjoint and inside the file. The real devices are driven through the real HAL along every exported history and seeded ones (8 sample types, odd shapes, metadata strings, fractional pixel scales, file:// URIs, packet groupings, repeated cycles); each finished file is parsed by tools/tiffread.py and TiffObs requires header II/43/8/0, exactly N directories, zero terminal link, in-file non-overlapping structures, width/height/bits/format tags, strip bytes equal to the frame, JSON description with ids/timestamps, user metadata on frame 0 (tiff) or in metadata.json (tiff-json).",
    note="Trusted: TLC; the libc seam for platform.c (virtual descriptors issued lowest-free, so a stale number really lands in another device's file); the independent BigTIFF reader tools/tiffread.py (C15); each case runs in a child with a 256 KB stack and a watchdog so recursion / hangs become events; paths are fresh per acquisition (file_create does not truncate); close/unlink/access are never made to fail."),
 "C16": dict(
    category="fault_enumeration", design_ref="DESIGN.md section 6 (C16), section 15",
    technique="fault enumeration (every fallible OS call index x transient/persistent over 32 reference histories x 4 storage kinds) on model-checked TLA+ specs (RawWriter/TiffWriter with faults), every OS-call trace judged by the TLA+ observation spec FileObs in TLC",
    text="The fault variants of RawWriter/TiffWriter are model-checked (failure reported no later than the failing append, no re-entrancy, only owned descriptors); the harness enumerates 408 fault cases (fail the k-th open/flock/pwrite, transient or persistent, for every k of 32 reference histories incl. open/close without start, repeated start/stop, close while running, two devices alive so stale numbers are re-issued) plus seeded random ones, each in a child with a small stack and watchdog; FileObs keeps the descriptor table and ownership per device and refuses double/foreign/std closes, writes after close, leaks, unreported failures, crashes, stack overflows and timeouts.",
    note="Trusted: TLC; the libc seam for platform.c (virtual descriptors issued lowest-free, so a stale number really lands in another device's file); the independent BigTIFF reader tools/tiffread.py (C15); each case runs in a child with a 256 KB stack and a watchdog so recursion / hangs become events; paths are fresh per acquisition (file_create does not truncate); close/unlink/access are never made to fail."),
}

def main():
    checks = []
    for pid in ALL:
        if pid not in CHECKS:
            continue
        c = CHECKS[pid]
        checks.append({
            "property_id": pid,
            "quick_cmd": "./check %s --tier quick" % pid,
            "thorough_cmd": "./check %s --tier thorough" % pid,
            "evidence_file": "/verif/evidence/%s.json" % pid,
            "replay_cmd_template": "./check %s --replay {path}" % pid,
            "engine": "tlc",
            "level_claimed": {"category": c["category"], "text": c["text"] + EXTRA.get(pid, ""), "design_ref": c["design_ref"]},
            "level_note": c["note"],
            "technique": c["technique"],
        })
    na = [{"property_id": p, "reason": NA.get(p, "check not built yet in this round (planned per DESIGN.md section 6); nothing is claimed for it")}
          for p in ALL if p not in CHECKS]
    m = {
        "version": 1,
        "setup_cmd": "sh tools/setup.sh",
        "hooks": {
            "guard": "ACQUIRE_COMMON_VERIF",
            "enable": "checks compile the needed /repo sources themselves with -DACQUIRE_COMMON_VERIF=1 (see tools/vlib.py compile_objs); the normal cmake build never defines it",
            "baseline_off_cmd": "cmake -G Ninja -S /repo -B /repo/_build && cmake --build /repo/_build && ctest --test-dir /repo/_build -j8 --timeout 900",
            "source_commits": HOOK_COMMITS,
            "add_only": True,
        },
        "engines": [
            {"name": "tlc", "path": "/usr/local/bin/tlc", "serves_properties": sorted(CHECKS), "kind_free_text": "TLA+ explicit-state model checker; also used as the trace validator for implementation traces"},
            {"name": "apalache", "path": "/usr/local/bin/apalache-mc", "serves_properties": [p for p in ("C01", "C02", "C03") if p in CHECKS], "kind_free_text": "symbolic checker used for inductive invariants with symbolic capacity"},
        ],
        "checks": checks,
        "not_applicable": na,
        "notes": "All checks: ./check <id> --tier quick|thorough. Specs in /verif/specs, harnesses in /verif/harness (compiled from /repo's working tree on every run), known findings in /verif/known_findings.json.",
    }
    with open(os.path.join(V, "MANIFEST.json"), "w") as f:
        json.dump(m, f, indent=1)
    print("MANIFEST.json written: %d checks, %d not_applicable" % (len(checks), len(na)))

NA = {}
HOOK_COMMITS = []
if __name__ == "__main__":
    main()
