"""C01 / C02 (and the sequential Obs rules of C03): ring-buffer channel, sequential view.

  (1) TLC: ChannelImpl (code-shaped model with relative ghost state) exhaustively, complete unbounded-history graphs.
  (2) spec -> code: every transition of the exported graph (incl. negative "must block" transitions) replayed
      into the real channel.c by *setting* the source state and comparing all cursors/results  -> DRIFT only.
  (3) code -> spec: implementation-driven BFS over the real struct's state graph; every transition of the real
      code is written as a Push/event/Pop trace and judged by the observation spec ChannelObs in TLC -> VIOLATION.
  (4) seeded random op programs (capacity 2..64, up to 8 readers, toggles) judged by ChannelObs -> VIOLATION.
  (5) Apalache: inductive invariant of the cursor-level model for symbolic capacity (ChannelCursors).
"""
import json, os, sys, time, concurrent.futures as cf
import random
from vlib import *

RULES = {
    "C01": {"EmptyNotDrained", "ReadWrongPlace", "ReadWrongBytes", "ReadUncommitted", "JoinNotAtBoundary",
            "ReaderStatusNotOk", "ReadOutOfBuffer"},
    "C02": {"WriteOutOfBuffer", "WriterOverlapsUnread", "MappedRegionModified", "ReadUncommitted", "ReadOutOfBuffer"},
    "C03": {"DrainNotBounded", "BlockedWhileDrained", "BlockedWhileRefusing", "WriteRefusedWhileAccepting", "WriteGrantedWhileRefusing"},
}
HARNESS_RULES = {"HarnessMisuseMapWhileMapped", "HarnessSeenLength", "HarnessPopEmpty", "UnknownEvent"}


def build_seq(bdir):
    objs = compile_objs(bdir, [
        "acquire-video-runtime/src/runtime/channel.c",
        "acquire-core-libs/src/acquire-core-platform/linux/platform.c",
        "acquire-core-libs/src/acquire-core-logger/logger.c",
        os.path.join(HARNESS, "channel/chan_seq.cpp")])
    return link(os.path.join(bdir, "chan_seq"), objs, wraps(["condition_variable_wait", "lock_acquire"]))


def impl_cfg(path, cap, nr, maxw, acc, fixed=1, export=False, sample=1, props=True):
    t = "CONSTANTS Cap = %d MaxReaders = %d MaxWrite = %d WithAccept = %s FIXED = %d SampleMod = %d\n" % (
        cap, nr, maxw, "TRUE" if acc else "FALSE", fixed, sample)
    t += "SPECIFICATION Spec\nVIEW View\nCHECK_DEADLOCK FALSE\n"
    if export:
        t += "INVARIANT NoErr\nACTION_CONSTRAINT EmitSample\n"
    else:
        t += "INVARIANTS NoErr TypeOK LagBounded MappedInside Cursors\n"
        if props:
            t += "PROPERTY LagStep\n"
    return write_cfg(path, t)


def edges_to_text(outpath, textpath):
    n = 0
    neg = 0
    sample = None
    with open(textpath, "w") as fo:
        for e in iter_printed_json(outpath, "EDGE"):
            a = e["a"]
            fo.write("%s %d %d | %s | %s\n" % (a["a"], a["x"], a["r"], " ".join(map(str, e["s"])), " ".join(map(str, e["d"]))))
            n += 1
            if a["a"] == "WMapBlocks":
                neg += 1
            if sample is None and a["a"] == "RMap":
                sample = e
    return n, neg, sample


def witness_path(chunk, line):
    """Reconstruct the op path (from Reset) leading to event number `line` of a Push/Pop trace."""
    stack, cur = [], []
    with open(chunk) as f:
        for i, l in enumerate(f, 1):
            e = json.loads(l)
            k = e["e"]
            if k == "Push":
                stack.append(len(cur))
            elif k == "Pop":
                if stack:
                    del cur[stack.pop():]
            elif k == "Reset":
                cur = [e]
                stack = []
            else:
                cur.append(e)
            if i >= line:
                break
    return cur


def events_to_script(path_events):
    cap = 3
    ops = []
    for e in path_events:
        k = e["e"]
        if k == "Reset":
            cap = e["cap"]
        elif k in ("WMap", "WBlock"):
            ops.append("w %d" % e["n"])
        elif k == "WCommit":
            ops.append("c")
        elif k == "WAbort":
            ops.append("a")
        elif k == "Accept":
            ops.append("t")
        elif k == "RMap":
            ops.append("r %d" % e["r"])
        elif k == "RUnmap":
            ops.append("u %d %d" % (e["r"], e["c"]))
    return cap, ops


def validate_trace(trace, workdir, timeout=1500, heap="6g"):
    """Run ChannelObs over one ndjson file. Returns dict(consumed, nbad, bad) or raises Broken."""
    cfg = os.path.join(SPECS, "ChannelObs.cfg")
    r = tlc("ChannelObs", cfg, workdir, workers=1, timeout=timeout, env={"TRACE": trace}, coverage=False, heap=heap)
    v = printed_json(r, "VERDICT")
    if not v:
        raise Broken("ChannelObs produced no verdict for %s: rc=%s %s\n%s" % (trace, r.rc, r.error, r.out[-2000:]))
    nlines = sum(1 for _ in open(trace))
    if v[0]["consumed"] != nlines:
        raise Broken("ChannelObs consumed %d of %d events of %s" % (v[0]["consumed"], nlines, trace))
    return v[0]


def judge(chk, prop, traces, workdir, kind, exe):
    """Validate traces (in parallel) and turn refusals of this property's rules into violations."""
    # validate in batches; once this property has violations the remaining (possibly huge) traces are skipped
    verdicts = []
    done_traces = []
    B = max(1, NCPU // 2)
    with cf.ThreadPoolExecutor(max_workers=B) as ex:
        for i in range(0, len(traces), B):
            batch = traces[i:i + B]
            vs = list(ex.map(lambda t: validate_trace(t, workdir), batch))
            verdicts += vs
            done_traces += batch
            if any(r in RULES[prop] for v in vs for r, _ in v["bad"]):
                if i + B < len(traces):
                    chk.notes.append("stopped validating after the first refusals: %d of %d traces judged" % (len(done_traces), len(traces)))
                break
    traces = done_traces
    total = 0
    other = {}
    seen_sig = {}
    for t, v in zip(traces, verdicts):
        total += v["consumed"]
        per_trace = {}
        for rule, line in v["bad"]:
            per_trace[rule] = per_trace.get(rule, 0) + 1
            if rule in RULES[prop] and (per_trace[rule] > 2 or seen_sig.get(rule, 0) >= 6):
                seen_sig[rule] = seen_sig.get(rule, 0) + 1
                continue
            seen_sig[rule] = seen_sig.get(rule, 0) + 1
            if rule in HARNESS_RULES:
                raise Broken("harness misuse flagged by ChannelObs: %s at %s:%d" % (rule, t, line))
            if rule not in RULES[prop]:
                other[rule] = other.get(rule, 0) + 1
                continue
            path = witness_path(t, line)
            cap, ops = events_to_script(path)
            sig = "rule=%s site=%s" % (rule, path[-1]["e"])
            txt = "%s refused %s after %d ops (%s, capacity %d): ... %s" % (
                rule, json.dumps(path[-1]), len(ops), kind, cap, " ; ".join(ops[-12:]))
            chk.violation(sig, txt, replay_obj={"kind": "channel_script", "cap": cap, "ops": ops, "rule": rule})
    if any(r in RULES[prop] for r in seen_sig):
        chk.set("refusals_by_rule", {r: sum(v["nbad"] for v in verdicts) if False else n for r, n in seen_sig.items() if r in RULES[prop]})
    if other:
        chk.notes.append("refusals by rules of other properties (reported by their own checks): %s" % other)
    return total, verdicts


def replay_script(prop, path):
    """./check C01 --replay file : re-run a saved witness on the real code and re-judge it."""
    obj = json.load(open(path))["replay"]
    if obj.get("kind") == "chan_conc":       # a witness of the concurrent family
        import chk_chanconc
        return chk_chanconc.replay_script(prop, path)
    bdir = build_dir("replay_" + prop)
    exe = build_seq(bdir)
    opsf = os.path.join(bdir, "ops.txt")
    open(opsf, "w").write("\n".join(obj["ops"]) + "\n")
    tr = os.path.join(bdir, "trace.ndjson")
    run([exe, "script", str(obj["cap"]), opsf, tr], timeout=60, check=True)
    v = validate_trace(tr, bdir)
    hits = [b for b in v["bad"] if b[0] in RULES[prop]]
    for l in open(tr):
        log("  " + l.rstrip())
    if hits:
        log("VIOLATION property=%s replay=%s" % (prop, path))
        log("  refused: %s" % hits)
        return 1
    log("replay accepted by ChannelObs (no refusal)")
    return 0


def main(prop, tier):
    chk = Check(prop, tier, "model_checking")
    bdir = build_dir(prop)
    exe = build_seq(bdir)
    thorough = tier == "thorough"
    sd = seed()

    # ---- (1) TLC exhaustive on ChannelImpl, (2) export for replay: run concurrently ---------------------
    mc = [(3, 2, 2, True), (4, 2, 3, False)]
    if thorough:
        mc += [(5, 2, 4, False), (3, 3, 2, False), (4, 2, 3, True), (6, 2, 3, False)]
    exports = [(3, 2, 2, True, 1)]
    if thorough:
        exports.append((4, 2, 3, False, 1))
    else:
        exports.append((4, 2, 3, False, 16))

    def run_mc(c):
        cap, nr, mw, acc = c
        cfg = impl_cfg(os.path.join(bdir, "mc_%d_%d_%d_%d.cfg" % (cap, nr, mw, acc)), cap, nr, mw, acc)
        r = tlc("ChannelImpl", cfg, bdir, workers=4 if not thorough else 8, timeout=3000 if thorough else 900,
                heap="12g" if thorough else "6g")
        return c, r

    def run_export(c):
        cap, nr, mw, acc, sample = c
        cfg = impl_cfg(os.path.join(bdir, "ex_%d_%d_%d_%d.cfg" % (cap, nr, mw, acc)), cap, nr, mw, acc, export=True, sample=sample)
        r = tlc("ChannelImpl", cfg, bdir, workers=1, timeout=3000 if thorough else 900, coverage=False, heap="4g")
        tlc_or_broken(r, "export of ChannelImpl cap=%d" % cap)
        txt = os.path.join(bdir, "edges_%d_%d_%d_%d.txt" % (cap, nr, mw, acc))
        n, neg, sample_e = edges_to_text(r.outpath, txt)
        os.remove(r.outpath)
        rc, out = run([exe, "replay", txt, str(cap), str(nr)], timeout=900)
        try:
            res = json.loads(out.strip().splitlines()[-1])
            if 'replayed' not in res:
                raise ValueError("not a result line")
        except Exception:
            crash_or_broken(rc, out, "chan_seq_replay", "chan_seq replay of ChannelImpl transitions (cap=%d readers=%d)" % (cap, nr))
        mism = [l for l in out.splitlines() if l.startswith("MISMATCH")]
        return c, n, neg, res, mism, sample_e

    def run_explore(c):
        cap, nr, mw, acc, maxst = c
        pre = os.path.join(bdir, "ex_%d_%d_%d_%d" % (cap, nr, mw, acc))
        rc, out = run([exe, "explore", str(cap), str(nr), str(mw), str(int(acc)), str(maxst), pre, "400000"], timeout=1200)
        try:
            res = json.loads(out.strip().splitlines()[-1])
            if 'chunks' not in res:
                raise ValueError("not a result line")
        except Exception:
            crash_or_broken(rc, out, "chan_seq_explore", "chan_seq exploration (cap=%d readers=%d maxwrite=%d)" % (cap, nr, mw))
        chunks = [pre + ".%04d.ndjson" % i for i in range(res["chunks"])]
        return c, res, chunks

    # state caps: a broken implementation may have an unbounded state graph; a truncated exploration is still judged
    # (the last one: refusals between a write's map and unmap, with room for a reader that lags behind a wrap)
    explores = [(3, 2, 2, 1, 120000), (4, 2, 3, 0, 120000), (3, 3, 2, 0, 120000), (5, 1, 2, 1, 120000)]
    if thorough:
        explores += [(5, 2, 4, 0, 2 * 10**6), (4, 2, 3, 1, 10**6), (4, 3, 2, 0, 3 * 10**5), (6, 2, 3, 0, 10**6), (7, 2, 6, 0, 5 * 10**5)]

    import apalache_obl
    with cf.ThreadPoolExecutor(max_workers=8) as ex:
        f_ap = ex.submit(apalache_obl.discharge, chk, bdir, "cursors", thorough)
        f_mc = [ex.submit(run_mc, c) for c in mc]
        f_ex = [ex.submit(run_export, c) for c in exports]
        f_xp = [ex.submit(run_explore, c) for c in explores]
        # random programs meanwhile
        rnd_trace = os.path.join(bdir, "random.ndjson")
        nprog = 3000 if thorough else 400
        rc, out = run([exe, "random", str(sd), str(nprog), "120", rnd_trace], timeout=600)
        try:
            rnd = json.loads(out.strip().splitlines()[-1])
            if 'programs' not in rnd:
                raise ValueError("not a result line")
        except Exception:
            crash_or_broken(rc, out, "chan_seq_random", "chan_seq random programs (seed %d)" % sd)
        mc_res = [f.result() for f in f_mc]
        ex_res = [f.result() for f in f_ex]
        xp_res = [f.result() for f in f_xp]
        f_ap.result()

    # (1) model results
    states = transitions = 0
    for c, r in mc_res:
        what = "ChannelImpl cap=%d readers=%d maxwrite=%d toggle=%s" % c
        if r.violated:
            raise Broken("%s: the implementation-shaped model violates %s; the model no longer mirrors a correct "
                         "channel (see %s)" % (what, r.violated, r.outpath))
        tlc_or_broken(r, what)
        require_coverage(r, ["L_WMap", "L_WUnmap", "L_WAbort", "L_RMap", "L_RUnmap", "L_WMapBlocks"], what)
        states += r.distinct
        transitions += r.generated
        chk.cov.setdefault("models", []).append({"model": what, "distinct_states": r.distinct, "transitions": r.generated,
                                                 "depth": r.depth, "complete": r.queue == 0, "wall_s": round(r.wall, 1)})
    chk.set("states", states)
    chk.set("transitions", transitions)

    # (2) replay results -> drift
    replayed = 0
    drift = False
    for c, n, neg, res, mism, sample_e in ex_res:
        replayed += res["replayed"]
        chk.cov.setdefault("replay", []).append({"graph": "cap=%d readers=%d maxwrite=%d toggle=%s sample=1/%d" % c,
                                                 "transitions_replayed": res["replayed"], "negative_transitions": res["negative"],
                                                 "mismatches": res["mismatches"]})
        if sample_e:
            chk.sample({"exported_transition": sample_e})
        if res["replayed"] < 1000 or res["negative"] < 10:
            raise Broken("replay of cap=%d graph is vacuous: %s" % (c[0], res))
        if res["mismatches"]:
            drift = True
            for m in mism[:3]:
                chk.drift_note("channel.c disagrees with ChannelImpl: " + m[:300])
    chk.set("spec_transitions_replayed_into_impl", replayed)
    if drift:
        chk.assume("DRIFT: channel.c no longer follows ChannelImpl on every transition; the exhaustive model-level result "
                   "does not transfer for this run, the verdict rests on the implementation-driven exploration")

    # (3)+(4) code -> spec
    traces = [rnd_trace]
    impl_states = impl_trans = 0
    for c, res, chunks in xp_res:
        traces += chunks
        impl_states += res["states"]
        impl_trans += res["transitions"]
        chk.cov.setdefault("impl_exploration", []).append({"graph": "cap=%d readers=%d maxwrite=%d toggle=%d" % c[:4], **res})
    if drift and not thorough:
        # drift-triggered deepening: look harder at the real code before declaring the property intact
        extra = [(5, 2, 4, 0, 100000), (4, 2, 3, 1, 100000)]
        for c in extra:
            _, res, chunks = run_explore(c)
            traces += chunks
            impl_states += res["states"]
            impl_trans += res["transitions"]
        t2 = os.path.join(bdir, "random2.ndjson")
        run([exe, "random", str(sd + 7919), "3000", "150", t2], timeout=600, check=True)
        traces.append(t2)
    total, verdicts = judge(chk, prop, traces, bdir, "implementation-driven exploration / random programs", exe)
    chk.set("traces_validated_against_impl", len(verdicts))
    chk.set("impl_states_explored", impl_states)
    chk.set("impl_transitions_judged_by_obs", impl_trans)
    chk.set("random_programs", rnd["programs"])
    chk.set("events_validated", total)
    chk.set("exhaustive", True)
    chk.set("checker_cmd", "tlc ChannelImpl (MC cfgs) ; tlc ChannelObs with TRACE=<impl trace>")
    if impl_trans < 10000:
        raise Broken("implementation exploration is vacuous: %d transitions" % impl_trans)
    with open(traces[1]) as f:
        head = [json.loads(next(f)) for _ in range(12)]
    chk.sample({"impl_trace_prefix": head})
    chk.assume("exhaustiveness is for capacities <= %d bytes and <= 3 readers (unbounded history); larger capacities and up to "
               "8 readers by seeded random programs" % (7 if thorough else 4))
    chk.assume("readers follow map/unmap discipline; write sizes are below the capacity")
    for f in traces:
        try:
            os.remove(f)
        except OSError:
            pass
    # ---- concurrent family: the same clauses on executions with a writer that sleeps and is woken again -------------------
    import chk_chanconc
    chk_chanconc.concurrent_family(chk, prop, bdir, 1500 if thorough else 400, random.Random(sd * 13 + 5))
    return chk.finish()
