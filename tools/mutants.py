#!/usr/bin/env python3
"""In-house mutation sweep: small syntactic changes to the repository's sources, each run through the quick tier of the
checks that claim the code's properties.  Not a registered check - a tool for finding blind spots of the checks.

  tools/mutants.py gen  <out.jsonl> [--per-file N] [--seed S] [file-substring ...]   enumerate/sampling mutants
  tools/mutants.py run  <in.jsonl> <results.jsonl> [--workers K] [--tier quick]      run them (scratch worktrees in /tmp)
  tools/mutants.py show <results.jsonl>                                              summary + survivors

Scratch worktrees are /tmp/mutw_<k>; they and their build directories are removed at the end of `run`.
"""
import json, os, random, re, subprocess, sys, threading, time

REPO = "/repo"
VERIF = os.path.dirname(os.path.dirname(os.path.abspath(__file__)))

# file -> checks (ordered: most likely to detect first)
MAP = [
    ("acquire-video-runtime/src/runtime/channel.c", ["C01", "C03", "C04", "C06"]),
    ("acquire-video-runtime/src/acquire.c", ["C07", "C08", "C04", "C06", "C09"]),
    ("acquire-video-runtime/src/runtime/source.c", ["C04", "C07", "C09", "C08"]),
    ("acquire-video-runtime/src/runtime/sink.c", ["C04", "C09", "C08", "C07", "C06"]),
    ("acquire-video-runtime/src/runtime/filter.c", ["C10", "C05", "C07", "C04"]),
    ("acquire-video-runtime/src/runtime/frame_iterator.c", ["C10", "C04"]),
    ("acquire-video-runtime/src/runtime/vfslice.c", ["C04", "C09"]),
    ("acquire-core-libs/src/acquire-device-hal/device/hal/camera.c", ["C11", "C08", "C04"]),
    ("acquire-core-libs/src/acquire-device-hal/device/hal/storage.c", ["C11", "C16", "C08", "C04"]),
    ("acquire-core-libs/src/acquire-device-hal/device/hal/driver.c", ["C11", "C12"]),
    ("acquire-core-libs/src/acquire-device-hal/device/hal/device.manager.cpp", ["C12", "C08"]),
    ("acquire-core-libs/src/acquire-device-properties/device/props/storage.c", ["C13"]),
    ("acquire-core-libs/src/acquire-device-properties/device/props/components.c", ["C05", "C17", "C04"]),
    ("acquire-driver-common/src/storage/raw.c", ["C14", "C16"]),
    ("acquire-driver-common/src/storage/tiff.cpp", ["C15", "C16"]),
    ("acquire-driver-common/src/storage/side-by-side-tiff.cpp", ["C16", "C15"]),
    ("acquire-driver-common/src/simcams/simulated.camera.c", ["C18", "C17"]),
    ("acquire-driver-common/src/simcams/imfill.pattern.cpp", ["C17"]),
]

OPS = [
    (r"<=", "<"), (r">=", ">"), (r"(?<![<>=!-])<(?![<=])", "<="), (r"(?<![<>=!-])>(?![>=])", ">="),
    (r"==", "!="), (r"!=", "=="), (r"&&", "||"), (r"\|\|", "&&"),
    (r"(?<![+\w)\]] )\+(?![+=])", "-"), (r"(?<=[\w)\]] )-(?![-=>])", "+"),
    (r"\+=", "-="), (r"-=", "+="), (r"\+\+", "--"),
    (r"(?<![\w.])0(?![\w.])", "1"), (r"(?<![\w.])1(?![\w.])", "0"), (r"(?<![\w.])1(?![\w.])", "2"),
    (r"!(?=[\w(])", ""), (r"%", "/"),
]


def mask(line, in_block):
    """return (code with strings/comments blanked, in_block)"""
    out = []
    i = 0
    n = len(line)
    while i < n:
        if in_block:
            j = line.find("*/", i)
            if j < 0:
                out.append(" " * (n - i)); i = n
            else:
                out.append(" " * (j + 2 - i)); i = j + 2; in_block = False
        elif line.startswith("//", i):
            out.append(" " * (n - i)); i = n
        elif line.startswith("/*", i):
            in_block = True; out.append("  "); i += 2
        elif line[i] == '"' or line[i] == "'":
            q = line[i]; j = i + 1
            while j < n and line[j] != q:
                j += 2 if line[j] == "\\" else 1
            out.append(" " * (min(j, n - 1) + 1 - i)); i = min(j, n - 1) + 1
        else:
            out.append(line[i]); i += 1
    return "".join(out), in_block


def enumerate_mutants(path):
    lines = open(os.path.join(REPO, path)).read().split("\n")
    res = []
    in_block = False
    depth = 0          # preprocessor nesting
    ut_at = None       # depth at which a unit-test region (#ifndef NO_UNIT_TESTS) was entered: not built by the checks
    for ln, line in enumerate(lines):
        code, in_block = mask(line, in_block)
        s = code.strip()
        if s.startswith("#"):
            if re.match(r"#\s*if", s):
                depth += 1
                if ut_at is None and "NO_UNIT_TESTS" in s:
                    ut_at = depth
            elif re.match(r"#\s*endif", s):
                if ut_at == depth:
                    ut_at = None
                depth -= 1
            continue
        if not s or ut_at is not None or s.endswith("\\") or re.match(r"^(\}\s*while\s*\(0\))", s):
            continue
        if re.match(r"^\s*(LOG|LOGE|TRACE|ERR|EXPECT\s*\(\s*0)\b", code):
            continue
        for k, (pat, rep) in enumerate(OPS):
            for m in re.finditer(pat, code):
                new = line[: m.start()] + rep + line[m.end():]
                res.append({"file": path, "line": ln + 1, "op": f"{pat}->{rep}", "col": m.start(), "orig": line.strip(), "new": new.strip(), "newline": new})
        # statement deletion: a single-line call / assignment
        if re.match(r"^\s*[\w\->.\[\]()*&]+\s*(\(|=|\+=|-=|\+\+|--).*;\s*$", code) and not re.match(r"^\s*(return|goto|break|continue|struct|const|static|int|size_t|uint\w*|char|void|float|double|auto|enum)\b", code):
            ind = re.match(r"^\s*", line).group(0)
            res.append({"file": path, "line": ln + 1, "op": "delete-stmt", "col": 0, "orig": line.strip(), "new": ";", "newline": ind + ";"})
    return res


def cmd_gen(argv):
    out = argv[0]
    per = 12
    seed = 1
    subs = []
    i = 1
    while i < len(argv):
        if argv[i] == "--per-file": per = int(argv[i + 1]); i += 2
        elif argv[i] == "--seed": seed = int(argv[i + 1]); i += 2
        else: subs.append(argv[i]); i += 1
    rnd = random.Random(seed)
    total = 0
    with open(out, "w") as f:
        for path, checks in MAP:
            if subs and not any(s in path for s in subs):
                continue
            ms = enumerate_mutants(path)
            rnd.shuffle(ms)
            # at most one mutant per (line) to spread them out
            seen = set(); pick = []
            for m in ms:
                if m["line"] in seen: continue
                seen.add(m["line"]); pick.append(m)
                if len(pick) >= per: break
            for m in pick:
                m["checks"] = checks
                f.write(json.dumps(m) + "\n")
            total += len(pick)
            print(f"{path}: {len(ms)} possible, {len(pick)} picked")
    print("total", total)


def sh(cmd, **kw):
    return subprocess.run(cmd, shell=True, stdout=subprocess.PIPE, stderr=subprocess.STDOUT, text=True, **kw)


def run_one(wt, m, tier):
    p = os.path.join(wt, m["file"])
    src = open(p).read()
    lines = src.split("\n")
    assert lines[m["line"] - 1].strip() == m["orig"], (m, lines[m["line"] - 1])
    lines[m["line"] - 1] = m["newline"]
    open(p, "w").write("\n".join(lines))
    res = {"result": "survived", "by": None, "detail": []}
    t0 = time.time()
    try:
        for cid in m["checks"]:
            r = sh(f"timeout 1500 {VERIF}/tools/on_tree {wt} {cid} --tier {tier}")
            out = r.stdout
            viol = [l for l in out.split("\n") if l.startswith("VIOLATION")]
            sigs = sorted(set(re.findall(r"signature: *(\S+)", out)))[:6]
            res["detail"].append({"check": cid, "rc": r.returncode, "nviol": len(viol), "sigs": sigs})
            if r.returncode == 1 and viol:
                res["result"] = "detected"; res["by"] = cid; break
            if r.returncode != 0:
                tail = out[-1500:]
                if re.search(r"error:|undefined reference|compile|cannot build|ld returned", tail):
                    res["result"] = "build-fail"
                else:
                    res["result"] = "broken"; res["tail"] = tail[-600:]
                res["by"] = cid; break
    finally:
        open(p, "w").write(src)
    res["secs"] = round(time.time() - t0, 1)
    return res


def cmd_run(argv):
    inp, outp = argv[0], argv[1]
    workers = 3; tier = "quick"
    i = 2
    while i < len(argv):
        if argv[i] == "--workers": workers = int(argv[i + 1]); i += 2
        elif argv[i] == "--tier": tier = argv[i + 1]; i += 2
        else: i += 1
    ms = [json.loads(l) for l in open(inp)]
    done = set()
    if os.path.exists(outp):
        for l in open(outp):
            d = json.loads(l); done.add((d["file"], d["line"], d["op"], d["col"]))
    todo = [m for m in ms if (m["file"], m["line"], m["op"], m["col"]) not in done]
    print(f"{len(todo)} mutants to run ({len(done)} already done)", flush=True)
    lock = threading.Lock()
    it = iter(todo)

    def worker(k):
        wt = f"/tmp/{os.environ.get('MUTW_BASE', 'mutw')}_{k}"
        sh(f"git -C {REPO} worktree remove --force {wt}; rm -rf {wt}")
        r = sh(f"git -C {REPO} worktree add --detach {wt} HEAD")
        if r.returncode: print(r.stdout); return
        try:
            while True:
                with lock:
                    m = next(it, None)
                if m is None: break
                res = run_one(wt, m, tier)
                rec = {k2: m[k2] for k2 in ("file", "line", "op", "col", "orig", "new")}
                rec.update(res)
                with lock:
                    with open(outp, "a") as f: f.write(json.dumps(rec) + "\n")
                    print(f"[{k}] {m['file'].split('/')[-1]}:{m['line']} {m['op']} -> {res['result']} by {res['by']} ({res['secs']}s)", flush=True)
        finally:
            tag = re.sub(r"[^A-Za-z0-9]", "_", wt + "\n")
            sh(f"git -C {REPO} worktree remove --force {wt}; rm -rf {wt} /var/tmp/vp-build/{tag}")

    ths = [threading.Thread(target=worker, args=(k,)) for k in range(workers)]
    for t in ths: t.start()
    for t in ths: t.join()
    cmd_show([outp])


def cmd_show(argv):
    rs = [json.loads(l) for l in open(argv[0])]
    from collections import Counter
    c = Counter(r["result"] for r in rs)
    print(dict(c))
    byf = {}
    for r in rs:
        byf.setdefault(r["file"].split("/")[-1], Counter())[r["result"]] += 1
    for f, cc in byf.items(): print(f"  {f}: {dict(cc)}")
    print("survivors / broken:")
    for r in rs:
        if r["result"] in ("survived", "broken"):
            print(f"  {r['result']:9s} {r['file'].split('/')[-1]}:{r['line']}  {r['op']}\n      - {r['orig']}\n      + {r['new']}")
            if r["result"] == "broken": print("      tail:", r.get("tail", "")[-300:].replace("\n", " | "))


if __name__ == "__main__":
    {"gen": cmd_gen, "run": cmd_run, "show": cmd_show}[sys.argv[1]](sys.argv[2:])
