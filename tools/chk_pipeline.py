"""C04 C05 C06 C07 C09 C10: the acquisition pipeline (source / filter / sink / client threads, camera, storage).

  code -> spec: the REAL runtime (acquire.c, source.c, sink.c, filter.c, channel.c, HAL, device manager) runs under the
  deterministic scheduler with a scriptable mock driver and tiny rings (1.2 .. 5 frames, so the ring wraps and fills all
  the time); seeded random / PCT / starvation schedules, systematic abort-point and fault-index sweeps; hang oracle.
  Every execution's observation trace is judged by the TLA+ specification PipelineObs in TLC (total trace spec).
  model: Pipeline.tla (implementation-shaped, TLC exhaustive incl. liveness) -- see chk_pipeline_model.
"""
import json, os, random, math, concurrent.futures as cf
from vlib import *
import pipe_build
from chk_chanconc import run_many, concat, exec_of

HDR = 96
BPP = {"u8": 1, "i8": 1, "u16": 2, "i16": 2, "u10": 2, "u12": 2, "u14": 2, "f32": 4}

RULES = {
    "C08": {"UseAfterClose", "UseOfUnknownHandle", "UseAfterShutdown", "HandleReused", "ClosedTwice", "ClosedWhileRunning",
            "StartWhileRunning", "StopWithoutStart", "AppendOutsideStartStop", "FrameOutsideStartStop", "WorkersAliveAfterStop",
            "DeviceRunningAfterStop", "NotArmedAfterStop", "DeviceNotClosedByShutdown", "WorkersAliveAfterShutdown",
            "RunningWithoutWorkers", "Hang"},
    "C04": {"StorNotRunning", "StorFrameOrder", "StorFrameNotFromCamera", "StorFrameMismatch", "StorPixelsAltered",
            "PacketChangedDuringAppend", "StopIncomplete", "StopCameraIncomplete", "FrameShape"},
    "C05": {"PacketNotWhole", "FrameMisaligned", "FrameSizeField", "FrameShape", "MonPacketNotWhole", "MonFrameMisaligned",
            "MonFrameSizeField", "MonFrameShape"},
    "C06": {"MonMapFailed", "MonUnmapFailed", "MonGapOrRepeat", "MonFrameMismatch", "MonDataAfterStop", "MonRegionChanged",
            "StorFrameOrder", "StorFrameMismatch", "StorFrameNotFromCamera", "StopIncomplete"},
    "C07": {"Hang", "WorkersAliveAfterStop", "WorkersAliveAfterShutdown", "CameraRunningAfterStop", "StorageRunningAfterStop",
            "NotArmedAfterStop", "ActivityAfterStop", "StopIncomplete", "StopCameraIncomplete", "StorFrameOrder",
            "StorFrameMismatch", "StorFrameNotFromCamera", "StartFailed", "MonFrameMismatch", "MonDataAfterStop",
            "AvgWindowId", "AvgWrongMean", "AvgPartialNotLast", "AvgIncomplete", "AvgNotFloat"},
    "C09": {"Hang", "AppendAfterStorFail", "CameraRunningAfterStop", "StorageRunningAfterStop", "WorkersAliveAfterStop",
            "RunningWithoutWorkers", "NotArmedAfterStop", "StopIncomplete", "StopCameraIncomplete", "StorFrameOrder",
            "StorFrameMismatch", "StorFrameNotFromCamera", "StartFailed", "ActivityAfterStop",
            "AvgWindowId", "AvgWrongMean", "AvgIncomplete", "AvgPartialNotLast", "AvgNotFloat"},
    "C10": {"AvgNotFloat", "AvgWindowId", "AvgTooManyFrames", "AvgBeforeInputs", "AvgWrongMean", "AvgIncomplete", "AvgPartialNotLast",
            "FrameShape", "FrameSizeField", "StopCameraIncomplete"},
}
HARNESS_RULES = {"UnknownEvent"}
for _k in RULES:
    RULES[_k].add("Crash")   # the code under test crashed (signal) during the execution


def frame_bytes(w, h, ty):
    return 8 * ((HDR + w * h * BPP[ty] + 7) // 8)


def acc_bytes(w, h):
    return 8 * ((HDR + w * h * 4 + 7) // 8)


def sched_lines(rng, nthreads):
    strat = rng.choice(["random", "random", "random", "pct", "starve", "starve"])
    lines = ["seed %d" % rng.randint(1, 10**9), "strategy " + strat]
    if strat == "pct":
        lines += ["pct_depth %d" % rng.randint(1, 4), "pct_len %d" % rng.choice([200, 600, 1500])]
    if strat == "starve":
        lines.append("starve %d %d" % (rng.randint(0, nthreads), rng.choice([10, 30, 60, 120, 250, 500])))
    return lines


def stream_line(rng, s, fam, avg=1):
    w, h = rng.randint(1, 9), rng.randint(1, 5)
    # (all sample types of the property headers; the averaging filter takes the integer ones)
    ty = rng.choice(["u8", "u8", "u16", "i8", "i16", "u10", "u12", "u14"] + (["f32"] if avg <= 1 else []))
    n = rng.randint(1, 12)
    if avg > 1:
        n = rng.randint(avg, 5 * avg + 1)
    d = dict(frames=n, w=w, h=h, type=ty, avg=avg, delay_ms=rng.choice([0, 0, 0, 2, 10]), trigger=0,
             camfail=-1, stofail=-1, shapefail=-1, slow=rng.choice([0, 0, 1, 2, 4]), pace=rng.choice([0, 0, 1, 3]),
             zero=rng.choice([-1, -1, -1, -1, rng.randint(0, max(0, n - 1))]),   # a frame call that comes back empty once
             # the shape the camera reports with a frame may differ from get_shape (same bytes); not for the averaging filter,
             # which refuses to mix shapes within a window
             vary=1 if (avg <= 1 and rng.random() < 0.2) else 0,
             flipat=-1, fw=1, fh=1,
             camstop=rng.choice([0, 0, 0, 2, 6, 15, 40]))
    if fam == "complete" and avg <= 1 and rng.random() < 0.25:
        # the camera's own frame counter has gaps (frames it dropped by itself): the ids it reports travel with the frames
        d["hwgap"] = rng.randint(0, max(0, n - 1))
    if avg <= 1 and fam in ("complete", "monitor") and rng.random() < 0.2:
        # the camera changes its region of interest in mid-stream (first acquisition): frames of two sizes share the queue -
        # and, with a write delay, one mapped region of the sink; the second shape is no larger than the first
        d["flipat"] = rng.randint(1, max(1, n - 1))
        d["fw"], d["fh"] = rng.randint(1, w), rng.randint(1, h)
        d["delay_ms"] = rng.choice([0, 2, 10])
    return d


def fmt_stream(s, d):
    return "stream %d " % s + " ".join("%s %s" % (k, v) for k, v in d.items())


def monitor_ops(rng, s, n):
    """n map/unmap pairs with random consumption and holding; the client always unmaps what it mapped."""
    ops = []
    for _ in range(n):
        ops += ["yield", str(rng.choice([0, 1, 3, 8, 20]))]
        ops += ["map", str(s)]
        if rng.random() < 0.4:
            ops += ["yield", str(rng.choice([1, 5, 15, 40]))]
        ops += ["unmap", str(s), str(rng.choice([-1, -1, -1, 0, 1, 2]))]
    return ops


def gen_fullring(rng, out, i):
    """The consumer lags exactly one lap: the ring holds k frames (plus a slack smaller than a frame); the sink takes the
    first `pre` frames (software-triggered camera: the client decides when frames arrive), then is kept from running (exclusion
    window of the scheduler) while the last k frames arrive, wrap, and bring the writer's head to the sink's position one lap
    ahead - completely full, which position-only comparisons take for empty - and the acquisition ends. Sometimes followed by
    an ordinary second acquisition, sometimes one frame short of / beyond the exact fill."""
    d = stream_line(rng, 0, "complete", 1)
    k = rng.choice([2, 2, 3, 4, 5])          # (a frame as large as the ring is never accepted by channel_write_map: out of scope)
    pre = rng.randint(1, k - 1)
    fb = frame_bytes(d["w"], d["h"], d["type"])
    last = k + rng.choice([0, 0, 0, 0, -1])  # frames that arrive while the sink is held back
    n = pre + last
    d.update(frames=n, delay_ms=0, slow=0, pace=0, camstop=0, trigger=1)
    lines = ["seed %d" % rng.randint(1, 10**9), "strategy random", "window client_mark 0 1 %d x" % rng.choice([3000, 8000]),
             "cap %d" % (k * fb + rng.choice([8, 8, 16, fb // 2])), "fill 1", "streams 1", fmt_stream(0, d)]
    prog = ["start", "triggers", "0", str(pre), "8", "waitstor", "0", str(pre), "mark", "triggers", "0", str(last), "4", "stop"]
    if rng.random() < 0.5:
        prog += ["start", "triggers", "0", str(n), "6", "stop"]
    lines += ["prog " + " ".join(prog), "out " + out]
    return "\n".join(lines) + "\n"


def gen_config(rng, fam, out, i):
    if fam == "fullring":
        return gen_fullring(rng, out, i)
    ns = 2 if rng.random() < (0.5 if fam == "monitor" else 0.25) else 1
    avg = rng.choice([2, 2, 3]) if fam == "avg" else (rng.choice([1, 1, 1, 2, 3]) if fam in ("abort", "monitor", "fault") else 1)
    streams = [stream_line(rng, s, fam, avg) for s in range(ns)]
    fb = max(max(frame_bytes(d["w"], d["h"], d["type"]), acc_bytes(d["w"], d["h"]) if avg > 1 else 0) for d in streams)
    cap = int(fb * rng.choice([1.2, 1.5, 2.0, 2.5, 2.7, 3.3, 5.0])) + rng.randint(1, 9)
    if rng.random() < 0.3:
        # a ring that whole frames fill exactly: the writer's head can meet a reader's position a full lap ahead
        # (completely full and empty look alike to code that compares positions only)
        cap = fb * rng.choice([2, 3, 4, 5])
    lines = sched_lines(rng, 1 + 3 * ns)
    lines += ["cap %d" % cap, "fill %d" % (1 if (avg > 1 or rng.random() < 0.3) else 0), "streams %d" % ns]
    prog = []
    nacq = rng.choice([1, 1, 2, 3])
    aborter = None
    monitored = set()
    if fam == "complete":
        for a in range(nacq):
            if a > 0 and rng.random() < 0.4:
                # a different region of interest for the next acquisition: frame sizes change between acquisitions
                s = rng.randrange(ns)
                nw, nh = rng.randint(1, 9), rng.randint(1, 5)
                if max(frame_bytes(nw, nh, streams[s]["type"]), 0) < cap:
                    prog += ["shape", str(s), str(nw), str(nh)]
                    streams[s]["w2"], streams[s]["h2"] = nw, nh
            if a > 0 and rng.random() < 0.4:
                # another sample type at unchanged dimensions: only the bytes per pixel (and so the frame size) change
                s = rng.randrange(ns)
                nt = rng.choice([t for t in ["u8", "u16", "i8", "i16", "u12"] + (["f32"] if avg <= 1 else []) if t != streams[s].get("type2", streams[s]["type"])])
                if frame_bytes(streams[s].get("w2", streams[s]["w"]), streams[s].get("h2", streams[s]["h"]), nt) < cap:
                    prog += ["pixtype", str(s), nt]
                    streams[s]["type2"] = nt
            prog += ["start"]
            mons = [s for s in range(ns) if rng.random() < 0.4]
            monitored |= set(mons)
            for s in mons:
                # a monitoring client keeps polling until the acquisition has finished (client contract, see DESIGN)
                if rng.random() < 0.5:
                    prog += monitor_ops(rng, s, rng.randint(1, 3))
                prog += ["monitor", str(s), str(rng.choice([-1, -1, 1, 2])), str(rng.choice([0, 0, 2, 10]))]
            prog += ["yield", str(rng.choice([0, 2, 10, 50])), "stop"]
    elif fam == "monitor":
        for a in range(nacq + 1):
            if rng.random() < 0.4:
                # the client also polls while nothing is running (before the first start, between acquisitions), any stream
                for s in range(ns):
                    if rng.random() < 0.7:
                        prog += ["map", str(s), "unmap", str(s), "-1"]
            prog += ["start"]
            end = rng.choice(["stop", "stop", "abort"])
            for s in range(ns):
                if a > 0 or rng.random() < 0.7:
                    monitored.add(s)
                    prog += monitor_ops(rng, s, rng.randint(1, 6))
                    if end == "stop":
                        prog += ["monitor", str(s), str(rng.choice([-1, -1, 1, 2])), str(rng.choice([0, 0, 2, 10]))]
            held = None
            if end == "abort" and rng.random() < 0.4:
                held = rng.randrange(ns)                # a region the client still holds when abort is called
                monitored.add(held)
                prog += ["yield", str(rng.choice([0, 2, 10, 50])), "map", str(held)]
            prog += ["yield", str(rng.choice([0, 2, 10, 50])), end]
            if held is not None:
                # released completely or in part afterwards; a new look before the next start must find nothing
                prog += ["unmap", str(held), str(rng.choice([-1, 0, 1])), "map", str(held), "unmap", str(held), "-1"]
            if rng.random() < 0.5:
                s = rng.randrange(ns)
                prog += ["map", str(s), "unmap", str(s), "-1"]   # after stop/abort nothing of that acquisition may arrive
    elif fam == "abort":
        for d in streams:
            if rng.random() < 0.35:
                d["trigger"] = 1
            if rng.random() < 0.3:
                d["frames"] = -1
        prog += ["start"]
        hold = rng.random() < 0.3
        if rng.random() < 0.5:
            prog += monitor_ops(rng, 0, rng.randint(0, 3))
        if hold:
            prog += ["yield", str(rng.choice([5, 20, 60])), "map", "0"]
        k = (i * 7) % 260 if rng.random() < 0.7 else rng.choice([0, 1, 2, 3, 5, 400, 900])
        if rng.random() < 0.25:
            # stop or abort from a second thread (stop: only for finite acquisitions of a client that registered no monitor
            # reader - a reader that is not polled to the end blocks the source for good, see the client contract in DESIGN 15.5)
            finite = not any(d["frames"] < 0 or d["trigger"] for d in streams)
            aborter = (k, "stop" if (finite and "map" not in prog and rng.random() < 0.5) else "abort")
            prog += ["yield", str(k + rng.choice([0, 5, 30]))]
            prog += ["abort" if any(d["frames"] < 0 or d["trigger"] for d in streams) else rng.choice(["stop", "abort"])]
        else:
            prog += ["yield", str(k), "abort"]
        if hold:
            # the region held across the stop / abort is released completely or only in part, and the client looks again
            # before the next start: nothing of the ended acquisition may arrive any more
            prog += ["unmap", "0", str(rng.choice([-1, -1, 0, 1])), "map", "0", "unmap", "0", "-1"]
        if aborter:
            prog += ["join2"]
        prog += ["state"]
        # a complete, correct acquisition afterwards (no leftovers from the aborted one)
        for d in streams:
            d["trigger2"] = d["trigger"]
        prog += ["start"]
        for s in range(ns):
            if streams[s]["trigger"]:
                prog += ["triggers", str(s), "400", "6"]
        if any(d["frames"] < 0 for d in streams):
            prog += ["yield", "200", "abort"]
        else:
            if rng.random() < 0.3:
                prog += ["monitor", "0", "-1", "0"]
            prog += ["stop"]
        for d in streams:
            d.pop("trigger2", None)
    elif fam == "fault":
        s = rng.randrange(ns)
        d = streams[s]
        r = rng.random()
        if r < 0.12:
            # the very first frame call fails while the client thread is held back inside acquire_start (the workers wind down
            # and exit before the starter runs again)
            # (exclusion window: from the creation of the last worker of the first stream on, the client thread does not run)
            d["camfail"] = 0
            lines.append("window thread_create %d 0 %d x" % (3 * s + 2, rng.choice([100, 400, 1500])))
        elif r < 0.35:
            d["camfail"] = rng.randint(0, d["frames"])        # get_frame fails
        elif r < 0.5:
            d["shapefail"] = rng.randint(0, d["frames"] - 1)  # get_shape fails (the source asks before every frame)
        else:
            d["stofail"] = rng.randint(0, max(0, d["frames"] - 1))
            d["slow"] = rng.choice([0, 1, 3, 6])
        prog += ["start"]
        end = rng.choice(["stop", "abort"])
        if rng.random() < 0.3:
            prog += monitor_ops(rng, s, 2) + (["monitor", str(s), "-1", "0"] if end == "stop" else [])
        if ns == 1 and "map" not in prog and rng.random() < 0.35:
            # the client only waits until the runtime no longer reports Running (the faulted stream wound down by itself) and
            # goes on without stop / abort
            prog += ["yield", str(rng.choice([0, 10, 80])), "pollstate"]
        else:
            prog += ["yield", str(rng.choice([0, 10, 80, 300])), "state", end, "state"]
        # a failed device has to be configured again before it can be started (it is no longer armed); a client that tries
        # without may be refused, and that attempt must leave nothing behind either
        if rng.random() < 0.35:
            prog += ["startmay", "state"]
        prog += ["configure", "start", "yield", str(rng.choice([0, 10]))] + (["monitor", str(s), "-1", "0"] if rng.random() < 0.3 else []) + ["stop"]
    elif fam == "avg":
        prev_poll = False
        for a in range(nacq):
            if a > 0 and prev_poll and rng.random() < 0.6:
                prog += ["setavg", "0", "1"]      # averaging off right after an acquisition that was not ended by stop
            elif a > 0 and rng.random() < 0.35:
                # another window size, or averaging switched off (the source then writes straight into the sink's queue) and on again
                prog += ["setavg", "0", str(rng.choice([k2 for k2 in (1, 2, 3, 4) if k2 != avg]))]
            prev_poll = False
            prog += ["start"]
            if rng.random() < 0.3:
                prog += monitor_ops(rng, 0, 2) + ["monitor", "0", "-1", "0"]
                prog += ["stop"]
            elif a < nacq - 1 and ns == 1 and rng.random() < 0.4:
                prog += ["pollstate"]     # the client lets the finite acquisition finish by itself and goes on without stop
                prev_poll = True
            else:
                prog += ["stop"]
    for s, d in enumerate(streams):
        for k2 in ("w2", "h2", "type2"):
            d.pop(k2, None)
    if ns == 1 and rng.random() < 0.15:
        # the same scenario on stream 1 with stream 0 left unconfigured (valid_video_streams == 0b10)
        lines = [l.replace("streams 1", "streams 2") for l in lines] + ["noinit 1"]
        dummy = dict(streams[0], frames=0, trigger=0, camfail=-1, stofail=-1, shapefail=-1, zero=-1)
        streams = [dummy, streams[0]]
        prog = ["cfg", "-1", "-1", "1", "1"] + to_stream1(prog)
    for s, d in enumerate(streams):
        lines.append(fmt_stream(s, d))
    lines.append("prog " + " ".join(prog))
    if aborter:
        lines.append("aborter %d %s" % aborter)
    lines.append("out " + out)
    return "\n".join(lines) + "\n"


# ops of the client program that name a stream as their first argument, with their argument counts
STREAM_OPS = {"map": 1, "unmap": 2, "monitor": 3, "trigger": 1, "triggers": 3, "shape": 3, "pixtype": 2, "setavg": 2, "waitstor": 2, "query": 1}
OTHER_OPS = {"yield": 1, "cfg": 4}


def to_stream1(prog):
    out, i = [], 0
    while i < len(prog):
        op = prog[i]
        if op in STREAM_OPS:
            n = STREAM_OPS[op]
            out += [op, "1" if prog[i + 1] == "0" else prog[i + 1]] + prog[i + 2:i + 1 + n]
            i += 1 + n
        elif op in OTHER_OPS:
            out += prog[i:i + 1 + OTHER_OPS[op]]
            i += 1 + OTHER_OPS[op]
        else:
            out.append(op)
            i += 1
    return out


def gen_lifecycle(rng, out, i):
    """C08: client programs from the usage grammar over 2 cameras x 2 storages."""
    lines = sched_lines(rng, 7)
    streams = [stream_line(rng, s, "lifecycle") for s in range(2)]
    for d in streams:
        d["frames"] = rng.choice([1, 2, 4, 7, -1])
        d["trigger"] = 1 if rng.random() < 0.2 else 0
        d["delay_ms"] = 0
        if rng.random() < 0.25:
            # a camera (not running) that rejects its settings once (the runtime retries) or twice in a row (the configure
            # fails for that stream)
            d["setfail"] = rng.randint(0, 7)
            d["setfailn"] = rng.choice([1, 2, 2])
    fb = max(frame_bytes(d["w"], d["h"], d["type"]) for d in streams)
    lines += ["cap %d" % (int(fb * rng.choice([1.5, 2.5, 4.0, 8.0])) + 3), "fill 0", "streams 2", "noinit 1"]
    CFGS = ["0 0 -1 -1", "0 0 1 1", "1 1 -1 -1", "-1 -1 0 0", "0 1 1 0", "1 0 -1 -1", "-1 -1 -1 -1"]
    # device 2 of either kind is enumerated but cannot be opened (unplugged / busy): configure marks the stream invalid;
    # both streams on the SAME storage device: the second instance cannot start while the first is running (one writer per
    # destination), so acquire_start fails after stream 0 was started
    BADCFGS = ["2 0 -1 -1", "0 2 -1 -1", "2 2 1 1", "0 0 2 1", "1 1 0 2", "0 0 1 0", "0 1 1 1"]
    prog = []
    cur = None
    running = False
    registered = set()   # streams whose monitor reader the client has registered since the last stop/abort
    n = rng.randint(4, 14)
    if rng.random() < 0.25:
        # a client that lets finite acquisitions finish by themselves and restarts as soon as the runtime reports Armed
        for d in streams:
            d["frames"] = rng.choice([1, 2, 4])
            d["trigger"] = 0
        c = rng.choice(CFGS[:6])
        prog += ["cfg"] + c.split()
        for _ in range(rng.randint(1, 3)):
            prog += ["start", "pollstate"]
            if rng.random() < 0.3:
                prog += ["cfg"] + c.split()
        prog += [rng.choice(["start", "stop", "abort", "state"])]
        n = 0
    for step in range(n):
        r = rng.random()
        if step == 0 and rng.random() < 0.75:
            r = 0.0      # most programs begin by configuring something
        if r < 0.30:
            if running and cur is not None:
                c = cur      # well-formedness: while running only the SAME devices are re-configured
            else:
                c = rng.choice(CFGS) if rng.random() < 0.8 else rng.choice(BADCFGS)
            prog += ["cfg"] + c.split()
            if not running:
                cur = c
        elif r < 0.55:
            prog += ["start"]          # also start-while-running and zero-configuration start
            if cur is not None and cur != "-1 -1 -1 -1":
                running = True
        elif r < 0.65:
            if not any(d["frames"] < 0 or d["trigger"] for d in streams) or not running:
                # client contract: a client that has been monitoring keeps polling until the acquisition is over
                for s in sorted(registered):
                    prog += ["monitor", str(s), "-1", "0"]
                prog += ["stop"]
            else:
                prog += ["abort"]
            running = False
            registered = set()
        elif r < 0.75:
            prog += ["abort"]
            running = False
            registered = set()
        elif r < 0.82:
            if running and not any(d["frames"] < 0 or d["trigger"] for d in streams) and rng.random() < 0.6:
                # wait for the finite acquisition to finish by itself, then carry on without stop (restart is legal then)
                for s in sorted(registered):
                    prog += ["monitor", str(s), "-1", "0"]
                prog += ["pollstate"] + (["start"] if rng.random() < 0.7 else [])
            else:
                prog += ["state"]
        elif r < 0.90:
            s = rng.randrange(2)
            registered.add(s)
            prog += ["map", str(s), "yield", str(rng.choice([0, 3])), "unmap", str(s), "-1"]
        elif r < 0.95:
            prog += ["trigger", str(rng.randrange(2))]
        else:
            prog += ["yield", str(rng.choice([1, 10, 60, 200]))]
        if rng.random() < 0.25:
            # the read-only calls (shape, configuration read-back, property metadata, backlog) reach the devices too
            prog += ["query", str(rng.randrange(2))]
        if rng.random() < 0.3:
            prog += ["yield", str(rng.choice([1, 5, 30, 120]))]
    for s, d in enumerate(streams):
        for k2 in ("w2", "h2", "type2"):
            d.pop(k2, None)
        lines.append(fmt_stream(s, d))
    lines.append("prog " + " ".join(prog))
    lines.append("out " + out)
    return "\n".join(lines) + "\n"


FAMILIES = {"C08": ["lifecycle"], "C04": ["complete", "fullring", "avg"], "C05": ["complete", "monitor", "avg"], "C06": ["monitor"], "C07": ["abort", "lifecycle"], "C09": ["fault"], "C10": ["avg"]}
NRUNS = {"quick": 600, "thorough": 6000}


OBS = {"C08": "LifecycleObs"}


def validate(trace, workdir, heap="8g", spec="PipelineObs"):
    cfg = os.path.join(SPECS, spec + ".cfg")
    r = tlc(spec, cfg, workdir, workers=1, timeout=2400, env={"TRACE": trace}, coverage=False, heap=heap)
    v = printed_json(r, "VERDICT")
    if not v:
        raise Broken("PipelineObs produced no verdict for %s: rc=%s %s\n%s" % (trace, r.rc, r.error, r.out[-2500:]))
    nlines = sum(1 for _ in open(trace))
    if v[0]["consumed"] != nlines:
        raise Broken("PipelineObs consumed %d of %d events" % (v[0]["consumed"], nlines))
    return v[0]


def context_of(lines, first, line):
    """Signature context: the op in flight and what preceded the refused event."""
    api = ""
    fault = ""
    for l in lines[first - 1:line]:
        if '"Api"' in l or '"Api2"' in l:
            e = json.loads(l)
            api = e["op"] + ":" + e["ph"]
        elif '"CamFail"' in l:
            fault = "camfail"
        elif '"StorFail"' in l:
            fault = "storfail"
    return api, fault


def judge(chk, prop, trace, idx, cfgs, bdir, kind):
    # (client programs of the lifecycle family are judged by LifecycleObs whatever the property: their device choices cross streams)
    spec = "LifecycleObs" if kind == "lifecycle" else OBS.get(prop, "PipelineObs")
    v = validate(trace, bdir, spec=spec)
    lines = open(trace).read().splitlines()
    per = {}
    for rule, line in v["bad"]:
        if rule in HARNESS_RULES:
            raise Broken("PipelineObs flagged a harness problem: %s at %s:%d: %s" % (rule, trace, line, lines[line - 1][:200]))
        if rule not in RULES[prop]:
            chk.cov.setdefault("refusals_of_other_properties", {})
            chk.cov["refusals_of_other_properties"][rule] = chk.cov["refusals_of_other_properties"].get(rule, 0) + 1
            continue
        e = exec_of(idx, line)
        first = [f for f, i in idx if i == e][0]
        evt = json.loads(lines[line - 1])
        api, fault = context_of(lines, first, line)
        sig = "rule=%s event=%s api=%s%s" % (rule, evt["e"], api, (" fault=" + fault) if fault else "")
        per[sig] = per.get(sig, 0) + 1
        if per[sig] > 3:
            continue
        cfgtxt = open(cfgs[e]).read()
        chk.violation(sig, "%s refused %s (%s run)\nconfig:\n%s" % (rule, lines[line - 1][:400], kind, cfgtxt[:900]),
                      replay_obj={"kind": "pipe_vs", "config": cfgtxt, "rule": rule, "obs": spec})
    if v["nbad"] > len(v["bad"]):
        chk.notes.append("%d refusals in total, first %d examined" % (v["nbad"], len(v["bad"])))
    chk.cov.setdefault("refusal_signatures", {}).update(per)
    return v


def replay_script(prop, path):
    obj = json.load(open(path))["replay"]
    bdir = build_dir("replay_" + prop)
    exe = pipe_build.build_pipe(bdir)
    cfgp = os.path.join(bdir, "replay.cfg")
    out = os.path.join(bdir, "replay.ndjson")
    txt = "\n".join(l for l in obj["config"].splitlines() if not l.startswith("out ")) + "\nout %s\n" % out
    open(cfgp, "w").write(txt)
    run([exe, cfgp], timeout=300)
    v = validate(out, bdir, spec=obj.get("obs") or OBS.get(prop, "PipelineObs"))
    for l in open(out):
        if not l.startswith('{"e":"Sched"'):
            log("  " + l.rstrip()[:260])
    hits = [b for b in v["bad"] if b[0] in RULES[prop]]
    if hits:
        log("VIOLATION property=%s replay=%s" % (prop, path))
        log("  refused: %s" % hits)
        return 1
    log("replay accepted by PipelineObs")
    return 0


def run_family(chk, prop, exe, bdir, fam, n, rng, tag):
    cfgs, traces = [], []
    for i in range(n):
        out = os.path.join(bdir, "%s_%d.ndjson" % (tag, i))
        p = os.path.join(bdir, "%s_%d.cfg" % (tag, i))
        open(p, "w").write(gen_lifecycle(rng, out, i) if fam == "lifecycle" else gen_config(rng, fam, out, i))
        cfgs.append(p)
        traces.append(out)
    res = run_many(exe, cfgs, timeout=120)
    bad = [(c, rc, o) for c, (rc, o) in zip(cfgs, res) if rc != 0]
    if bad:
        crash_or_broken(bad[0][1], bad[0][2], "pipe_vs", "pipe_vs on " + open(bad[0][0]).read().replace("\n", "; ")[:800])
    allp = os.path.join(bdir, tag + "_all.ndjson")
    idx = concat(traces, allp)
    v = judge(chk, prop, allp, idx, cfgs, bdir, fam)
    stats = {"runs": len(idx), "events": v["consumed"]}
    nontrivial = 0
    distinct = set()
    for t in traces:
        try:
            body = open(t).read()
        except OSError:
            continue
        if '"StorAppend"' in body or '"MonMap"' in body or '"DevOpen"' in body:
            nontrivial += 1
        distinct.add(hash(body.split('{"e":"Sched"')[0]))
    stats["nontrivial_runs"] = nontrivial
    stats["distinct_traces"] = len(distinct)
    txt = open(allp).read()
    for k in ("StorAppend", "MonMap", "Hang", "CamFail", "StorFail", "Api2"):
        stats[k] = txt.count('"e":"%s"' % k)
    for f in traces + cfgs:
        try:
            os.remove(f)
        except OSError:
            pass
    return stats, allp


def pipeline_cfg(path, n=3, k=2, avg=1, epochs=2, abort=True, monitor=True, camfail=99, storfail=99, repaired=True, live=True, delay=0):
    t = "CONSTANTS N = %d K = %d AVG = %d Epochs = %d WithAbort = %s WithMonitor = %s Delay = %d CamFailAt = %d StorFailAt = %d Repaired = %s\n" % (
        n, k, avg, epochs, "TRUE" if abort else "FALSE", "TRUE" if monitor else "FALSE", delay, camfail, storfail, "TRUE" if repaired else "FALSE")
    t += "SPECIFICATION Spec\nINVARIANTS NoBad StorPrefix MonFresh\nCHECK_DEADLOCK FALSE\n"
    if live:
        t += "PROPERTIES StopReturns Terminates\n"
    return write_cfg(path, t)


# implementation-shaped model configurations per property (quick, thorough)
MODELS = {
    "C04": ([dict(abort=False), dict(abort=False, delay=2, monitor=False)],
            [dict(abort=False, n=4, k=2), dict(abort=False, n=4, k=3), dict(abort=False, n=3, k=1), dict(delay=2, n=3, k=2)]),
    "C05": ([], []),
    "C06": ([dict()], [dict(n=4, k=2), dict(n=3, k=1)]),
    "C07": ([dict()], [dict(n=4, k=2), dict(n=3, k=3), dict(avg=2, n=4)]),
    "C08": ([], []),
    "C09": ([dict(storfail=1), dict(camfail=1)], [dict(storfail=0), dict(storfail=2), dict(camfail=0), dict(camfail=2), dict(storfail=1, k=1)]),
    "C10": ([dict(avg=2, n=4, abort=False)], [dict(avg=2, n=5), dict(avg=3, n=6, abort=False), dict(avg=2, n=4, k=1)]),
}


def run_models(chk, prop, bdir, thorough):
    import concurrent.futures as cf
    quick, more = MODELS[prop]
    confs = quick + (more if thorough else [])
    jobs = []
    for i, c in enumerate(confs):
        cfg = pipeline_cfg(os.path.join(bdir, "pipeline_%d.cfg" % i), **c)
        jobs.append((c, cfg))
    if prop == "C05":
        jobs.append(({"FrameLayout": True}, None))

    def one(j):
        c, cfg = j
        if cfg is None:
            flc = write_cfg(os.path.join(bdir, "framelayout.cfg"),
                            "CONSTANTS Hdr = %d MaxW = %d MaxH = %d MaxChain = 4\nSPECIFICATION Spec\nINVARIANTS HeadersAligned SizeField\nCHECK_DEADLOCK FALSE\n" % (
                                HDR, 64 if thorough else 40, 64 if thorough else 40))
            return c, tlc("FrameLayout", flc, bdir, workers=4, timeout=1500, coverage=False, heap="6g")
        return c, tlc("Pipeline", cfg, bdir, workers=4, timeout=3000, coverage=True, heap="8g")
    ex = cf.ThreadPoolExecutor(max_workers=4)
    return ex, [ex.submit(one, j) for j in jobs]


def collect_models(chk, futs):
    states = trans = 0
    for f in futs:
        c, r = f.result()
        what = ("FrameLayout" if "FrameLayout" in c else "Pipeline") + " " + json.dumps(c, sort_keys=True)
        if r.violated:
            raise Broken("%s: the implementation-shaped model violates %s (it no longer mirrors a correct runtime): %s" % (what, r.violated, r.outpath))
        tlc_or_broken(r, what)
        if "FrameLayout" not in c:
            require_coverage(r, ["S4", "K3", "C9"], what)
        states += r.distinct
        trans += r.generated
        chk.cov.setdefault("models", []).append({"model": what, "distinct_states": r.distinct, "transitions": r.generated,
                                                 "complete": r.queue == 0, "wall_s": round(r.wall, 1)})
    if states:
        chk.set("states", states)
        chk.set("transitions", trans)


# ------------------------------------------------------------------------------------------------------------------
# code -> Impl spec: recorded executions of the real runtime must be behaviours of Pipeline.tla (DRIFT detector)

def gen_refine(rng, out, prop):
    """Single stream, finite N, sometimes a write delay: the fragment Pipeline.tla models."""
    avg = rng.choice([2, 2, 3]) if prop == "C10" else 1
    d = stream_line(rng, 0, "refine", avg)
    d["frames"] = rng.randint(avg, 2 * avg) if avg > 1 else rng.randint(1, 4)
    d["delay_ms"] = rng.choice([0, 0, 1, 3]) if prop == "C04" else 0
    d["zero"] = -1
    d["camstop"] = rng.choice([0, 2])
    epochs = rng.choice([1, 2])
    if prop == "C09":
        if rng.random() < 0.5:
            d["camfail"] = rng.randint(0, d["frames"] - 1)
        else:
            d["stofail"] = rng.randint(0, 1)
    fb = max(frame_bytes(d["w"], d["h"], d["type"]), acc_bytes(d["w"], d["h"]) if avg > 1 else 0)
    cap = int(fb * rng.choice([1.3, 2.2, 3.4])) + 5
    lines = sched_lines(rng, 4) + ["cap %d" % cap, "fill 0", "streams 1", fmt_stream(0, d)]
    prog = []
    for e in range(epochs):
        if e > 0 and (d["camfail"] >= 0 or d["stofail"] >= 0):
            prog += ["configure"]
        prog += ["start"]
        end = "abort" if (prop in ("C07", "C09") and rng.random() < 0.5) else "stop"
        if rng.random() < 0.5:
            prog += ["monitor", "0", "-1", "0"] if end == "stop" else ["yield", str(rng.choice([0, 5, 30]))]
        else:
            prog += ["yield", str(rng.choice([0, 3, 20, 80]))]
        prog += [end]
    lines += ["prog " + " ".join(prog), "out " + out]
    K = -(-cap // fb) + 1
    consts = dict(n=d["frames"], k=K, avg=avg, epochs=epochs, abort=True, monitor=True, delay=(d["frames"] + 1) if d["delay_ms"] else 0,
                  camfail=d["camfail"] if d["camfail"] >= 0 else 99, storfail=d["stofail"] if d["stofail"] >= 0 else 99)
    return "\n".join(lines) + "\n", consts


def project(trace_path):
    """Abstract event list for PipelineTrace.tla (stream 0 only)."""
    out = []
    last = None
    mapped_nonempty = False
    pending_fail_stop = False
    for l in open(trace_path):
        e = json.loads(l)
        k = e["e"]
        ev = None
        if k == "Api":
            if e["op"] == "start":
                ev = {"e": "StartCall" if e["ph"] == "call" else "StartRet"}
            elif e["op"] == "stop":
                ev = {"e": "StopCall" if e["ph"] == "call" else "StopRet"}
            elif e["op"] == "abort":
                ev = {"e": "AbortCall" if e["ph"] == "call" else "StopRet"}
            elif e["op"] == "shutdown":
                break
        elif k == "CamFrame":
            ev = {"e": "CamFrame"}
        elif k == "CamFail":
            ev = {"e": "CamFail"}
            pending_fail_stop = True
        elif k == "CamStop":
            # a failing frame call makes the HAL stop the camera itself: that stop belongs to the CamFail step of the model
            if pending_fail_stop:
                pending_fail_stop = False
            else:
                ev = {"e": "CamStop"}
        elif k == "StorAppend":
            ev = {"e": "Append", "n": len(e["frames"])}
        elif k == "StorFail":
            ev = {"e": "StorFail"}
        elif k == "StorStop":
            ev = {"e": "StorStop"}
        elif k == "ThreadExit":
            ev = {"e": {"s": "ExitS", "f": "ExitF"}.get(e["name"][0] if e["name"][1] != "i" else "k", "ExitK")}
            ev = {"e": "ExitS" if e["name"].startswith("source") else "ExitF" if e["name"].startswith("filter") else "ExitK"}
        elif k == "MonMap":
            if e["frames"]:
                ev = {"e": "MonMap", "n": len(e["frames"])}
                mapped_nonempty = True
        elif k == "MonUnmap":
            if mapped_nonempty:
                ev = {"e": "MonUnmap"}
            mapped_nonempty = False
        if k in ("CamFail", "CamStop", "CamFrame", "StorAppend", "Api"):
            last = k
        if ev:
            ev.setdefault("n", 0)
            out.append(ev)
    return out


def refine_family(chk, prop, exe, bdir, rng, n):
    """Runs n executions in the modelled fragment and checks each against Pipeline.tla. Returns (accepted, rejected)."""
    jobs = []
    for i in range(n):
        out = os.path.join(bdir, "rf_%d.ndjson" % i)
        cfgp = os.path.join(bdir, "rf_%d.cfg" % i)
        txt, consts = gen_refine(rng, out, prop)
        open(cfgp, "w").write(txt)
        jobs.append((cfgp, out, consts, txt))
    res = run_many(exe, [j[0] for j in jobs], timeout=120)
    for (cfgp, out, consts, txt), (rc, o) in zip(jobs, res):
        if rc != 0:
            crash_or_broken(rc, o, "pipe_vs", "pipe_vs on a refine scenario: " + txt.replace("\n", "; ")[:800])

    def one(j):
        cfgp, out, consts, txt = j
        evs = project(out)
        if any('"Hang"' in l or '"Crash"' in l for l in open(out)):
            return None      # judged by the Obs spec, not a refinement question
        tr = out + ".abs"
        with open(tr, "w") as f:
            for e in evs:
                f.write(json.dumps(e) + "\n")
        mc = out + ".cfg"
        t = "CONSTANTS N = %d K = %d AVG = %d Epochs = %d WithAbort = TRUE WithMonitor = TRUE Delay = %d CamFailAt = %d StorFailAt = %d Repaired = TRUE\n" % (
            consts["n"], consts["k"], consts["avg"], consts["epochs"], consts.get("delay", 0), consts["camfail"], consts["storfail"])
        t += "SPECIFICATION TSpec\nINVARIANT NotAccepted\nACTION_CONSTRAINT TrackMax\nPOSTCONDITION Report\nCHECK_DEADLOCK FALSE\n"
        write_cfg(mc, t)
        r = tlc("PipelineTrace", mc, bdir, workers=1, timeout=600, env={"TRACE": tr}, coverage=False, heap="3g", dfs_queue=True)
        if r.violated == "NotAccepted":
            return True, len(evs), r.distinct, txt, evs
        if r.error or r.timed_out or r.rc not in (0,):
            raise Broken("PipelineTrace failed on %s: rc=%s %s\n%s" % (tr, r.rc, r.error, r.out[-1500:]))
        mx = [l for l in r.printed if l.startswith('<<"MAXL"')]
        return False, len(evs), r.distinct, txt, evs, (mx[0] if mx else "")
    with cf.ThreadPoolExecutor(max_workers=NCPU) as ex:
        outs = [o for o in ex.map(one, jobs) if o is not None]
    acc = sum(1 for o in outs if o[0])
    rej = [o for o in outs if not o[0]]
    chk.set("impl_traces_checked_against_Pipeline_tla", len(outs))
    chk.set("impl_traces_accepted_by_Pipeline_tla", acc)
    chk.add("events_validated", sum(o[1] for o in outs))
    for o in rej[:3]:
        chk.drift_note("an execution of the real runtime is not a behaviour of Pipeline.tla (%s): %s ... events %s" % (
            o[5], [l for l in o[3].splitlines() if l.startswith(("prog", "stream", "cap"))], " ".join("%s%s" % (e["e"], e["n"] or "") for e in o[4])))
    if rej:
        chk.assume("DRIFT: %d of %d executions are not behaviours of Pipeline.tla; the model-level result does not transfer for this run" % (len(rej), len(outs)))
    if outs:
        chk.sample({"abstract_trace_checked_against_Pipeline": outs[0][4][:20]})
    for j in jobs:
        for suf in ("", ".abs", ".cfg"):
            try:
                os.remove(j[1] + suf)
            except OSError:
                pass
        try:
            os.remove(j[0])
        except OSError:
            pass
    return acc, len(rej)


# ------------------------------------------------------------------------------------------------------------------
# C08: Lifecycle.tla (implementation-shaped model of the API-level life cycle) - model checking + trace refinement

OPNUM = {"configure": 1, "start": 2, "stop": 3, "abort": 4, "state": 5, "shutdown": 6}


def gen_lifecycle_refine(rng, out):
    lines = sched_lines(rng, 7)
    streams = [stream_line(rng, s, "lifecycle") for s in range(2)]
    for d in streams:
        d["frames"] = rng.choice([1, 2, 4, -1])
        d["trigger"] = 0
        d["delay_ms"] = 0
    fb = max(frame_bytes(d["w"], d["h"], d["type"]) for d in streams)
    lines += ["cap %d" % (int(fb * rng.choice([2.5, 4.0, 8.0])) + 3), "fill 0", "streams 2", "noinit 1"]
    CFGS = ["0 0 -1 -1", "0 0 1 1", "1 1 -1 -1", "-1 -1 0 0", "0 1 1 0", "1 0 -1 -1", "-1 -1 -1 -1", "0 0 1 0", "0 0 1 0", "2 0 -1 -1", "0 2 -1 -1"]
    prog, cur, running = [], None, False
    for step in range(rng.randint(3, 9)):
        r = rng.random()
        if step == 0 and rng.random() < 0.7:
            r = 0.0
        if r < 0.3:
            c = cur if (running and cur is not None) else rng.choice(CFGS)
            prog += ["cfg"] + c.split()
            if not running:
                cur = c
        elif r < 0.55:
            prog += ["start"]
            if cur is not None and cur != "-1 -1 -1 -1":
                running = True
        elif r < 0.68:
            finite = cur is None or all(streams[s]["frames"] >= 0 for s in range(2) if cur.split()[2 * s] != "-1")
            prog += ["stop"] if (finite or not running) else ["abort"]
            running = False
        elif r < 0.8:
            prog += ["abort"]
            running = False
        elif r < 0.9:
            prog += ["state"]
        else:
            prog += ["yield", str(rng.choice([1, 10, 60, 200]))]
    for s, d in enumerate(streams):
        for k2 in ("w2", "h2", "type2"):
            d.pop(k2, None)
        lines.append(fmt_stream(s, d))
    lines += ["prog " + " ".join(prog), "out " + out]
    fin = "F%d%d" % (1 if streams[0]["frames"] >= 0 else 0, 1 if streams[1]["frames"] >= 0 else 0)
    return "\n".join(lines) + "\n", fin


def project_lifecycle(trace_path):
    out = []
    for l in open(trace_path):
        e = json.loads(l)
        k = e["e"]
        if k == "Api":
            if e["op"] not in OPNUM:
                continue
            if e["ph"] == "call":
                out.append({"e": "ApiCall", "a": OPNUM[e["op"]], "b": 0})
            else:
                out.append({"e": "ApiRet", "a": OPNUM[e["op"]], "b": 0 if e["op"] == "shutdown" else e["st"]})
        elif k in ("DevOpen", "DevClose"):
            out.append({"e": k, "a": 0 if e["kind"] == "cam" else 1, "b": e["s"]})
        elif k in ("CamStart", "CamStop", "StorStart", "StorStop"):
            out.append({"e": k, "a": e["s"], "b": 0})
        elif k == "DevOpenFail":
            out.append({"e": k, "a": 0 if e["kind"] == "cam" else 1, "b": 2})
        elif k == "DevUse" and e.get("call") == "start_refused":
            out.append({"e": "StorStartRefused", "a": e["s"], "b": 0})
    return out


def lifecycle_models(chk, bdir, thorough):
    """TLC on Lifecycle.tla: safety for every finite/infinite combination, liveness (stop/abort/shutdown return)."""
    jobs = []
    for fin in ("F10", "F11", "F00"):
        t = "CONSTANTS MaxCalls = %d SameStore = FALSE BadDev = FALSE\nCONSTANT Finite <- %s\nSPECIFICATION Spec\nVIEW View\n" % (9 if thorough else 6, fin)
        t += "INVARIANTS NoBad ReportedStateOK ArmedAfterStop DriverTruth FailedStartWindsDown\nCHECK_DEADLOCK FALSE\n"
        jobs.append(("Lifecycle safety %s" % fin, write_cfg(os.path.join(bdir, "lc_%s.cfg" % fin), t)))
    # both streams on one storage device: the second start is refused, acquire_start fails and winds down (finding F11)
    for fin in (("F10", "F01", "F11", "F00") if thorough else ("F10", "F01")):
        t = "CONSTANTS MaxCalls = %d SameStore = TRUE BadDev = FALSE\nCONSTANT Finite <- %s\nSPECIFICATION Spec\nVIEW View\n" % (7 if thorough else 5, fin)
        t += "INVARIANTS NoBad ReportedStateOK ArmedAfterStop DriverTruth FailedStartWindsDown\nCHECK_DEADLOCK FALSE\n"
        jobs.append(("Lifecycle safety %s, same storage device offered" % fin, write_cfg(os.path.join(bdir, "lc_same_%s.cfg" % fin), t)))
    # a configuration may name a camera / storage device that cannot be opened: that stream is not configured
    for fin in (("F10", "F00", "F11") if thorough else ("F10",)):
        t = "CONSTANTS MaxCalls = %d SameStore = FALSE BadDev = TRUE\nCONSTANT Finite <- %s\nSPECIFICATION Spec\nVIEW View\n" % (7 if thorough else 5, fin)
        t += "INVARIANTS NoBad ReportedStateOK ArmedAfterStop DriverTruth FailedStartWindsDown\nCHECK_DEADLOCK FALSE\n"
        jobs.append(("Lifecycle safety %s, unopenable devices offered" % fin, write_cfg(os.path.join(bdir, "lc_bad_%s.cfg" % fin), t)))
    t = "CONSTANTS MaxCalls = %d SameStore = FALSE BadDev = FALSE\nCONSTANT Finite <- F10\nSPECIFICATION FairSpec\nINVARIANT NoBad\nPROPERTY Returns\nCHECK_DEADLOCK FALSE\n" % (5 if thorough else 4)
    jobs.append(("Lifecycle liveness F10", write_cfg(os.path.join(bdir, "lc_live.cfg"), t)))
    t = "CONSTANTS MaxCalls = %d SameStore = TRUE BadDev = FALSE\nCONSTANT Finite <- F01\nSPECIFICATION FairSpec\nINVARIANT NoBad\nPROPERTY Returns\nCHECK_DEADLOCK FALSE\n" % (4 if thorough else 3)
    jobs.append(("Lifecycle liveness F01, same storage device offered", write_cfg(os.path.join(bdir, "lc_live_same.cfg"), t)))
    states = trans = 0
    with cf.ThreadPoolExecutor(max_workers=4) as ex:
        res = list(ex.map(lambda j: (j[0], tlc("MCLifecycle", j[1], bdir, workers=4, timeout=1800, heap="6g")), jobs))
    for what, r in res:
        if r.violated:
            raise Broken("%s: the model violates %s (%s)" % (what, r.violated, r.outpath))
        tlc_or_broken(r, what)
        require_coverage(r, ["CfgCamOpen", "StartCam", "WCamStop", "JoinRet", "ShutSto"] +
                         (["StartStoRefused", "StartErrRet"] if "same storage" in what else []), what)
        if "unopenable" in what and not any("DevOpenFail" in l for l in open(os.path.join(SPECS, "Lifecycle.tla"))):
            raise Broken("Lifecycle.tla lost its DevOpenFail branch")
        states += r.distinct
        trans += r.generated
        chk.cov.setdefault("models", []).append({"model": what, "distinct_states": r.distinct, "transitions": r.generated,
                                                 "complete": r.queue == 0, "wall_s": round(r.wall, 1)})
    chk.set("states", states)
    chk.set("transitions", trans)


def lifecycle_refine(chk, exe, bdir, rng, n):
    jobs = []
    for i in range(n):
        out = os.path.join(bdir, "lr_%d.ndjson" % i)
        cfgp = os.path.join(bdir, "lr_%d.cfg" % i)
        txt, fin = gen_lifecycle_refine(rng, out)
        open(cfgp, "w").write(txt)
        jobs.append((cfgp, out, fin, txt))
    res = run_many(exe, [j[0] for j in jobs], timeout=120)
    for j, (rc, o) in zip(jobs, res):
        if rc != 0:
            crash_or_broken(rc, o, "pipe_vs", "pipe_vs on a lifecycle refine scenario: " + j[3].replace("\n", "; ")[:800])

    def one(j):
        cfgp, out, fin, txt = j
        if any('"Hang"' in l or '"Crash"' in l for l in open(out)):
            return None
        evs = project_lifecycle(out)
        tr = out + ".abs"
        with open(tr, "w") as f:
            for e in evs:
                f.write(json.dumps(e) + "\n")
        mc = out + ".cfg"
        write_cfg(mc, "CONSTANTS MaxCalls = 24 SameStore = TRUE BadDev = TRUE\nCONSTANT Finite <- %s\nSPECIFICATION TSpec\nINVARIANT NotAccepted\nACTION_CONSTRAINT TrackMax\n"
                      "POSTCONDITION Report\nCHECK_DEADLOCK FALSE\n" % fin)
        r = tlc("LifecycleTrace", mc, bdir, workers=1, timeout=600, env={"TRACE": tr}, coverage=False, heap="3g", dfs_queue=True)
        if r.violated == "NotAccepted":
            return True, len(evs), txt, evs, ""
        if r.error or r.timed_out or r.rc not in (0,):
            raise Broken("LifecycleTrace failed on %s: rc=%s %s\n%s" % (tr, r.rc, r.error, r.out[-1500:]))
        mx = [l for l in r.printed if l.startswith('<<"MAXL"')]
        return False, len(evs), txt, evs, (mx[0] if mx else "")
    with cf.ThreadPoolExecutor(max_workers=NCPU) as ex:
        outs = [o for o in ex.map(one, jobs) if o is not None]
    acc = sum(1 for o in outs if o[0])
    rej = [o for o in outs if not o[0]]
    chk.set("impl_traces_checked_against_Lifecycle_tla", len(outs))
    chk.set("impl_traces_with_a_refused_storage_start", sum(1 for o in outs if any(e["e"] == "StorStartRefused" for e in o[3])))
    chk.set("impl_traces_with_a_device_that_cannot_be_opened", sum(1 for o in outs if any(e["e"] == "DevOpenFail" for e in o[3])))
    chk.set("impl_traces_accepted_by_Lifecycle_tla", acc)
    for o in rej[:3]:
        chk.drift_note("an execution of the real runtime is not a behaviour of Lifecycle.tla (%s): %s ... events %s" % (
            o[4], [l for l in o[2].splitlines() if l.startswith("prog")], " ".join("%s(%s,%s)" % (e["e"], e["a"], e["b"]) for e in o[3])))
    if rej:
        chk.assume("DRIFT: %d of %d executions are not behaviours of Lifecycle.tla; the model-level result does not transfer for this run" % (len(rej), len(outs)))
    if outs:
        chk.sample({"abstract_trace_checked_against_Lifecycle": outs[0][3][:16]})
    for j in jobs:
        for f in (j[0], j[1], j[1] + ".abs", j[1] + ".cfg"):
            try:
                os.remove(f)
            except OSError:
                pass


def main(prop, tier):
    chk = Check(prop, tier, "model_checking" if prop not in ("C09",) else "fault_enumeration")
    bdir = build_dir(prop)
    exe = pipe_build.build_pipe(bdir)
    mex, mfuts = run_models(chk, prop, bdir, tier == "thorough")
    rng = random.Random(seed() * 1000003 + int(prop[1:]))
    n = NRUNS[tier]
    total_runs = total_events = 0
    fams = FAMILIES[prop]
    small = {"fullring": n // 5, "lifecycle": n // 4 if prop != "C08" else n}   # directed / borrowed families get a fixed share
    if prop == "C04":
        small["avg"] = n // 4      # (averaging switched on / off between acquisitions: the plain acquisitions are C04's)
    rest = (n - sum(small[f] for f in fams if f in small)) // max(1, len([f for f in fams if f not in small]))
    for fam in fams:
        stats, allp = run_family(chk, prop, exe, bdir, fam, small.get(fam, rest), rng, fam)
        chk.cov.setdefault("families", {})[fam] = stats
        total_runs += stats["runs"]
        total_events += stats["events"]
        with open(allp) as f:
            head = []
            for l in f:
                if len(head) >= 14:
                    break
                head.append(json.loads(l) if len(l) < 600 else l[:300])
        chk.sample({"family": fam, "trace_prefix": head})
        os.remove(allp)
    if prop in ("C04", "C06", "C07", "C09", "C10"):
        refine_family(chk, prop, exe, bdir, rng, 200 if tier == "thorough" else 48)
    if prop == "C08":
        lifecycle_models(chk, bdir, tier == "thorough")
        lifecycle_refine(chk, exe, bdir, rng, 300 if tier == "thorough" else 64)
    collect_models(chk, mfuts)
    mex.shutdown()
    if total_events < 1000:
        raise Broken("vacuous: only %d events" % total_events)
    chk.set("traces_validated_against_impl", total_runs)
    chk.set("evaluations", total_runs)
    chk.set("distinct_nontrivial", min(sum(f.get("nontrivial_runs", 0) for f in chk.cov["families"].values()),
                                       sum(f.get("distinct_traces", 0) for f in chk.cov["families"].values())))
    chk.set("rule", "seeded scenario generator (shapes, frame counts, ring 1.2-5 frames, schedules random/PCT/starvation, client programs); "
                    "non-trivial = the run produced storage, monitor or device-open events; distinct = distinct event traces (schedule line excluded), both counted on this run")
    chk.set("events_validated", total_events)
    chk.set("checker_cmd", "tlc Pipeline (MC cfgs, safety + liveness); tlc PipelineObs/LifecycleObs with TRACE=<vsched traces of the real runtime>")
    chk.assume("sequentially consistent flag accesses (vsched serialises threads)")
    chk.assume("mock driver: camera frame ids equal hardware ids; payload is a function of (stream, acquisition, frame, byte)")
    chk.assume("client contract: a mapped monitor region is unmapped before stop is called (abort may be called while holding)")
    return chk.finish()
