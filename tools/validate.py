#!/usr/bin/env python3-vt
import json, sys, glob, jsonschema
ok = True
try:
    jsonschema.validate(json.load(open('/verif/MANIFEST.json')), json.load(open('/root/.vp/MANIFEST.schema.json')))
    print("MANIFEST.json valid")
except Exception as e:
    ok = False; print("MANIFEST invalid:", str(e)[:500])
es = json.load(open('/root/.vp/EVIDENCE.schema.json'))
for f in sorted(glob.glob('/verif/evidence/*.json')):
    try:
        jsonschema.validate(json.load(open(f)), es); print(f, "valid")
    except Exception as e:
        ok = False; print(f, "INVALID:", str(e)[:500])
sys.exit(0 if ok else 1)
