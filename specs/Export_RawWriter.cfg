\* one line <<"EDGE", json>> per transition with a witness history (VIEW hides hist); run with -workers 1
CONSTANTS NDev = 1 NPaths = 3 MaxCycles = 2 MaxAppends = 2 PacketSizes = {1, 2, 3} NScripts = 5
  MaxFaultAt = 0 FIXED = 1 SetRunning = TRUE FIX_SET = 1 MaxFd = 5 Ghost = TRUE Export = TRUE
SPECIFICATION Spec
VIEW View
INVARIANT TypeOK
ACTION_CONSTRAINT EmitEdge
CHECK_DEADLOCK FALSE
