CONSTANTS NObj = 3 MaxDims = 2 FIXED = 1 HistMode = 0 SampleMod = 1 WalkDepth = 0 Depth = 4
 UriKinds = {3} MetaKinds = {0} KeyKinds = {} NameKinds = {2} InitDims = {0,2} BorrowKinds = {} DimTags = {1} MsVals = {} WithBad = 0
SPECIFICATION Spec
CHECK_DEADLOCK FALSE
VIEW View
INVARIANTS NoErr NoShare NoDangling NoLeak DestroyedMeansEmpty Terminated
PROPERTIES CopyPost OthersUntouched
