--------------------------- MODULE MCChannelConc ---------------------------
(* Export of ChannelConc behaviours as thread schedules (for exact replay under the deterministic
   scheduler): `hist` records, per step, the acting thread, the action label and argument and the
   expected post-state (scheduling point of the thread, channel cursors). Used with -simulate. *)
EXTENDS ChannelConc
CONSTANT WalkDepth
VARIABLE hist
Proj(t) == [t |-> Tid(t), a |-> lastAct'.a, x |-> lastAct'.x, pc |-> pc'[t],
            s |-> <<head', high', cycle', IF accepting' THEN 1 ELSE 0, n'>> \o hpos' \o hcyc']
Actor == CHOOSE t \in Threads : Tid(t) = lastAct'.r
HInit == CInit /\ hist = <<>>
HNext == CNext /\ hist' = Append(hist, Proj(Actor))
HSpec == HInit /\ [][HNext]_<<allvars, hist>>
Dump == TLCGet("level") < WalkDepth \/ PrintT(<<"WALK", ToJson(hist)>>)
=============================================================================
