-------------------------- MODULE SimCamStreamObs --------------------------
(***************************************************************************)
(* Observation specification of a simulated camera's streaming behaviour   *)
(* (property C18), total trace spec over the calls a client makes:          *)
(*   Reset{trig} StartCall StartRet StopCall StopRet Trig SetTrigCall{b} SetTrig{b,rc} *)
(*   GetFrameCall  GetFrameRet{rc,nbytes,hw[,exp,past,filled]}  Hang{kind,ctl,incall}  End *)
(* in linearization order. A frame call "delivers data" iff it returns Ok   *)
(* with nbytes > 0: a return that carries no data must say so (nbytes = 0). *)
(***************************************************************************)
EXTENDS Naturals, Integers, Sequences, FiniteSets, TLC, Json, IOUtils
Tr == ndJsonDeserialize(IOEnv.TRACE)
VARIABLES l, c, bad, nbad, done
vars == <<l, c, bad, nbad, done>>
CInit(trig) == [ running |-> FALSE,    \* between StartCall and StopCall
                 trig    |-> trig,     \* software frame trigger enabled
                 gated   |-> trig,     \* ... and enabled during the whole current run
                 trigs   |-> 0,        \* triggers since this start
                 frames  |-> 0,        \* data-bearing frame calls since this start
                 lastHw  |-> -1 ]
Init == l = 1 /\ c = CInit(FALSE) /\ bad = <<>> /\ nbad = 0 /\ done = FALSE
Ev == Tr[l]
If(x, name) == IF x THEN <<name>> ELSE <<>>
\* at most 20 entries per rule are kept (so that frequent refusals of one rule never hide another rule's)
Count(b, name) == Cardinality({j \in 1..Len(b) : b[j][1] = name})
RECURSIVE AddAll(_, _, _)
AddAll(b, rules, i) == IF i > Len(rules) THEN b
                       ELSE AddAll(IF Count(b, rules[i]) < 20 THEN Append(b, <<rules[i], l>>) ELSE b, rules, i + 1)
Flag(rules) == /\ bad' = AddAll(bad, rules, 1)
               /\ nbad' = nbad + Len(rules)
NoFlag == bad' = bad /\ nbad' = nbad

FrameRules(e) ==
  IF e.rc # 0 \/ e.nbytes <= 0 THEN <<>>       \* error, or "no data" said explicitly
  ELSE If(e.hw < 0, "FrameIdInvalid")
       \o If(e.hw >= 0 /\ e.hw <= c.lastHw, "FrameIdNotIncreasing")
       \o If(c.gated /\ c.frames + 1 > c.trigs, "FrameWithoutTrigger")
       \o If(c.gated /\ e.hw >= 0 /\ e.hw + 1 > c.trigs, "FrameIdBeyondTriggers")
       \* the count restarts with each start: gen bounds (generously) the frames this run's streamer thread can have generated
       \o If("gen" \in DOMAIN e /\ e.hw > e.gen, "FrameIdBeyondGenerated")
       \* C17 on a camera re-configured while a frame call is pending (the harness compares the caller's buffer with the shape
       \* reported together with the frame, exp bytes): nothing written past them, filled to the end
       \o If("past" \in DOMAIN e /\ e.past, "FrameWritesPastImage")
       \o If("filled" \in DOMAIN e /\ ~e.filled, "FrameNotFilled")

Next1 ==
  /\ l <= Len(Tr) /\ ~done /\ l' = l + 1 /\ done' = FALSE
  /\ LET e == Ev  k == e.e IN
     CASE k = "Reset" -> c' = CInit(e.trig) /\ NoFlag
       [] k = "StartCall" -> c' = [c EXCEPT !.running = TRUE, !.gated = c.trig, !.trigs = 0, !.frames = 0, !.lastHw = -1] /\ NoFlag
       [] k = "StopCall" -> c' = [c EXCEPT !.running = FALSE] /\ NoFlag
       [] k = "Trig" -> c' = [c EXCEPT !.trigs = c.trigs + 1] /\ NoFlag
       [] k = "SetTrigCall" -> c' = [c EXCEPT !.gated = c.gated /\ e.b] /\ NoFlag
       [] k = "SetTrig" -> c' = [c EXCEPT !.trig = e.b, !.gated = c.gated /\ e.b] /\ NoFlag
       [] k = "GetFrameRet" -> /\ Flag(FrameRules(e))
                               /\ c' = (IF e.rc = 0 /\ e.nbytes > 0
                                        THEN [c EXCEPT !.frames = c.frames + 1, !.lastHw = IF e.hw > c.lastHw THEN e.hw ELSE c.lastHw]
                                        ELSE c)
       [] k = "Hang" -> Flag(IF e.ctl = "stop" THEN <<"StopDidNotReturn">>
                             ELSE IF e.incall THEN <<"FrameCallNotReleased">> ELSE <<"HangOther">>) /\ c' = c
       [] k \in {"StartRet", "StopRet", "GetFrameCall", "End", "Sched"} -> c' = c /\ NoFlag
       [] OTHER -> Flag(<<"UnknownEvent">>) /\ c' = c
Finish == /\ l = Len(Tr) + 1 /\ ~done /\ done' = TRUE
          /\ PrintT(<<"VERDICT", ToJson([consumed |-> l - 1, nbad |-> nbad, bad |-> bad])>>)
          /\ UNCHANGED <<l, c, bad, nbad>>
Next == Next1 \/ Finish
Spec == Init /\ [][Next]_vars
=============================================================================
