-------------------------- MODULE SimCamStreamObs --------------------------
(***************************************************************************)
(* Observation specification of a simulated camera's streaming behaviour   *)
(* (property C18), total trace spec over the calls a client makes:          *)
(*   Reset{trig} StartCall StartRet StopCall StopRet Trig SetTrigCall{b} SetTrig{b,rc} *)
(*   GetFrameCall  GetFrameRet{rc,nbytes,hw[,exp,past,filled]}  Hang{kind,ctl,incall}  End *)
(* in linearization order. A frame call "delivers data" iff it returns Ok   *)
(* with nbytes > 0: a return that carries no data must say so (nbytes = 0). *)
(***************************************************************************)
EXTENDS Naturals, Integers, Sequences, FiniteSets, TLC, Json, IOUtils
Tr == ndJsonDeserialize(IOEnv.TRACE)
VARIABLES l, c, bad, nbad, done
vars == <<l, c, bad, nbad, done>>
CInit(trig) == [ running |-> FALSE,    \* between StartCall and StopCall
                 trig    |-> trig,     \* software frame trigger enabled
                 gated   |-> trig,     \* ... and enabled during the whole current run
                 trigs   |-> 0,        \* triggers since this start
                 frames  |-> 0,        \* data-bearing frame calls since this start
                 lastHw  |-> -1,
                 \* ---- trigger enabled while the camera runs (re-gating) ----
                 inCall  |-> FALSE,    \* a frame call is in progress
                 callNew |-> FALSE,    \* ... and it was made after the last event that can leave a trigger latched
                 fresh   |-> 3,        \* data frames whose calls were made after that event (3 = the latch has been consumed for sure)
                 re      |-> [on |-> FALSE, allow |-> 0, got |-> 0, trigs |-> 0] ]
Init == l = 1 /\ c = CInit(FALSE) /\ bad = <<>> /\ nbad = 0 /\ done = FALSE
Ev == Tr[l]
If(x, name) == IF x THEN <<name>> ELSE <<>>
\* at most 20 entries per rule are kept (so that frequent refusals of one rule never hide another rule's)
Count(b, name) == Cardinality({j \in 1..Len(b) : b[j][1] = name})
RECURSIVE AddAll(_, _, _)
AddAll(b, rules, i) == IF i > Len(rules) THEN b
                       ELSE AddAll(IF Count(b, rules[i]) < 20 THEN Append(b, <<rules[i], l>>) ELSE b, rules, i + 1)
Flag(rules) == /\ bad' = AddAll(bad, rules, 1)
               /\ nbad' = nbad + Len(rules)
NoFlag == bad' = bad /\ nbad' = nbad

ReOff == [on |-> FALSE, allow |-> 0, got |-> 0, trigs |-> 0]
FrameRules(e) ==
  IF e.rc # 0 \/ e.nbytes <= 0 THEN <<>>       \* error, or "no data" said explicitly
  ELSE If(e.hw < 0, "FrameIdInvalid")
       \o If(e.hw >= 0 /\ e.hw <= c.lastHw, "FrameIdNotIncreasing")
       \o If(c.gated /\ c.frames + 1 > c.trigs, "FrameWithoutTrigger")
       \o If(c.gated /\ e.hw >= 0 /\ e.hw + 1 > c.trigs, "FrameIdBeyondTriggers")
       \* the trigger was enabled while the camera ran: from the moment `set` took effect every new exposure needs a trigger.
       \* What may still arrive without one: the frame published earlier and not yet fetched, the exposure in flight, and one
       \* exposure on a trigger latched earlier (fired while free-running, or by a disabling `set`) unless three frames were
       \* called for and delivered in between (the first may have been published, the second begun, before the latch was
       \* set; the third was begun after it, and the streamer consumes the latch when it begins an exposure).
       \* SimCamStream.tla carries the same accounting as ghost state: TLC finds no reachable refusal for the code as it is.
       \o If(c.re.on /\ c.re.got + 1 > c.re.allow + c.re.trigs, "FrameWithoutTriggerAfterEnable")
       \* the count restarts with each start: gen bounds (generously) the frames this run's streamer thread can have generated
       \o If("gen" \in DOMAIN e /\ e.hw > e.gen, "FrameIdBeyondGenerated")
       \* C17 on a camera re-configured while a frame call is pending (the harness compares the caller's buffer with the shape
       \* reported together with the frame, exp bytes): nothing written past them, filled to the end
       \* never the same frame twice: the random camera delivered the image of the previous frame call again (the ids may increase)
       \o If("dup" \in DOMAIN e /\ e.dup, "FrameSameImageTwice")
       \o If("past" \in DOMAIN e /\ e.past, "FrameWritesPastImage")
       \o If("filled" \in DOMAIN e /\ ~e.filled, "FrameNotFilled")

Next1 ==
  /\ l <= Len(Tr) /\ ~done /\ l' = l + 1 /\ done' = FALSE
  /\ LET e == Ev  k == e.e IN
     CASE k = "Reset" -> c' = CInit(e.trig) /\ NoFlag
       [] k = "StartCall" -> c' = [c EXCEPT !.running = TRUE, !.gated = c.trig, !.trigs = 0, !.frames = 0, !.lastHw = -1,
                                            !.fresh = 3, !.callNew = FALSE, !.re = ReOff] /\ NoFlag
       [] k = "StopCall" -> c' = [c EXCEPT !.running = FALSE, !.re = ReOff] /\ NoFlag
       [] k = "Trig" -> c' = [c EXCEPT !.trigs = c.trigs + 1, !.fresh = 0, !.callNew = FALSE,
                                       !.re = IF c.re.on THEN [c.re EXCEPT !.trigs = c.re.trigs + 1] ELSE c.re] /\ NoFlag
       [] k = "SetTrigCall" -> c' = (IF e.b THEN [c EXCEPT !.gated = c.gated /\ e.b]
                                     \* a disabling set fires the trigger itself and ends the gated period
                                     ELSE [c EXCEPT !.gated = FALSE, !.re = ReOff, !.fresh = IF c.trig THEN 0 ELSE c.fresh,
                                                    !.callNew = IF c.trig THEN FALSE ELSE c.callNew]) /\ NoFlag
       [] k = "SetTrig" -> c' = [c EXCEPT !.trig = e.b, !.gated = c.gated /\ e.b,
                                          !.re = IF e.b /\ ~c.trig /\ c.running /\ e.rc = 0
                                                 THEN [on |-> TRUE, got |-> 0, trigs |-> 0,
                                                       allow |-> 2 + (IF c.fresh >= 3 THEN 0 ELSE 1)]
                                                 ELSE IF e.b THEN c.re ELSE ReOff] /\ NoFlag
       [] k = "GetFrameCall" -> c' = [c EXCEPT !.inCall = TRUE, !.callNew = TRUE] /\ NoFlag
       [] k = "GetFrameRet" -> /\ Flag(FrameRules(e))
                               /\ c' = (IF e.rc = 0 /\ e.nbytes > 0
                                        THEN [c EXCEPT !.frames = c.frames + 1, !.lastHw = IF e.hw > c.lastHw THEN e.hw ELSE c.lastHw,
                                                       !.inCall = FALSE, !.fresh = IF c.callNew /\ c.fresh < 3 THEN c.fresh + 1 ELSE c.fresh,
                                                       !.re = IF c.re.on THEN [c.re EXCEPT !.got = c.re.got + 1] ELSE c.re]
                                        ELSE [c EXCEPT !.inCall = FALSE])
       [] k = "Hang" -> Flag(IF e.ctl = "stop" THEN <<"StopDidNotReturn">>
                             ELSE IF e.incall THEN <<"FrameCallNotReleased">> ELSE <<"HangOther">>) /\ c' = c
       [] k \in {"StartRet", "StopRet", "End", "Sched"} -> c' = c /\ NoFlag
       [] OTHER -> Flag(<<"UnknownEvent">>) /\ c' = c
Finish == /\ l = Len(Tr) + 1 /\ ~done /\ done' = TRUE
          /\ PrintT(<<"VERDICT", ToJson([consumed |-> l - 1, nbad |-> nbad, bad |-> bad])>>)
          /\ UNCHANGED <<l, c, bad, nbad>>
Next == Next1 \/ Finish
Spec == Init /\ [][Next]_vars
=============================================================================
