CONSTANTS KINDS = {0,1,2} BINS = {0,1,2,3,4,8,16} TYPES = {0,1,2,3,4,5,6,7}
 XS = {1,2,3,31,32,33,63,64,65,2048,2049,4095,4096,4097,8192,8193}
 YS = {1,2,3,31,32,33,63,64,65,2048,2049,4095,4096,4097,8192,8193}
 XS2 = {1,33,2049,8193} YS2 = {2,63,4097} OES = {0,1,2}
 AVXS = {0,1} FIX_SIZE = 1 FIX_LOCK = 1 FIX_ALIGN = 1 ALIGN16 = TRUE SampleMod = 900
SPECIFICATION Spec
VIEW View
CHECK_DEADLOCK FALSE
INVARIANTS TypeOK ReportedShapeConsistent ReadBackInEffect CopyExact RenderWithinBuffers Bin2AlignmentOK
