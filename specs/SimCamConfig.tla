---------------------------- MODULE SimCamConfig ----------------------------
(***************************************************************************)
(* Implementation-shaped model of the CONFIGURATION side of the simulated  *)
(* cameras (simulated.camera.c + bin2.{avx2,plain}.c + imfill.pattern.cpp) *)
(* as driven through the HAL (device/hal/camera.c).  Property C17.         *)
(*                                                                         *)
(* Variables mirror struct SimulatedCamera (properties, im.shape, the two  *)
(* image buffers) and struct Camera.state; one action per HAL call; the    *)
(* streamer thread appears only as far as buffers are concerned: it        *)
(* CAPTURES the full-resolution shape under im.lock, then RENDERS          *)
(* (im_fill_* at full resolution, bin2 passes in place).  Frame ids,       *)
(* triggers and wake-ups are C18 (SimCamStream), not modelled here:        *)
(* get_frame is the atomic "wait for a published frame and copy it".       *)
(*                                                                         *)
(* Switches (1 = the repaired code, which this spec mirrors; 0 = as found): *)
(*   FIX_SIZE   buffers sized for the full-resolution render               *)
(*              (0: aligned bytes of the BINNED shape -> D12)              *)
(*   FIX_LOCK   simcam_set waits (streamer.is_rendering / set_pending /     *)
(*              idle, all under im.lock) until the frame in flight has been *)
(*              rendered and binned, and the streamer does not begin another *)
(*              frame while a set is waiting: a frame is always rendered    *)
(*              with the shape, binning and buffers of one configuration    *)
(*              (0: the shape is captured under im.lock, the render runs    *)
(*              unlocked; set can shrink / move the buffers under it)       *)
(*   FIX_ALIGN  bin2.avx2.c uses unaligned vector loads/stores             *)
(*              (0: dereferences __m256i*, which needs 32-byte alignment   *)
(*              that realloc does not promise)                             *)
(* AVXS: the bin2 variants checked (1 = bin2.avx2.c, 0 = bin2.plain.c);    *)
(* the variant only enters the invariants, not the transition relation.    *)
(* ALIGN16 = TRUE: the allocator returns blocks that are only 16-byte      *)
(* aligned (all that malloc/realloc guarantee on x86-64).                  *)
(***************************************************************************)
EXTENDS Naturals, Integers, Sequences, FiniteSets, TLC, Json, SimCamMath
CONSTANTS KINDS,      \* subset of {0,1,2}
          BINS,       \* requested binning values (0 and non powers of two included on purpose)
          TYPES,      \* requested sample types
          XS, YS,     \* requested shape.x / shape.y values of the first configuration
          XS2, YS2,   \* ... of a re-configuration (smaller sets: set is memoryless except for buffers / run state)
          OES,        \* subset of 0..3: codes of <<offset.x, offset.y, exposure_us>> triples, see OE
          AVXS,       \* bin2 variants whose index formulas are checked: subset of {0 (plain), 1 (AVX2)}
          FIX_SIZE, FIX_LOCK, FIX_ALIGN, ALIGN16,
          SampleMod   \* export 1 transition in SampleMod

VARIABLES kind,
          props,      \* struct CameraProperties in effect: [b, t, ox, oy, sx, sy, ex]
          ish,        \* im.shape: [w, h, t]   (channels = planes = 1; strides are derived, see Strides)
          fsize, rsize, \* allocated bytes of im.frame_data / im.render_data (0 = NULL)
          hstate,     \* Camera.state as kept by the HAL: 1 AwaitingConfiguration, 2 Armed, 3 Running
          running,    \* streamer.is_running
          spc,        \* streamer: "off" | "top" | "captured" | "rendering"
          cap,        \* full-resolution shape captured by the streamer: [W, H, t]
          replaced,   \* the buffers were reallocated while a render was in flight
          rendered,   \* a completed frame is available since the last get_frame / start
          configured, \* some set succeeded
          req,        \* ghost: request of the last successful set
          res,        \* result of the last client call: [st, cp]  (status, bytes copied into the caller's buffer)
          hist, lastAct   \* ghosts hidden by the VIEW: witness history / label of the last transition

vars == <<kind, props, ish, fsize, rsize, hstate, running, spc, cap, replaced, rendered, configured, req, res, hist, lastAct>>
View == <<kind, props, ish, fsize, rsize, hstate, running, spc, cap, replaced, rendered, configured, req, res>>

Min2(a, b) == IF a < b THEN a ELSE b
Strides(s) == <<1, 1, s.w, s.w * s.h>>               \* compute_strides with dims {1, w, h, 1}
ImageBytes == BytesOfImage(ish.w, ish.h, ish.t)
MetaOffHigh(b, cur) == Max2(0, MaxDimFor(b) - cur - 1) \* get_meta: max(0, w - cw - 1)

\* what the harness reads back after every call (get, get_shape, get_meta, allocation seam, HAL state)
Observables ==
  <<hstate, IF running THEN 1 ELSE 0,
    props.b, props.t, props.ox, props.oy, props.sx, props.sy, props.ex,
    ish.w, ish.h, ish.t, Strides(ish)[3], Strides(ish)[4],
    fsize, rsize,
    MaxDimFor(props.b), MetaOffHigh(props.b, props.sx), MetaOffHigh(props.b, props.sy),
    res.st, res.cp>>

Defaults == [b |-> 1, t |-> 0, ox |-> 0, oy |-> 0, sx |-> 1920, sy |-> 1080, ex |-> 10000]

Init ==
  /\ kind \in KINDS
  /\ props = Defaults /\ ish = [w |-> 1920, h |-> 1080, t |-> 0]
  /\ fsize = 0 /\ rsize = 0 /\ hstate = 1 /\ running = FALSE /\ spc = "off"
  /\ cap = [W |-> 0, H |-> 0, t |-> 0] /\ replaced = FALSE /\ rendered = FALSE /\ configured = FALSE
  /\ req = Defaults /\ res = [st |-> 0, cp |-> 0]
  /\ hist = <<>> /\ lastAct = "Init"

LockFree == spc \in {"off", "top"}         \* no render in flight (is_rendering = 0)
SpcCode == CASE spc = "off" -> 0 [] spc = "top" -> 1 [] spc = "captured" -> 2 [] OTHER -> 3

Record(op, a) == hist' = Append(hist, [op |-> op, a |-> a, at |-> SpcCode, x |-> Observables'])

\* ---- camera_set -> simcam_set --------------------------------------------------------------------
BufBytes(nb, sx, sy, t) ==
  IF FIX_SIZE = 1 THEN Align32(BytesOfImage(nb * sx, nb * sy, t)) ELSE Align32(BytesOfImage(sx, sy, t))

Set(r) ==
  LET nb == NormBin(r.b) IN
  /\ IF IsPow2(nb)
     THEN \* accepted: properties replaced, shape clamped against MAX/binning, both buffers reallocated
       LET sx == ClampDim(r.sx, nb)  sy == ClampDim(r.sy, nb)  n == BufBytes(nb, sx, sy, r.t) IN
       /\ (FIX_LOCK = 1 => LockFree)                 \* repaired: set waits for the frame in flight
       /\ props' = [b |-> nb, t |-> r.t, ox |-> r.ox, oy |-> r.oy, sx |-> sx, sy |-> sy, ex |-> r.ex]
       /\ ish' = [w |-> sx, h |-> sy, t |-> r.t]
       /\ fsize' = n /\ rsize' = n
       /\ replaced' = (replaced \/ spc = "rendering")
       /\ hstate' = (IF hstate = 3 THEN 3 ELSE 2)
       /\ configured' = TRUE /\ req' = r
       /\ res' = [st |-> 0, cp |-> 0]
       /\ UNCHANGED <<kind, running, spc, cap, rendered>>
     ELSE \* "Binning must be a power of two": nothing touched in the camera; the HAL stops it and falls back
       /\ LockFree                                    \* camera_stop joins the streamer: let it finish first
       /\ hstate' = 1 /\ running' = FALSE /\ spc' = "off"
       /\ res' = [st |-> 1, cp |-> 0]
       /\ UNCHANGED <<kind, props, ish, fsize, rsize, cap, replaced, rendered, configured, req>>
  /\ Record("S", <<r.b, r.t, r.ox, r.oy, r.sx, r.sy, r.ex>>)

\* offsets are in binned pixels and are not clamped by the camera; exposure in whole microseconds
OE(c) == CASE c = 0 -> <<0, 0, 1>> [] c = 1 -> <<7, 3, 1>> [] c = 2 -> <<9000, 8191, 40>> [] OTHER -> <<1, 4095, 2>>
FirstRequests == { [b |-> b, t |-> t, ox |-> OE(c)[1], oy |-> OE(c)[2], sx |-> x, sy |-> y, ex |-> OE(c)[3]] :
                     b \in BINS, t \in TYPES, x \in XS, y \in YS, c \in OES }
\* re-configuration = get / modify / set, as clients do: another binning with everything else kept (the shape is
\* re-clamped), another pixel type, another region, other offsets / exposure
NextRequests == { [props EXCEPT !.b = b] : b \in BINS } \cup { [props EXCEPT !.t = t] : t \in TYPES }
                \cup { [props EXCEPT !.sx = x, !.sy = y] : x \in XS2, y \in YS2 }
                \cup { [props EXCEPT !.ox = OE(c)[1], !.oy = OE(c)[2], !.ex = OE(c)[3]] : c \in OES }

\* ---- camera_start / camera_stop ------------------------------------------------------------------
Start ==
  /\ hstate = 2                                      \* client contract: start only an armed camera
  /\ running' = TRUE /\ hstate' = 3 /\ spc' = "top" /\ rendered' = FALSE
  /\ res' = [st |-> 0, cp |-> 0]
  /\ UNCHANGED <<kind, props, ish, fsize, rsize, cap, replaced, configured, req>>
  /\ Record("T", <<0, 0, 0, 0, 0, 0, 0>>)

Stop ==
  /\ LockFree
  /\ IF hstate = 3
     THEN running' = FALSE /\ hstate' = 2 /\ spc' = "off"
     ELSE UNCHANGED <<running, hstate, spc>>
  /\ res' = [st |-> 0, cp |-> 0]
  /\ UNCHANGED <<kind, props, ish, fsize, rsize, cap, replaced, rendered, configured, req>>
  /\ Record("P", <<0, 0, 0, 0, 0, 0, 0>>)

\* ---- camera_get_frame -> simcam_get_frame ----------------------------------------------------------
\* mode 0: caller's capacity = bytes_of_image(shape); 1: capacity = that + 64; 2: capacity = that - 1 (too small)
GetFrame(mode) ==
  /\ IF hstate # 3
     THEN \* HAL: CHECK(state == Running) fails, the driver is not called
       /\ res' = [st |-> 1, cp |-> 0]
       /\ UNCHANGED <<kind, props, ish, fsize, rsize, hstate, running, spc, cap, replaced, rendered, configured, req>>
     ELSE IF mode = 2
     THEN \* CHECK(*nbytes >= bytes_of_image) fails -> Device_Err -> the HAL stops the camera, AwaitingConfiguration
       /\ LockFree
       /\ res' = [st |-> 1, cp |-> 0]
       /\ hstate' = 1 /\ running' = FALSE /\ spc' = "off"
       /\ UNCHANGED <<kind, props, ish, fsize, rsize, cap, replaced, rendered, configured, req>>
     ELSE \* waits for a published frame, then memcpy(im, frame_data, bytes_of_image(im.shape))
       /\ spc = "top" /\ rendered
       /\ res' = [st |-> 0, cp |-> ImageBytes]
       /\ rendered' = FALSE
       /\ UNCHANGED <<kind, props, ish, fsize, rsize, hstate, running, spc, cap, replaced, configured, req>>
  /\ Record("F", <<mode, 0, 0, 0, 0, 0, 0>>)

\* ---- streamer thread (buffer view only) -------------------------------------------------------------
StCapture ==   \* compute_full_resolution_shape_and_offset (repaired: is_rendering := 1)
  /\ running /\ spc = "top"
  /\ cap' = [W |-> props.b * props.sx, H |-> props.b * props.sy, t |-> ish.t]
  /\ spc' = "captured" /\ replaced' = FALSE
  /\ UNCHANGED <<kind, props, ish, fsize, rsize, hstate, running, rendered, configured, req, res, hist>>
StBegin ==     \* reads im.render_data and starts writing
  /\ spc = "captured" /\ spc' = "rendering"
  /\ UNCHANGED <<kind, props, ish, fsize, rsize, hstate, running, cap, replaced, rendered, configured, req, res, hist>>
StEnd ==       \* binning passes done (they re-read properties.binning), frame may be published
  /\ spc = "rendering" /\ spc' = "top" /\ rendered' = TRUE
  /\ cap' = [W |-> 0, H |-> 0, t |-> 0] /\ replaced' = FALSE      \* dead after the iteration
  /\ UNCHANGED <<kind, props, ish, fsize, rsize, hstate, running, configured, req, res, hist>>

\* ---- labelled next-state relation ----------------------------------------------------------------------
L_SetFirst == ~configured /\ \E r \in FirstRequests : Set(r) /\ lastAct' = "SetFirst"
L_SetNext  == configured /\ \E r \in NextRequests : Set(r) /\ lastAct' = "SetNext"
L_Start    == Start /\ lastAct' = "Start"
L_Stop     == Stop /\ lastAct' = "Stop"
L_Frame    == \E m \in {0, 1} : GetFrame(m) /\ lastAct' = "Frame"
L_FrameSmall == GetFrame(2) /\ lastAct' = "FrameSmall"
L_StCapture == StCapture /\ lastAct' = "StCapture"
L_StBegin  == StBegin /\ lastAct' = "StBegin"
L_StEnd    == StEnd /\ lastAct' = "StEnd"

Next == L_SetFirst \/ L_SetNext \/ L_Start \/ L_Stop \/ L_Frame \/ L_FrameSmall \/ L_StCapture \/ L_StBegin \/ L_StEnd
Spec == Init /\ [][Next]_vars

\* ---- the property, as invariants of the model -------------------------------------------------------------
TypeOK ==
  /\ kind \in 0..2 /\ hstate \in 1..3 /\ spc \in {"off", "top", "captured", "rendering"}
  /\ (running <=> hstate = 3) /\ (running <=> spc # "off")
  /\ fsize >= 0 /\ rsize >= 0

\* the camera reports the clamped dimensions with matching strides
ReportedShapeConsistent ==
  configured =>
    /\ ish.w = ClampDim(req.sx, props.b) /\ ish.h = ClampDim(req.sy, props.b)
    /\ ish.w >= 1 /\ ish.h >= 1 /\ props.b * ish.w <= MAXDIM /\ props.b * ish.h <= MAXDIM
    /\ Strides(ish) = <<1, 1, ish.w, ish.w * ish.h>>

\* the values read back after a set are the ones in effect
ReadBackInEffect ==
  /\ props.sx = ish.w /\ props.sy = ish.h /\ props.t = ish.t /\ IsPow2(props.b)
  /\ configured => /\ props.b = NormBin(req.b) /\ props.t = req.t /\ props.ex = req.ex
                   /\ props.ox = req.ox /\ props.oy = req.oy

\* a frame call copies exactly bytes_of_image(shape) bytes, all of them from inside the frame buffer
CopyExact ==
  res.cp > 0 => /\ res.cp = ImageBytes
                /\ res.cp <= fsize

\* no internal buffer is accessed out of bounds: (a) an armed / running configuration has buffers that cover
\* everything one iteration touches, (b) a render in flight stays inside the buffer it writes to
ConfiguredBuffersSuffice ==
  hstate \in {2, 3} => \A avx \in AVXS : ConfigExtent(avx, kind, props.sx, props.sy, props.t, props.b) <= Min2(fsize, rsize)
RenderWithinBuffers ==
  /\ ConfiguredBuffersSuffice
  /\ spc \in {"captured", "rendering"} =>
       /\ \A avx \in AVXS : RenderExtent(avx, kind, cap.W, cap.H, cap.t, props.b) <= rsize
       /\ ~replaced

\* the AVX2 bin2 is only ever run on memory it may access with aligned vector instructions
Bin2AlignmentOK ==
  ~(1 \in AVXS /\ FIX_ALIGN = 0 /\ ALIGN16 /\ spc \in {"captured", "rendering"} /\ props.b > 1)

\* ---- export: one line per (sampled) client transition, carrying the witness history with the expected
\* observables after every call.  Histories are NOT bounded: the state graph is finite without a depth bound
\* (configurations x run state x streamer step), TLC completes it, and `hist` (hidden by the VIEW) is the path
\* by which a state was first reached, so every exported line is a real behaviour from Init. ------------------
ClientLabel == lastAct' \in {"SetFirst", "SetNext", "Start", "Stop", "Frame", "FrameSmall"}
EmitHist == PrintT(<<"HIST", ToJson([k |-> kind, h |-> hist'])>>)
EmitSample == ~ClientLabel \/ (RandomElement(1..SampleMod) # 1) \/ EmitHist
=============================================================================
