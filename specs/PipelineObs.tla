---------------------------- MODULE PipelineObs ----------------------------
(***************************************************************************)
(* Observation specification of the acquisition pipeline (properties C04,  *)
(* C05, C06, C07, C09, C10) as a TOTAL trace specification over what is     *)
(* observable at the runtime's boundaries: public API calls/returns, calls  *)
(* the devices receive (camera start/stop/frame, storage start/stop/append), *)
(* what the monitoring client maps, worker thread starts/exits.             *)
(* It knows nothing about rings, flags or threads' internals.               *)
(*                                                                         *)
(* Events (ndjson): Reset{hdr,ns,streams[{n,avg,bpp,trig,fault}]},          *)
(*   Api{op,ph,rc,st} (main client), Api2{op,ph,rc} (second client thread), *)
(*   CamStart/CamStop/CamTrig/CamNoData{s}, CamFrame{s,hw,w,h,ty,tag},      *)
(*   CamFail{s,hw}, StorStart/StorStop/StorFail{s},                         *)
(*   StorAppend{s,nbytes,stable,rest,frames[{id,hw,w,h,ty,nb,al,tag,ok}]},  *)
(*   MonMap{s,rc,rest,frames}, MonUnmap{s,k,rc,rest,frames},                *)
(*   ThreadStart/ThreadExit{name}, DevOpen/DevClose{kind,s},                *)
(*   Hang{kind,api,threads}, End, Sched{ids}.                               *)
(* A refused event appends <<rule, line>> to `bad`; nothing ever blocks.    *)
(***************************************************************************)
EXTENDS Naturals, Integers, Sequences, FiniteSets, TLC, Json, IOUtils

Tr == ndJsonDeserialize(IOEnv.TRACE)
Streams == {0, 1}
ARMED == 2
RUNNING == 3

VARIABLES l, p, bad, nbad, done
vars == <<l, p, bad, nbad, done>>

NoCfg == [hdr |-> 96, ns |-> 1, streams |-> <<[n |-> 0, avg |-> 1, bpp |-> 1, trig |-> 0, fault |-> FALSE],
                                              [n |-> 0, avg |-> 1, bpp |-> 1, trig |-> 0, fault |-> FALSE]>>]
PInit(cfg) ==
  [ cfg     |-> cfg,
    ep      |-> 0,
    active  |-> FALSE,                       \* between a start call and the return of stop/abort
    inflight|-> 0,                           \* stop/abort calls in progress
    aborted |-> FALSE,
    cam     |-> [s \in Streams |-> <<>>],    \* frames the camera delivered in this acquisition
    nstor   |-> [s \in Streams |-> 0],       \* frames appended to storage in this acquisition
    camRun  |-> [s \in Streams |-> FALSE],
    storRun |-> [s \in Streams |-> FALSE],
    partial |-> [s \in Streams |-> FALSE],   \* an averaged frame built from an incomplete window has been appended
    camFail |-> [s \in Streams |-> FALSE],
    storFail|-> [s \in Streams |-> FALSE],
    mon     |-> [s \in Streams |-> -1],      \* next frame id the monitoring client must see; -1 = none seen yet
    held    |-> [s \in Streams |-> <<>>],    \* tags of the frames the client has mapped
    heldId  |-> [s \in Streams |-> -1],
    alive   |-> {} ]

Init == l = 1 /\ p = PInit(NoCfg) /\ bad = <<>> /\ nbad = 0 /\ done = FALSE
Ev == Tr[l]
If(c, name) == IF c THEN <<name>> ELSE <<>>
\* at most 20 entries per rule are kept (so that frequent refusals of one rule never hide another rule's)
Count(b, name) == Cardinality({j \in 1..Len(b) : b[j][1] = name})
RECURSIVE AddAll(_, _, _)
AddAll(b, rules, i) == IF i > Len(rules) THEN b
                       ELSE AddAll(IF Count(b, rules[i]) < 20 THEN Append(b, <<rules[i], l>>) ELSE b, rules, i + 1)
Flag(rules) == /\ bad' = AddAll(bad, rules, 1)
               /\ nbad' = nbad + Len(rules)
NoFlag == bad' = bad /\ nbad' = nbad
SC(s) == p.cfg.streams[s + 1]
Bpp(ty) == IF ty \in {"u8", "i8"} THEN 1 ELSE IF ty \in {"u16", "i16"} THEN 2 ELSE IF ty = "f32" THEN 4 ELSE 2
FrameBytes(f) == 8 * ((p.cfg.hdr + f.w * f.h * Bpp(f.ty) + 7) \div 8)
RECURSIVE Cat(_)
Cat(ss) == IF ss = <<>> THEN <<>> ELSE Head(ss) \o Cat(Tail(ss))

\* ---- per-frame rules (layout: C05) -------------------------------------------------------------------
LayoutRules(f, mis, siz) == If(f.al # 0, mis) \o If(f.nb # FrameBytes(f), siz)

\* frame at position pos (0-based) of stream s's storage sequence, no averaging (C04)
PlainRules(s, f, pos) ==
  If(f.id # pos, "StorFrameOrder")
  \o (IF pos + 1 > Len(p.cam[s]) THEN <<"StorFrameNotFromCamera">>
      ELSE LET c == p.cam[s][pos + 1] IN
           If(c.hw # f.hw \/ c.tag # f.tag, "StorFrameMismatch")
           \o If(c.w # f.w \/ c.h # f.h \/ c.ty # f.ty, "FrameShape"))
  \o If(~f.ok, "StorPixelsAltered")
  \o LayoutRules(f, "FrameMisaligned", "FrameSizeField")

\* averaged frame number pos (C10): window = camera frames k*pos .. k*pos+k-1.
\* A window all of whose inputs the camera has delivered must carry their exact mean. A window with fewer inputs (the
\* trailing incomplete window of a finite run, or whatever was open when the run was aborted / failed) may only be the
\* LAST frame of the acquisition; its pixel values are not judged.
AvgRules(s, f, pos) ==
  LET k == SC(s).avg  N == SC(s).n  full == IF N >= 0 THEN N \div k ELSE -1
      complete == Len(p.cam[s]) >= k * (pos + 1)
      clean == ~p.aborted /\ ~p.camFail[s] /\ ~p.storFail[s] IN
  If(f.ty # "f32", "AvgNotFloat")
  \o If(f.id # k * pos, "AvgWindowId")
  \o If(N >= 0 /\ pos > full, "AvgTooManyFrames")
  \o If(p.partial[s], "AvgPartialNotLast")
  \o If(~complete /\ clean /\ (N < 0 \/ pos < full), "AvgBeforeInputs")
  \o If(complete /\ ~f.ok, "AvgWrongMean")
  \o If(Len(p.cam[s]) >= 1 /\ (p.cam[s][1].w # f.w \/ p.cam[s][1].h # f.h), "FrameShape")
  \o LayoutRules(f, "FrameMisaligned", "FrameSizeField")

StorAppendRules(s, e) ==
  LET fs == e.frames IN
  If(~p.storRun[s], "StorNotRunning")
  \o If(p.storFail[s], "AppendAfterStorFail")
  \o If(e.rest # 0, "PacketNotWhole")
  \o If(~e.stable, "PacketChangedDuringAppend")
  \o If(~p.active, "ActivityAfterStop")
  \o Cat([i \in 1..Len(fs) |-> IF SC(s).avg > 1 THEN AvgRules(s, fs[i], p.nstor[s] + i - 1)
                                                ELSE PlainRules(s, fs[i], p.nstor[s] + i - 1)])

MonFrameRules(s, f) ==
  (IF SC(s).avg > 1 THEN If(~f.ok /\ (SC(s).n < 0 \/ f.id < SC(s).avg * (SC(s).n \div SC(s).avg)), "MonFrameMismatch")
   ELSE IF f.id + 1 > Len(p.cam[s]) \/ f.id < 0 THEN <<"MonFrameMismatch">>
   ELSE LET c == p.cam[s][f.id + 1] IN If(c.tag # f.tag \/ c.hw # f.hw \/ ~f.ok, "MonFrameMismatch")
                                       \o If(c.w # f.w \/ c.h # f.h \/ c.ty # f.ty, "MonFrameShape"))
  \o LayoutRules(f, "MonFrameMisaligned", "MonFrameSizeField")

Step(k) == IF k > 1 THEN k ELSE 1
MonMapRules(s, e) ==
  LET fs == e.frames  k == Step(SC(s).avg) IN
  If(e.rc # 0, "MonMapFailed")
  \o If(e.rest # 0, "MonPacketNotWhole")
  \o If(Len(fs) > 0 /\ ~p.active, "MonDataAfterStop")
  \o If(Len(fs) > 0 /\ p.mon[s] >= 0 /\ fs[1].id # p.mon[s], "MonGapOrRepeat")
  \o If(\E i \in 1..(Len(fs) - 1) : fs[i + 1].id # fs[i].id + k, "MonGapOrRepeat")
  \o Cat([i \in 1..Len(fs) |-> MonFrameRules(s, fs[i])])

MonUnmapRules(s, e) ==
  If(e.rc # 0, "MonUnmapFailed")
  \o If([i \in 1..Len(e.frames) |-> e.frames[i].tag] # p.held[s], "MonRegionChanged")

\* when stop/abort returns (C07, C04 completeness, C10 completeness)
StopRules(e) ==
  If(p.alive # {}, "WorkersAliveAfterStop")
  \o If(e.st # ARMED, "NotArmedAfterStop")
  \o Cat([i \in 1..p.cfg.ns |->
       LET s == i - 1  N == SC(s).n  k == SC(s).avg  clean == p.active /\ ~p.aborted /\ ~p.camFail[s] /\ ~p.storFail[s] /\ N >= 0 IN
       If(p.camRun[s], "CameraRunningAfterStop")
       \o If(p.storRun[s], "StorageRunningAfterStop")
       \o If(clean /\ Len(p.cam[s]) # N, "StopCameraIncomplete")
       \o If(clean /\ k <= 1 /\ p.nstor[s] # N, "StopIncomplete")
       \o If(clean /\ k > 1 /\ p.nstor[s] < N \div k, "AvgIncomplete")])

Quiet(e) == If(~p.active, "ActivityAfterStop")

\* ---- state updates ---------------------------------------------------------------------------------
NewEpoch ==
  [p EXCEPT !.ep = p.ep + 1, !.active = TRUE, !.aborted = FALSE,
            !.cam = [s \in Streams |-> <<>>], !.nstor = [s \in Streams |-> 0],
            !.camFail = [s \in Streams |-> FALSE], !.storFail = [s \in Streams |-> FALSE],
            !.partial = [s \in Streams |-> FALSE], !.mon = [s \in Streams |-> -1]]

Next1 ==
  /\ l <= Len(Tr) /\ ~done /\ l' = l + 1 /\ done' = FALSE
  /\ LET e == Ev  k == e.e IN
     CASE k = "Reset" -> p' = PInit([hdr |-> e.hdr, ns |-> e.ns, streams |-> e.streams]) /\ NoFlag
       [] k = "Api" /\ e.ph = "call" ->
            (CASE e.op = "start" -> p' = NewEpoch /\ NoFlag
               [] e.op \in {"stop", "abort", "shutdown"} ->
                    p' = [p EXCEPT !.inflight = p.inflight + 1, !.aborted = p.aborted \/ (e.op # "stop" /\ p.active)] /\ NoFlag
               [] OTHER -> p' = p /\ NoFlag)
       [] k = "Api" /\ e.ph = "ret" ->
            (CASE e.op \in {"stop", "abort"} ->
                    /\ Flag(StopRules(e))
                    /\ p' = [p EXCEPT !.inflight = p.inflight - 1, !.active = FALSE]
               [] e.op = "shutdown" ->
                    /\ Flag(If(p.alive # {}, "WorkersAliveAfterShutdown"))
                    /\ p' = [p EXCEPT !.inflight = p.inflight - 1, !.active = FALSE]
               [] e.op = "start" -> Flag(If(e.rc # 0 /\ "may" \notin DOMAIN e, "StartFailed")) /\ p' = p
               [] e.op = "state" -> Flag(If(e.st = RUNNING /\ p.alive = {} /\ p.active, "RunningWithoutWorkers")) /\ p' = p
               [] OTHER -> p' = p /\ NoFlag)
       [] k = "Api2" -> (IF e.ph = "call"
                         THEN p' = [p EXCEPT !.inflight = p.inflight + 1, !.aborted = p.aborted \/ e.op = "abort"] /\ NoFlag
                         ELSE /\ Flag(If(p.alive # {}, "WorkersAliveAfterStop")
                                      \o Cat([i \in 1..p.cfg.ns |-> If(p.camRun[i-1], "CameraRunningAfterStop") \o If(p.storRun[i-1], "StorageRunningAfterStop")]))
                              /\ p' = [p EXCEPT !.inflight = p.inflight - 1, !.active = FALSE])
       [] k = "CamStart" -> Flag(If(p.camRun[e.s], "CamStartWhileRunning") \o Quiet(e)) /\ p' = [p EXCEPT !.camRun[e.s] = TRUE]
       [] k = "CamStop" -> Flag(If(~p.camRun[e.s], "CamStopWhileStopped")) /\ p' = [p EXCEPT !.camRun[e.s] = FALSE]
       [] k = "CamFrame" -> /\ Flag(If(~p.camRun[e.s], "FrameWhileCameraStopped") \o Quiet(e))
                            /\ p' = [p EXCEPT !.cam[e.s] = Append(p.cam[e.s], [hw |-> e.hw, w |-> e.w, h |-> e.h, ty |-> e.ty, tag |-> e.tag])]
       \* the client configured another averaging window (between acquisitions)
       [] k = "AvgSet" -> p' = [p EXCEPT !.cfg.streams[e.s + 1].avg = e.avg] /\ NoFlag
       [] k = "CamFail" -> p' = [p EXCEPT !.camFail[e.s] = TRUE] /\ NoFlag
       \* a storage device that fails an append leaves the running state by itself (it reports a non-running state)
       [] k = "StorFail" -> p' = [p EXCEPT !.storFail[e.s] = TRUE, !.storRun[e.s] = FALSE] /\ NoFlag
       [] k = "StorStart" -> Flag(If(p.storRun[e.s], "StorStartWhileRunning") \o Quiet(e)) /\ p' = [p EXCEPT !.storRun[e.s] = TRUE]
       [] k = "StorStop" -> Flag(If(~p.storRun[e.s], "StorStopWhileStopped")) /\ p' = [p EXCEPT !.storRun[e.s] = FALSE]
       [] k = "StorAppend" -> /\ Flag(StorAppendRules(e.s, e))
                              /\ p' = [p EXCEPT !.nstor[e.s] = p.nstor[e.s] + Len(e.frames),
                                                !.partial[e.s] = p.partial[e.s] \/
                                                   (SC(e.s).avg > 1 /\ Len(e.frames) > 0 /\
                                                    Len(p.cam[e.s]) < SC(e.s).avg * (p.nstor[e.s] + Len(e.frames)))]
       [] k = "MonMap" -> /\ Flag(MonMapRules(e.s, e))
                          /\ p' = [p EXCEPT !.held[e.s] = [i \in 1..Len(e.frames) |-> e.frames[i].tag],
                                            !.heldId[e.s] = IF Len(e.frames) > 0 THEN e.frames[1].id ELSE -1]
       [] k = "MonUnmap" -> /\ Flag(MonUnmapRules(e.s, e))
                            /\ p' = [p EXCEPT !.held[e.s] = <<>>, !.heldId[e.s] = -1,
                                              !.mon[e.s] = IF p.heldId[e.s] >= 0 THEN p.heldId[e.s] + e.k * Step(SC(e.s).avg) ELSE p.mon[e.s]]
       [] k = "ThreadStart" -> Flag(Quiet(e)) /\ p' = [p EXCEPT !.alive = p.alive \cup {e.name}]
       [] k = "ThreadExit" -> p' = [p EXCEPT !.alive = p.alive \ {e.name}] /\ NoFlag
       [] k = "Hang" -> Flag(<<"Hang">>) /\ p' = p
       [] k = "Crash" -> Flag(<<"Crash">>) /\ p' = p
       [] k \in {"End", "Sched", "DevOpen", "DevClose", "DevOpenFail", "DevUse", "CamTrig", "CamNoData", "CamSetFail", "Query"} -> p' = p /\ NoFlag
       [] OTHER -> Flag(<<"UnknownEvent">>) /\ p' = p

Finish ==
  /\ l = Len(Tr) + 1 /\ ~done /\ done' = TRUE
  /\ PrintT(<<"VERDICT", ToJson([consumed |-> l - 1, nbad |-> nbad, bad |-> bad])>>)
  /\ UNCHANGED <<l, p, bad, nbad>>

Next == Next1 \/ Finish
Spec == Init /\ [][Next]_vars
=============================================================================
