-------------------------------- MODULE Hal --------------------------------
(***************************************************************************)
(* Implementation-shaped specification of the device HAL wrappers           *)
(* (acquire-device-hal/device/hal/camera.c, storage.c, driver.c) for ONE    *)
(* device kind (constant Kind = "camera" | "storage").                      *)
(*                                                                         *)
(* Every HAL function is one atomic action; the statuses the driver answers *)
(* with are existentially chosen parameters of the action, so TLC explores  *)
(* every HAL call x every driver response: Device_Ok / Device_Err for       *)
(* cameras, every DeviceState 0..4 (4 = DeviceStateCount stands for the     *)
(* out-of-range values) for the storage calls that return a state, failing  *)
(* open / describe / close, a NULL driver, a NULL device, and a NULL vtable *)
(* entry at open.                                                           *)
(*                                                                         *)
(* Variables mirror the code: `open` (the client holds a device), `hs` =    *)
(* Camera.state / Storage.state as stored in the device block.  The rest is *)
(* the driver-side truth written down exactly like DeviceProtocolObs does:  *)
(* `drun` (the device is running as far as the driver's answers say), `exp` *)
(* (the state that follows from the driver's last response), `leak` (devices *)
(* the driver opened that nobody will ever close), `err` (first protocol     *)
(* rule broken by a driver call the HAL issued).                            *)
(*                                                                         *)
(* The history is unbounded: the state graph is complete, MaxOpens only     *)
(* bounds the number of open attempts (device generations) in one history.  *)
(*                                                                         *)
(* Constants selecting the code as it was before a repair:                  *)
(*   FixOpenLeak = FALSE      camera_open returns NULL without closing the   *)
(*                            device when a vtable entry is NULL             *)
(*   FixDescribeLeak = FALSE  driver_open_device returns Device_Err without  *)
(*                            closing the device when describe() fails       *)
(*   CloseStateFirst = FALSE  storage_close stores DeviceState_Closed after  *)
(*                            the driver's close released the device         *)
(*   SetKeepsRunning = FALSE  storage_set stores the driver's Armed answer over a   *)
(*                            Running state (the storage is then never stopped) *)
(*   SetStopsRejected = FALSE storage_set stores the driver's rejection over a   *)
(*                            Running state without stopping the device (it  *)
(*                            is then never stopped: C16's descriptor leak)  *)
(*   Strict = TRUE            reading of "running" in which only a start     *)
(*                            that succeeded makes a storage device running  *)
(*                            (default FALSE: the DeviceState the storage    *)
(*                            driver answered last is the driver-side truth) *)
(***************************************************************************)
EXTENDS Naturals, Integers, Sequences, FiniteSets, TLC, Json
CONSTANTS Kind, MaxOpens, FixOpenLeak, FixDescribeLeak, CloseStateFirst, SetKeepsRunning, SetStopsRejected, Strict

CLOSED == 0
AWAIT == 1
ARMED == 2
RUNNING == 3
BOGUS == 4                      \* DeviceStateCount: representative of the out-of-range answers
States == 0..4
OK == 0
ERR == 1
Codes == {OK, ERR}
IsCam == Kind = "camera"

\* argument variants carried in lastAct.a
NORMAL == 0
NODRIVER == -1                  \* open: device_manager_get_driver returned NULL
NULLSELF == -9                  \* the device pointer passed is NULL
NULLARG == -8                   \* the second pointer argument is NULL
EMPTY == 1                      \* append: beg == end
REVERSED == 2                   \* append: end < beg

VARIABLES open, hs, drun, exp, leak, err, nopen, lastAct
vars == <<open, hs, drun, exp, leak, err, nopen, lastAct>>
View == <<open, hs, drun, exp, leak, err, nopen>>

\* ---- the driver-side truth (identical to DeviceProtocolObs) ------------------------------------------
\* running flag after the driver answered r to call c
RunAfter(c, r, run) ==
  IF IsCam THEN (IF c = "start" THEN (IF r = OK THEN TRUE ELSE run)
                 ELSE IF c = "stop" THEN (IF r = OK THEN FALSE ELSE run)
                 ELSE run)
  ELSE IF Strict THEN (IF c = "start" THEN (IF r = RUNNING THEN TRUE ELSE run)
                       ELSE IF c = "stop" THEN (IF r = RUNNING THEN run ELSE FALSE)
                       ELSE run)
  ELSE (IF c = "set" THEN (r = RUNNING \/ run)      \* neither accepting nor rejecting settings stops a running device
        ELSE IF c \in {"start", "append", "stop"} THEN r = RUNNING ELSE run)

\* walk over the driver calls one HAL call issued: <<running flag afterwards, first rule broken>>
RECURSIVE Walk(_, _, _, _)
Walk(cs, rs, run, e) ==
  IF cs = <<>> THEN [run |-> run, err |-> e]
  ELSE LET c == Head(cs)
           b == IF c = "stop" /\ ~run THEN "StopWithoutStart"
                ELSE IF c = "get_frame" /\ ~run THEN "FrameOutsideRunning"
                ELSE IF c = "append" /\ ~run THEN "AppendOutsideRunning"
                ELSE "none"
       IN Walk(Tail(cs), Tail(rs), RunAfter(c, Head(rs), run), IF e = "none" THEN b ELSE e)

\* the state the HAL has to report after HAL call f, given the answer to the call it forwarded (cs[1] = f)
ExpAfter(f, cs, rs) ==
  IF cs = <<>> \/ cs[1] # f THEN exp
  ELSE IF IsCam THEN
       (IF f = "set" THEN (IF rs[1] = OK THEN (IF exp = RUNNING THEN RUNNING ELSE ARMED) ELSE AWAIT)
        ELSE IF f = "start" THEN (IF rs[1] = OK THEN RUNNING ELSE AWAIT)
        ELSE IF f = "stop" THEN (IF rs[1] = OK THEN ARMED ELSE AWAIT)
        ELSE IF f = "get_frame" THEN (IF rs[1] = OK THEN exp ELSE AWAIT)
        ELSE exp)
  ELSE (IF f = "set" /\ rs[1] = ARMED /\ exp = RUNNING THEN RUNNING
        ELSE IF f \in {"set", "start", "stop", "append"} THEN rs[1] ELSE exp)
\* states the HAL may report after f: what follows from the answer; a storage device that answers Armed to a
\* set while it is running may be reported Running (settings accepted, still running) or Armed (the answer)
Accepts(f, cs, rs, st) ==
  \/ st = ExpAfter(f, cs, rs)
  \/ ~IsCam /\ f = "set" /\ cs # <<>> /\ cs[1] = f /\ rs[1] = ARMED /\ exp = RUNNING /\ st = ARMED

\* ---- one HAL call ---------------------------------------------------------------------------------------
\* f, a: function and argument variant; cs/rs: driver calls issued and the answers; rc: returned code;
\* hs2/open2: device state afterwards; dl: devices leaked; xe: rule broken outside the call walk
Do(f, a, cs, rs, rc, hs2, open2, dl, xe) ==
  LET w == Walk(cs, rs, drun, "none")
      e1 == IF w.err # "none" THEN w.err ELSE xe IN
  /\ err' = (IF err # "none" THEN err ELSE e1)
  /\ open' = open2
  /\ drun' = (IF open2 THEN w.run ELSE FALSE)
  /\ hs' = (IF open2 THEN hs2 ELSE CLOSED)
  /\ exp' = (IF open2 THEN (IF f = "open" THEN AWAIT ELSE IF Accepts(f, cs, rs, hs2) THEN hs2 ELSE ExpAfter(f, cs, rs))
              ELSE CLOSED)
  /\ leak' = leak + dl
  /\ nopen' = (IF f = "open" THEN nopen + 1 ELSE nopen)
  /\ lastAct' = [f |-> f, a |-> a, cs |-> cs, rs |-> rs, rc |-> rc, st |-> IF open2 THEN hs2 ELSE -1]

Same(f, a, cs, rs, rc) == Do(f, a, cs, rs, rc, hs, open, 0, "none")

\* storage_close on a device in HAL state s with a non-NULL `stop` entry iff hasStop; r = answer to stop, c = to close
\* returns <<calls, answers, rule broken>>
StoCloseSeq(s, hasStop, r, c) ==
  LET stops == hasStop /\ s = RUNNING IN
  << (IF stops THEN <<"stop">> ELSE <<>>) \o <<"close">>,
     (IF stops THEN <<r>> ELSE <<>>) \o <<c>>,
     IF CloseStateFirst THEN "none" ELSE "WriteAfterClose" >>

\* ---- open (camera_open / storage_open through driver_open_device) ----------------------------------------
OpenNoDriver == /\ ~open /\ nopen < MaxOpens
                /\ Do("open", NODRIVER, <<>>, <<>>, ERR, CLOSED, FALSE, 0, "none")
\* driver->open fails (1) or answers Ok with a NULL device (2)
OpenFails == /\ ~open /\ nopen < MaxOpens
             /\ \E o \in {1, 2} : Do("open", NORMAL, <<"open">>, <<o>>, ERR, CLOSED, FALSE, 0, "none")
\* driver->open succeeds, describe fails: the device has to be handed back
OpenDescribeFails ==
  /\ ~open /\ nopen < MaxOpens
  /\ IF FixDescribeLeak
     THEN \E c \in Codes : Do("open", NORMAL, <<"open", "describe", "close">>, <<OK, ERR, c>>, ERR, CLOSED, FALSE, 0, "none")
     ELSE Do("open", NORMAL, <<"open", "describe">>, <<OK, ERR>>, ERR, CLOSED, FALSE, 1, "none")
\* vtable entry number nul (1..8) is NULL: the interface check fails
OpenNullEntry ==
  /\ ~open /\ nopen < MaxOpens
  /\ \E nul \in 1..8 :
       IF IsCam
       THEN (IF FixOpenLeak
             THEN \E c \in Codes : Do("open", nul, <<"open", "describe", "close">>, <<OK, OK, c>>, ERR, CLOSED, FALSE, 0, "none")
             ELSE Do("open", nul, <<"open", "describe">>, <<OK, OK>>, ERR, CLOSED, FALSE, 1, "none"))
       ELSE \E c \in Codes :
              LET q == StoCloseSeq(AWAIT, nul # 6, OK, c) IN
              Do("open", nul, <<"open", "describe">> \o q[1], <<OK, OK>> \o q[2], ERR, CLOSED, FALSE, 0, q[3])
OpenOk == /\ ~open /\ nopen < MaxOpens
          /\ Do("open", NORMAL, <<"open", "describe">>, <<OK, OK>>, OK, AWAIT, TRUE, 0, "none")

\* ---- camera.c -----------------------------------------------------------------------------------------------
CamSet ==
  /\ IsCam /\ open
  /\ \/ Do("set", NORMAL, <<"set">>, <<OK>>, OK, IF hs = RUNNING THEN RUNNING ELSE ARMED, TRUE, 0, "none")
     \/ /\ hs # RUNNING
        /\ Do("set", NORMAL, <<"set">>, <<ERR>>, ERR, AWAIT, TRUE, 0, "none")
     \/ /\ hs = RUNNING             \* camera_set -> camera_stop
        /\ \E r2 \in Codes : Do("set", NORMAL, <<"set", "stop">>, <<ERR, r2>>, ERR, AWAIT, TRUE, 0, "none")
CamGet == /\ IsCam /\ open
          /\ \E f \in {"get", "get_meta", "get_shape"} : \E r \in Codes : Same(f, NORMAL, <<f>>, <<r>>, r)
CamStart == /\ IsCam /\ open
            /\ \E r \in Codes : Do("start", NORMAL, <<"start">>, <<r>>, r, IF r = OK THEN RUNNING ELSE AWAIT, TRUE, 0, "none")
CamStop == /\ IsCam /\ open
           /\ IF hs = RUNNING
              THEN \E r \in Codes : Do("stop", NORMAL, <<"stop">>, <<r>>, r, IF r = OK THEN ARMED ELSE AWAIT, TRUE, 0, "none")
              ELSE Same("stop", NORMAL, <<>>, <<>>, OK)
CamTrigger == /\ IsCam /\ open
              /\ IF hs = RUNNING
                 THEN \E r \in Codes : Same("trigger", NORMAL, <<"trigger">>, <<r>>, r)
                 ELSE Same("trigger", NORMAL, <<>>, <<>>, OK)
CamGetFrame ==
  /\ IsCam /\ open
  /\ IF hs # RUNNING THEN Same("get_frame", NORMAL, <<>>, <<>>, ERR)
     ELSE \/ Same("get_frame", NORMAL, <<"get_frame">>, <<OK>>, OK)
          \/ \E r2 \in Codes :      \* failure: camera_stop, then AwaitingConfiguration
               Do("get_frame", NORMAL, <<"get_frame", "stop">>, <<ERR, r2>>, ERR, AWAIT, TRUE, 0, "none")
CamClose == /\ IsCam /\ open
            /\ \E c \in Codes : Do("close", NORMAL, <<"close">>, <<c>>, OK, CLOSED, FALSE, 0, "none")

\* ---- storage.c ----------------------------------------------------------------------------------------------
\* storage_set: the driver's answer is stored (Armed over Running means "accepted, still running"); a rejection of the
\* settings of a running device is stored after the device was stopped (storage_stop), as camera_set does
StoSet == /\ ~IsCam /\ open
          /\ \E r \in States :
               IF SetStopsRejected /\ hs = RUNNING /\ r \notin {ARMED, RUNNING}
               THEN \E r2 \in States : Do("set", NORMAL, <<"set", "stop">>, <<r, r2>>, ERR, r, TRUE, 0, "none")
               ELSE Do("set", NORMAL, <<"set">>, <<r>>, IF r = ARMED THEN OK ELSE ERR,
                       IF SetKeepsRunning /\ r = ARMED /\ hs = RUNNING THEN RUNNING ELSE r, TRUE, 0, "none")
StoGet == /\ ~IsCam /\ open
          /\ \E f \in {"get", "get_meta", "reserve"} : Same(f, NORMAL, <<f>>, <<0>>, OK)
StoStart == /\ ~IsCam /\ open
            /\ IF hs # ARMED THEN Same("start", NORMAL, <<>>, <<>>, ERR)
               ELSE \E r \in States : Do("start", NORMAL, <<"start">>, <<r>>, IF r = RUNNING THEN OK ELSE ERR, r, TRUE, 0, "none")
StoStop == /\ ~IsCam /\ open
           /\ IF hs # RUNNING THEN Same("stop", NORMAL, <<>>, <<>>, OK)
              ELSE \E r \in States : Do("stop", NORMAL, <<"stop">>, <<r>>, IF r \in {ARMED, AWAIT} THEN OK ELSE ERR, r, TRUE, 0, "none")
StoAppend ==
  /\ ~IsCam /\ open
  /\ \E a \in {NORMAL, EMPTY, REVERSED} :
       IF hs # RUNNING \/ a = REVERSED THEN Same("append", a, <<>>, <<>>, ERR)
       ELSE IF a = EMPTY THEN Same("append", a, <<>>, <<>>, OK)
       ELSE \E r \in States : Do("append", a, <<"append">>, <<r>>, IF r = RUNNING THEN OK ELSE ERR, r, TRUE, 0, "none")
StoClose == /\ ~IsCam /\ open
            /\ \E r \in States, c \in Codes :
                 LET q == StoCloseSeq(hs, TRUE, r, c) IN
                 /\ (hs # RUNNING => r = ARMED)          \* r unused: one representative
                 /\ Do("close", NORMAL, q[1], q[2], OK, CLOSED, FALSE, 0, q[3])

\* ---- both ------------------------------------------------------------------------------------------------------
GetState == /\ open /\ Same("get_state", NORMAL, <<>>, <<>>, hs)
\* NULL device pointer: every function refuses (get_state answers Closed, close is void)
NullSelf ==
  /\ \E f \in (IF IsCam THEN {"set", "get", "get_meta", "get_shape", "start", "stop", "trigger", "get_frame", "close", "get_state"}
               ELSE {"set", "get", "get_meta", "start", "stop", "append", "reserve", "close", "get_state"}) :
       Same(f, NULLSELF, <<>>, <<>>, IF f \in {"close", "get_state"} THEN 0 ELSE ERR)
\* NULL second argument where the wrapper checks it
NullArg ==
  /\ open
  /\ \E f \in (IF IsCam THEN {"set", "get", "get_meta", "get_shape"} ELSE {"set"}) : Same(f, NULLARG, <<>>, <<>>, ERR)

Init == /\ open = FALSE /\ hs = CLOSED /\ drun = FALSE /\ exp = CLOSED /\ leak = 0 /\ err = "none" /\ nopen = 0
        /\ lastAct = [f |-> "init", a |-> 0, cs |-> <<>>, rs |-> <<>>, rc |-> 0, st |-> -1]

Next == \/ OpenNoDriver \/ OpenFails \/ OpenDescribeFails \/ OpenNullEntry \/ OpenOk
        \/ CamSet \/ CamGet \/ CamStart \/ CamStop \/ CamTrigger \/ CamGetFrame \/ CamClose
        \/ StoSet \/ StoGet \/ StoStart \/ StoStop \/ StoAppend \/ StoClose
        \/ GetState \/ NullSelf \/ NullArg
Spec == Init /\ [][Next]_vars

\* ---- the property ----------------------------------------------------------------------------------------------
TypeOK == /\ open \in BOOLEAN /\ hs \in States /\ drun \in BOOLEAN /\ exp \in States
          /\ leak \in 0..MaxOpens /\ nopen \in 0..MaxOpens /\ err \in STRING
\* the driver saw only legal calls: no stop without a successful start, no get_frame / append outside running,
\* nothing after close (not even a store into the released block)
NoErr == err = "none"
\* exactly one close per open: no device the driver opened is left without a close
NoLeak == leak = 0
ReportedStateFollowsDriver == open => hs = exp
ClosedMeansClosed == ~open => (hs = CLOSED /\ ~drun)
\* a device the HAL believes is running is running for the driver (else stop / get_frame / append would reach it)
RunningIsTrue == (open /\ hs = RUNNING) => drun
\* a set never leaves a running storage device behind a state that is not Running without having asked it to stop
Range(q) == {q[i] : i \in 1..Len(q)}
SetLeavesNoRunner == [][(~IsCam /\ open /\ hs = RUNNING /\ lastAct'.f = "set" /\ hs' # RUNNING /\ drun')
                           => "stop" \in Range(lastAct'.cs)]_vars

\* ---- export for replay: every transition of the complete graph ----------------------------------------------
EmitEdge == PrintT(<<"EDGE", ToJson([s |-> View, a |-> lastAct', d |-> View'])>>)
=============================================================================
