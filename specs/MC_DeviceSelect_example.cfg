\* EXAMPLE ONLY.  tools/chk_select.py generates the real cfg on every run: it reads the enumeration table from the REAL
\* device_manager_count / device_manager_get (harness `select_seq enum`) and writes it into DevCells / NDev, so that
\* "selection agrees with enumeration" is literal.  This file shows the encoding for the common driver's seven devices
\* (cell = device*65536 + position*256 + value; position 0 holds the kind, positions 1.. the name bytes), alphabet "rawnyfh",
\* classes [r-t] [^s:], and can be run by hand:  tlc -config MC_DeviceSelect_example.cfg DeviceSelect.tla
CONSTANTS
 DevCells = {1, 371, 617, 877, 1141, 1388, 1633, 1908, 2149, 2404, 2618, 2848, 3189, 3438, 3689, 3942, 4207, 4466, 4717, 4896, 5234, 5473, 5742, 5988, 6255, 6509, 65537, 65907, 66153, 66413, 66677, 66924, 67169, 67444, 67685, 67940, 68154, 68384, 68722, 68961, 69220, 69481, 69729, 69996, 70176, 70515, 70761, 71022, 131073, 131443, 131689, 131949, 132213, 132460, 132705, 132980, 133221, 133476, 133690, 133920, 134245, 134509, 134768, 135028, 135289, 196610, 196978, 197217, 197495, 262146, 262516, 262761, 263014, 263270, 327682, 328052, 328306, 328545, 328819, 329064, 393218, 393588, 393833, 394086, 394342, 394541, 394858, 395123, 395375, 395630}
 NDev = 7
 Alphabet = {114, 97, 119, 110, 121, 102, 104}
 ClassCells = {1208948, 2323315, 2439738}
 NClass = 2
 MaxNodes = 4
 Kinds = {1, 2, 3}
 Emit = 1
SPECIFICATION Spec
CHECK_DEADLOCK FALSE
INVARIANTS ShapeOK MatchersAgree CaseInsensitive SelectSound RenderOK
