----------------------------- MODULE PropsImpl -----------------------------
(***************************************************************************)
(* Implementation-shaped specification of device/props/storage.c           *)
(* (property C13): struct StorageProperties objects, struct String         *)
(* {str, nbytes, is_ref}, the heap array of struct StorageDimension, and   *)
(* an abstract heap (allocation ids, live flag, who points where).         *)
(*                                                                         *)
(* One action per API function (each is sequential code, so one atomic     *)
(* step), written in the order the C code allocates / frees / copies:      *)
(*   copy_string                    -> CopyString                           *)
(*   storage_properties_init        -> L_Init                               *)
(*   storage_properties_set_uri / _set_external_metadata /                  *)
(*     _set_access_key_and_secret   -> L_SetUri / L_SetMeta / L_SetKeys     *)
(*   storage_properties_set_dimension -> L_SetDim (all validation branches) *)
(*   storage_properties_set_enable_multiscale -> L_SetMs                    *)
(*   storage_properties_copy        -> L_Copy                               *)
(*   storage_properties_destroy     -> L_Destroy                            *)
(*   L_Borrow = a client pointing a string field at its own memory with     *)
(*   is_ref = 1 (what components.h allows and drivers/tests do).            *)
(*                                                                         *)
(* FIXED = 1 models the repaired code: storage_properties_copy keeps dst's  *)
(* own dimension array across the struct copy, releases it, and deep-copies *)
(* the source's; storage_properties_set_dimension releases the previous     *)
(* name.  FIXED = 0 is the code as it was: the struct memcpy aliases the    *)
(* source's array into dst, dimensions_destroy(dst) then frees the SOURCE's *)
(* array and names, dst's old array leaks, and set_dimension zeroes the     *)
(* entry without freeing the old name.                                      *)
(*                                                                         *)
(* The heap is a sequence of cells; allocation ids are never reused and a    *)
(* released cell stays (dead), so a stale pointer stays distinguishable.    *)
(* The VIEW renames ids canonically (position of the first slot that holds  *)
(* the pointer) and ignores dead cells nobody points at, so the state graph *)
(* does not distinguish allocation orders.  `depth` (calls so far) is part  *)
(* of the view: every call sequence of at most Depth calls is explored,     *)
(* exactly, with any number of workers.  `err` records the first release /  *)
(* access of a dead cell.  No RECURSIVE operators (loops over at most 3     *)
(* dimensions / objects are unrolled) and no -coverage: TLC's coverage      *)
(* pre-pass does not terminate on the nested LETs of this module; the check *)
(* counts the exported transitions per API function instead.                *)
(*                                                                         *)
(* Caller strings (kind k):  0 = (NULL,0)  1 = ("",1)  2 = ("ab",3)          *)
(*   3 = ("abcdefgh",9)  4 = ("xyz",3) not terminated  5 = ("ab",0)          *)
(*   6 = (NULL,3).  Content ids (the first nbytes-1 bytes): 0 = "" 1 = "ab"  *)
(*   2 = "abcdefgh" 3 = "xy".                                                *)
(***************************************************************************)
EXTENDS Naturals, Integers, Sequences, FiniteSets, TLC, Json
CONSTANTS NObj, MaxDims, FIXED, HistMode, SampleMod, WalkDepth, Depth,
          UriKinds, MetaKinds, KeyKinds, NameKinds, InitDims, BorrowKinds, DimTags, MsVals, WithBad
VARIABLES objs, heap, err, lastAct, hist, depth
vars == <<objs, heap, err, lastAct, hist, depth>>

Objs == 1..NObj
F_INIT == 1  F_URI == 2  F_META == 3  F_KEYS == 4  F_DIM == 5  F_MS == 6  F_COPY == 7  F_DESTROY == 8  F_BORROW == 9

\* ---- caller strings ---------------------------------------------------------------------------
KN(k) == CASE k = 1 -> 1 [] k = 2 -> 3 [] k = 3 -> 9 [] k = 4 -> 3 [] k = 6 -> 3 [] OTHER -> 0
KNull(k) == k \in {0, 6}
KC(k) == CASE k = 2 -> 1 [] k = 3 -> 2 [] k = 4 -> 3 [] OTHER -> 0
KT(k) == IF k = 4 THEN 0 ELSE 1
KFirstByteNonNul(k) == k \in {2, 3, 4, 5}
KeyPartner(k) == CASE k = 0 -> 3 [] k = 1 -> 4 [] k = 2 -> 0 [] k = 3 -> 2 [] k = 4 -> 1 [] OTHER -> 0

\* ---- records ------------------------------------------------------------------------------------
ZeroS == [p |-> 0, n |-> 0, r |-> 0]                       \* struct String: str (0 NULL, >0 allocation, <0 caller buffer), nbytes, is_ref
ZeroDim == [nm |-> ZeroS, k |-> 0, v |-> 0]                \* struct StorageDimension; v stands for (array,chunk,shard) = (16v, v, 2v)
ZeroObj == [s |-> <<ZeroS, ZeroS, ZeroS, ZeroS>>, f |-> 0, px |-> 0, ms |-> 0, dp |-> 0, dn |-> 0]
StrCell(n, c, t) == [live |-> TRUE, ty |-> 0, sz |-> n, c |-> c, t |-> t, el |-> <<>>]
ArrCell(n) == [live |-> TRUE, ty |-> 1, sz |-> n, c |-> 0, t |-> FALSE, el |-> [i \in 1..n |-> ZeroDim]]

Owned(S) == S.r = 0 /\ S.p # 0
OwnsNothing(ob) == ob.dp = 0 /\ \A i \in 1..4 : ~Owned(ob.s[i])
IsLive(h, a) == a \in DOMAIN h /\ h[a].live
SetErr(e, cond, name) == IF e = "none" /\ cond THEN name ELSE e
Min(a, b) == IF a < b THEN a ELSE b

\* ---- the allocator -------------------------------------------------------------------------------
Fresh(h) == Len(h) + 1              \* ids are never reused: the heap is a sequence of cells, released ones stay (dead)
Alloc(m, cell) == [h |-> Append(m.h, cell), e |-> m.e, a |-> Fresh(m.h)]
FreeM(m, a) == IF IsLive(m.h, a) THEN [h |-> [m.h EXCEPT ![a].live = FALSE], e |-> m.e]
               ELSE [h |-> m.h, e |-> SetErr(m.e, TRUE, "FreeNotLive")]

\* ---- copy_string(dst, src) ------------------------------------------------------------------------
\* a source is [nul, n, c, from]: nul = !(src && src->str && src->nbytes); from = allocation read (0 = caller memory)
CallerSrc(k) == [nul |-> KNull(k) \/ KN(k) = 0, n |-> KN(k), c |-> KC(k), from |-> 0]
StrSrc(h, S) == [nul |-> S.p = 0 \/ S.n = 0, n |-> S.n,
                 c |-> IF S.p > 0 THEN (IF S.p \in DOMAIN h THEN h[S.p].c ELSE 0 - 1) ELSE IF S.p < 0 THEN KC(0 - S.p) ELSE 0,
                 from |-> IF S.p > 0 THEN S.p ELSE 0]

CopyString(m, d, s) ==
  LET s1 == IF s.nul THEN [nul |-> FALSE, n |-> 1, c |-> 0, from |-> 0] ELSE s
      e0 == SetErr(m.e, s1.from > 0 /\ ~IsLive(m.h, s1.from), "ReadAfterFree")
      \* if (!dst->str || dst->is_ref) { dst->str = malloc(src->nbytes); dst->nbytes = src->nbytes; dst->is_ref = 0; }
      fresh == d.p = 0 \/ d.r = 1
      a1 == Alloc([h |-> m.h, e |-> e0], StrCell(s1.n, 0 - 1, FALSE))
      h1 == IF fresh THEN a1.h ELSE m.h
      d1 == IF fresh THEN [p |-> a1.a, n |-> s1.n, r |-> 0] ELSE d
      \* if (src->nbytes > dst->nbytes) dst->str = realloc(dst->str, src->nbytes);   (modelled as a moving realloc)
      grow == s1.n > d1.n
      e2 == SetErr(e0, grow /\ ~IsLive(h1, d1.p), "ReallocNotLive")
      oldc == IF d1.p \in DOMAIN h1 THEN h1[d1.p].c ELSE 0 - 1
      a2 == Alloc([h |-> IF IsLive(h1, d1.p) THEN [h1 EXCEPT ![d1.p].live = FALSE] ELSE h1, e |-> e2], StrCell(s1.n, oldc, FALSE))
      h2 == IF grow THEN a2.h ELSE h1
      d2 == IF grow THEN [d1 EXCEPT !.p = a2.a] ELSE d1
      \* dst->nbytes = src->nbytes; memset; memcpy; dst->str[nbytes-1] = 0
      e3 == SetErr(e2, ~IsLive(h2, d2.p), "WriteAfterFree")
      h3 == IF d2.p \in DOMAIN h2 THEN [h2 EXCEPT ![d2.p].c = s1.c, ![d2.p].t = TRUE] ELSE h2
  IN [h |-> h3, e |-> e3, d |-> [d2 EXCEPT !.n = s1.n]]

\* ---- dimension helpers ------------------------------------------------------------------------------
ReadEl(h, dp, i) == IF dp \in DOMAIN h /\ i >= 1 /\ i <= Len(h[dp].el) THEN h[dp].el[i] ELSE ZeroDim
ReadErr(m, dp) == [h |-> m.h, e |-> SetErr(m.e, ~IsLive(m.h, dp), "ReadAfterFree")]
WriteEl(m, dp, i, el) ==
  IF dp \in DOMAIN m.h /\ i >= 1 /\ i <= Len(m.h[dp].el)
  THEN [h |-> [m.h EXCEPT ![dp].el[i] = el], e |-> SetErr(m.e, ~m.h[dp].live, "WriteAfterFree")]
  ELSE [h |-> m.h, e |-> SetErr(m.e, TRUE, "WildWrite")]

\* storage_dimension_destroy(&data[i]): free an owned name, zero the entry
DimDestroyAt(m, dp, i) ==
  LET el == ReadEl(m.h, dp, i)
      m0 == ReadErr(m, dp)
      m1 == IF Owned(el.nm) THEN FreeM(m0, el.nm.p) ELSE m0
  IN WriteEl(m1, dp, i, ZeroDim)

\* the loop over the entries, unrolled (MaxDims <= 3; no RECURSIVE operators: TLC's coverage analysis cannot digest them here)
DimDestroyUpTo(m, dp, n) ==
  CASE n = 0 -> m
    [] n = 1 -> DimDestroyAt(m, dp, 1)
    [] n = 2 -> DimDestroyAt(DimDestroyAt(m, dp, 1), dp, 2)
    [] OTHER -> DimDestroyAt(DimDestroyAt(DimDestroyAt(m, dp, 1), dp, 2), dp, 3)

\* storage_properties_dimensions_destroy(self): CHECK(data); destroy each; free(data); zero {data,size}
DimsDestroy(m, ob) ==
  IF ob.dp = 0 THEN [h |-> m.h, e |-> m.e, ob |-> ob]
  ELSE LET m1 == DimDestroyUpTo(m, ob.dp, ob.dn)
           m2 == FreeM(m1, ob.dp)
       IN [h |-> m2.h, e |-> m2.e, ob |-> [ob EXCEPT !.dp = 0, !.dn = 0]]

\* storage_properties_dimensions_init(self, size): CHECK(size > 0); CHECK(data == 0); malloc + memset
DimsInit(m, ob, size) ==
  IF size = 0 \/ ob.dp # 0 THEN [h |-> m.h, e |-> m.e, ob |-> ob, ok |-> FALSE]
  ELSE LET a == Alloc(m, ArrCell(size)) IN [h |-> a.h, e |-> a.e, ob |-> [ob EXCEPT !.dp = a.a, !.dn = size], ok |-> TRUE]

\* storage_dimension_copy(&dst.data[i], &src.data[i])
DimCopyAt(m, ddp, sdp, i) ==
  LET sel == ReadEl(m.h, sdp, i)
      m0 == ReadErr(m, sdp)
      del == ReadEl(m0.h, ddp, i)
      r == CopyString(m0, del.nm, StrSrc(m0.h, sel.nm))
  IN WriteEl([h |-> r.h, e |-> r.e], ddp, i, [nm |-> r.d, k |-> sel.k, v |-> sel.v])

DimCopyUpTo(m, ddp, sdp, n) ==
  CASE n = 0 -> m
    [] n = 1 -> DimCopyAt(m, ddp, sdp, 1)
    [] n = 2 -> DimCopyAt(DimCopyAt(m, ddp, sdp, 1), ddp, sdp, 2)
    [] OTHER -> DimCopyAt(DimCopyAt(DimCopyAt(m, ddp, sdp, 1), ddp, sdp, 2), ddp, sdp, 3)

\* ---- who points where ----------------------------------------------------------------------------------
NDimsSeen(h, ob) == IF ob.dp > 0 /\ ob.dp \in DOMAIN h THEN Min(ob.dn, Len(h[ob.dp].el)) ELSE 0
ObjPtrs(h, ob) == <<ob.s[1].p, ob.s[2].p, ob.s[3].p, ob.s[4].p, ob.dp>>
                  \o [i \in 1..NDimsSeen(h, ob) |-> h[ob.dp].el[i].nm.p]
Trav(os, h) == CASE NObj = 1 -> ObjPtrs(h, os[1])
                [] NObj = 2 -> ObjPtrs(h, os[1]) \o ObjPtrs(h, os[2])
                [] OTHER -> ObjPtrs(h, os[1]) \o ObjPtrs(h, os[2]) \o ObjPtrs(h, os[3])      \* NObj <= 3
Range(sq) == {sq[i] : i \in 1..Len(sq)}

\* ---- canonical projection (what the harness computes from the real structs) -------------------------------
Canon(tr, p) == IF p <= 0 THEN p ELSE CHOOSE i \in 1..Len(tr) : tr[i] = p /\ \A j \in 1..(i-1) : tr[j] # p
B(x) == IF x THEN 1 ELSE 0
PS(tr, h, S) ==
  IF S.p > 0 /\ S.p \in DOMAIN h THEN <<Canon(tr, S.p), S.n, S.r, h[S.p].c, B(h[S.p].t), B(h[S.p].live)>>
  ELSE IF S.p < 0 THEN <<S.p, S.n, S.r, IF S.n = 0 THEN 0 ELSE KC(0 - S.p), IF S.n = 0 THEN 1 ELSE KT(0 - S.p), 1>>
  ELSE <<0, S.n, S.r, 0, 1, 1>>
PObj(tr, h, ob) ==
  [s |-> [i \in 1..4 |-> PS(tr, h, ob.s[i])], f |-> ob.f, px |-> ob.px, ms |-> ob.ms,
   dp |-> Canon(tr, ob.dp), dn |-> ob.dn, dl |-> IF ob.dp > 0 THEN B(IsLive(h, ob.dp)) ELSE 1,
   d |-> [i \in 1..NDimsSeen(h, ob) |-> LET el == h[ob.dp].el[i] IN [nm |-> PS(tr, h, el.nm), k |-> el.k, v |-> el.v]]]
ProjOf(os, h) == LET tr == Trav(os, h) IN [o \in Objs |-> PObj(tr, h, os[o])]
LeakCount(os, h) == LET r == Range(Trav(os, h)) IN Cardinality({a \in DOMAIN h : h[a].live /\ a \notin r})
\* depth is part of the view so that the bounded exploration is exact with any number of workers
View == <<ProjOf(objs, heap), LeakCount(objs, heap), err, depth>>

\* ---- actions ---------------------------------------------------------------------------------------------------
Done(os, m, call, ret) ==
  /\ depth < Depth                              \* all call sequences of at most Depth calls
  /\ objs' = os
  /\ heap' = m.h
  /\ err' = m.e
  /\ lastAct' = [c |-> call, ret |-> ret]
  /\ depth' = depth + 1
  /\ hist' = (CASE HistMode = 0 -> hist
              [] HistMode = 1 -> Append(hist, call)
              [] OTHER -> Append(hist, [c |-> call, ret |-> ret, post |-> ProjOf(os, m.h)]))
M0 == [h |-> heap, e |-> err]

\* storage_properties_init(out, first_frame_id, uri, metadata, pixel_scale, dimension_count)   [ids: f = px = o]
Init_(o, ku, km, nd) ==
  /\ OwnsNothing(objs[o])                     \* memset(out, 0): initialising an object that still owns buffers is client misuse
  /\ LET r1 == CopyString(M0, ZeroS, CallerSrc(ku))
         r2 == CopyString([h |-> r1.h, e |-> r1.e], ZeroS, CallerSrc(km))
         ob1 == [ZeroObj EXCEPT !.s = <<r1.d, r2.d, ZeroS, ZeroS>>, !.f = o, !.px = o]
         r3 == IF nd > 0 THEN DimsInit([h |-> r2.h, e |-> r2.e], ob1, nd) ELSE [h |-> r2.h, e |-> r2.e, ob |-> ob1, ok |-> TRUE]
     IN Done([objs EXCEPT ![o] = r3.ob], [h |-> r3.h, e |-> r3.e], <<F_INIT, o, ku, km, nd, 0>>, 1)

SetStr_(o, fld, k, f) ==
  LET r == CopyString(M0, objs[o].s[fld], CallerSrc(k))
  IN Done([objs EXCEPT ![o].s[fld] = r.d], [h |-> r.h, e |-> r.e], <<f, o, k, 0, 0, 0>>, 1)

SetKeys_(o, k1, k2) ==
  LET r1 == CopyString(M0, objs[o].s[3], CallerSrc(k1))
      r2 == CopyString([h |-> r1.h, e |-> r1.e], objs[o].s[4], CallerSrc(k2))
  IN Done([objs EXCEPT ![o].s[3] = r1.d, ![o].s[4] = r2.d], [h |-> r2.h, e |-> r2.e], <<F_KEYS, o, k1, k2, 0, 0>>, 1)

\* storage_properties_set_dimension(out, index, name, bytes_of_name, kind, array, chunk, shard)
SetDim_(o, idx, nk, dk, v) ==
  LET ob == objs[o]
      call == <<F_DIM, o, idx, nk, dk, v>>
      valid == idx >= 0 /\ idx < ob.dn /\ ~KNull(nk) /\ KN(nk) > 0 /\ KFirstByteNonNul(nk) /\ dk < 4
  IN IF ~valid THEN Done(objs, M0, call, 0)
     ELSE LET m1 == IF FIXED = 1 THEN DimDestroyAt(M0, ob.dp, idx + 1)          \* release the previous name, zero the entry
                    ELSE WriteEl(M0, ob.dp, idx + 1, ZeroDim)                    \* memset(dim, 0): the previous name is lost
              r == CopyString(m1, ZeroS, CallerSrc(nk))
              m2 == WriteEl([h |-> r.h, e |-> r.e], ob.dp, idx + 1, [nm |-> r.d, k |-> dk, v |-> v])
          IN Done(objs, m2, call, 1)

SetMs_(o, b) == Done([objs EXCEPT ![o].ms = b], M0, <<F_MS, o, b, 0, 0, 0>>, 1)

\* storage_properties_copy(dst, src)
Copy_(d, s) ==
  LET src == objs[s]
      dst == objs[d]
      \* 1. memcpy(dst, src) with dst's own Strings (repaired: and dst's own dimension array) put back
      ob1 == IF FIXED = 1 THEN [dst EXCEPT !.f = src.f, !.px = src.px, !.ms = src.ms]
             ELSE [dst EXCEPT !.f = src.f, !.px = src.px, !.ms = src.ms, !.dp = src.dp, !.dn = src.dn]
      \* 2. the four strings
      r1 == CopyString(M0, ob1.s[1], StrSrc(heap, src.s[1]))
      r2 == CopyString([h |-> r1.h, e |-> r1.e], ob1.s[2], StrSrc(r1.h, src.s[2]))
      r3 == CopyString([h |-> r2.h, e |-> r2.e], ob1.s[3], StrSrc(r2.h, src.s[3]))
      r4 == CopyString([h |-> r3.h, e |-> r3.e], ob1.s[4], StrSrc(r3.h, src.s[4]))
      ob2 == [ob1 EXCEPT !.s = <<r1.d, r2.d, r3.d, r4.d>>]
      m4 == [h |-> r4.h, e |-> r4.e]
      \* 3. the dimensions
      x1 == IF FIXED = 1 THEN DimsDestroy(m4, ob2)                                \* release dst's own array (if any) ...
            ELSE IF src.dp # 0 THEN DimsDestroy(m4, ob2) ELSE [h |-> m4.h, e |-> m4.e, ob |-> ob2]
      x2 == IF src.dp # 0 THEN DimsInit([h |-> x1.h, e |-> x1.e], x1.ob, src.dn)  \* ... and deep-copy the source's
            ELSE [h |-> x1.h, e |-> x1.e, ob |-> x1.ob, ok |-> TRUE]
      m5 == IF src.dp # 0 /\ x2.ok THEN DimCopyUpTo([h |-> x2.h, e |-> x2.e], x2.ob.dp, src.dp, src.dn) ELSE [h |-> x2.h, e |-> x2.e]
  IN Done([objs EXCEPT ![d] = x2.ob], m5, <<F_COPY, d, s, 0, 0, 0>>, B(x2.ok))

\* storage_properties_destroy(self)
DestroyStr(p, i) ==        \* if (is_ref == 0 && str) { free(str); memset(string, 0) }
  LET S == p.ob.s[i]
  IN IF Owned(S) THEN LET m1 == FreeM([h |-> p.h, e |-> p.e], S.p) IN [h |-> m1.h, e |-> m1.e, ob |-> [p.ob EXCEPT !.s[i] = ZeroS]]
     ELSE p
Destroy_(o) ==
  LET p == DestroyStr(DestroyStr(DestroyStr(DestroyStr([h |-> heap, e |-> err, ob |-> objs[o]], 1), 2), 3), 4)
      x == DimsDestroy([h |-> p.h, e |-> p.e], p.ob)
  IN Done([objs EXCEPT ![o] = x.ob], [h |-> x.h, e |-> x.e], <<F_DESTROY, o, 0, 0, 0, 0>>, 1)

\* the client points a string field at its own buffer (is_ref = 1); only where the object owns nothing to lose
Borrow_(o, fld, k) ==
  /\ ~Owned(objs[o].s[fld])
  /\ Done([objs EXCEPT ![o].s[fld] = [p |-> IF KNull(k) THEN 0 ELSE 0 - k, n |-> KN(k), r |-> 1]], M0, <<F_BORROW, o, fld, k, 0, 0>>, 1)

L_Init == \E o \in Objs, ku \in UriKinds, km \in MetaKinds, nd \in InitDims : Init_(o, ku, km, nd)
L_SetUri == \E o \in Objs, k \in UriKinds : SetStr_(o, 1, k, F_URI)
L_SetMeta == \E o \in Objs, k \in MetaKinds : SetStr_(o, 2, k, F_META)
L_SetKeys == \E o \in Objs, k \in KeyKinds : SetKeys_(o, k, KeyPartner(k))
L_SetDim == \E o \in Objs, idx \in 0..(MaxDims - 1), nk \in NameKinds, v \in DimTags : SetDim_(o, idx, nk, v, v)
L_SetDimBad == WithBad = 1 /\ \E o \in Objs : \/ \E nk \in {0, 1, 5, 6} : SetDim_(o, 0, nk, 1, 1)      \* NULL / empty / zero-byte names
                               \/ SetDim_(o, 0, 2, 4, 1)                                 \* invalid kind
                               \/ SetDim_(o, MaxDims, 2, 1, 1)                           \* index out of range
                               \/ SetDim_(o, 0 - 1, 2, 1, 1)
L_SetMs == \E o \in Objs, b \in MsVals : SetMs_(o, b)
L_Copy == \E d \in Objs, s \in Objs : d # s /\ Copy_(d, s)
L_Destroy == \E o \in Objs : Destroy_(o)
L_Borrow == \E o \in Objs, fld \in {1, 2}, k \in BorrowKinds : Borrow_(o, fld, k)

Init == /\ objs = [o \in Objs |-> ZeroObj] /\ heap = << >> /\ err = "none"
        /\ lastAct = [c |-> <<0, 0, 0, 0, 0, 0>>, ret |-> 1] /\ hist = << >> /\ depth = 0
Next == \/ L_Init \/ L_SetUri \/ L_SetMeta \/ L_SetKeys \/ L_SetDim \/ L_SetDimBad \/ L_SetMs \/ L_Copy \/ L_Destroy \/ L_Borrow
Spec == Init /\ [][Next]_vars

\* ---- the property (C13) as invariants -----------------------------------------------------------------------------
Tr == Trav(objs, heap)
\* every free / realloc targets a live allocation; nothing is read or written after its release
NoErr == err = "none"
\* no buffer is shared between (or within) objects
NoShare == \A i, j \in 1..Len(Tr) : (i < j /\ Tr[i] > 0) => Tr[i] # Tr[j]
\* nothing points at a released allocation
NoDangling == \A i \in 1..Len(Tr) : Tr[i] > 0 => IsLive(heap, Tr[i])
\* every live allocation is still held by exactly one slot, hence can be (and is) released exactly once
NoLeak == \A a \in DOMAIN heap : heap[a].live => a \in Range(Tr)
DestroyedMeansEmpty == (\A o \in Objs : OwnsNothing(objs[o])) => \A a \in DOMAIN heap : ~heap[a].live
\* every stored string is NUL-terminated within its buffer, at its recorded length
StrOK(S) == Owned(S) => /\ S.p > 0 /\ IsLive(heap, S.p) /\ heap[S.p].ty = 0
                        /\ S.n >= 1 /\ S.n <= heap[S.p].sz /\ heap[S.p].t
Terminated == \A o \in Objs : /\ \A i \in 1..4 : StrOK(objs[o].s[i])
                              /\ objs[o].dp # 0 => /\ IsLive(heap, objs[o].dp) /\ heap[objs[o].dp].ty = 1
                                                   /\ objs[o].dn = heap[objs[o].dp].sz
                                                   /\ \A i \in 1..objs[o].dn : StrOK(heap[objs[o].dp].el[i].nm)

\* copy: the source (struct and everything it points at) is unchanged; dst equals it field by field (NULL == "")
NormS(h, S) == LET s == StrSrc(h, S) IN IF s.nul THEN <<0, 1>> ELSE <<s.c, s.n>>
DeepObj(h, ob) == <<ob, [i \in 1..4 |-> IF ob.s[i].p > 0 /\ ob.s[i].p \in DOMAIN h THEN <<h[ob.s[i].p]>> ELSE <<>>],
                    IF ob.dp > 0 /\ ob.dp \in DOMAIN h
                    THEN <<h[ob.dp], [i \in 1..Len(h[ob.dp].el) |-> LET p == h[ob.dp].el[i].nm.p IN IF p > 0 /\ p \in DOMAIN h THEN <<h[p]>> ELSE <<>>]>>
                    ELSE <<>>>>
EqualObjs(h, a, b) ==
  /\ \A i \in 1..4 : NormS(h, a.s[i]) = NormS(h, b.s[i])
  /\ a.f = b.f /\ a.px = b.px /\ a.ms = b.ms /\ a.dn = b.dn
  /\ (a.dn > 0 => /\ IsLive(h, a.dp) /\ IsLive(h, b.dp)
                  /\ \A i \in 1..a.dn : LET x == ReadEl(h, a.dp, i)  y == ReadEl(h, b.dp, i)
                                        IN NormS(h, x.nm) = NormS(h, y.nm) /\ x.k = y.k /\ x.v = y.v)
CopyPostStep ==
  (lastAct'.c[1] = F_COPY /\ lastAct'.ret = 1)
  => LET d == lastAct'.c[2]  s == lastAct'.c[3]
     IN /\ DeepObj(heap', objs'[s]) = DeepObj(heap, objs[s])
        /\ EqualObjs(heap', objs'[d], objs'[s])
        /\ \A o \in Objs \ {d} : DeepObj(heap', objs'[o]) = DeepObj(heap, objs[o])
CopyPost == [][CopyPostStep]_vars
\* a setter or destroy touches only its own object
OthersUntouchedStep == (lastAct'.c[1] \in {F_INIT, F_URI, F_META, F_KEYS, F_DIM, F_MS, F_DESTROY, F_BORROW})
                       => \A o \in Objs \ {lastAct'.c[2]} : DeepObj(heap', objs'[o]) = DeepObj(heap, objs[o])
OthersUntouched == [][OthersUntouchedStep]_vars

\* ---- export ----------------------------------------------------------------------------------------------------------
EmitEdge == PrintT(<<"EDGE", ToJson([path |-> hist', ret |-> lastAct'.ret, post |-> ProjOf(objs', heap')])>>)
EmitSample == (SampleMod > 1 /\ RandomElement(1..SampleMod) # 1) \/ EmitEdge
DumpWalk == Len(hist) # WalkDepth \/ PrintT(<<"WALK", ToJson(hist)>>)
=============================================================================
