\* repaired model with every fault index of a one-append history, transient and persistent (quick tier of C16)
CONSTANTS NDev = 1 NPaths = 3 Kinds1 = {"tiff", "sbs"} MaxCycles = 2 MaxAppends = 1 MaxPacket = 2 Real = FALSE NKinds = 2
  NScripts = 2 MaxFaultAt = 15 MaxDepth = 4 FIX_TIFF = 1 FIX_SBS = 1 FIX_META = 1 SetRunning = TRUE FIX_SET = 1 MaxFd = 5 Ghost = TRUE Export = FALSE
SPECIFICATION Spec
VIEW View
INVARIANTS NoErr NoCrash TypeOK OwnsItsFile Cursors InnerFollowsOuter
CHECK_DEADLOCK FALSE
