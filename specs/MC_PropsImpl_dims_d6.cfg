CONSTANTS NObj = 2 MaxDims = 2 FIXED = 1 HistMode = 0 SampleMod = 1 WalkDepth = 0 Depth = 6
 UriKinds = {3} MetaKinds = {0} KeyKinds = {} NameKinds = {2,3} InitDims = {0,1,2} BorrowKinds = {} DimTags = {1,2} MsVals = {} WithBad = 1
SPECIFICATION Spec
CHECK_DEADLOCK FALSE
VIEW View
INVARIANTS NoErr NoShare NoDangling NoLeak DestroyedMeansEmpty Terminated
PROPERTIES CopyPost OthersUntouched
