------------------------------ MODULE SimCamObs ------------------------------
(***************************************************************************)
(* Observation specification for property C17 ("simulated cameras are      *)
(* memory-safe and honour the shape they report"), written as a TOTAL trace *)
(* specification: every event of a recorded implementation trace is        *)
(* consumed; an event that a rule forbids appends <<rule, line>> to `bad`.  *)
(*                                                                         *)
(* It knows the camera only through its interface: what was passed to set, *)
(* what get / get_shape / get_meta returned afterwards, which allocations  *)
(* simulated.camera.o made (allocation seam), which bytes of the caller's  *)
(* buffer a frame call touched, and stray accesses / crashes reported by   *)
(* the instruments (canaries, poisoned quarantine, sanitizer).             *)
(*                                                                         *)
(* Events (ndjson, field e):                                                *)
(*  Open{id,kind,avx,mis,asan}  a new camera of kind 0 random/1 sin/2 empty;*)
(*                              avx = 1: the AVX2 bin2 is compiled in       *)
(*  Alloc{fn,id,size,a32}       fn 0 = malloc, 1 = realloc (image buffers)  *)
(*  Free{id}                    id -1 = a pointer that was not live         *)
(*  Set{at,run,in,st,out,mx,hs} in/out = <<binning,type,ox,oy,sx,sy,exp>>:  *)
(*                              request, status, get() afterwards; mx =     *)
(*                              <<shape.x.high, shape.y.high>> of get_meta   *)
(*  Shape{d,s,t,xh,yh,hs}       get_shape: dims <<c,w,h,p>>, strides, type   *)
(*  Start{st,hs} Stop{st,hs}                                                *)
(*  Frame{mode,run,st,cap,nb,filled,lo,canary,d,s,t,..}  one frame call:    *)
(*                              capacity offered, bytes of the caller's     *)
(*                              buffer that were touched (highest index+1), *)
(*                              canaries around the buffer intact, shape in *)
(*                              the returned ImageInfo                       *)
(*  StrayAccess{kind,..}        canary hit / write after free / sanitizer   *)
(*  Crash{sig}  Hang  Close  Leak{id}                                       *)
(*                                                                         *)
(* Rules = the property:                                                    *)
(*  - an accepted set is in effect: binning (0 -> 1), pixel type, exposure  *)
(*    read back as requested; dims read back = request clamped to           *)
(*    [1, advertised maximum]                          SetNotInEffect, DimsNotClamped *)
(*  - the reported shape is the read-back one, strides match the dims, dims *)
(*    within the advertised maxima          ShapeNotReadBack, StridesMismatch, ShapeBeyondMax *)
(*  - a frame call on a running camera with enough room succeeds, touches   *)
(*    exactly bytes_of_image(reported shape) bytes, nothing beyond, returns *)
(*    the reported shape; a refused call touches nothing                    *)
(*          FrameRefused, FrameWrongSize, CallerCanaryHit, FrameShapeMismatch, FrameErrTouchedBuffer *)
(*  - no internal buffer is accessed out of bounds: every image buffer      *)
(*    (realloc'ed block) is at least as large as what one streamer iteration *)
(*    touches for the configuration in effect (SimCamMath!ConfigExtent: full- *)
(*    resolution fill + in-place bin2 passes of the compiled variant), no    *)
(*    stray access, no crash, no free of a dead pointer                     *)
(*          BufferSmallerThanRender, StrayAccess, Crash, BadFree            *)
(* Offsets are not judged (nothing observable depends on them), nor is      *)
(* which requests must be refused.                                          *)
(* Assumption of BufferSmallerThanRender: blocks obtained through realloc   *)
(* are the image buffers, and the renderer works at full resolution and     *)
(* bins in place (SimCamConfig drift detection watches both).               *)
(***************************************************************************)
EXTENDS Naturals, Integers, Sequences, FiniteSets, TLC, Json, IOUtils, SimCamMath

Tr == ndJsonDeserialize(IOEnv.TRACE)

VARIABLES l,      \* next line of Tr
          o,      \* observation state
          bad,    \* sequence of <<rule, line>> (first 200 only)
          nbad,
          done
vars == <<l, o, bad, nbad, done>>

NoProps == <<1, 0, 0, 0, 1, 1, 0>>
ObsInit(kind, avx) ==
  [ kind |-> kind, avx |-> avx,
    live |-> {},                 \* set of <<id, size, fn>>
    p    |-> NoProps, known |-> FALSE,   \* last read-back properties
    sd   |-> <<1, 1, 1, 1>>, st |-> 0, shaped |-> FALSE,   \* last reported shape (dims, type)
    run  |-> FALSE ]

Init == /\ l = 1 /\ o = ObsInit(0, 0) /\ bad = <<>> /\ nbad = 0 /\ done = FALSE

Ev == Tr[l]
Flag(rules) == /\ bad' = (IF Len(bad) < 200 THEN bad \o [i \in 1..Len(rules) |-> <<rules[i], l>>] ELSE bad)
               /\ nbad' = nbad + Len(rules)
If(c, name) == IF c THEN <<name>> ELSE <<>>

\* ---- guards against wild values (a broken implementation must be flagged, never crash the evaluation) --------
Has(e, f) == f \in DOMAIN e
IsInt(v) == v \in Int
IsTuple(v, n) == /\ DOMAIN v = 1..n /\ \A i \in 1..n : v[i] \in Int
SaneDim(v) == IsInt(v) /\ v >= 0 /\ v <= 1000000
SaneProps(q) == /\ IsTuple(q, 7) /\ q[1] >= 0 /\ q[1] <= 255 /\ SaneDim(q[5]) /\ SaneDim(q[6])
SaneShape(d, s) == /\ IsTuple(d, 4) /\ IsTuple(s, 4) /\ \A i \in 1..4 : SaneDim(d[i])
WellFormed(e) ==
  CASE e.e = "Open"  -> Has(e, "kind") /\ Has(e, "avx") /\ e.kind \in 0..2 /\ e.avx \in 0..1
    [] e.e = "Alloc" -> Has(e, "fn") /\ Has(e, "id") /\ Has(e, "size") /\ IsInt(e.size) /\ IsInt(e.id) /\ IsInt(e.fn)
    [] e.e = "Free"  -> Has(e, "id") /\ IsInt(e.id)
    [] e.e = "Set"   -> Has(e, "in") /\ Has(e, "out") /\ Has(e, "st") /\ Has(e, "mx") /\ Has(e, "run")
                        /\ IsTuple(e["in"], 7) /\ IsTuple(e.out, 7) /\ IsTuple(e.mx, 2) /\ IsInt(e.st)
    [] e.e = "Shape" -> Has(e, "d") /\ Has(e, "s") /\ Has(e, "t") /\ Has(e, "xh") /\ Has(e, "yh")
                        /\ IsTuple(e.d, 4) /\ IsTuple(e.s, 4) /\ IsInt(e.t) /\ IsInt(e.xh) /\ IsInt(e.yh)
    [] e.e \in {"Start", "Stop"} -> Has(e, "st") /\ IsInt(e.st)
    [] e.e = "Frame" -> Has(e, "st") /\ Has(e, "cap") /\ Has(e, "filled") /\ Has(e, "canary") /\ Has(e, "d")
                        /\ Has(e, "s") /\ Has(e, "t") /\ IsInt(e.st) /\ IsInt(e.cap) /\ IsInt(e.filled)
                        /\ IsInt(e.canary) /\ IsTuple(e.d, 4) /\ IsTuple(e.s, 4) /\ IsInt(e.t)
    [] OTHER -> TRUE

\* ---- the buffer rule -------------------------------------------------------------------------------------------
\* props q are usable for the size arithmetic (everything stays far below 2^31)
Computable(q) == /\ SaneProps(q) /\ IsPow2(q[1]) /\ ValidType(q[2]) /\ q[5] >= 1 /\ q[6] >= 1
                 /\ q[1] * q[5] <= MAXDIM /\ q[1] * q[6] <= MAXDIM
Need(q) == ConfigExtent(o.avx, o.kind, q[5], q[6], q[2], q[1])
ImageBuffers(live) == { b \in live : b[3] = 1 }
BufferRule(q, live) ==
  If(Computable(q) /\ \E b \in ImageBuffers(live) : b[2] < Need(q), "BufferSmallerThanRender")

\* ---- rules per event ---------------------------------------------------------------------------------------------
SetRules(e) ==
  LET rq == e["in"]  out == e.out  ok == e.st = 0 IN
  If(~SaneProps(out), "BadReadBack")
  \o (IF ok /\ SaneProps(out) /\ SaneProps(rq) THEN
        If(out[1] # NormBin(rq[1]) \/ out[2] # rq[2] \/ out[7] # rq[7], "SetNotInEffect")
        \o If(e.mx[1] >= 1 /\ e.mx[2] >= 1 /\
              (out[5] # Clamp(rq[5], 1, e.mx[1]) \/ out[6] # Clamp(rq[6], 1, e.mx[2])), "DimsNotClamped")
        \o If(e.mx[1] < 1 \/ e.mx[2] < 1, "ShapeBeyondMax")
        \o (IF e.run = 1 THEN BufferRule(out, o.live) ELSE <<>>)
      ELSE <<>>)

ShapeRules(e) ==
  IF ~SaneShape(e.d, e.s) THEN <<"BadReadBack">>
  ELSE
    If(o.known /\ (e.d # <<1, o.p[5], o.p[6], 1>> \/ e.t # o.p[2]), "ShapeNotReadBack")
    \o If(e.s # <<1, e.d[1], e.d[1] * e.d[2], e.d[1] * e.d[2] * e.d[3]>>, "StridesMismatch")
    \o If(e.d[2] < 1 \/ e.d[3] < 1 \/ e.d[2] > e.xh \/ e.d[3] > e.yh, "ShapeBeyondMax")

ImageBytesNow == IF o.shaped /\ ValidType(o.st) THEN BytesOfImage(o.sd[2], o.sd[3], o.st) * o.sd[1] * o.sd[4] ELSE -1

FrameRules(e) ==
  LET nb == ImageBytesNow IN
  IF e.st = 0 THEN
       If(nb >= 0 /\ e.filled # nb, "FrameWrongSize")
       \o If(e.canary # 1, "CallerCanaryHit")
       \o If(o.shaped /\ (e.d # o.sd \/ e.t # o.st
                          \/ e.s # <<1, o.sd[1], o.sd[1] * o.sd[2], o.sd[1] * o.sd[2] * o.sd[3]>>), "FrameShapeMismatch")
       \o BufferRule(o.p, o.live)
  ELSE If(o.run /\ nb >= 0 /\ e.cap >= nb, "FrameRefused")
       \o If(e.filled # 0 \/ e.canary # 1, "FrameErrTouchedBuffer")

\* ---- one step per trace line -----------------------------------------------------------------------------------------
Step ==
  /\ l <= Len(Tr) /\ ~done
  /\ l' = l + 1 /\ done' = FALSE
  /\ IF ~Has(Ev, "e") \/ ~WellFormed(Ev) THEN Flag(<<"MalformedEvent">>) /\ o' = o
     ELSE LET e == Ev.e IN
     CASE e = "Open"  -> /\ o' = ObsInit(Ev.kind, Ev.avx) /\ Flag(<<>>)
       [] e = "Alloc" -> /\ o' = [o EXCEPT !.live = @ \cup {<<Ev.id, Ev.size, Ev.fn>>}] /\ Flag(<<>>)
       [] e = "Free"  -> /\ Flag(If(~\E b \in o.live : b[1] = Ev.id, "BadFree"))
                         /\ o' = [o EXCEPT !.live = { b \in @ : b[1] # Ev.id }]
       [] e = "Set"   -> /\ Flag(SetRules(Ev))
                         /\ o' = [o EXCEPT !.p = IF SaneProps(Ev.out) THEN Ev.out ELSE @,
                                           !.known = @ \/ SaneProps(Ev.out),
                                           !.run = IF Ev.st = 0 THEN @ ELSE FALSE]   \* the HAL stops a camera that refused
       [] e = "Shape" -> /\ Flag(ShapeRules(Ev))
                         /\ o' = IF SaneShape(Ev.d, Ev.s) THEN [o EXCEPT !.sd = Ev.d, !.st = Ev.t, !.shaped = TRUE] ELSE o
       [] e = "Start" -> /\ Flag(IF Ev.st = 0 /\ o.known THEN BufferRule(o.p, o.live) ELSE <<>>)
                         /\ o' = [o EXCEPT !.run = (Ev.st = 0) \/ @]
       [] e = "Stop"  -> /\ Flag(<<>>) /\ o' = [o EXCEPT !.run = FALSE]
       [] e = "Frame" -> /\ Flag(FrameRules(Ev))
                         /\ o' = [o EXCEPT !.run = IF Ev.st = 0 THEN @ ELSE FALSE]   \* a refused frame call stops the camera
       [] e = "StrayAccess" -> /\ Flag(<<"StrayAccess">>) /\ o' = o
       [] e = "Crash" -> /\ Flag(<<"Crash">>) /\ o' = o
       [] e = "Hang"  -> /\ Flag(<<"HarnessHang">>) /\ o' = o
       [] e \in {"Close", "Leak", "Note"} -> /\ Flag(<<>>) /\ o' = o
       [] OTHER       -> /\ Flag(<<"UnknownEvent">>) /\ o' = o

Finish ==
  /\ l = Len(Tr) + 1 /\ ~done
  /\ done' = TRUE
  /\ PrintT(<<"VERDICT", ToJson([consumed |-> l - 1, nbad |-> nbad, bad |-> bad])>>)
  /\ UNCHANGED <<l, o, bad, nbad>>

Next == Step \/ Finish
Spec == Init /\ [][Next]_vars
=============================================================================
