------------------------- MODULE DeviceProtocolObs -------------------------
(***************************************************************************)
(* Observation specification of the device protocol (property C11) as a    *)
(* TOTAL trace specification over what a recording mock driver sees and    *)
(* what the HAL returns to its caller.  It knows nothing about how          *)
(* camera.c / storage.c / driver.c keep their `state`.                      *)
(*                                                                         *)
(* Events (ndjson, field e):                                                *)
(*   Reset{kind}            new execution; kind = "camera" | "storage"      *)
(*   Hal{f,a}               the client calls HAL function f (argument       *)
(*                          variant a, informational)                       *)
(*   Drv{f,h,r}             the driver receives call f for device handle h  *)
(*                          (0 = none) and answers r: Device_Ok=0/Err=1 for *)
(*                          open, describe, close and all camera calls; the *)
(*                          DeviceState 0..4.. for storage set/start/append/ *)
(*                          stop; open: r=2 means Ok with a NULL device;     *)
(*                          Drv{f:"open",h,r,st0}: st0 = state the driver    *)
(*                          put into the new device                          *)
(*   Touch{h,what}          something reached device h after the driver's   *)
(*                          close returned: what="write" (a byte of the      *)
(*                          released block changed), "vcall" (a call through *)
(*                          its function table or its driver pointer)        *)
(*   Crash{what}            the sanitizer build died (use after free, ...)   *)
(*   Ret{f,rc,st,h}         HAL function f returned rc; h = device the call  *)
(*                          was about (0 = none / NULL), st = state the HAL  *)
(*                          reports for it afterwards (camera_get_state /    *)
(*                          storage_get_state), -1 = no device any more;     *)
(*                          open: rc=0 iff a device was returned (h);        *)
(*                          get_state: rc = the state returned               *)
(*   End                    end of the execution                            *)
(*                                                                         *)
(* Per device handle: ph = "open" | "closed", run (running as far as the    *)
(* driver's answers say), exp (state that follows from the driver's last    *)
(* response), own (the client was given the device).                        *)
(*                                                                         *)
(* Rules (a refused event appends <<rule, line>> to `bad`):                  *)
(*   StopWithoutStart      driver stop on a device that is not running       *)
(*   FrameOutsideRunning   driver get_frame on a device that is not running  *)
(*   AppendOutsideRunning  driver append on a device that is not running     *)
(*   CallAfterClose        any driver call / vtable call for a closed device *)
(*   WriteAfterClose       a byte of the released device block changed       *)
(*   DoubleClose           second driver close for the same device           *)
(*   CallOnUnknownDevice   a driver call with a pointer that is none of the  *)
(*                         devices the driver opened (NULL, garbage)         *)
(*   OpenNotClosed         the HAL's open returned no device although the    *)
(*                         driver had opened one and was not asked to close  *)
(*   CloseNotForwarded     the HAL's close returned, the driver saw no close *)
(*   ReportedStateNotFromDriver / StatusNotFromDriver                        *)
(*                         the state / code the HAL reports does not follow  *)
(*                         from the driver's response                        *)
(*   Crash                 sanitizer abort                                   *)
(*   Malformed / UnknownEvent / UnknownHandle / DrvOutsideCall: trace or     *)
(*                         harness problems (never a property violation)     *)
(*                                                                         *)
(* "Running" (IOEnv.STRICT # "1", the default): for a camera, after a start  *)
(* answered Ok until a stop answered Ok; for a storage device the state the  *)
(* driver answered last IS the driver-side truth (the HAL is required to     *)
(* report exactly that state), so it runs iff that answer was Running; the   *)
(* one exception: a set does not stop a device - Armed answered while it is  *)
(* running means "settings accepted", any other answer "rejected"; in both   *)
(* cases the device keeps what it has open until it is asked to stop (as for *)
(* cameras; the real writers keep their file open when they reject settings).*)
(* STRICT=1: a storage device runs only after a start answered Running,      *)
(* until a stop answered something else.                                     *)
(***************************************************************************)
EXTENDS Naturals, Integers, Sequences, FiniteSets, TLC, Json, IOUtils

Tr == ndJsonDeserialize(IOEnv.TRACE)
StrictRun == "STRICT" \in DOMAIN IOEnv /\ IOEnv.STRICT = "1"

CLOSED == 0
AWAIT == 1
ARMED == 2
RUNNING == 3
OK == 0

VARIABLES l, p, bad, nbad, done
vars == <<l, p, bad, nbad, done>>

NoCall == [on |-> FALSE, f |-> "", calls |-> <<>>]
PInit(kind) == [kind |-> kind, hd |-> <<>>, cur |-> NoCall]   \* hd: sequence indexed by handle id
Init == l = 1 /\ p = PInit("camera") /\ bad = <<>> /\ nbad = 0 /\ done = FALSE

Ev == Tr[l]
If(c, name) == IF c THEN <<name>> ELSE <<>>
\* keep the first 25 refusals of every rule (all are counted in nbad)
Fresh(rules) == SelectSeq(rules, LAMBDA r : Cardinality({i \in 1..Len(bad) : bad[i][1] = r}) < 25)
Flag(rules) == /\ bad' = (IF rules = <<>> THEN bad ELSE bad \o [i \in 1..Len(Fresh(rules)) |-> <<Fresh(rules)[i], l>>])
               /\ nbad' = nbad + Len(rules)
Has(e, ks) == \A k \in ks : k \in DOMAIN e
IsInt(x) == x \in Int
IsCam == p.kind = "camera"
Known(h) == IsInt(h) /\ h >= 1 /\ h <= Len(p.hd)
NoDev == [ph |-> "none", run |-> FALSE, exp |-> CLOSED, own |-> FALSE]
Dev(h) == IF Known(h) THEN p.hd[h] ELSE NoDev

RunAfter(c, r, run) ==
  IF IsCam THEN (IF c = "start" THEN (IF r = OK THEN TRUE ELSE run)
                 ELSE IF c = "stop" THEN (IF r = OK THEN FALSE ELSE run)
                 ELSE run)
  ELSE IF StrictRun THEN (IF c = "start" THEN (IF r = RUNNING THEN TRUE ELSE run)
                          ELSE IF c = "stop" THEN (IF r = RUNNING THEN run ELSE FALSE)
                          ELSE run)
  ELSE (IF c = "set" THEN (r = RUNNING \/ run)      \* neither accepting nor rejecting settings stops a running device
        ELSE IF c \in {"start", "append", "stop"} THEN r = RUNNING ELSE run)

\* ---- a call the driver receives ------------------------------------------------------------------------------
DrvRules(e) ==
  LET d == Dev(e.h) IN
  If(~p.cur.on, "DrvOutsideCall")
  \o (IF e.f = "open" THEN If(e.r = OK /\ e.h # Len(p.hd) + 1, "UnknownHandle")
      ELSE IF e.f = "describe" THEN <<>>
      \* h = 0: the driver was handed a pointer that is none of the devices it ever opened (e.g. NULL)
      ELSE IF e.h = 0 THEN <<"CallOnUnknownDevice">>
      ELSE IF d.ph = "none" THEN <<"UnknownHandle">>
      ELSE IF e.f = "close" THEN If(d.ph = "closed", "DoubleClose")
      ELSE IF d.ph = "closed" THEN <<"CallAfterClose">>
      ELSE If(e.f = "stop" /\ ~d.run, "StopWithoutStart")
           \o If(e.f = "get_frame" /\ ~d.run, "FrameOutsideRunning")
           \o If(e.f = "append" /\ ~d.run, "AppendOutsideRunning"))

DrvUpdate(e) ==
  LET d == Dev(e.h)
      logged == [p EXCEPT !.cur.calls = Append(p.cur.calls, [f |-> e.f, h |-> e.h, r |-> e.r])] IN
  IF e.f = "open" THEN
     (IF e.r = OK /\ e.h = Len(p.hd) + 1
      THEN [logged EXCEPT !.hd = Append(p.hd, [ph |-> "open", run |-> FALSE, own |-> FALSE,
                                                exp |-> IF "st0" \in DOMAIN e /\ IsInt(e.st0) THEN e.st0 ELSE AWAIT])]
      ELSE logged)
  ELSE IF e.f = "describe" \/ d.ph = "none" THEN logged
  ELSE IF e.f = "close" THEN [logged EXCEPT !.hd[e.h].ph = "closed", !.hd[e.h].run = FALSE]
  ELSE IF d.ph = "closed" THEN logged
  ELSE [logged EXCEPT !.hd[e.h].run = RunAfter(e.f, e.r, d.run)]

\* ---- a HAL call returns ------------------------------------------------------------------------------------------
\* answers the driver gave, during this HAL call, to the call named like the HAL function on device h
Primary(f, h) == SelectSeq(p.cur.calls, LAMBDA c : c.f = f /\ c.h = h)

ExpAfter(f, h, d) ==
  LET pr == Primary(f, h) IN
  IF pr = <<>> THEN d.exp
  ELSE LET r == pr[1].r IN
       IF IsCam THEN
          (IF f = "set" THEN (IF r = OK THEN (IF d.exp = RUNNING THEN RUNNING ELSE ARMED) ELSE AWAIT)
           ELSE IF f = "start" THEN (IF r = OK THEN RUNNING ELSE AWAIT)
           ELSE IF f = "stop" THEN (IF r = OK THEN ARMED ELSE AWAIT)
           ELSE IF f = "get_frame" THEN (IF r = OK THEN d.exp ELSE AWAIT)
           ELSE d.exp)
       ELSE (IF f = "set" /\ r = ARMED /\ d.exp = RUNNING THEN RUNNING
             ELSE IF f \in {"set", "start", "stop", "append"} THEN r ELSE d.exp)

\* states the HAL may report after f: what follows from the answer; a storage device that answers Armed to a
\* set while it is running may be reported Running (settings accepted, still running) or Armed (the answer)
Accepts(f, h, d, st) ==
  \/ st = ExpAfter(f, h, d)
  \/ ~IsCam /\ f = "set" /\ d.exp = RUNNING /\ st = ARMED /\ Primary(f, h) # <<>> /\ Primary(f, h)[1].r = ARMED

\* the status code that follows from the driver's answer (only where the driver was asked)
StatusRules(f, h, rc) ==
  LET pr == Primary(f, h) IN
  IF pr = <<>> THEN <<>>
  ELSE LET r == pr[1].r IN
       IF IsCam THEN If(f \in {"set", "get", "get_meta", "get_shape", "start", "stop", "trigger", "get_frame"} /\ rc # r,
                        "StatusNotFromDriver")
       ELSE If(\/ (f = "set" /\ (rc = OK) # (r = ARMED))
               \/ (f \in {"start", "append"} /\ (rc = OK) # (r = RUNNING))
               \/ (f = "stop" /\ (rc = OK) # (r \in {ARMED, AWAIT})), "StatusNotFromDriver")

OpenedNow == SelectSeq(p.cur.calls, LAMBDA c : c.f = "open" /\ c.r = OK /\ Known(c.h))

RetRules(e) ==
  LET d == Dev(e.h) IN
  IF e.f = "open" THEN
     (IF e.rc = OK
      THEN If(d.ph # "open", "UnknownHandle") \o If(d.ph = "open" /\ e.st # d.exp, "ReportedStateNotFromDriver")
      ELSE If(\E i \in 1..Len(OpenedNow) : Dev(OpenedNow[i].h).ph = "open", "OpenNotClosed"))
  ELSE IF e.h = 0 THEN <<>>                       \* NULL device: nothing to say about a device
  ELSE IF d.ph = "none" THEN <<"UnknownHandle">>
  ELSE IF e.f = "close" THEN If(d.ph # "closed", "CloseNotForwarded")
  ELSE IF d.ph = "closed" THEN <<>>               \* flagged where it was touched
  ELSE If(~Accepts(e.f, e.h, d, e.st), "ReportedStateNotFromDriver")
       \o If(e.f = "get_state" /\ e.rc # d.exp, "ReportedStateNotFromDriver")
       \o StatusRules(e.f, e.h, e.rc)

RetUpdate(e) ==
  LET d == Dev(e.h)
      q == [p EXCEPT !.cur = NoCall] IN
  IF e.f = "open" THEN (IF e.rc = OK /\ d.ph = "open" THEN [q EXCEPT !.hd[e.h].own = TRUE] ELSE q)
  ELSE IF d.ph # "open" \/ e.f = "close" THEN q
  ELSE [q EXCEPT !.hd[e.h].exp = e.st]    \* a refused report is flagged once, then taken as the new baseline

WellFormed(e) ==
  /\ "e" \in DOMAIN e
  /\ CASE e.e = "Reset" -> Has(e, {"kind"}) /\ e.kind \in {"camera", "storage"}
       [] e.e = "Hal"   -> Has(e, {"f"})
       [] e.e = "Drv"   -> Has(e, {"f", "h", "r"}) /\ IsInt(e.h) /\ IsInt(e.r)
       [] e.e = "Touch" -> Has(e, {"h", "what"})
       [] e.e = "Ret"   -> Has(e, {"f", "rc", "st", "h"}) /\ IsInt(e.rc) /\ IsInt(e.st) /\ IsInt(e.h)
       [] OTHER -> TRUE

Next1 ==
  /\ l <= Len(Tr) /\ ~done /\ l' = l + 1 /\ done' = FALSE
  /\ LET e == Ev IN
     IF ~WellFormed(e) THEN Flag(<<"Malformed">>) /\ p' = p
     ELSE LET k == e.e IN
       CASE k = "Reset" -> p' = PInit(e.kind) /\ Flag(<<>>)
         [] k = "Hal"   -> /\ Flag(If(p.cur.on, "Malformed"))
                           /\ p' = [p EXCEPT !.cur = [on |-> TRUE, f |-> e.f, calls |-> <<>>]]
         [] k = "Drv"   -> Flag(DrvRules(e)) /\ p' = DrvUpdate(e)
         [] k = "Touch" -> /\ Flag(IF e.what = "write" THEN <<"WriteAfterClose">> ELSE <<"CallAfterClose">>)
                           /\ p' = p
         [] k = "Crash" -> Flag(<<"Crash">>) /\ p' = p
         [] k = "Ret"   -> Flag(If(~p.cur.on \/ p.cur.f # e.f, "Malformed") \o RetRules(e)) /\ p' = RetUpdate(e)
         [] k = "End"   -> Flag(<<>>) /\ p' = p
         [] OTHER       -> Flag(<<"UnknownEvent">>) /\ p' = p

Finish ==
  /\ l = Len(Tr) + 1 /\ ~done /\ done' = TRUE
  /\ PrintT(<<"VERDICT", ToJson([consumed |-> l - 1, nbad |-> nbad, bad |-> bad])>>)
  /\ UNCHANGED <<l, p, bad, nbad>>

Next == Next1 \/ Finish
Spec == Init /\ [][Next]_vars
=============================================================================
