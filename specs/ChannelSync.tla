---------------------------- MODULE ChannelSync ----------------------------
(***************************************************************************)
(* Synchronisation skeleton of channel.c with the ring abstracted to a     *)
(* counter `used <= K` (Apalache, SYMBOLIC K >= 1 and NW >= 1 writes):      *)
(* who may be at which pc while whom holds the lock; a writer at the        *)
(* cv-wait entry saw a predicate that still holds; a sleeping writer's      *)
(* predicate still holds or a notify is on its way. IndInv is inductive for *)
(* the locked accept_writes (the repaired code) and NOT for the unlocked    *)
(* one (LockedAccept = FALSE), which is how the lost wake-up shows here.    *)
(***************************************************************************)
EXTENDS Naturals, FiniteSets
CONSTANTS
  \* @type: Int;
  K,
  \* @type: Int;
  NW,
  \* @type: Bool;
  LockedAccept
VARIABLES
  \* @type: Int;
  used,
  \* @type: Bool;
  accepting,
  \* @type: Str;
  lock,
  \* @type: Set(Str);
  waiters,
  \* @type: Str;
  pcW,
  \* @type: Int;
  left,
  \* @type: Str;
  pcR,
  \* @type: Str;
  pcC,
  \* @type: Str;
  wres
vars == <<used, accepting, lock, waiters, pcW, left, pcR, pcC, wres>>
CInit == K \in Nat /\ K >= 1 /\ NW \in Nat /\ NW >= 1 /\ LockedAccept = FALSE
CInitLocked == K \in Nat /\ K >= 1 /\ NW \in Nat /\ NW >= 1 /\ LockedAccept = TRUE
Init == used = K /\ accepting = TRUE /\ lock = "none" /\ waiters = {} /\ pcW = "AtLock" /\ left = NW
        /\ pcR = "Idle" /\ pcC = "Start" /\ wres = "none"
\* ---- writer: channel_write_map then write_unmap (unmap folded: commit takes a unit) ----
WLock   == pcW = "AtLock" /\ left > 0 /\ lock = "none" /\ lock' = "W"
           /\ pcW' = "Check" /\ UNCHANGED <<used, accepting, waiters, left, pcR, pcC, wres>>
WCheck  == /\ pcW = "Check" /\ lock = "W"
           /\ \/ /\ accepting /\ used >= K
                 /\ pcW' = "AtCvWait" /\ UNCHANGED <<used, lock, left, wres>>
              \/ /\ ~(accepting /\ used >= K)
                 /\ used' = (IF accepting THEN used + 1 ELSE used)
                 /\ wres' = (IF accepting THEN "ok" ELSE "refused")
                 /\ lock' = "none" /\ left' = left - 1
                 /\ pcW' = (IF left - 1 > 0 THEN "AtLock" ELSE "Done")
           /\ UNCHANGED <<accepting, waiters, pcR, pcC>>
WSleep  == pcW = "AtCvWait" /\ lock = "W" /\ lock' = "none" /\ waiters' = waiters \cup {"W"} /\ pcW' = "Sleeping"
           /\ UNCHANGED <<used, accepting, left, pcR, pcC, wres>>
WWake   == pcW = "Sleeping" /\ "W" \notin waiters /\ lock = "none" /\ lock' = "W" /\ pcW' = "Check"
           /\ UNCHANGED <<used, accepting, waiters, left, pcR, pcC, wres>>
\* ---- reader: unmap consuming one unit, then notify (after releasing the lock, as coded) ----
RLock   == pcR = "Idle" /\ used > 0 /\ lock = "none" /\ lock' = "R" /\ pcR' = "InUnmap"
           /\ UNCHANGED <<used, accepting, waiters, pcW, left, pcC, wres>>
RUnmap  == pcR = "InUnmap" /\ lock = "R" /\ used' = used - 1 /\ lock' = "none" /\ pcR' = "AtNotify"
           /\ UNCHANGED <<accepting, waiters, pcW, left, pcC, wres>>
RNotify == pcR = "AtNotify" /\ waiters' = {} /\ pcR' = "Idle"
           /\ UNCHANGED <<used, accepting, lock, pcW, left, pcC, wres>>
\* ---- controller: channel_accept_writes(0) ----
CSetUnlocked == ~LockedAccept /\ pcC = "Start" /\ accepting' = FALSE /\ pcC' = "AtNotify"
           /\ UNCHANGED <<used, lock, waiters, pcW, left, pcR, wres>>
CLock   == LockedAccept /\ pcC = "Start" /\ lock = "none" /\ lock' = "C" /\ pcC' = "Locked"
           /\ UNCHANGED <<used, accepting, waiters, pcW, left, pcR, wres>>
CSetLocked == pcC = "Locked" /\ accepting' = FALSE /\ lock' = "none" /\ pcC' = "AtNotify"
           /\ UNCHANGED <<used, waiters, pcW, left, pcR, wres>>
CNotify == pcC = "AtNotify" /\ waiters' = {} /\ pcC' = "Done"
           /\ UNCHANGED <<used, accepting, lock, pcW, left, pcR, wres>>
ReaderEnabled == TRUE   \* worst case for abort: the readers do not consume (client holds its mapping)
W == WLock \/ WCheck \/ WSleep \/ WWake
R == ReaderEnabled /\ (RLock \/ RUnmap \/ RNotify)
C == CSetUnlocked \/ CLock \/ CSetLocked \/ CNotify
Next == W \/ R \/ C
Spec == Init /\ [][Next]_vars
FairSpec == Spec /\ WF_vars(W) /\ WF_vars(R) /\ WF_vars(C)
AbortUnblocks == (accepting = FALSE) ~> (pcW = "Done")
NoLostWakeup == (pcW = "Sleeping" /\ "W" \in waiters) => (accepting /\ used >= K) \/ pcC = "AtNotify" \/ pcR = "AtNotify"

PCW == {"AtLock", "Check", "AtCvWait", "Sleeping", "Done"}
PCR == {"Idle", "InUnmap", "AtNotify"}
PCC == {"Start", "Locked", "AtNotify", "Done"}
TypeOK == /\ used \in Nat /\ used <= K + 0 /\ accepting \in BOOLEAN /\ lock \in {"none", "W", "R", "C"}
          /\ waiters \in SUBSET {"W"} /\ pcW \in PCW /\ left \in Nat /\ left <= NW
          /\ pcR \in PCR /\ pcC \in PCC /\ wres \in {"none", "ok", "refused"}
LockInv == /\ (lock = "W") <=> (pcW \in {"Check", "AtCvWait"})
           /\ (lock = "R") <=> (pcR = "InUnmap")
           /\ (lock = "C") <=> (pcC = "Locked")
           /\ ("W" \in waiters) => (pcW = "Sleeping")
           /\ (pcW = "Done") <=> (left = 0)
           /\ (pcC \in {"AtNotify", "Done"}) => ~accepting
           /\ (pcC \in {"Start", "Locked"}) => accepting
           /\ (pcR = "InUnmap") => (used > 0)
\* the writer decided to sleep on a predicate that is still true, or a notify is pending
SleepInv == /\ (pcW = "AtCvWait") => (accepting /\ used >= K)
            /\ (pcW = "Sleeping" /\ "W" \in waiters)
                 => ((accepting /\ used >= K) \/ pcC = "AtNotify" \/ pcR = "AtNotify")
IndInv == TypeOK /\ LockInv /\ SleepInv
InitInd == IndInv
=============================================================================
