\* exhaustive check of the repaired raw writer model (what chk_files.py generates for the quick tier of C14/C16)
CONSTANTS NDev = 2 NPaths = 3 MaxCycles = 2 MaxAppends = 2 PacketSizes = {1, 2, 3} NScripts = 5
  MaxFaultAt = 8 FIXED = 1 SetRunning = TRUE FIX_SET = 1 MaxFd = 5 Ghost = TRUE Export = FALSE
SPECIFICATION Spec
VIEW View
INVARIANTS NoErr TypeOK OwnsItsFile RunningFile
CHECK_DEADLOCK FALSE
