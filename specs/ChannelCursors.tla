--------------------------- MODULE ChannelCursors ---------------------------
(***************************************************************************)
(* Cursor-level model of channel.c for SYMBOLIC capacity (Apalache): the    *)
(* same transitions as ChannelImpl without the byte ghost, plus one integer *)
(* `unread` per reader. IndInv is an inductive invariant for every Cap >= 2 *)
(* and NR reader slots:  Init => IndInv,  IndInv /\ Next => IndInv',       *)
(* IndInv => WriterRegionFree (C02 at cursor level), and Count / NoErr give *)
(* "nothing lost or duplicated in count", "no overflow status" and          *)
(* "empty => drained" (C01) for every capacity and every history.           *)
(* FIXED = TRUE is the repaired code (read_map continues into the writer's  *)
(* lap; write_map moves caught-up readers when it wraps).                   *)
(***************************************************************************)
EXTENDS Integers
CONSTANTS
  \* @type: Int;
  Cap,
  \* @type: Bool;
  FIXED,
  \* @type: Int;
  NR
VARIABLES
  \* @type: Int;
  head,
  \* @type: Int;
  high,
  \* @type: Int;
  cycle,
  \* @type: Int;
  mapped,
  \* @type: Bool;
  wmapped,
  \* @type: Int;
  n,
  \* @type: Int -> Int;
  hpos,
  \* @type: Int -> Int;
  hcyc,
  \* @type: Int -> Int;
  rpos,
  \* @type: Int -> Int;
  rcyc,
  \* @type: Int -> Bool;
  rmap,
  \* @type: Int -> Int;
  unread,
  \* @type: Bool;
  err
R == 1..NR
CInit == Cap \in Int /\ Cap >= 2 /\ FIXED \in BOOLEAN
CInitFixed == Cap \in Int /\ Cap >= 2 /\ FIXED = TRUE /\ NR = 8
CInitFixed3 == Cap \in Int /\ Cap >= 2 /\ FIXED = TRUE /\ NR = 3
CInitAsCoded == Cap \in Int /\ Cap >= 2 /\ FIXED = FALSE
Less(ca,pa,cb,pb) == ca < cb \/ (ca = cb /\ pa < pb)
IsMin(a) == a \in R /\ a <= n /\ \A j \in R : j <= n => ~Less(hcyc[j],hpos[j],hcyc[a],hpos[a])

Init == /\ head = 0 /\ high = 0 /\ cycle = 0 /\ mapped = 0 /\ wmapped = FALSE /\ n = 0
        /\ hpos = [i \in R |-> 0] /\ hcyc = [i \in R |-> 0]
        /\ rpos = [i \in R |-> 0] /\ rcyc = [i \in R |-> 0] /\ rmap = [i \in R |-> FALSE]
        /\ unread = [i \in R |-> 0] /\ err = FALSE

\* ---- writer ----
Place(nb, beg, wrapReset) ==
  /\ high' = (IF beg # head THEN head ELSE high)
  /\ cycle' = (IF beg # head THEN cycle + 1 ELSE cycle)
  /\ head' = beg
  /\ mapped' = beg + nb /\ wmapped' = TRUE
  /\ hpos' = [i \in R |-> IF i <= n /\ (wrapReset \/ (FIXED /\ beg # head /\ hpos[i] = head /\ hcyc[i] = cycle)) THEN 0 ELSE hpos[i]]
  /\ hcyc' = [i \in R |-> IF i <= n /\ (wrapReset \/ (FIXED /\ beg # head /\ hpos[i] = head /\ hcyc[i] = cycle))
                          THEN (IF beg # head THEN cycle + 1 ELSE cycle) ELSE hcyc[i]]
  /\ UNCHANGED <<n, rpos, rcyc, rmap, unread, err>>

WriteMapNoReaders(nb) ==
  /\ ~wmapped /\ n = 0 /\ nb >= 1 /\ nb < Cap
  /\ IF head + nb >= Cap THEN Place(nb, 0, FALSE) ELSE Place(nb, head, FALSE)

WriteMap(nb) ==
  /\ ~wmapped /\ n >= 1 /\ nb >= 1 /\ nb < Cap
  /\ \E a \in R : IsMin(a) /\ LET tail == hpos[a] IN
     \/ /\ head < tail /\ nb <= tail - head /\ Place(nb, head, FALSE)
     \/ /\ ~(head < tail) /\ ~(tail = head /\ cycle = hcyc[a] + 1) /\ nb <= Cap - head /\ Place(nb, head, FALSE)
     \/ /\ ~(head < tail) /\ ~(tail = head /\ cycle = hcyc[a] + 1) /\ ~(nb <= Cap - head) /\ nb <= tail /\ Place(nb, 0, FALSE)
     \/ /\ ~(head < tail) /\ ~(tail = head /\ cycle = hcyc[a] + 1) /\ ~(nb <= Cap - head) /\ ~(nb <= tail) /\ tail = head /\ Place(nb, 0, TRUE)

WriteUnmap == /\ wmapped /\ wmapped' = FALSE /\ head' = mapped
              /\ unread' = [i \in R |-> IF i <= n THEN unread[i] + (mapped - head) ELSE unread[i]]
              /\ UNCHANGED <<high, cycle, mapped, n, hpos, hcyc, rpos, rcyc, rmap, err>>
AbortWrite == /\ wmapped /\ wmapped' = FALSE /\ mapped' = head
              /\ UNCHANGED <<head, high, cycle, n, hpos, hcyc, rpos, rcyc, rmap, unread, err>>

\* ---- readers (slot r registered iff r <= n; registration in slot order) ----
Register(r) == /\ r = n + 1 /\ r \in R /\ n' = r
               /\ hpos' = [hpos EXCEPT ![r] = 0] /\ hcyc' = [hcyc EXCEPT ![r] = cycle]
               /\ unread' = [unread EXCEPT ![r] = head]
               /\ UNCHANGED <<head, high, cycle, mapped, wmapped, rpos, rcyc, rmap, err>>

ReadMap(r) ==
  /\ r <= n /\ ~rmap[r]
  /\ LET pos == hpos[r]  cyc == hcyc[r] IN
     \/ /\ pos = head /\ cyc = cycle                      \* nothing new: returns empty
        /\ err' = (err \/ unread[r] # 0)
        /\ UNCHANGED <<hpos, hcyc, rpos, rcyc, rmap>>
     \/ /\ ~(pos = head /\ cyc = cycle) /\ pos < head /\ cyc = cycle
        /\ rpos' = [rpos EXCEPT ![r] = head] /\ rcyc' = [rcyc EXCEPT ![r] = cycle] /\ rmap' = [rmap EXCEPT ![r] = TRUE]
        /\ UNCHANGED <<hpos, hcyc, err>>
     \/ /\ ~(pos = head /\ cyc = cycle) /\ ~(pos < head) /\ cycle = cyc + 1 /\ high - pos > 0
        /\ rpos' = [rpos EXCEPT ![r] = 0] /\ rcyc' = [rcyc EXCEPT ![r] = cyc + 1] /\ rmap' = [rmap EXCEPT ![r] = TRUE]
        /\ UNCHANGED <<hpos, hcyc, err>>
     \/ /\ ~(pos = head /\ cyc = cycle) /\ ~(pos < head) /\ cycle = cyc + 1 /\ high - pos <= 0
        /\ hpos' = [hpos EXCEPT ![r] = 0] /\ hcyc' = [hcyc EXCEPT ![r] = cycle]
        /\ IF FIXED /\ head > 0
           THEN \* repaired: continue into the writer's lap and map [0, head)
                /\ rpos' = [rpos EXCEPT ![r] = head] /\ rcyc' = [rcyc EXCEPT ![r] = cycle] /\ rmap' = [rmap EXCEPT ![r] = TRUE]
                /\ UNCHANGED err
           ELSE \* as coded: returns empty
                /\ rpos' = [rpos EXCEPT ![r] = 0] /\ rcyc' = [rcyc EXCEPT ![r] = cyc + 1] /\ UNCHANGED rmap
                /\ err' = (err \/ unread[r] # 0)
     \/ /\ ~(pos = head /\ cyc = cycle) /\ ((pos < head /\ cyc # cycle) \/ (~(pos < head) /\ cycle # cyc + 1))   \* overflow
        /\ hpos' = [hpos EXCEPT ![r] = head] /\ hcyc' = [hcyc EXCEPT ![r] = cycle] /\ err' = TRUE /\ UNCHANGED <<rpos, rcyc, rmap>>
  /\ UNCHANGED <<head, high, cycle, mapped, wmapped, n, unread>>

ReadUnmap(r, consumed) ==
  /\ r <= n /\ rmap[r] /\ consumed >= 0
  /\ LET pos == hpos[r]  cyc == hcyc[r]
         length == IF rpos[r] = pos /\ rcyc[r] = cyc THEN 0 ELSE IF rpos[r] = 0 THEN high - pos ELSE rpos[r] - pos
         c == IF consumed < length THEN consumed ELSE length
         p1 == IF c >= length THEN rpos[r] ELSE pos + c
         c1 == IF c >= length THEN rcyc[r] ELSE cyc
         roll == head < p1 /\ p1 = high IN
     /\ hpos' = [hpos EXCEPT ![r] = IF roll THEN 0 ELSE p1]
     /\ hcyc' = [hcyc EXCEPT ![r] = IF roll THEN c1 + 1 ELSE c1]
  /\ rmap' = [rmap EXCEPT ![r] = FALSE]
  /\ LET pos == hpos[r]  cyc == hcyc[r]
         length == IF rpos[r] = pos /\ rcyc[r] = cyc THEN 0 ELSE IF rpos[r] = 0 THEN high - pos ELSE rpos[r] - pos
         c == IF consumed < length THEN consumed ELSE length IN
     unread' = [unread EXCEPT ![r] = unread[r] - c]
  /\ UNCHANGED <<head, high, cycle, mapped, wmapped, n, rpos, rcyc, err>>

Next == \/ \E nb \in 1..Cap : WriteMapNoReaders(nb) \/ WriteMap(nb)
        \/ WriteUnmap \/ AbortWrite
        \/ \E r \in R : Register(r) \/ ReadMap(r)
        \/ \E r \in R : \E c \in 0..Cap : ReadUnmap(r, c)

\* ------------- invariants -------------
\* what reader slot i may still be handed: [pos,head) if same lap; [pos,high) and [0,head) if one lap behind
WriterRegionFree ==   \* C02 at cursor level: the pending write region [head, mapped) avoids every unread region
  wmapped => /\ head <= mapped /\ mapped <= Cap
             /\ \A i \in R : i <= n =>
                  (IF hcyc[i] = cycle THEN hpos[i] <= head
                   ELSE hcyc[i] = cycle - 1 /\ mapped <= hpos[i] /\ hpos[i] <= high)

TypeOK == /\ head \in Int /\ high \in Int /\ cycle \in Int /\ mapped \in Int /\ wmapped \in BOOLEAN /\ n \in 0..NR
          /\ hpos \in [R -> Int] /\ hcyc \in [R -> Int] /\ rpos \in [R -> Int] /\ rcyc \in [R -> Int] /\ rmap \in [R -> BOOLEAN]
          /\ unread \in [R -> Int] /\ err \in BOOLEAN
Ranges == /\ 0 <= head /\ head <= Cap /\ 0 <= high /\ high <= Cap /\ 0 <= mapped /\ mapped <= Cap
          /\ (wmapped => head <= mapped)
          /\ \A i \in R : i > n => ~rmap[i]
Cursors == \A i \in R : i <= n =>
             /\ 0 <= hpos[i]
             /\ (hcyc[i] = cycle \/ hcyc[i] = cycle - 1)
             /\ (hcyc[i] = cycle => hpos[i] <= head)
             /\ (hcyc[i] = cycle - 1 => head <= hpos[i] /\ hpos[i] <= high /\ (wmapped => mapped <= hpos[i]))
Mapped == \A i \in R : (i <= n /\ rmap[i]) =>
             \/ /\ rpos[i] # 0 /\ rcyc[i] = hcyc[i] /\ hpos[i] < rpos[i]
                /\ (hcyc[i] = cycle => rpos[i] <= head)
                /\ (hcyc[i] = cycle - 1 => rpos[i] <= high)
             \/ /\ rpos[i] = 0 /\ rcyc[i] = hcyc[i] + 1 /\ hcyc[i] = cycle - 1 /\ hpos[i] < high
Count == \A i \in R : i <= n => unread[i] = (IF hcyc[i] = cycle THEN head - hpos[i] ELSE (high - hpos[i]) + head)
NoErr == ~err
IndInv == TypeOK /\ Ranges /\ Cursors /\ Mapped /\ Count /\ NoErr
Bogus1 == ~(wmapped /\ n = 2 /\ hcyc[1] = cycle - 1 /\ hcyc[2] = cycle /\ rmap[1] /\ head > 3)
NeverWrapWithReader == ~(cycle >= 1 /\ n = 2 /\ hcyc[1] = cycle - 1 /\ rmap[1] /\ wmapped)
=============================================================================
