CONSTANTS Hdr = 96 MaxW = 40 MaxH = 40 MaxChain = 4
SPECIFICATION Spec
INVARIANTS HeadersAligned SizeField
CHECK_DEADLOCK FALSE
