---------------------------- MODULE MCLifecycle ----------------------------
(* Model-checking / trace-checking instances of Lifecycle.tla *)
EXTENDS Lifecycle
F10 == [s \in {0, 1} |-> s = 0]      \* stream 0 finite, stream 1 runs until aborted
F01 == [s \in {0, 1} |-> s = 1]
F11 == [s \in {0, 1} |-> TRUE]
F00 == [s \in {0, 1} |-> FALSE]

=============================================================================
