\* real section sizes (A = 8, header 16, directory 336), no cell ghost; one EDGE line per transition; -workers 1
CONSTANTS NDev = 1 NPaths = 3 Kinds1 = {"tiff", "sbs"} MaxCycles = 2 MaxAppends = 2 MaxPacket = 2 Real = TRUE NKinds = 2
  NScripts = 3 MaxFaultAt = 0 MaxDepth = 4 FIX_TIFF = 1 FIX_SBS = 1 FIX_META = 1 SetRunning = TRUE FIX_SET = 1 MaxFd = 5 Ghost = FALSE Export = TRUE
SPECIFICATION Spec
VIEW View
INVARIANT TypeOK
ACTION_CONSTRAINT EmitEdge
CHECK_DEADLOCK FALSE
