----------------------------- MODULE DeviceSelect -----------------------------
(***************************************************************************)
(* Device selection (property C12): what `device_manager_select(kind,      *)
(* pattern)` must return, given the enumeration table.                      *)
(*                                                                         *)
(*  * The enumeration table is a CONSTANT.  The check reads it from the     *)
(*    REAL device_manager_count / device_manager_get at run time and writes *)
(*    it into the cfg, so "agrees with enumeration" is literal.  A TLC cfg  *)
(*    can hold sets of integers but no tuples, hence the cell encoding      *)
(*    (DevCells) decoded below into `Devices`.                              *)
(*  * A pattern is a regex AST: a node array of uniform tuple type          *)
(*    <<kind, arg, left, right>>; children refer to earlier nodes, the last *)
(*    node is the root, the layout is post-order, every non-root node is    *)
(*    used exactly once (canonical).  <<>> is the empty pattern.            *)
(*       lit b | any | cls c | grp x | star x | plus x | opt x | cat x y | alt x y *)
(*  * Matches(ast, name): whole-name, case-insensitive membership, defined  *)
(*    by span splitting.  GMatches: an independent position-automaton       *)
(*    (Glushkov) definition; TLC checks that the two agree on every AST of  *)
(*    the bound and every name (invariant MatchersAgree).                   *)
(*  * Render(ast): the pattern bytes handed to the real function (minimal   *)
(*    parentheses, so operator precedence of the real parser is exercised). *)
(*  * Select(kind, ast): 0-based index of the first enumerated device of    *)
(*    that kind whose whole name matches, -1 if none; the empty pattern     *)
(*    matches every name.                                                   *)
(*                                                                         *)
(* The model builds every canonical AST of <= MaxNodes nodes over `Alphabet` *)
(* and the classes in `ClassCells` (postfix construction, one state per     *)
(* AST), checks the invariants on each and prints one CASE line per AST:    *)
(* pattern bytes + expected index per kind.                                 *)
(*                                                                         *)
(* Excluded from the enumeration (Admissible): an unbounded quantifier      *)
(* (star/plus) over an operand that can match the empty string, contains    *)
(* another unbounded quantifier, or contains an alternation whose branches  *)
(* can start with the same byte.  Such patterns are legal, and Matches      *)
(* defines their meaning, but libstdc++'s backtracking regex_match may take *)
(* practically unbounded time on them (a star over a starred dot followed   *)
(* by a literal, on a 25-byte name, did not return in 30 s), and the        *)
(* property forbids exceptions and crashes, not slowness.                   *)
(***************************************************************************)
EXTENDS Naturals, Integers, Sequences, FiniteSets, TLC, Json

CONSTANTS DevCells,    \* { i*65536 + p*256 + v } : device i (0-based); p = 0: v = kind; p >= 1: v = p-th name byte
          NDev,        \* number of enumerated devices
          Alphabet,    \* byte values used as literals (drawn from the device names by the check)
          ClassCells,  \* { ((c*8 + ord)*2 + neg)*65536 + lo*256 + hi } : item `ord` (1..) of class c (1..NClass)
          NClass,
          MaxNodes,    \* AST size bound
          Kinds,       \* set of kinds for which an expectation is emitted
          Emit         \* 1: print CASE lines

\* ------------------------------------------------------------------------------------------------
\* enumeration table

CellDev(c) == c \div 65536
CellPos(c) == (c \div 256) % 256
CellVal(c) == c % 256

DevKind(i) == CellVal(CHOOSE c \in DevCells : CellDev(c) = i /\ CellPos(c) = 0)
DevName(i) == LET S == {c \in DevCells : CellDev(c) = i /\ CellPos(c) > 0}
              IN  [p \in 1..Cardinality(S) |-> CellVal(CHOOSE c \in S : CellPos(c) = p)]

\* a sequence; the device with (0-based) enumeration index i is Devices[i+1]
Devices == [d \in 1..NDev |-> [kind |-> DevKind(d - 1), name |-> DevName(d - 1)]]

ASSUME TableWellFormed ==
  /\ NDev \in Nat
  /\ \A c \in DevCells : CellDev(c) < NDev
  /\ \A i \in 0..(NDev - 1) : Cardinality({c \in DevCells : CellDev(c) = i /\ CellPos(c) = 0}) = 1
  /\ \A i \in 0..(NDev - 1) : LET P == {CellPos(c) : c \in {x \in DevCells : CellDev(x) = i /\ CellPos(x) > 0}}
                              IN  P = 1..Cardinality(P)

\* ------------------------------------------------------------------------------------------------
\* bytes, classes

Fold(b) == IF b >= 65 /\ b <= 90 THEN b + 32 ELSE b      \* ASCII lower case
Up(b)   == IF b >= 97 /\ b <= 122 THEN b - 32 ELSE b

FoldSeq(s) == [i \in 1..Len(s) |-> Fold(s[i])]

ClsOf(x)  == x \div 1048576
ClsOrd(x) == (x \div 131072) % 8
ClsNeg(x) == (x \div 65536) % 2
ClsLo(x)  == (x \div 256) % 256
ClsHi(x)  == x % 256

ClassItems(c) == {x \in ClassCells : ClsOf(x) = c}
ClassNegated(c) == \E x \in ClassItems(c) : ClsNeg(x) = 1

\* an item lo-hi contains byte b case-insensitively iff one of b's case variants lies in the range
ItemHas(x, b) == \/ ClsLo(x) <= Fold(b) /\ Fold(b) <= ClsHi(x)
                 \/ ClsLo(x) <= Up(b) /\ Up(b) <= ClsHi(x)

ClassHas(c, b) == (\E x \in ClassItems(c) : ItemHas(x, b)) # ClassNegated(c)

\* ------------------------------------------------------------------------------------------------
\* ASTs

Kind(t, k) == t[k][1]
Arg(t, k)  == t[k][2]
L(t, k)    == t[k][3]
R(t, k)    == t[k][4]

LeafKinds == {"lit", "any", "cls"}
UnaryKinds == {"grp", "star", "plus", "opt"}
BinaryKinds == {"cat", "alt"}

\* shape check used before any operator below is applied to an AST that came from outside (trace events)
WellFormed(t) ==
  /\ t = <<>> \/ (DOMAIN t = 1..Len(t) /\ Len(t) >= 1)
  /\ \A k \in 1..Len(t) :
       /\ DOMAIN t[k] = 1..4
       /\ t[k][1] \in LeafKinds \cup UnaryKinds \cup BinaryKinds
       /\ t[k][2] \in 0..255 /\ t[k][3] \in 0..(k - 1) /\ t[k][4] \in 0..(k - 1)
       /\ t[k][1] \in LeafKinds => t[k][3] = 0 /\ t[k][4] = 0
       /\ t[k][1] = "cls" => t[k][2] \in 1..NClass
       /\ t[k][1] \in UnaryKinds => t[k][3] >= 1 /\ t[k][4] = 0
       /\ t[k][1] \in BinaryKinds => t[k][3] >= 1 /\ t[k][4] >= 1
  \* canonical: every non-root node is the child of exactly one node
  /\ \A c \in 1..(Len(t) - 1) :
       Cardinality({k \in 1..Len(t) : t[k][3] = c}) + Cardinality({k \in 1..Len(t) : t[k][4] = c}) = 1

LeafHas(t, k, b) == CASE Kind(t, k) = "lit" -> Fold(b) = Fold(Arg(t, k))
                      [] Kind(t, k) = "any" -> b \notin {10, 13}      \* ECMAScript: no line terminators
                      [] Kind(t, k) = "cls" -> ClassHas(Arg(t, k), b)
                      [] OTHER -> FALSE

\* --- static facts about every node.  Info(t, k)[n] for n <= k:
\*       nul, fst, lst : nullable / first / last leaf positions (position automaton, definition 2 below)
\*       mn, mx        : least / greatest length of a word of the node's language (INF = unbounded)
INF == 100000
Plus(a, b) == IF a >= INF \/ b >= INF THEN INF ELSE a + b
Min2(a, b) == IF a < b THEN a ELSE b
Max2(a, b) == IF a > b THEN a ELSE b

RECURSIVE Info(_, _)
Info(t, k) ==
  IF k = 0 THEN <<>> ELSE
  LET p == Info(t, k - 1)  kd == Kind(t, k)  l == L(t, k)  r == R(t, k) IN
  Append(p,
    CASE kd \in LeafKinds -> [nul |-> FALSE, fst |-> {k}, lst |-> {k}, mn |-> 1, mx |-> 1]
      [] kd = "grp"  -> p[l]
      [] kd = "plus" -> [p[l] EXCEPT !.mx = IF p[l].mx = 0 THEN 0 ELSE INF]
      [] kd = "opt"  -> [p[l] EXCEPT !.nul = TRUE, !.mn = 0]
      [] kd = "star" -> [p[l] EXCEPT !.nul = TRUE, !.mn = 0, !.mx = IF p[l].mx = 0 THEN 0 ELSE INF]
      [] kd = "cat"  -> [nul |-> p[l].nul /\ p[r].nul,
                         fst |-> p[l].fst \cup (IF p[l].nul THEN p[r].fst ELSE {}),
                         lst |-> p[r].lst \cup (IF p[r].nul THEN p[l].lst ELSE {}),
                         mn |-> p[l].mn + p[r].mn, mx |-> Plus(p[l].mx, p[r].mx)]
      [] kd = "alt"  -> [nul |-> p[l].nul \/ p[r].nul, fst |-> p[l].fst \cup p[r].fst, lst |-> p[l].lst \cup p[r].lst,
                         mn |-> Min2(p[l].mn, p[r].mn), mx |-> Max2(p[l].mx, p[r].mx)])

\* --- definition 1: span splitting.  M(t, w, inf, k, i, j) == w[i+1..j] is in the language of node k -------------
\* (the first conjunct only cuts hopeless splits early: no word of node k has a length outside mn..mx; without it
\*  TLC's unmemoised evaluation is exponential on a concatenation of 25 literals)
RECURSIVE M(_, _, _, _, _, _)
M(t, w, inf, k, i, j) ==
  LET kd == Kind(t, k)  l == L(t, k)  r == R(t, k) IN
  /\ inf[k].mn <= j - i /\ j - i <= inf[k].mx
  /\ CASE kd \in LeafKinds -> j = i + 1 /\ LeafHas(t, k, w[j])
        [] kd = "grp"  -> M(t, w, inf, l, i, j)
        [] kd = "opt"  -> i = j \/ M(t, w, inf, l, i, j)
        [] kd = "star" -> i = j \/ \E m \in (i + 1)..j : M(t, w, inf, l, i, m) /\ M(t, w, inf, k, m, j)
        [] kd = "plus" -> M(t, w, inf, l, i, j) \/ \E m \in (i + 1)..(j - 1) : M(t, w, inf, l, i, m) /\ M(t, w, inf, k, m, j)
        [] kd = "cat"  -> \E m \in i..j : M(t, w, inf, l, i, m) /\ M(t, w, inf, r, m, j)
        [] kd = "alt"  -> M(t, w, inf, l, i, j) \/ M(t, w, inf, r, i, j)

\* whole-name match; the empty pattern accepts every name ("any device of the kind")
Matches(t, w) == IF t = <<>> THEN TRUE ELSE M(t, w, Info(t, Len(t)), Len(t), 0, Len(w))

\* --- definition 2: position automaton (Glushkov), independent of definition 1 ------------------------------------
GMatches(t, w) ==
  IF t = <<>> THEN TRUE ELSE
  LET n == Len(t)
      inf == Info(t, n)
      Follow(p) == UNION { IF Kind(t, k) = "cat" /\ p \in inf[L(t, k)].lst THEN inf[R(t, k)].fst
                           ELSE IF Kind(t, k) \in {"star", "plus"} /\ p \in inf[L(t, k)].lst THEN inf[L(t, k)].fst
                           ELSE {} : k \in 1..n }
      \* Hit[x] = leaf positions that consumed the x-th byte
      Hit[x \in 1..Len(w)] == LET cand == IF x = 1 THEN inf[n].fst ELSE UNION {Follow(p) : p \in Hit[x - 1]}
                              IN  {p \in cand : LeafHas(t, p, w[x])}
  IN IF Len(w) = 0 THEN inf[n].nul ELSE Hit[Len(w)] \cap inf[n].lst # {}

\* --- selection ---------------------------------------------------------------------------------------------
SelectIn(devs, kind, t) ==
  LET S == {d \in 1..Len(devs) : devs[d].kind = kind /\ Matches(t, devs[d].name)}
  IN  IF S = {} THEN -1 ELSE (CHOOSE d \in S : \A e \in S : d <= e) - 1

Select(kind, t) == SelectIn(Devices, kind, t)

\* --- rendering ---------------------------------------------------------------------------------------------
Specials == {94, 36, 92, 46, 42, 43, 63, 40, 41, 91, 93, 123, 125, 124}    \* ^ $ \ . * + ? ( ) [ ] { } |
EscLit(b) == IF b \in Specials THEN <<92, b>> ELSE <<b>>
EscCls(b) == IF b \in {92, 93, 91, 94, 45} THEN <<92, b>> ELSE <<b>>       \* \ ] [ ^ -

RECURSIVE RenderItems(_, _)
RenderItems(c, o) ==
  IF \A x \in ClassItems(c) : ClsOrd(x) # o THEN <<>>
  ELSE LET x == CHOOSE y \in ClassItems(c) : ClsOrd(y) = o IN
       (IF ClsLo(x) = ClsHi(x) THEN EscCls(ClsLo(x)) ELSE EscCls(ClsLo(x)) \o <<45>> \o EscCls(ClsHi(x)))
       \o RenderItems(c, o + 1)

RenderClass(c) == <<91>> \o (IF ClassNegated(c) THEN <<94>> ELSE <<>>) \o RenderItems(c, 1) \o <<93>>

Prec(kd) == CASE kd = "alt" -> 0 [] kd = "cat" -> 1 [] kd \in {"star", "plus", "opt"} -> 2 [] OTHER -> 3

RECURSIVE Rn(_, _)
Rn(t, k) ==
  LET kd == Kind(t, k)  l == L(t, k)  r == R(t, k)
      W(c, p) == IF Prec(Kind(t, c)) < p THEN <<40>> \o Rn(t, c) \o <<41>> ELSE Rn(t, c)
  IN
  CASE kd = "lit"  -> EscLit(Arg(t, k))
    [] kd = "any"  -> <<46>>
    [] kd = "cls"  -> RenderClass(Arg(t, k))
    [] kd = "grp"  -> <<40>> \o Rn(t, l) \o <<41>>
    [] kd = "star" -> W(l, 3) \o <<42>>
    [] kd = "plus" -> W(l, 3) \o <<43>>
    [] kd = "opt"  -> W(l, 3) \o <<63>>
    [] kd = "cat"  -> W(l, 1) \o W(r, 1)
    [] kd = "alt"  -> Rn(t, l) \o <<124>> \o Rn(t, r)

Render(t) == IF t = <<>> THEN <<>> ELSE Rn(t, Len(t))

\* ------------------------------------------------------------------------------------------------
\* enumeration of canonical ASTs: the model builds every pattern in postfix order
\*
\* A node array in post-order layout IS the postfix (RPN) form of the pattern: a leaf pushes a subtree,
\* a unary node wraps the top subtree, a binary node joins the two top subtrees.  Every canonical AST has
\* exactly one postfix form, so the state graph is a tree whose states with a single pending subtree are
\* exactly the ASTs of <= MaxNodes nodes (plus the empty pattern), each reached once.

Leaves == {<<"lit", b, 0, 0>> : b \in Alphabet} \cup {<<"any", 0, 0, 0>>} \cup {<<"cls", c, 0, 0>> : c \in 1..NClass}

Shift(t, d) == [k \in 1..Len(t) |-> <<t[k][1], t[k][2],
                                      IF t[k][3] = 0 THEN 0 ELSE t[k][3] + d,
                                      IF t[k][4] = 0 THEN 0 ELSE t[k][4] + d>>]

\* the subtree rooted at node k as an AST of its own (post-order layout: it occupies k-size+1 .. k)
Subtree(t, k) == LET RECURSIVE Sz(_)
                     Sz(x) == IF Kind(t, x) \in LeafKinds THEN 1
                              ELSE IF Kind(t, x) \in UnaryKinds THEN 1 + Sz(L(t, x))
                              ELSE 1 + Sz(L(t, x)) + Sz(R(t, x))
                     s == Sz(k)
                 IN Shift(SubSeq(t, k - s + 1, k), 0 - (k - s))

\* bytes that can occur in a name (used to decide whether two alternatives can start with the same byte)
NameBytes == UNION {{Devices[d].name[i] : i \in 1..Len(Devices[d].name)} : d \in 1..NDev} \cup Alphabet

\* may an unbounded quantifier be put on top of the (whole) tree t ?
Quantifiable(t) ==
  LET n == Len(t)  inf == Info(t, n)
      Starts(k) == {b \in NameBytes : \E p \in inf[k].fst : LeafHas(t, p, b)}
  IN /\ ~inf[n].nul
     /\ \A k \in 1..n : Kind(t, k) \notin {"star", "plus"}
     /\ \A k \in 1..n : Kind(t, k) = "alt" => Starts(L(t, k)) \cap Starts(R(t, k)) = {}

Admissible(t) == \A k \in 1..Len(t) : Kind(t, k) \in {"star", "plus"} => Quantifiable(Subtree(t, L(t, k)))

VARIABLES ast,    \* nodes emitted so far (postfix)
          stk,    \* roots of the pending subtrees, innermost last
          phase   \* "build" | "chk" | "done"
vars == <<ast, stk, phase>>

Init == ast = <<>> /\ stk = <<>> /\ phase = "build"

\* nodes still needed to join the pending subtrees into one must fit into the bound
Fits(nodes, pending) == nodes + (pending - 1) <= MaxNodes

PushLeaf ==
  /\ phase = "build"
  /\ Fits(Len(ast) + 1, Len(stk) + 1)
  /\ \E lf \in Leaves : ast' = Append(ast, lf)
  /\ stk' = Append(stk, Len(ast) + 1)
  /\ phase' = phase

ApplyUnary ==
  /\ phase = "build"
  /\ Len(stk) >= 1
  /\ Fits(Len(ast) + 1, Len(stk))
  /\ LET top == stk[Len(stk)] IN
     /\ \E u \in UnaryKinds :
          /\ u \in {"star", "plus"} => Quantifiable(Subtree(ast, top))
          /\ ast' = Append(ast, <<u, 0, top, 0>>)
     /\ stk' = [stk EXCEPT ![Len(stk)] = Len(ast) + 1]
  /\ phase' = phase

ApplyBinary ==
  /\ phase = "build"
  /\ Len(stk) >= 2
  /\ Fits(Len(ast) + 1, Len(stk) - 1)
  /\ \E b \in BinaryKinds : ast' = Append(ast, <<b, 0, stk[Len(stk) - 1], stk[Len(stk)]>>)
  /\ stk' = Append(SubSeq(stk, 1, Len(stk) - 2), Len(ast) + 1)
  /\ phase' = phase

\* a complete pattern (one pending subtree, or the empty pattern) is handed to the checks
Complete ==
  /\ phase = "build"
  /\ Len(stk) <= 1
  /\ phase' = "chk"
  /\ UNCHANGED <<ast, stk>>

Expect(t) == {<<kd, Select(kd, t)>> : kd \in Kinds}

EmitCase ==
  /\ phase = "chk"
  /\ phase' = "done"
  /\ UNCHANGED <<ast, stk>>
  /\ Emit = 1 => PrintT(<<"CASE", ToJson([ast |-> ast, pat |-> Render(ast), exp |-> Expect(ast)])>>)

Next == PushLeaf \/ ApplyUnary \/ ApplyBinary \/ Complete \/ EmitCase
Spec == Init /\ [][Next]_vars

\* --- invariants (evaluated once per AST) ----------------------------------------------------------
Fresh == phase = "chk"

UpSeq(s) == [i \in 1..Len(s) |-> Up(s[i])]
\* words on which the two matcher definitions are compared: the names, their upper-case forms, the empty word, every
\* single alphabet byte and every two-byte word over (up to) three alphabet bytes
PairBytes == {b \in Alphabet : Cardinality({c \in Alphabet : c < b}) < 3}
TestWords == {Devices[d].name : d \in 1..NDev} \cup {UpSeq(Devices[d].name) : d \in 1..NDev}
             \cup {<<>>} \cup {<<a>> : a \in Alphabet} \cup {<<a, b>> : a \in PairBytes, b \in PairBytes}

ShapeOK == Fresh => WellFormed(ast) /\ Admissible(ast)

MatchersAgree == Fresh => \A w \in TestWords : Matches(ast, w) = GMatches(ast, w)

CaseInsensitive == Fresh => \A d \in 1..NDev : Matches(ast, Devices[d].name) = Matches(ast, UpSeq(Devices[d].name))

\* the selected device is of the kind, matches, and nothing of the kind before it matches; none => nothing matches
SelectSound ==
  Fresh => \A kd \in Kinds :
    LET s == Select(kd, ast) IN
    IF s = -1 THEN \A d \in 1..NDev : Devices[d].kind = kd => ~GMatches(ast, Devices[d].name)
    ELSE /\ s \in 0..(NDev - 1)
         /\ Devices[s + 1].kind = kd /\ GMatches(ast, Devices[s + 1].name)
         /\ \A d \in 1..s : Devices[d].kind = kd => ~GMatches(ast, Devices[d].name)

\* only the empty pattern renders to the empty string
RenderOK == Fresh => (ast = <<>>) = (Render(ast) = <<>>)
=============================================================================
