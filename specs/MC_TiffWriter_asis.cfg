\* tiff.cpp as it was (write_ calls stop(), failures ignored): TLC must report NoErr / NoCrash violated
CONSTANTS NDev = 2 NPaths = 3 Kinds1 = {"tiff"} MaxCycles = 2 MaxAppends = 1 MaxPacket = 2 Real = FALSE NKinds = 2
  NScripts = 1 MaxFaultAt = 8 MaxDepth = 4 FIX_TIFF = 0 FIX_SBS = 1 FIX_META = 1 SetRunning = TRUE FIX_SET = 1 MaxFd = 5 Ghost = TRUE Export = FALSE
SPECIFICATION Spec
VIEW View
INVARIANTS NoErr NoCrash TypeOK OwnsItsFile Cursors InnerFollowsOuter
CHECK_DEADLOCK FALSE
