------------------------------ MODULE FileObs ------------------------------
(***************************************************************************)
(* Observation specification of the storage devices' file output            *)
(* (properties C14 and C16), written as a TOTAL trace specification over    *)
(* what is observable from outside the devices:                             *)
(*   - the HAL calls made on each device instance and the state each call   *)
(*     left the device in (Call / Ret),                                     *)
(*   - the operating-system calls issued while a device call was running,   *)
(*     seen through a link-time seam under platform.c (Open, Flock, Pwrite, *)
(*     Close, Unlink, Access), each tagged with the acting device instance, *)
(*   - the bytes of the finished raw file read back (FileRead),             *)
(*   - how the process ended (Exit).                                        *)
(* It knows nothing about Raw.offset, Tiff::state, last_offset_ ...         *)
(*                                                                         *)
(* Payload bytes are reduced by the harness to cells: one 16-bit hash per   *)
(* u-byte block (u is fixed per execution in Reset; every packet is a       *)
(* multiple of u; z is the hash of a block of zero bytes, i.e. a hole).     *)
(*                                                                         *)
(* OS model kept here: descriptor table (lowest free number >= 3 is issued  *)
(* by Open; Close frees), which device opened which descriptor, the content *)
(* of each file as a sequence of cells (Pwrite returning r writes the first *)
(* r bytes; a gap reads back as holes), injected faults (r < 0).            *)
(*                                                                         *)
(* Events (ndjson):                                                         *)
(*   Reset{x,u,z,fault,pers,devs[{d,kind}]}                                 *)
(*   Call{d,op,...} / Ret{d,op,rc,st}   op in open set start append stop close *)
(*        Call of set carries path, form; Call of append carries cells      *)
(*   Open{d,path,r}  Flock{d,fd,r}  Pwrite{d,fd,off,req,r[,cells|mis]}      *)
(*   Close{d,fd,r}  Unlink{d,path,r}  Access{d,path,r}  Suppressed{d}       *)
(*   FileRead{d,path,exists,size,cells}   Skip{d,op}                        *)
(*   Exit{how}          how in ok Crash StackOverflow Timeout               *)
(* A refused event appends <<rule, line>> to `bad`; nothing ever blocks.    *)
(***************************************************************************)
EXTENDS Naturals, Integers, Sequences, FiniteSets, TLC, Json, IOUtils

Tr == ndJsonDeserialize(IOEnv.TRACE)
Devs == 0..3
Fds == 0..63
FirstFd == 3
RUNNING == 3
ARMED == 2

VARIABLES l, o, bad, nbad, done
vars == <<l, o, bad, nbad, done>>

OInit(x, u, z) ==
  [ x       |-> x, u |-> u, z |-> z,
    fdt     |-> [f \in Fds |-> 0],            \* OS truth: path the descriptor refers to, 0 = not open
    owned   |-> [d \in Devs |-> {}],          \* descriptors d opened and has not closed itself
    closedBy|-> [d \in Devs |-> {}],          \* descriptor numbers d owned once and has closed
    content |-> <<>>,                         \* path -> sequence of cells (function with growing domain)
    known   |-> {},                           \* paths whose modelled content is exact
    cur     |-> [d \in Devs |-> "none"],      \* HAL call in progress
    setPath |-> [d \in Devs |-> 0],           \* path named by the set call in progress
    path    |-> [d \in Devs |-> 0],           \* path of the last accepted configuration
    clean   |-> [d \in Devs |-> FALSE],       \* started, and no call of this acquisition reported a failure
    app     |-> [d \in Devs |-> <<>>],        \* cells appended since the matching start
    pend    |-> [d \in Devs |-> FALSE],       \* an OS call failed and no non-running state was reported since
    mkFail  |-> [d \in Devs |-> FALSE],       \* creating the file failed during the start in progress
    synced  |-> TRUE ]                        \* FALSE once the seam stopped logging (event flood)

Init == l = 1 /\ o = OInit(0, 0, 0) /\ bad = <<>> /\ nbad = 0 /\ done = FALSE
Ev == Tr[l]
If(c, name) == IF c THEN <<name>> ELSE <<>>
Flag(rules) == /\ bad' = (IF Len(bad) < 200 THEN bad \o [i \in 1..Len(rules) |-> <<rules[i], l>>] ELSE bad)
               /\ nbad' = nbad + Len(rules)
Has(e, f) == f \in DOMAIN e
OkDev(e) == Has(e, "d") /\ e.d \in Devs
Others(d) == Devs \ {d}
OwnedByOther(d, fd) == \E x \in Others(d) : fd \in o.owned[x]
LowestFree == IF \E f \in Fds : f >= FirstFd /\ o.fdt[f] = 0
              THEN CHOOSE f \in Fds : f >= FirstFd /\ o.fdt[f] = 0 /\ \A g \in Fds : (g >= FirstFd /\ o.fdt[g] = 0) => f <= g
              ELSE -1
Zeros(n) == [i \in 1..n |-> o.z]

\* ---- C16: descriptor ownership ------------------------------------------------------------------------
UseRules(d, fd, after, foreign, never) ==
  IF ~o.synced \/ fd \in o.owned[d] THEN <<>>
  ELSE IF fd \in o.closedBy[d] THEN <<after>> \o If(OwnedByOther(d, fd), foreign)
  ELSE IF OwnedByOther(d, fd) THEN <<foreign>>
  ELSE <<never>>

CloseRules(d, fd) ==
  IF ~o.synced \/ fd \in o.owned[d] THEN <<>>
  ELSE IF fd \in o.closedBy[d] THEN <<"DoubleClose">> \o If(OwnedByOther(d, fd), "CloseForeignDescriptor")
  ELSE IF OwnedByOther(d, fd) THEN <<"CloseForeignDescriptor">>
  ELSE IF fd < FirstFd THEN <<"CloseStdDescriptor">>
  ELSE <<"CloseNeverOpened">>

\* ---- file content model ---------------------------------------------------------------------------------
WriteCells(old, at, cs) ==      \* at = 0-based cell index
  LET n == IF at + Len(cs) > Len(old) THEN at + Len(cs) ELSE Len(old) IN
  [i \in 1..n |-> IF i > at /\ i <= at + Len(cs) THEN cs[i - at] ELSE IF i <= Len(old) THEN old[i] ELSE o.z]

DoPwrite(e) ==
  LET p == o.fdt[e.fd] IN
  IF e.r <= 0 \/ p = 0 THEN o
  ELSE IF p \in o.known /\ p \in DOMAIN o.content /\ Has(e, "cells") /\ o.u > 0 /\ e.off >= 0 /\ e.off % o.u = 0
       THEN [o EXCEPT !.content = [q \in DOMAIN o.content |-> IF q = p THEN WriteCells(o.content[p], e.off \div o.u, e.cells)
                                                               ELSE o.content[q]]]
       ELSE [o EXCEPT !.known = o.known \ {p}]

\* ---- C14: the finished file equals the concatenation of the appended packets ----------------------------
FileRules(d, e) ==
  IF ~o.clean[d] THEN <<>>
  ELSE IF ~e.exists THEN <<"RawFileMissing">>
  ELSE IF e.cells = o.app[d] THEN <<>>
  ELSE LET k == Len(e.cells) - Len(o.app[d]) IN
       IF k > 0 /\ SubSeq(e.cells, k + 1, Len(e.cells)) = o.app[d] /\ SubSeq(e.cells, 1, k) = Zeros(k)
       THEN <<"RawFileShiftedByHole">> ELSE <<"RawFileMismatch">>

ModelRules(e) ==
  If(e.exists /\ e.path \in o.known /\ e.path \in DOMAIN o.content /\ o.content[e.path] # e.cells, "HarnessFileModelMismatch")

WrongPath(e) == If(e.path >= 900 \/ (o.cur[e.d] = "start" /\ o.path[e.d] # 0 /\
                                       e.path \notin {o.path[e.d], 100 + o.path[e.d], 200 + o.path[e.d]}), "OpenWrongPath")

\* ---- one step per trace line ----------------------------------------------------------------------------
Step ==
  /\ l <= Len(Tr) /\ ~done /\ l' = l + 1 /\ done' = FALSE
  /\ LET e == Ev  k == e.e IN
     CASE k = "Reset" -> o' = OInit(e.x, e.u, e.z) /\ Flag(<<>>)
       [] k \in {"Call", "Ret", "Open", "Flock", "Pwrite", "Close", "Unlink", "Access", "FileRead", "Suppressed", "Skip"} /\ ~OkDev(e) ->
            o' = o /\ Flag(<<"HarnessBadEvent">>)
       [] k = "Call" ->
            /\ Flag(If(o.cur[e.d] # "none", "HarnessNestedCall")
                    \o If(e.op = "append" /\ o.u > 0 /\ e.nb % o.u # 0, "HarnessPacketNotCellAligned"))
            /\ o' = [o EXCEPT !.cur[e.d] = e.op,
                              !.setPath[e.d] = IF e.op = "set" THEN e.path ELSE o.setPath[e.d],
                              !.mkFail[e.d] = FALSE,
                              !.pend[e.d] = IF e.op = "start" THEN FALSE ELSE o.pend[e.d],
                              !.clean[e.d] = IF e.op = "start" THEN FALSE ELSE o.clean[e.d],
                              !.app[e.d] = IF e.op = "start" THEN <<>>
                                           ELSE IF e.op = "append" THEN o.app[e.d] \o e.cells ELSE o.app[e.d]]
       [] k = "Ret" ->
            LET d == e.d IN
            CASE e.op = "set" ->
                   /\ Flag(<<>>)
                   /\ o' = [o EXCEPT !.cur[d] = "none", !.path[d] = IF e.rc = 0 THEN o.setPath[d] ELSE o.path[d]]   \* (accepted: Armed, or still Running)
              [] e.op = "start" ->
                   /\ Flag(If(e.st = RUNNING /\ o.mkFail[d], "RunningAfterCreateFailed"))
                   /\ o' = [o EXCEPT !.cur[d] = "none", !.clean[d] = (e.st = RUNNING),
                                     !.pend[d] = IF e.st = RUNNING THEN o.pend[d] ELSE FALSE]
              [] e.op = "append" ->
                   /\ Flag(If(e.st = RUNNING /\ o.pend[d], "FailureNotReported"))
                   /\ o' = [o EXCEPT !.cur[d] = "none", !.clean[d] = o.clean[d] /\ e.st = RUNNING,
                                     !.pend[d] = IF e.st = RUNNING THEN o.pend[d] ELSE FALSE]
              [] e.op = "close" ->
                   /\ Flag(If(o.synced /\ o.owned[d] # {}, "DescriptorLeak"))
                   /\ o' = [o EXCEPT !.cur[d] = "none", !.pend[d] = FALSE]
              [] OTHER -> Flag(<<>>) /\ o' = [o EXCEPT !.cur[d] = "none"]
       [] k = "Open" ->
            IF e.r < 0 THEN Flag(WrongPath(e)) /\ o' = [o EXCEPT !.pend[e.d] = TRUE, !.mkFail[e.d] = TRUE]
            ELSE IF e.r \notin Fds THEN Flag(<<"HarnessBadEvent">>) /\ o' = o
            ELSE /\ Flag(If(o.synced /\ e.r # LowestFree, "HarnessFdNotLowestFree")
                         \* C14 / C15: the file created by a start is the one named by the accepted configuration (its data.tif /
                         \* metadata.json for the composite), whatever the spelling of the URI; ids from 900 are paths nobody configured
                         \o WrongPath(e))
                 /\ o' = [o EXCEPT !.fdt[e.r] = e.path,
                                   !.owned[e.d] = o.owned[e.d] \cup {e.r},
                                   !.closedBy[e.d] = o.closedBy[e.d] \ {e.r},
                                   !.content = IF e.path \in DOMAIN o.content THEN o.content
                                               ELSE [q \in DOMAIN o.content \cup {e.path} |->
                                                       IF q = e.path THEN <<>> ELSE o.content[q]],
                                   !.known = IF e.path \in DOMAIN o.content THEN o.known ELSE o.known \cup {e.path}]
       \* a descriptor number outside the table (e.g. -1 left by a failed open) was certainly never opened by the device
       [] k = "Flock" ->
            IF ~Has(e, "fd") THEN Flag(<<"HarnessBadEvent">>) /\ o' = o
            ELSE IF e.fd \notin Fds THEN Flag(If(o.synced, "FlockNeverOpened")) /\ o' = [o EXCEPT !.pend[e.d] = TRUE, !.mkFail[e.d] = TRUE]
            ELSE /\ Flag(UseRules(e.d, e.fd, "FlockAfterClose", "FlockForeignDescriptor", "FlockNeverOpened"))
                 /\ o' = IF e.r < 0 THEN [o EXCEPT !.pend[e.d] = TRUE, !.mkFail[e.d] = TRUE] ELSE o
       [] k = "Pwrite" ->
            IF ~Has(e, "fd") THEN Flag(<<"HarnessBadEvent">>) /\ o' = o
            ELSE IF e.fd \notin Fds THEN Flag(If(o.synced, "WriteNeverOpened")) /\ o' = [o EXCEPT !.pend[e.d] = TRUE]
            ELSE /\ Flag(UseRules(e.d, e.fd, "WriteAfterClose", "WriteForeignDescriptor", "WriteNeverOpened")
                         \o If(e.r > e.req \/ (e.r > 0 /\ o.synced /\ o.fdt[e.fd] = 0), "HarnessPwriteResult"))
                 /\ o' = IF e.r < 0 THEN [o EXCEPT !.pend[e.d] = TRUE] ELSE DoPwrite(e)
       [] k = "Close" ->
            IF ~Has(e, "fd") THEN Flag(<<"HarnessBadEvent">>) /\ o' = o
            ELSE IF e.fd \notin Fds THEN Flag(If(o.synced, "CloseNeverOpened")) /\ o' = o
            ELSE /\ Flag(CloseRules(e.d, e.fd))
                 /\ o' = [o EXCEPT !.fdt[e.fd] = 0,
                                   !.owned[e.d] = o.owned[e.d] \ {e.fd},
                                   !.closedBy[e.d] = IF e.fd \in o.owned[e.d] THEN o.closedBy[e.d] \cup {e.fd} ELSE o.closedBy[e.d]]
       [] k = "Unlink" ->
            /\ Flag(<<>>)
            /\ o' = IF e.r = 0 /\ e.path \in DOMAIN o.content
                    THEN [o EXCEPT !.content = [q \in DOMAIN o.content \ {e.path} |-> o.content[q]], !.known = o.known \ {e.path}]
                    ELSE o
       [] k = "FileRead" ->
            /\ Flag(FileRules(e.d, e) \o ModelRules(e))
            /\ o' = [o EXCEPT !.clean[e.d] = FALSE, !.app[e.d] = <<>>]
       [] k = "Suppressed" -> Flag(<<>>) /\ o' = [o EXCEPT !.synced = FALSE]
       [] k = "Exit" -> Flag(If(e.how # "ok", e.how)) /\ o' = o
       [] k \in {"Access", "Skip"} -> Flag(<<>>) /\ o' = o
       [] OTHER -> Flag(<<"UnknownEvent">>) /\ o' = o

Finish ==
  /\ l = Len(Tr) + 1 /\ ~done /\ done' = TRUE
  /\ PrintT(<<"VERDICT", ToJson([consumed |-> l - 1, nbad |-> nbad, bad |-> bad])>>)
  /\ UNCHANGED <<l, o, bad, nbad>>

Next == Step \/ Finish
Spec == Init /\ [][Next]_vars
=============================================================================
