------------------------------ MODULE TiffObs ------------------------------
(***************************************************************************)
(* Observation specification of the TIFF writers' output (property C15),    *)
(* written as a TOTAL trace specification over what an independent BigTIFF  *)
(* reader (tools/tiffread.py) finds in the files the tiff and tiff-json     *)
(* devices produced, next to what the harness appended:                     *)
(*                                                                         *)
(*   Acq{x,a,kind,n,meta,frames[{w,h,bits,fmt,npx}]}  one finished          *)
(*        acquisition: n >= 1 frames appended in this order, user metadata  *)
(*        given or not                                                      *)
(*   Hdr{exists,size,ok,first}      file size, II/43/8/0 header, first link *)
(*   Ifd{i,off,len,next,tags_ok,w,h,bits,fmt,so,sl,bytes_ok,doff,dlen,      *)
(*       json_ok,ids_ok,has_meta,meta_ok}    i-th directory of the chain    *)
(*   Eof{n,stop,mj_exists,mj_ok}    chain ended after n directories because *)
(*        of: zero link | outside | cycle | toomany | nofile                *)
(*                                                                         *)
(* Pixel bytes and JSON text are reduced by the reader to booleans          *)
(* (bytes_ok: the first w*h*bytes-per-sample bytes of the strip equal the   *)
(* frame's pixels; ids_ok: frame id, hardware id and both timestamps are    *)
(* the frame's; meta_ok: the metadata member equals the user's metadata).   *)
(* Tag order and the (padded) strip length are not judged.                  *)
(* A refused event appends <<rule, line>> to `bad`; nothing ever blocks.    *)
(***************************************************************************)
EXTENDS Naturals, Integers, Sequences, FiniteSets, TLC, Json, IOUtils

Tr == ndJsonDeserialize(IOEnv.TRACE)

VARIABLES l, o, bad, nbad, done
vars == <<l, o, bad, nbad, done>>

NoAcq == [x |-> 0, a |-> 0, kind |-> "none", n |-> 0, meta |-> FALSE, unit |-> 1, frames |-> <<>>]
OInit(acq) == [acq |-> acq, size |-> 0, hdr |-> FALSE, expect |-> 0, regions |-> <<>>, count |-> 0]

Init == l = 1 /\ o = OInit(NoAcq) /\ bad = <<>> /\ nbad = 0 /\ done = FALSE
Ev == Tr[l]
If(c, name) == IF c THEN <<name>> ELSE <<>>
Flag(rules) == /\ bad' = (IF Len(bad) < 200 THEN bad \o [i \in 1..Len(rules) |-> <<rules[i], l>>] ELSE bad)
               /\ nbad' = nbad + Len(rules)

\* positions and lengths are in units of o.acq.unit bytes (1, or 8 for files of a GiB and more: see tiffread.py); a
\* description of at most 8 bytes lives inside its directory entry and is reported with length 0
HdrLen == 16 \div o.acq.unit
Inside(a, n) == a >= 0 /\ n >= 0 /\ a + n <= o.size
Overlaps(a, n, rs) == n > 0 /\ \E k \in 1..Len(rs) : rs[k][2] > 0 /\ a < rs[k][1] + rs[k][2] /\ rs[k][1] < a + n

\* the regions a directory claims: itself, its strip, its out-of-line description
RegionsOf(e) == <<<<e.off, e.len>>, <<e.so, e.sl>>>> \o (IF e.dlen > 0 THEN <<<<e.doff, e.dlen>>>> ELSE <<>>)
RECURSIVE SelfOverlap(_)
SelfOverlap(rs) == IF Len(rs) < 2 THEN FALSE
                   ELSE Overlaps(rs[1][1], rs[1][2], Tail(rs)) \/ SelfOverlap(Tail(rs))

IfdRules(e) ==
  LET i == e.i  known == i >= 0 /\ i < o.acq.n /\ i < Len(o.acq.frames) IN
  If(e.off # o.expect, "ChainOrderBroken")                     \* the reader follows links: harness sanity
  \o If(~Inside(e.off, e.len), "DirectoryOutsideFile")
  \o If(~e.tags_ok, "RequiredTagMissing")
  \o If(e.tags_ok /\ ~Inside(e.so, e.sl), "StripOutsideFile")
  \o If(e.dlen > 0 /\ ~Inside(e.doff, e.dlen), "DescriptionOutsideFile")
  \o If(e.next # 0 /\ e.next >= o.size, "LinkOutsideFile")
  \o If(Overlaps(e.off, e.len, o.regions) \/ (e.tags_ok /\ Overlaps(e.so, e.sl, o.regions))
        \/ (e.dlen > 0 /\ Overlaps(e.doff, e.dlen, o.regions)) \/ (e.tags_ok /\ SelfOverlap(RegionsOf(e))), "StructuresOverlap")
  \o (IF ~known THEN <<>>       \* surplus directories are reported once, at Eof
      ELSE LET f == o.acq.frames[i + 1] IN
           If(e.tags_ok /\ (e.w # f.w \/ e.h # f.h), "WrongWidthHeight")
           \o If(e.tags_ok /\ e.bits # f.bits, "WrongBitsPerSample")
           \o If(e.tags_ok /\ e.fmt # f.fmt, "WrongSampleFormat")
           \o If(e.tags_ok /\ (e.sl < f.npx \/ ~e.bytes_ok), "StripBytesDiffer")
           \o If(~e.json_ok, "DescriptionNotJson")
           \o If(e.json_ok /\ ~e.ids_ok, "DescriptionWrongIds")
           \o If(o.acq.kind = "tiff" /\ i = 0 /\ o.acq.meta /\ e.json_ok /\ ~(e.has_meta /\ e.meta_ok), "MetadataNotOnFirstFrame")
           \o If(o.acq.kind = "tiff" /\ i = 0 /\ ~o.acq.meta /\ e.json_ok /\ e.has_meta, "MetadataNotTheUsers")
           \* the user's metadata belongs to the first frame only, whatever the grouping into append packets
           \o If(o.acq.kind = "tiff" /\ i > 0 /\ e.json_ok /\ e.has_meta, "MetadataOnLaterFrame"))

EofRules(e) ==
  If(e.stop = "nofile", "FileMissing")
  \o If(e.stop # "nofile" /\ e.n < o.acq.n, "TooFewDirectories")
  \o If(e.n > o.acq.n, "TooManyDirectories")
  \o If(e.stop \notin {"zero", "nofile"}, "ChainNotTerminated")
  \o If(o.acq.kind = "tiff-json" /\ o.acq.meta /\ ~(e.mj_exists /\ e.mj_ok), "MetadataJsonWrong")
  \o If(e.n # o.count \/ (e.stop = "zero" /\ o.hdr /\ o.expect # 0), "HarnessEofCount")

Step ==
  /\ l <= Len(Tr) /\ ~done /\ l' = l + 1 /\ done' = FALSE
  /\ LET e == Ev  k == e.e IN
     CASE k = "Acq" -> /\ Flag(If(e.n < 1 \/ Len(e.frames) # e.n, "HarnessBadAcq"))
                       /\ o' = OInit([x |-> e.x, a |-> e.a, kind |-> e.kind, n |-> e.n, meta |-> e.meta,
                                         unit |-> IF "unit" \in DOMAIN e /\ e.unit \in {1, 8} THEN e.unit ELSE 1, frames |-> e.frames])
       [] k = "Hdr" -> /\ Flag(If(e.exists /\ ~e.ok, "BadHeader")
                               \o If(e.exists /\ e.ok /\ (e.first < HdrLen \/ e.first >= e.size), "FirstLinkOutsideFile"))
                       /\ o' = [o EXCEPT !.size = e.size, !.hdr = e.ok, !.expect = e.first, !.regions = <<<<0, HdrLen>>>>]
       [] k = "Ifd" -> /\ Flag(IfdRules(e))
                       /\ o' = [o EXCEPT !.expect = e.next, !.count = o.count + 1,
                                         !.regions = IF Len(o.regions) < 64 THEN o.regions \o RegionsOf(e) ELSE o.regions]
       [] k = "Eof" -> Flag(EofRules(e)) /\ o' = o
       [] OTHER -> Flag(<<"UnknownEvent">>) /\ o' = o

Finish ==
  /\ l = Len(Tr) + 1 /\ ~done /\ done' = TRUE
  /\ PrintT(<<"VERDICT", ToJson([consumed |-> l - 1, nbad |-> nbad, bad |-> bad])>>)
  /\ UNCHANGED <<l, o, bad, nbad>>

Next == Step \/ Finish
Spec == Init /\ [][Next]_vars
=============================================================================
