----------------------------- MODULE RawWriter -----------------------------
(***************************************************************************)
(* Implementation-shaped model of the raw storage device (raw.c) driven     *)
(* through the HAL (storage.c) on top of platform.c's file calls, composed   *)
(* with the small OS model of FileOsModel.  Properties C14 and C16.          *)
(*                                                                         *)
(* Variables mirror struct Raw { writer.state; properties.uri; file.fid;    *)
(* offset } per device instance; one action per HAL call.  Sizes are in      *)
(* cells (one cell = u bytes of a packet; the harness scales by u).          *)
(*                                                                         *)
(* FIXED = 1 models the repaired code (raw_start resets `offset` and marks   *)
(* the file open; raw_stop closes only an open file);  FIXED = 0 the code as *)
(* it was (offset carried over; raw_stop closes file.fid unconditionally, so *)
(* destroy closes descriptor 0 or closes a second time).                     *)
(*                                                                         *)
(* Ghost state: what was appended since the matching start; `err` collects   *)
(* the names of broken clauses:                                              *)
(*   FileNotAppended        at stop the file differs from the concatenation  *)
(*   FailureNotReported     an append during which an OS call failed left    *)
(*                          the device Running                               *)
(*   CloseStdDescriptor / CloseNotOpen / CloseForeignDescriptor /            *)
(*   WriteNotOpen / WriteForeignDescriptor / DescriptorLeak                  *)
(***************************************************************************)
EXTENDS FileOsModel, Json

CONSTANTS NDev,          \* device instances 1..NDev (instance 1 is the one under test, the others compete for descriptors)
          NPaths,        \* fresh paths available
          MaxCycles,     \* start/stop cycles of instance 1
          MaxAppends,    \* appends per cycle of instance 1
          PacketSizes,   \* set of packet sizes in cells
          NScripts,      \* the first NScripts entries of AllScripts are used as short-write scripts
          MaxFaultAt,    \* faults: none, or the k-th fallible OS call for k in 1..MaxFaultAt, transient or persistent
          FIXED,
          SetRunning,    \* TRUE: storage_set is also called on a running device (acquire_configure during an acquisition)
          FIX_SET        \* 1: storage_set stops a running device whose new settings were rejected (as camera_set does);
                         \* 0: as it was - the HAL reports AwaitingConfiguration while the driver keeps its file open

Devs == 1..NDev
AllScripts == << <<>>, <<"H">>, <<"Z", "H">>, <<"Z", "Z", "Z">>, <<"S1", "Z", "S1">>, <<"H", "H">>, <<"Z", "Z", "S1", "Z">> >>
Scripts == {AllScripts[i] : i \in 1..NScripts}
Paths == 1..NPaths
CLOSED == 0
AWAIT == 1
ARMED == 2
RUNNING == 3

VARIABLES dev,      \* [Devs -> struct Raw + HAL handle]
          os,       \* OS state (FileOsModel)
          gh,       \* ghost per device: appended cells, clean flag
          used,     \* number of paths handed out so far (paths are fresh per configuration)
          err, lastAct, hist
vars == <<dev, os, gh, used, err, lastAct, hist>>

Lim(d) == IF d = 1 THEN [cyc |-> MaxCycles, app |-> MaxAppends] ELSE [cyc |-> 1, app |-> 1]
NoDev == [open |-> FALSE, state |-> CLOSED, fid |-> 0, offset |-> 0, isopen |-> FALSE, path |-> 0, rpath |-> 0, cyc |-> 0, napp |-> 0]
NoGh == [app |-> <<>>, clean |-> FALSE, total |-> 0, fresh |-> FALSE]
FaultSet == {[at |-> 0, pers |-> FALSE]} \cup {[at |-> k, pers |-> b] : k \in 1..MaxFaultAt, b \in BOOLEAN}

Init ==
  /\ dev = [d \in Devs |-> NoDev]
  /\ \E f \in FaultSet :
       os = [fdt |-> [x \in FdSet |-> 0], own |-> [x \in FdSet |-> 0], files |-> [p \in Paths |-> <<>>], ncall |-> 0, fault |-> f]
  /\ gh = [d \in Devs |-> NoGh]
  /\ used = 0 /\ err = {}
  /\ lastAct = [op |-> "init", d |-> 0, arg |-> 0, sw |-> <<>>, st |-> 0, os |-> <<>>]
  /\ hist = <<>>

\* ---- raw.c ---------------------------------------------------------------------------------------------
\* raw_stop: file_close(&self->file) -- repaired: only when the file is open
RawStop(m, d, s) ==
  IF FIXED = 1 THEN (IF s.isopen THEN <<OsClose(m, d, s.fid), [s EXCEPT !.isopen = FALSE]>> ELSE <<m, s>>)
  ELSE <<OsClose(m, d, s.fid), s>>

\* the C14 clause, evaluated when an acquisition that reported no failure is stopped
StopCheck(m, d, s) ==
  IF Ghost /\ gh[d].clean /\ s.rpath # 0 /\ m.files[s.rpath] # gh[d].app THEN Bad(m, "FileNotAppended") ELSE m

Commit(m, d, s, g, label) ==
  /\ dev' = [dev EXCEPT ![d] = s]
  /\ os' = OsOf(m)
  /\ gh' = [gh EXCEPT ![d] = g]
  /\ err' = err \cup m.err
  /\ lastAct' = [label EXCEPT !.st = s.state, !.os = m.log]
  /\ hist' = (IF Export THEN Append(hist, lastAct') ELSE hist)

Label(op, d, arg, sw) == [op |-> op, d |-> d, arg |-> arg, sw |-> sw, st |-> 0, os |-> <<>>]

\* storage_open -> raw_init: memset 0, state AwaitingConfiguration
DoOpen(d) ==
  /\ ~dev[d].open
  /\ Commit(Machine(os, <<>>), d, [NoDev EXCEPT !.open = TRUE, !.state = AWAIT], NoGh, Label("open", d, 0, <<>>))
  /\ UNCHANGED used

\* storage_set -> raw_set: file_is_writable(path) (create, close, unlink), copy properties.
\* On a running device (SetRunning): accepted settings leave it Running (they apply to the next start; the open file is
\* the one named at start: rpath); rejected settings take it out of the running state - repaired (FIX_SET = 1) after the
\* HAL stopped it (raw_stop closes the file), as it was (FIX_SET = 0) with the file still open behind AwaitingConfiguration.
DoSet(d) ==
  /\ dev[d].open /\ (dev[d].state # RUNNING \/ SetRunning) /\ used < NPaths /\ dev[d].cyc < Lim(d).cyc
  /\ LET p == used + 1
         run == dev[d].state = RUNNING
         m == FileIsWritable(Machine(os, <<>>), d, p)
         r == IF run /\ ~m.ok /\ FIX_SET = 1 THEN RawStop(m, d, dev[d]) ELSE <<m, dev[d]>>
         s == IF m.ok THEN [dev[d] EXCEPT !.state = IF run THEN RUNNING ELSE ARMED, !.path = p] ELSE [r[2] EXCEPT !.state = AWAIT] IN
     \* paths are fresh per acquisition (file_create never truncates: re-using a path is outside the property)
     Commit(r[1], d, s, [gh[d] EXCEPT !.fresh = m.ok, !.clean = @ /\ (m.ok \/ ~run)], Label("set", d, p, <<>>))
  /\ used' = used + 1

\* storage_start (state must be Armed) -> raw_start: file_create
DoStart(d) ==
  /\ dev[d].open /\ dev[d].state = ARMED /\ dev[d].cyc < Lim(d).cyc /\ gh[d].fresh
  /\ LET m == FileCreate(Machine(os, <<>>), d, dev[d].path)
         s0 == [dev[d] EXCEPT !.fid = m.r, !.cyc = @ + 1, !.napp = 0, !.rpath = dev[d].path]
         s == IF m.ok THEN (IF FIXED = 1 THEN [s0 EXCEPT !.state = RUNNING, !.offset = 0, !.isopen = TRUE]
                                          ELSE [s0 EXCEPT !.state = RUNNING])
              ELSE [s0 EXCEPT !.state = AWAIT] IN
     Commit(m, d, s, [app |-> <<>>, clean |-> m.ok, total |-> 0, fresh |-> FALSE], Label("start", d, 0, <<>>))
  /\ UNCHANGED used

\* storage_append (state must be Running) -> raw_append: file_write at the running offset; on failure raw_stop
DoAppend(d, n, sc) ==
  /\ dev[d].open /\ dev[d].state = RUNNING /\ dev[d].napp < Lim(d).app
  /\ LET data == [i \in 1..n |-> <<d, dev[d].cyc, gh[d].total + i>>]
         m1 == FileWrite(Machine(os, sc), d, dev[d].fid, dev[d].offset, data)
         s1 == [dev[d] EXCEPT !.napp = @ + 1]
         ms == IF m1.ok THEN <<m1, [s1 EXCEPT !.offset = @ + n]>>
               ELSE LET r == RawStop(m1, d, s1) IN <<r[1], [r[2] EXCEPT !.state = ARMED]>>
         m2 == IF ms[1].failed /\ ms[2].state = RUNNING THEN Bad(ms[1], "FailureNotReported") ELSE ms[1]
         g == [gh[d] EXCEPT !.app = @ \o data, !.clean = @ /\ ms[2].state = RUNNING, !.total = @ + n] IN
     Commit(m2, d, ms[2], g, Label("append", d, n, sc))
  /\ UNCHANGED used

\* storage_stop (only when Running) -> raw_stop
DoStop(d) ==
  /\ dev[d].open /\ dev[d].state = RUNNING
  /\ LET r == RawStop(Machine(os, <<>>), d, dev[d])
         m == StopCheck(r[1], d, r[2]) IN
     Commit(m, d, [r[2] EXCEPT !.state = ARMED], [gh[d] EXCEPT !.clean = FALSE, !.app = <<>>], Label("stop", d, 0, <<>>))
  /\ UNCHANGED used

\* storage_close: storage_stop, state Closed, driver close -> raw_destroy: raw_stop again, free
DoClose(d) ==
  /\ dev[d].open
  /\ LET r1 == IF dev[d].state = RUNNING
               THEN LET r == RawStop(Machine(os, <<>>), d, dev[d]) IN <<StopCheck(r[1], d, r[2]), r[2]>>
               ELSE <<Machine(os, <<>>), dev[d]>>
         r2 == RawStop(r1[1], d, r1[2])
         m == IF Owns(OsOf(r2[1]), d) # {} THEN Bad(r2[1], "DescriptorLeak") ELSE r2[1] IN
     Commit(m, d, [NoDev EXCEPT !.cyc = dev[d].cyc], NoGh, Label("close", d, 0, <<>>))
  /\ UNCHANGED used

\* ---- next-state relation, one named disjunct per HAL call ---------------------------------------------------
L_Open == \E d \in Devs : DoOpen(d)
L_Set == \E d \in Devs : DoSet(d)
L_Start == \E d \in Devs : DoStart(d)
L_Append == \E d \in Devs : \E n \in PacketSizes : \E sc \in Scripts : DoAppend(d, n, sc)
L_Stop == \E d \in Devs : DoStop(d)
L_Close == \E d \in Devs : DoClose(d)
Next == L_Open \/ L_Set \/ L_Start \/ L_Append \/ L_Stop \/ L_Close
Spec == Init /\ [][Next]_vars

\* the call counter only matters until the fault has struck
NormCall == LET f == os.fault IN IF f.at = 0 THEN 0 ELSE IF os.ncall >= f.at THEN -1 ELSE os.ncall
View == <<dev, [os EXCEPT !.ncall = NormCall], gh, used, err>>

\* ---- properties ---------------------------------------------------------------------------------------------
NoErr == err = {}
TypeOK ==
  /\ \A d \in Devs : dev[d].state \in {CLOSED, AWAIT, ARMED, RUNNING} /\ dev[d].offset >= 0
  /\ \A f \in FdSet : os.fdt[f] \in Paths \cup {0}
\* repaired code: a Running device owns exactly the descriptor in its struct, anything else owns nothing
OwnsItsFile == (FIXED = 1 /\ FIX_SET = 1) => \A d \in Devs : Owns(os, d) = (IF dev[d].state = RUNNING THEN {dev[d].fid} ELSE {})
\* repaired code: while Running and clean the file is exactly what was appended so far and offset is its length
RunningFile == (FIXED = 1 /\ Ghost) => \A d \in Devs : (dev[d].state = RUNNING /\ gh[d].clean) =>
                  (os.files[dev[d].rpath] = gh[d].app /\ dev[d].offset = Len(gh[d].app))

\* ---- export of every transition with a witness history (VIEW hides hist) -------------------------------------
EmitEdge == PrintT(<<"EDGE", ToJson([fault |-> os.fault, path |-> hist'])>>)
=============================================================================
