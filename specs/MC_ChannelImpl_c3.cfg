CONSTANTS Cap = 3 MaxReaders = 2 MaxWrite = 2 WithAccept = TRUE FIXED = 1 SampleMod = 1
SPECIFICATION Spec
VIEW View
INVARIANTS NoErr TypeOK LagBounded MappedInside Cursors
PROPERTY LagStep
CHECK_DEADLOCK FALSE
