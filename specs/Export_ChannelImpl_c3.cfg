CONSTANTS Cap = 3 MaxReaders = 2 MaxWrite = 2 WithAccept = TRUE FIXED = 1 SampleMod = 1
SPECIFICATION Spec
VIEW View
INVARIANT NoErr
ACTION_CONSTRAINT EmitSample
CHECK_DEADLOCK FALSE
