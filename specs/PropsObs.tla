------------------------------ MODULE PropsObs ------------------------------
(***************************************************************************)
(* Observation specification of StorageProperties (property C13), written  *)
(* as a TOTAL trace specification: every event of a recorded trace is      *)
(* consumed; an event that a rule forbids appends <<rule, line>> to `bad`  *)
(* instead of blocking.  It knows nothing about how storage.c works: only   *)
(* the API calls, what every object looks like after each call, and what    *)
(* the allocator was asked to do meanwhile.                                 *)
(*                                                                         *)
(* Events (ndjson, field e):                                                *)
(*   Reset{nobj, sz}      new execution: nobj zeroed objects, empty heap;   *)
(*                        sz = sizeof(struct StorageDimension)              *)
(*   Call{f, o, s}        API function f entered on object o (copy: o = dst,*)
(*                        s = src); f = "borrow" is the client pointing a   *)
(*                        string field at its own memory with is_ref = 1    *)
(*   M{a, n}              malloc/calloc(n) returned address id a (0 = NULL) *)
(*   R{a, k, b, n}        realloc(a, n) returned b; k as for F              *)
(*   F{a, k}              free(a); k = 0 start of a block the allocator     *)
(*                        handed out, 1 inside one, 2 caller memory,        *)
(*                        3 NULL, 4 unknown                                 *)
(*   Ret{r, objs}         the call returned r; objs = projection of every   *)
(*                        object: s = the four strings (uri, metadata, key, *)
(*                        secret) each <<address id, nbytes, is_ref,        *)
(*                        content id of the first nbytes-1 bytes, last byte *)
(*                        is NUL>>, f, px, py, ms, dp (address id of the    *)
(*                        dimension array), dn (its size), d = the entries  *)
(*                        [nm (a string), k, a, c, s]                       *)
(*   San{kind}            the address sanitizer reported an access          *)
(*   Crash{sig}           the call died with a signal                       *)
(*   End                  end of an execution                               *)
(*                                                                         *)
(* Rules = the clauses of C13:                                              *)
(*   "releases each allocation exactly once":  FreeNotLive, ReallocNotLive, *)
(*        LeakAfterAllDestroyed (every object's last call was destroy, or   *)
(*        no object holds an owned pointer, and allocations are still out), *)
(*        DanglingPointer                                                   *)
(*   "shares no memory":  SharedBuffer, CopySharesMemory, BystanderChanged  *)
(*   "leaves the source untouched":  CopySourceChanged                      *)
(*   "destination equal to the source in every field":  CopyNotEqual        *)
(*   "every stored string stays NUL-terminated with its recorded length":   *)
(*        StringNotTerminated, StringOverrunsBuffer, DimsOverrunBuffer,     *)
(*        DimsUnreadable                                                    *)
(*   instruments:  SanitizerReport, Crash                                   *)
(* Harness* / MalformedEvent / UnknownEvent flag a broken harness or trace. *)
(***************************************************************************)
EXTENDS Naturals, Integers, Sequences, FiniteSets, TLC, Json, IOUtils

Tr == ndJsonDeserialize(IOEnv.TRACE)

VARIABLES l,      \* next line of Tr
          o,      \* observation state
          bad,    \* sequence of <<rule, line>> (first 200 only)
          nbad,
          done
vars == <<l, o, bad, nbad, done>>

NoCall == [f |-> "none", o |-> 0, s |-> 0]
ObsInit(nobj, sz) ==
  [ nobj |-> nobj, sz |-> sz,
    live |-> << >>,            \* address id -> size, for every allocation handed out and not yet released
    objs |-> << >>,            \* projection after the last call that returned (<<>> = all objects zero)
    dirty |-> {},              \* objects that were the target of a call since they were last destroyed
    call |-> NoCall ]          \* the call in progress

Init == /\ l = 1 /\ o = ObsInit(0, 1) /\ bad = <<>> /\ nbad = 0 /\ done = FALSE

Ev == Tr[l]
Has(fs) == fs \subseteq DOMAIN Ev
Flag(rules) == /\ bad' = (IF Len(bad) < 200 THEN bad \o [i \in 1..Len(rules) |-> <<rules[i], l>>] ELSE bad)
               /\ nbad' = nbad + Len(rules)
If(c, name) == IF c THEN <<name>> ELSE <<>>

Live(a) == a \in DOMAIN o.live
Without(f, a) == [x \in (DOMAIN f) \ {a} |-> f[x]]
With(f, a, n) == [x \in (DOMAIN f) \cup {a} |-> IF x = a THEN n ELSE f[x]]

\* ---- shape of a projection (so that a damaged trace is flagged, not a TLC evaluation error) -------------------------
WFStr(S) == Len(S) = 5
WFObj(ob) == /\ {"s", "f", "px", "py", "ms", "dp", "dn", "d"} \subseteq DOMAIN ob
             /\ Len(ob.s) = 4 /\ \A i \in 1..4 : WFStr(ob.s[i])
             /\ \A j \in 1..Len(ob.d) : {"nm", "k", "a", "c", "s"} \subseteq DOMAIN ob.d[j] /\ WFStr(ob.d[j].nm)
WFObjs(os) == Len(os) = o.nobj /\ \A i \in 1..Len(os) : WFObj(os[i])

\* ---- what an object points at ---------------------------------------------------------------------------------------
Strs(ob) == ob.s \o [j \in 1..Len(ob.d) |-> ob.d[j].nm]
Addrs(ob) == [i \in 1..Len(Strs(ob)) |-> Strs(ob)[i][1]] \o <<ob.dp>>
RECURSIVE AddrsUpTo(_, _)
AddrsUpTo(os, i) == IF i = 0 THEN <<>> ELSE AddrsUpTo(os, i - 1) \o Addrs(os[i])
OwnedStr(S) == S[3] = 0 /\ S[1] # 0
Destroyed(ob) == ob.dp = 0 /\ \A i \in 1..Len(Strs(ob)) : ~OwnedStr(Strs(ob)[i])

\* ---- rules on the state every call leaves behind ----------------------------------------------------------------------
\* lv = the allocations live after the call
StrRules(lv, S) ==
  IF ~OwnedStr(S) THEN <<>>
  ELSE IF S[1] \notin DOMAIN lv THEN <<"DanglingPointer">>
  ELSE If(S[2] < 1 \/ S[2] > lv[S[1]], "StringOverrunsBuffer")
       \o If(S[2] >= 1 /\ S[2] <= lv[S[1]] /\ S[5] # 1, "StringNotTerminated")
RECURSIVE StrsRules(_, _, _)
StrsRules(lv, ss, i) == IF i = 0 THEN <<>> ELSE StrsRules(lv, ss, i - 1) \o StrRules(lv, ss[i])
ObjRules(lv, ob) ==
  (IF ob.dp = 0 THEN <<>>
   ELSE IF ob.dp \notin DOMAIN lv THEN <<"DanglingPointer">>
   ELSE IF ob.dn < 0 \/ ob.dn > 100000 \/ ob.dn * o.sz > lv[ob.dp] THEN <<"DimsOverrunBuffer">>
   ELSE If(Len(ob.d) # ob.dn, "DimsUnreadable"))
  \o StrsRules(lv, Strs(ob), Len(Strs(ob)))
RECURSIVE ObjsRules(_, _, _)
ObjsRules(lv, os, i) == IF i = 0 THEN <<>> ELSE ObjsRules(lv, os, i - 1) \o ObjRules(lv, os[i])
Shared(os) == LET a == AddrsUpTo(os, Len(os)) IN \E i, j \in 1..Len(a) : i < j /\ a[i] > 0 /\ a[i] = a[j]

\* ---- rules on copy ------------------------------------------------------------------------------------------------------
NormStr(S) == IF S[1] = 0 \/ S[2] = 0 THEN <<0, 1>> ELSE <<S[4], S[2]>>      \* NULL == ""
StrEq(A, B) == NormStr(A) = NormStr(B) /\ NormStr(A)[1] >= 0
\* A is the destination's string, B the source's.  A source string that lives in the client's memory (is_ref) and is not
\* NUL-terminated within nbytes has no well-defined C-string value: nothing is demanded of its copy except what the
\* rules on stored strings demand anyway.
Unterminated(B) == B[3] # 0 /\ B[1] # 0 /\ B[2] # 0 /\ B[5] # 1
ObjEq(a, b) ==
  /\ \A i \in 1..4 : Unterminated(b.s[i]) \/ StrEq(a.s[i], b.s[i])
  /\ a.f = b.f /\ a.px = b.px /\ a.py = b.py /\ a.ms = b.ms
  /\ a.dn = b.dn /\ Len(a.d) = Len(b.d)
  /\ \A j \in 1..Len(a.d) : j <= Len(b.d) =>
        /\ StrEq(a.d[j].nm, b.d[j].nm)
        /\ a.d[j].k = b.d[j].k /\ a.d[j].a = b.d[j].a /\ a.d[j].c = b.d[j].c /\ a.d[j].s = b.d[j].s
RealAddr(x) == x > 0 \/ (x < 0 /\ x > 0 - 900)
SharesWith(a, b) == \E i \in 1..Len(Addrs(a)), j \in 1..Len(Addrs(b)) : RealAddr(Addrs(a)[i]) /\ Addrs(a)[i] = Addrs(b)[j]

ZeroStr == <<0, 0, 0, 0, 1>>
ZeroObjP == [s |-> <<ZeroStr, ZeroStr, ZeroStr, ZeroStr>>, f |-> 0, px |-> 0, py |-> 0, ms |-> 0, dp |-> 0, dn |-> 0, d |-> <<>>]
Pre(i) == IF i >= 1 /\ i <= Len(o.objs) THEN o.objs[i] ELSE ZeroObjP

DirtyAfter == IF o.call.f = "destroy" THEN o.dirty \ {o.call.o} ELSE o.dirty \cup {o.call.o}
RetRules(os, r) ==
  LET c == o.call
      isCopy == c.f = "copy" /\ c.o \in 1..o.nobj /\ c.s \in 1..o.nobj /\ c.o # c.s
      targets == IF isCopy THEN {c.o, c.s} ELSE {c.o}
  IN ObjsRules(o.live, os, Len(os))
     \o If(c.f # "borrow" /\ Shared(os), "SharedBuffer")      \* (a borrow is the client's own doing, not the library's)
     \o If(\E i \in 1..Len(os) : i \notin targets /\ os[i] # Pre(i), "BystanderChanged")
     \o (IF isCopy
         THEN If(os[c.s] # Pre(c.s), "CopySourceChanged")
              \o If(r = 1 /\ ~ObjEq(os[c.o], os[c.s]), "CopyNotEqual")
              \o If(SharesWith(os[c.o], os[c.s]), "CopySharesMemory")
         ELSE <<>>)
     \* every object has been destroyed (by the call history, or visibly: no object holds an owned pointer any more),
     \* yet allocations are still outstanding
     \o If((DirtyAfter = {} \/ \A i \in 1..Len(os) : Destroyed(os[i])) /\ DOMAIN o.live # {}, "LeakAfterAllDestroyed")

\* ---- one step per trace line ----------------------------------------------------------------------------------------------
InCall == o.call.f # "none"
Step ==
  /\ l <= Len(Tr) /\ ~done
  /\ l' = l + 1 /\ done' = FALSE
  /\ IF ~Has({"e"}) THEN Flag(<<"MalformedEvent">>) /\ o' = o
     ELSE LET e == Ev.e IN
     CASE e = "Reset" ->
            IF Has({"nobj", "sz"}) /\ Ev.nobj \in 1..8 /\ Ev.sz \in 1..4096
            THEN o' = ObsInit(Ev.nobj, Ev.sz) /\ Flag(<<>>)
            ELSE o' = o /\ Flag(<<"MalformedEvent">>)
       [] e = "Call" ->
            IF ~Has({"f", "o", "s"}) THEN o' = o /\ Flag(<<"MalformedEvent">>)
            ELSE /\ o' = [o EXCEPT !.call = [f |-> Ev.f, o |-> Ev.o, s |-> Ev.s]]
                 /\ Flag(If(InCall, "HarnessNestedCall") \o If(Ev.o \notin 1..o.nobj, "MalformedEvent"))
       [] e = "M" ->
            IF ~Has({"a", "n"}) THEN o' = o /\ Flag(<<"MalformedEvent">>)
            ELSE /\ Flag(If(~InCall, "HarnessAllocOutsideCall") \o If(Ev.a > 0 /\ Live(Ev.a), "HarnessAllocatorReusedLive"))
                 /\ o' = (IF Ev.a > 0 THEN [o EXCEPT !.live = With(o.live, Ev.a, Ev.n)] ELSE o)
       [] e = "F" ->
            IF ~Has({"a", "k"}) THEN o' = o /\ Flag(<<"MalformedEvent">>)
            ELSE IF Ev.k = 3 THEN o' = o /\ Flag(If(~InCall, "HarnessAllocOutsideCall"))          \* free(NULL)
            ELSE IF Ev.k = 0 /\ Live(Ev.a)
                 THEN o' = [o EXCEPT !.live = Without(o.live, Ev.a)] /\ Flag(If(~InCall, "HarnessAllocOutsideCall"))
                 ELSE o' = o /\ Flag(<<"FreeNotLive">>)
       [] e = "R" ->
            IF ~Has({"a", "k", "b", "n"}) THEN o' = o /\ Flag(<<"MalformedEvent">>)
            ELSE IF Ev.k # 3 /\ ~(Ev.k = 0 /\ Live(Ev.a)) THEN o' = o /\ Flag(<<"ReallocNotLive">>)
            ELSE LET lv1 == IF Ev.k = 3 THEN o.live ELSE Without(o.live, Ev.a)
                     clash == Ev.b > 0 /\ Ev.b \in DOMAIN lv1
                     lv2 == IF Ev.b > 0 THEN With(lv1, Ev.b, Ev.n) ELSE o.live      \* a failed realloc leaves the old block alone
                 IN /\ o' = [o EXCEPT !.live = lv2]
                    /\ Flag(If(~InCall, "HarnessAllocOutsideCall") \o If(clash, "HarnessAllocatorReusedLive"))
       [] e = "Ret" ->
            IF ~Has({"r", "objs"}) THEN o' = [o EXCEPT !.call = NoCall] /\ Flag(<<"MalformedEvent">>)
            ELSE IF ~InCall THEN o' = o /\ Flag(<<"HarnessRetWithoutCall">>)
            ELSE IF ~WFObjs(Ev.objs) THEN o' = [o EXCEPT !.call = NoCall] /\ Flag(<<"MalformedEvent">>)
            ELSE LET rules == RetRules(Ev.objs, Ev.r)
                     leaked == \E i \in 1..Len(rules) : rules[i] = "LeakAfterAllDestroyed"
                 IN /\ Flag(rules)
                    \* a leak is reported once: the leaked allocations are forgotten afterwards
                    /\ o' = [o EXCEPT !.call = NoCall, !.objs = Ev.objs, !.dirty = DirtyAfter,
                                      !.live = IF leaked THEN << >> ELSE o.live]
       [] e = "San" -> o' = o /\ Flag(<<"SanitizerReport">>)
       [] e = "Crash" -> o' = [o EXCEPT !.call = NoCall] /\ Flag(<<"Crash">>)
       [] e = "End" -> o' = o /\ Flag(If(InCall, "HarnessEndInsideCall"))
       [] OTHER -> o' = o /\ Flag(<<"UnknownEvent">>)

Finish ==
  /\ l = Len(Tr) + 1 /\ ~done
  /\ done' = TRUE
  /\ PrintT(<<"VERDICT", ToJson([consumed |-> l - 1, nbad |-> nbad, bad |-> bad])>>)
  /\ UNCHANGED <<l, o, bad, nbad>>

Next == Step \/ Finish
Spec == Init /\ [][Next]_vars
=============================================================================
