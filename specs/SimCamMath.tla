----------------------------- MODULE SimCamMath -----------------------------
(***************************************************************************)
(* Size / shape arithmetic of the simulated cameras (property C17), shared *)
(* by the implementation-shaped model SimCamConfig and by the observation  *)
(* spec SimCamObs.  Everything is an integer (TLC cannot mix strings and   *)
(* integers, and these values also travel through ndjson traces):          *)
(*                                                                         *)
(*   kind  0 = uniform random, 1 = radial sin, 2 = empty  (BasicDeviceKind) *)
(*   type  0 u8, 1 u16, 2 i8, 3 i16, 4 f32, 5 u10, 6 u12, 7 u14 (SampleType) *)
(*   avx   1 = bin2.avx2.c was compiled in, 0 = bin2.plain.c               *)
(*                                                                         *)
(* MAXDIM is MAX_IMAGE_WIDTH = MAX_IMAGE_HEIGHT = 1<<13 of                 *)
(* simulated.camera.c.  It is NOT scaled down for the model: the largest   *)
(* value that occurs is 8192*8192*4 = 2^28, inside TLC's 32-bit integers,  *)
(* so model configurations are replayed on the real code unchanged.        *)
(***************************************************************************)
EXTENDS Naturals, Integers

MAXDIM == 8192

Max2(a, b) == IF a > b THEN a ELSE b
Max3(a, b, c) == Max2(a, Max2(b, c))
Align32(n) == ((n + 31) \div 32) * 32            \* aligned_bytes_of_image: ((n+31)>>5)<<5

ValidType(t) == t \in 0..7
BytesOfType(t) == IF t \in {0, 2} THEN 1 ELSE IF t \in {1, 3, 5, 6, 7} THEN 2 ELSE IF t = 4 THEN 4 ELSE 0
SinSupports(t) == t \in {0, 1, 2, 3, 4}           \* im_fill_pattern: other types only log an error

IsPow2(b) == b \in {1, 2, 4, 8, 16, 32, 64, 128}  \* popcount_u8(b) == 1
NormBin(b) == IF b = 0 THEN 1 ELSE b             \* `if (!binning) binning = 1` (simcam_set and camera_set)
Log2(b) == IF b >= 128 THEN 7 ELSE IF b >= 64 THEN 6 ELSE IF b >= 32 THEN 5 ELSE IF b >= 16 THEN 4
           ELSE IF b >= 8 THEN 3 ELSE IF b >= 4 THEN 2 ELSE IF b >= 2 THEN 1 ELSE 0
Shr(x, k) == x \div (2 ^ k)

MaxDimFor(b) == MAXDIM \div b                     \* (uint32_t)((float)MAX / (float)binning), exact for powers of two
Clamp(v, lo, hi) == IF v < lo THEN lo ELSE IF v > hi THEN hi ELSE v
ClampDim(v, b) == Clamp(v, 1, MaxDimFor(b))

BytesOfImage(w, h, t) == w * h * BytesOfType(t)   \* strides.planes * bytes_of_type, strides.planes = w*h (1 channel, 1 plane)

\* ---- what one streamer iteration touches in the render buffer ---------------------------------
\* im_fill_rand writes aligned_bytes_of_image(full) bytes in 4-byte words; the pattern fill writes element
\* strides.width*x + strides.height*y for x < W, y < H; the empty camera renders nothing.
FillExtent(kind, W, H, t) ==
  IF kind = 0 THEN Align32(BytesOfImage(W, H, t))
  ELSE IF kind = 1 THEN (IF SinSupports(t) THEN BytesOfImage(W, H, t) ELSE 0)
  ELSE 0

\* bin2.plain.c, as coded (row_end is computed from the image start, so only the first row / row pair is
\* averaged -- irrelevant here, only the highest index touched matters):
\*   horizontal: p = 0,2,.. < w touches p and p+1;  vertical (h >= 2): touches [0, 2w);
\*   compaction: memcpy of w bytes from 2kw for 2kw < w*h.
PlainBin2Extent(w, h) ==
  IF w <= 0 \/ h <= 0 THEN 0
  ELSE Max3(2 * ((w - 1) \div 2) + 2,
            IF h >= 2 THEN 2 * w ELSE 0,
            2 * ((h - 1) \div 2) * w + w)

\* bin2.avx2.c: 32-byte blocks, dy = w/32 blocks per row (floor), CEIL_BLOCKS(w) blocks visited per row;
\*   phase 1 reads block 2*y*dy + x + dy for y < h/2, x < ceil(w/32);
\*   phase 2 touches FLOOR_BLOCKS(w*h/2) blocks, phase 3 reads 2*FLOOR_BLOCKS(w*h/4) blocks.
AvxBin2Extent(w, h) ==
  IF w <= 0 \/ h <= 0 THEN 0
  ELSE LET dy == w \div 32
           cw == (w + 31) \div 32
           p1 == IF h \div 2 >= 1 THEN 32 * (2 * (h \div 2 - 1) * dy + (cw - 1) + dy + 1) ELSE 0
           p2 == 32 * (((w * h) \div 2) \div 32)
           p3 == 64 * (((w * h) \div 4) \div 32)
       IN Max3(p1, p2, p3)

Bin2Extent(avx, w, h) == IF avx = 1 THEN AvxBin2Extent(w, h) ELSE PlainBin2Extent(w, h)

\* `b = binning >> 1; while (b) { bin2(w,h); b >>= 1; w >>= 1; h >>= 1; }` on the full-resolution w,h (treated as bytes)
RECURSIVE BinPassesExtent(_, _, _, _)
BinPassesExtent(avx, w, h, passes) ==
  IF passes <= 0 THEN 0
  ELSE Max2(Bin2Extent(avx, w, h), BinPassesExtent(avx, w \div 2, h \div 2, passes - 1))

\* bytes of the render buffer touched by one iteration that captured the full-resolution shape W x H of type t
\* and then reads `binning` for the in-place passes
RenderExtent(avx, kind, W, H, t, binning) ==
  Max2(FillExtent(kind, W, H, t), IF binning > 1 THEN BinPassesExtent(avx, W, H, Log2(binning)) ELSE 0)

\* the extent for a configuration in effect: binned shape sx x sy, binning b
ConfigExtent(avx, kind, sx, sy, t, b) == RenderExtent(avx, kind, b * sx, b * sy, t, b)
=============================================================================
