CONSTANTS NObj = 3 MaxDims = 2 FIXED = 1 HistMode = 2 SampleMod = 1 WalkDepth = 10 Depth = 1000
 UriKinds = {0,1,2,3,4,5,6} MetaKinds = {0,2,3,4} KeyKinds = {0,1,2,3,4} NameKinds = {2,3,4} InitDims = {0,1,2} BorrowKinds = {0,2,4,5} DimTags = {1,2,3} MsVals = {0,1} WithBad = 1
SPECIFICATION Spec
CHECK_DEADLOCK FALSE
INVARIANTS NoErr NoShare NoDangling NoLeak DestroyedMeansEmpty Terminated DumpWalk
PROPERTIES CopyPost OthersUntouched
