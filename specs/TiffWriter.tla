----------------------------- MODULE TiffWriter -----------------------------
(***************************************************************************)
(* Implementation-shaped model of the BigTIFF writer (tiff.cpp) and of the  *)
(* composite tiff-json device (side-by-side-tiff.cpp, kind "sbs") that       *)
(* drives an inner Tiff through its vtable, both under the HAL (storage.c)   *)
(* and on top of platform.c's file calls, composed with FileOsModel.         *)
(* Properties C15 and C16.                                                   *)
(*                                                                         *)
(* Per device instance the variables mirror the C++ object:                  *)
(*   state (the inherited Storage::state that Tiff::stop() consults),        *)
(*   file_.fid, last_offset_, last_ifd_next_offset_, frame_count_,           *)
(*   filename_, external_metadata_ (non-empty or not);                       *)
(*   for the composite also the outer Storage::state and its properties.     *)
(* One action per HAL call; the call chain inside (write_ -> stop ->         *)
(* terminate_ifd_list -> write_ ..., the per-frame section arithmetic with   *)
(* align8, the write-all loop) is evaluated by recursive operators over a    *)
(* machine record, with a recursion depth bound standing for the C stack.    *)
(*                                                                         *)
(* Switches (1 = repaired code, 0 = code as it was):                         *)
(*   FIX_TIFF  write_ only reports a failed write; append returns failure at *)
(*             the first failed write (tiff_append then stops the writer),   *)
(*             start closes the file and fails when the header write fails.  *)
(*             As it was: write_ calls stop() itself, which re-enters write_ *)
(*             through terminate_ifd_list while `state` is still Running,    *)
(*             and append/start ignore failed writes.                        *)
(*   FIX_SBS   the composite stores the state returned by the inner writer's *)
(*             set/start/append/stop into the inner object (as the HAL does  *)
(*             for a top-level device) and stops it only when Running.       *)
(*             As it was: the inner `state` stays AwaitingConfiguration, so  *)
(*             the inner stop() neither terminates the chain nor closes.     *)
(*   FIX_META  set() forgets the previous external metadata when the new     *)
(*             configuration carries none.                                   *)
(*                                                                         *)
(* File cells: <<1,0,j>> header, <<2,F,j>> directory body of frame F,        *)
(* <<3,v,j>> j-th cell of a link word holding v, <<4,F,j>> strip, <<5,F,j>>  *)
(* description string, <<6,0,j>> metadata.json, HOLE.                         *)
(***************************************************************************)
EXTENDS FileOsModel, Json

CONSTANTS NDev, NPaths,
          Kinds1,        \* kinds instance 1 may be opened as: subset of {"tiff", "sbs"}
          MaxCycles, MaxAppends, MaxPacket,
          Real,          \* TRUE: byte sizes of the real format (A = 8, header 16, directory 336); FALSE: scaled down
          NKinds,        \* number of frame kinds used (of FrameKinds)
          NScripts, MaxFaultAt, MaxDepth,
          FIX_TIFF, FIX_SBS, FIX_META,
          SetRunning,    \* TRUE: storage_set is also called on a running device (acquire_configure during an acquisition)
          FIX_SET        \* 1: storage_set stops a running device whose new settings were rejected (as camera_set does);
                         \* 0: as it was - the HAL stores AwaitingConfiguration over Running, after which Tiff::stop()
                         \*    (which consults that state) never finishes or closes the file

A == IF Real THEN 8 ELSE 2                 \* alignment of sections
HdrSz == 2 * A                             \* header: magic word + first-directory word
IfdSz == IF Real THEN 336 ELSE 3 * A       \* count word, tag block, link word
MetaSz == IF Real THEN 19 ELSE 2           \* growth of the first description when metadata is configured
MjSz == IF Real THEN 7 ELSE 1              \* size of metadata.json
FrameKinds == IF Real THEN << [d |-> 8, s |-> 77], [d |-> 13, s |-> 88], [d |-> 24, s |-> 81] >>
                      ELSE << [d |-> 1, s |-> 2], [d |-> 3, s |-> 1], [d |-> 2, s |-> 3] >>
AllScripts == << <<>>, <<"H">>, <<"F", "H">>, <<"Z", "Z", "Z">>, <<"F", "F", "Z", "H">>, <<"F", "Z", "Z", "Z">>, <<"H", "H", "H">> >>
Scripts == {AllScripts[i] : i \in 1..NScripts}

Devs == 1..NDev
Paths == 1..NPaths
FileIds == Paths \cup {100 + p : p \in Paths} \cup {200 + p : p \in Paths}
CLOSED == 0
AWAIT == 1
ARMED == 2
RUNNING == 3

VARIABLES dev, os, gh, used, err, crashed, lastAct, hist
vars == <<dev, os, gh, used, err, crashed, lastAct, hist>>

\* the other instances only compete for descriptor numbers: one acquisition, nothing appended
Lim(d) == IF d = 1 THEN [cyc |-> MaxCycles, app |-> MaxAppends] ELSE [cyc |-> 1, app |-> 0]
NoDev == [open |-> FALSE, kind |-> "none", ostate |-> CLOSED, opath |-> 0, ometa |-> FALSE,
          state |-> CLOSED, fid |-> 0, lastOff |-> 0, lastLink |-> 0, count |-> 0, file |-> 0, rfile |-> 0, meta |-> FALSE,
          cyc |-> 0, napp |-> 0]
\* want: metadata of the last accepted configuration; fwant: what the first frame of the file being written has to carry
NoGh == [dirs |-> <<>>, clean |-> FALSE, pend |-> FALSE, fresh |-> FALSE, want |-> FALSE, fwant |-> FALSE, nf |-> 0]
FaultSet == {[at |-> 0, pers |-> FALSE]} \cup {[at |-> k, pers |-> b] : k \in 1..MaxFaultAt, b \in BOOLEAN}
Hal(t) == IF t.kind = "sbs" THEN t.ostate ELSE t.state

Init ==
  /\ dev = [d \in Devs |-> NoDev]
  /\ \E f \in FaultSet :
       os = [fdt |-> [x \in FdSet |-> 0], own |-> [x \in FdSet |-> 0], files |-> [p \in FileIds |-> <<>>], ncall |-> 0, fault |-> f]
  /\ gh = [d \in Devs |-> NoGh]
  /\ used = 0 /\ err = {} /\ crashed = FALSE
  /\ lastAct = [op |-> "init", d |-> 0, arg |-> <<>>, sw |-> <<>>, st |-> 0, os |-> <<>>]
  /\ hist = <<>>

\* ---- cells ----------------------------------------------------------------------------------------------------
Align(v) == ((v + A - 1) \div A) * A
Cells(k, F, n) == IF Ghost THEN [j \in 1..n |-> <<k, F, j - 1>>] ELSE [j \in 1..n |-> HOLE]
IfdCells(F, next) == IF Ghost THEN [j \in 1..IfdSz |-> IF j <= IfdSz - A THEN <<2, F, j - 1>> ELSE <<3, next, j - 1 - (IfdSz - A)>>]
                     ELSE [j \in 1..IfdSz |-> HOLE]
LinkCells(v) == Cells(3, v, A)

\* machine = FileOsModel machine + the acting Tiff object + C stack depth + result registers
TMachine(o, script, t) ==
  [fdt |-> o.fdt, own |-> o.own, files |-> o.files, ncall |-> o.ncall, fault |-> o.fault,
   sw |-> script, r |-> 0, ok |-> TRUE, failed |-> FALSE, err |-> {}, log |-> <<>>,
   t |-> t, depth |-> 0, overflow |-> FALSE, wok |-> TRUE, res |-> 1, st |-> 0, dirs |-> <<>>]

\* ---- tiff.cpp ---------------------------------------------------------------------------------------------------
RECURSIVE TWrite(_, _, _, _), TStop(_, _)

\* Tiff::write_(offset, buf, nbytes)
TWrite(m, d, off, data) ==
  IF m.overflow THEN m
  ELSE LET m1 == FileWrite(m, d, m.t.fid, off, data) IN
       IF m1.ok THEN [m1 EXCEPT !.wok = TRUE]
       ELSE IF FIX_TIFF = 1 THEN [m1 EXCEPT !.wok = FALSE]
       ELSE LET m2 == TStop([m1 EXCEPT !.depth = @ + 1], d) IN   \* Error: stop();
            [m2 EXCEPT !.wok = FALSE, !.depth = m1.depth]

\* Tiff::stop(): only when `state` says Running: terminate_ifd_list(); file_close(); state = Armed; frame_count_ = 0
TStop(m, d) ==
  IF m.overflow THEN m
  ELSE IF m.depth > MaxDepth THEN Bad([m EXCEPT !.overflow = TRUE], "UnboundedRecursion")
  ELSE IF m.t.state # RUNNING THEN m
  ELSE LET m1 == TWrite(m, d, m.t.lastLink, LinkCells(0)) IN
       IF m1.overflow THEN m1
       ELSE LET m2 == OsClose(m1, d, m1.t.fid) IN [m2 EXCEPT !.t.state = ARMED, !.t.count = 0]

\* Tiff::set: file_is_writable(filename), remember filename and metadata
TSet(m, d, file, meta) ==
  LET m1 == FileIsWritable(m, d, file) IN
  IF ~m1.ok THEN [m1 EXCEPT !.st = AWAIT]
  ELSE [m1 EXCEPT !.st = ARMED, !.t.file = file,
                  !.t.meta = IF meta THEN TRUE ELSE IF FIX_META = 1 THEN FALSE ELSE @]

\* tiff_start -> Tiff::start
TStart(m, d) ==
  LET m1 == FileCreate([m EXCEPT !.t.count = 0], d, m.t.file) IN
  IF ~m1.ok THEN [m1 EXCEPT !.t.fid = m1.r, !.st = AWAIT]
  ELSE LET m2 == TWrite([m1 EXCEPT !.t.fid = m1.r], d, 0, Cells(1, 0, HdrSz)) IN
       IF m2.overflow THEN m2
       ELSE IF FIX_TIFF = 1 /\ ~m2.wok THEN [OsClose(m2, d, m2.t.fid) EXCEPT !.st = AWAIT]
       ELSE [m2 EXCEPT !.t.lastOff = HdrSz, !.st = RUNNING]

\* Tiff::append: per frame three sections, each aligned; the directory's link points at the next directory's place
RECURSIVE TAppendLoop(_, _, _, _)
TAppendLoop(m, d, fs, F) ==
  IF fs = <<>> \/ m.overflow THEN [m EXCEPT !.res = 1]
  ELSE LET f == FrameKinds[Head(fs)]
           s == f.s + (IF m.t.count = 0 /\ m.t.meta THEN MetaSz ELSE 0)
           secI == Align(m.t.lastOff)
           secD == Align(secI + IfdSz)
           secS == Align(secD + f.d)
           nxt == Align(secS + s)
           m1 == TWrite(m, d, secI, IfdCells(F, nxt)) IN
       IF FIX_TIFF = 1 /\ ~m1.wok THEN [m1 EXCEPT !.res = 0] ELSE
       LET m2 == TWrite(m1, d, secD, Cells(4, F, f.d)) IN
       IF FIX_TIFF = 1 /\ ~m2.wok THEN [m2 EXCEPT !.res = 0] ELSE
       LET m3 == TWrite(m2, d, secS, Cells(5, F, s)) IN
       IF FIX_TIFF = 1 /\ ~m3.wok THEN [m3 EXCEPT !.res = 0] ELSE
       TAppendLoop([m3 EXCEPT !.t.lastLink = secI + IfdSz - A, !.t.lastOff = nxt, !.t.count = @ + 1,
                              !.dirs = Append(@, [F |-> F, k |-> Head(fs), off |-> secI, so |-> secD, sl |-> f.d,
                                                  do |-> secS, dl |-> s, next |-> nxt])],
                   d, Tail(fs), F + 1)

\* tiff_stop
TStopV(m, d) == [TStop(m, d) EXCEPT !.st = ARMED]
\* tiff_append: CHECK(self->append(...)) else return tiff_stop(self_)
TAppendV(m, d, fs, F) ==
  LET m1 == TAppendLoop(m, d, fs, F) IN
  IF m1.overflow THEN m1 ELSE IF m1.res = 1 THEN [m1 EXCEPT !.st = RUNNING] ELSE TStopV(m1, d)
\* tiff_destroy: self_->stop(self_); delete self -> ~Tiff() -> stop()
TDestroyV(m, d) == TStop(TStop(m, d), d)

\* what the caller of the inner vtable does with the returned state: the HAL stores it; the composite did not (FIX_SBS = 0)
Store(m) == [m EXCEPT !.t.state = m.st]
Inner(m) == IF FIX_SBS = 1 THEN Store(m) ELSE m

\* ---- side-by-side-tiff.cpp ------------------------------------------------------------------------------------------
SStopV(m, d) ==      \* side_by_side_tiff_stop
  IF FIX_SBS = 1 THEN (IF m.t.state = RUNNING THEN [Store(TStopV(m, d)) EXCEPT !.st = ARMED] ELSE [m EXCEPT !.st = ARMED])
  ELSE [TStopV(m, d) EXCEPT !.st = ARMED]

SStartV(m, d) ==     \* side_by_side_tiff_start: metadata.json, then set + start of the inner writer on <dir>/data.tif
  LET p == m.t.opath
      ma == IF ~m.t.ometa THEN m
            ELSE LET c == FileCreate(m, d, 200 + p) IN
                 IF ~c.ok THEN [c EXCEPT !.res = 0]
                 ELSE LET w == FileWrite(c, d, c.r, 0, Cells(6, 0, MjSz))
                          cl == OsClose(w, d, c.r) IN
                      [cl EXCEPT !.res = IF w.ok THEN 1 ELSE 0] IN
  IF m.t.ometa /\ ma.res = 0 THEN [ma EXCEPT !.st = AWAIT]
  ELSE LET mb == Inner(TSet(ma, d, 100 + p, m.t.ometa)) IN
       IF mb.st # ARMED THEN [mb EXCEPT !.st = AWAIT]
       ELSE LET mc == Inner(TStart(mb, d)) IN
            IF mc.overflow THEN mc ELSE IF mc.st # RUNNING THEN [mc EXCEPT !.st = AWAIT] ELSE mc

SAppendV(m, d, fs, F) ==   \* side_by_side_tiff_append: CHECK(inner append == Running) else stop
  LET m1 == Inner(TAppendV(m, d, fs, F)) IN
  IF m1.overflow THEN m1 ELSE IF m1.st = RUNNING THEN m1 ELSE SStopV(m1, d)

SDestroyV(m, d) == TDestroyV(SStopV(m, d), d)

\* ---- ghost: the C15 clauses evaluated on the cells of a finished file -----------------------------------------------
RegionIs(file, off, k, F, n) == off >= 0 /\ off + n <= Len(file) /\ \A j \in 0..(n - 1) : file[off + 1 + j] = <<k, F, j>>
LinkAt(file, off) ==
  IF off < 0 \/ off + A > Len(file) THEN -1
  ELSE LET c == file[off + 1] IN
       IF c[1] = 3 /\ \A j \in 0..(A - 1) : file[off + 1 + j] = <<3, c[2], j>> THEN c[2] ELSE -1
RECURSIVE Walk(_, _, _, _)
Walk(file, off, ds, i) ==
  IF i > Len(ds) THEN (IF off = 0 THEN {} ELSE {"ChainNotTerminated"})
  ELSE IF off = 0 THEN {"TooFewDirectories"}
  ELSE LET e == ds[i] IN
       IF off # e.off \/ ~RegionIs(file, off, 2, e.F, IfdSz - A) THEN {"DirectoryWrong"}
       ELSE (IF RegionIs(file, e.so, 4, e.F, e.sl) THEN {} ELSE {"StripWrong"})
            \cup (IF RegionIs(file, e.do, 5, e.F, e.dl) THEN {} ELSE {"DescriptionWrong"})
            \cup (LET v == LinkAt(file, off + IfdSz - A) IN IF v < 0 THEN {"LinkTorn"} ELSE Walk(file, v, ds, i + 1))
Regions(ds) == <<<<0, HdrSz>>>> \o [i \in 1..(3 * Len(ds)) |->
                 LET e == ds[(i + 2) \div 3] IN
                 IF i % 3 = 1 THEN <<e.off, IfdSz>> ELSE IF i % 3 = 2 THEN <<e.so, e.sl>> ELSE <<e.do, e.dl>>]
DisjointInside(rs, size) ==
  /\ \A i \in 1..Len(rs) : rs[i][1] + rs[i][2] <= size
  /\ \A i, j \in 1..Len(rs) : i < j => (rs[i][1] + rs[i][2] <= rs[j][1] \/ rs[j][1] + rs[j][2] <= rs[i][1])
FileErrs(file, ds) ==
  (IF RegionIs(file, 0, 1, 0, HdrSz) THEN {} ELSE {"BadHeader"})
  \cup Walk(file, HdrSz, ds, 1)
  \cup (IF DisjointInside(Regions(ds), Len(file)) THEN {} ELSE {"StructuresOverlapOrOutside"})

\* evaluated when an acquisition that reported no failure and appended >= 1 frame is finished
StopCheck(m, d, g) ==
  \* (a failing write while stopping cannot be reported by leaving Running; the file clauses assume no OS failure)
  IF ~(Ghost /\ g.clean /\ Len(g.dirs) >= 1 /\ ~m.failed) THEN m
  ELSE LET t == m.t
           e1 == FileErrs(m.files[t.rfile], g.dirs)
           e2 == IF g.dirs[1].dl # FrameKinds[g.dirs[1].k].s + (IF g.fwant THEN MetaSz ELSE 0)
                 THEN {IF g.fwant THEN "MetadataNotOnFirstFrame" ELSE "MetadataNotTheUsers"} ELSE {} IN
       [m EXCEPT !.err = @ \cup e1 \cup (IF t.kind = "tiff" THEN e2 ELSE {})]

\* ---- HAL-level actions -----------------------------------------------------------------------------------------------
Label(op, d, arg, sw) == [op |-> op, d |-> d, arg |-> arg, sw |-> sw, st |-> 0, os |-> <<>>]

\* the HAL stores the returned state into the (outer) device
HalStore(m) == IF m.t.kind = "sbs" THEN [m.t EXCEPT !.ostate = m.st] ELSE [m.t EXCEPT !.state = m.st]

Commit(m, d, t, g, label) ==
  /\ dev' = [dev EXCEPT ![d] = t]
  /\ os' = OsOf(m)
  /\ gh' = [gh EXCEPT ![d] = g]
  /\ err' = err \cup m.err
  /\ crashed' = m.overflow
  /\ lastAct' = [label EXCEPT !.st = IF m.overflow THEN -1 ELSE Hal(t), !.os = m.log]
  /\ hist' = (IF Export THEN Append(hist, lastAct') ELSE hist)

DoOpen(d, kind) ==
  /\ ~dev[d].open /\ (IF d = 1 THEN kind \in Kinds1 ELSE kind = "tiff") /\ dev[d].kind \in {"none", kind}
  /\ Commit(TMachine(os, <<>>, NoDev), d,
            [NoDev EXCEPT !.open = TRUE, !.kind = kind, !.state = AWAIT, !.cyc = dev[d].cyc], NoGh, Label("open", d, <<kind>>, <<>>))
  /\ UNCHANGED used

\* On a running device (SetRunning): accepted settings leave it Running (storage_set keeps Running; they apply to the next
\* start, the open file is the one named at start: rfile); rejected settings take it out of the running state - repaired
\* (FIX_SET = 1) after the HAL stopped it (the driver's stop finishes and closes the file), as it was with the file open.
DoSet(d, meta) ==
  /\ dev[d].open /\ (Hal(dev[d]) # RUNNING \/ SetRunning) /\ used < NPaths /\ dev[d].cyc < Lim(d).cyc
  /\ LET p == used + 1
         t == dev[d]
         run == Hal(t) = RUNNING
         \* side_by_side_tiff_set: validation touches no file; as coded it rejects a configuration without metadata
         \* (validate_json refuses the 1-byte empty string the properties library stores for "no metadata")
         m0 == IF t.kind = "sbs" THEN (IF meta THEN [TMachine(os, <<>>, [t EXCEPT !.opath = p, !.ometa = meta]) EXCEPT !.st = ARMED]
                                       ELSE [TMachine(os, <<>>, t) EXCEPT !.st = AWAIT])
               ELSE TSet(TMachine(os, <<>>, t), d, p, meta)
         ok == m0.st = ARMED
         \* storage_set on a running device: rejected -> storage_stop (FIX_SET = 1), then the answer is stored;
         \* accepted -> the device stays Running
         m1 == IF run /\ ~ok /\ FIX_SET = 1
               THEN LET sp == IF t.kind = "sbs" THEN SStopV(m0, d) ELSE TStopV(m0, d) IN
                    IF sp.overflow THEN sp ELSE [sp EXCEPT !.t = HalStore(sp), !.st = m0.st]
               ELSE m0
         m == IF run /\ ok THEN [m1 EXCEPT !.st = RUNNING] ELSE m1
         \* (the metadata goes with the first frame of the file: settings accepted before it was written still count)
         g == [gh[d] EXCEPT !.fresh = ok, !.want = IF ok \/ ~run THEN meta ELSE @,
                            !.fwant = IF run /\ ok /\ gh[d].nf = 0 THEN meta ELSE @, !.clean = @ /\ (ok \/ ~run)] IN
     Commit(m, d, HalStore(m), g, Label("set", d, <<p, IF meta THEN 1 ELSE 0>>, <<>>))
  /\ used' = used + 1

DoStart(d, sc) ==
  /\ dev[d].open /\ Hal(dev[d]) = ARMED /\ dev[d].cyc < Lim(d).cyc /\ gh[d].fresh
  /\ LET t == [dev[d] EXCEPT !.cyc = @ + 1, !.napp = 0]
         m0 == IF t.kind = "sbs" THEN SStartV(TMachine(os, sc, t), d) ELSE TStart(TMachine(os, sc, t), d)
         \* tiff-json: a started acquisition has the user's metadata in metadata.json
         m == IF Ghost /\ t.kind = "sbs" /\ ~m0.overflow /\ m0.st = RUNNING /\ gh[d].want /\ m0.files[200 + t.opath] # Cells(6, 0, MjSz)
              THEN Bad(m0, "MetadataJsonWrong") ELSE m0
         g == [gh[d] EXCEPT !.dirs = <<>>, !.clean = (m.st = RUNNING), !.pend = (m.failed /\ m.st = RUNNING), !.fresh = FALSE, !.nf = 0,
                            !.fwant = gh[d].want] IN
     Commit(m, d, [HalStore(m) EXCEPT !.rfile = m.t.file], g, Label("start", d, <<>>, sc))
  /\ UNCHANGED used

DoAppend(d, fs, sc) ==
  /\ dev[d].open /\ Hal(dev[d]) = RUNNING /\ dev[d].napp < Lim(d).app
  /\ LET t == [dev[d] EXCEPT !.napp = @ + 1]
         F == 1000 * d + 100 * t.cyc + gh[d].nf
         m0 == IF t.kind = "sbs" THEN SAppendV(TMachine(os, sc, t), d, fs, F) ELSE TAppendV(TMachine(os, sc, t), d, fs, F)
         m == IF ~m0.overflow /\ m0.st = RUNNING /\ (m0.failed \/ gh[d].pend) THEN Bad(m0, "FailureNotReported") ELSE m0
         g == [gh[d] EXCEPT !.dirs = @ \o m.dirs, !.clean = @ /\ m.st = RUNNING /\ Len(m.dirs) = Len(fs),
                            !.pend = FALSE, !.nf = @ + Len(fs)] IN
     Commit(m, d, HalStore(m), g, Label("append", d, fs, sc))
  /\ UNCHANGED used

DoStop(d, sc) ==
  /\ dev[d].open /\ Hal(dev[d]) = RUNNING
  /\ LET m0 == IF dev[d].kind = "sbs" THEN SStopV(TMachine(os, sc, dev[d]), d) ELSE TStopV(TMachine(os, sc, dev[d]), d)
         m == IF m0.overflow THEN m0 ELSE StopCheck(m0, d, gh[d]) IN
     Commit(m, d, HalStore(m), [gh[d] EXCEPT !.clean = FALSE, !.dirs = <<>>], Label("stop", d, <<>>, sc))
  /\ UNCHANGED used

\* storage_close: storage_stop when Running, then the driver destroys the device
DoClose(d) ==
  /\ dev[d].open
  /\ LET t == dev[d]
         sbs == t.kind = "sbs"
         m1 == IF Hal(t) = RUNNING
               THEN LET s == IF sbs THEN SStopV(TMachine(os, <<>>, t), d) ELSE TStopV(TMachine(os, <<>>, t), d) IN
                    IF s.overflow THEN s ELSE [StopCheck(s, d, gh[d]) EXCEPT !.t = HalStore(s)]
               ELSE TMachine(os, <<>>, t)
         m2 == IF sbs THEN SDestroyV(m1, d) ELSE TDestroyV(m1, d)
         m == IF ~m2.overflow /\ Owns(OsOf(m2), d) # {} THEN Bad(m2, "DescriptorLeak") ELSE m2 IN
     Commit(m, d, [NoDev EXCEPT !.cyc = t.cyc, !.kind = t.kind], NoGh, Label("close", d, <<>>, <<>>))
  /\ UNCHANGED used

Packets == UNION {[1..n -> 1..NKinds] : n \in 1..MaxPacket}
StopScripts == {AllScripts[i] : i \in 1..(IF NScripts < 2 THEN NScripts ELSE 2)}

L_Open == ~crashed /\ \E d \in Devs : \E k \in {"tiff", "sbs"} : DoOpen(d, k)
L_Set == ~crashed /\ \E d \in Devs : \E meta \in BOOLEAN : DoSet(d, meta)
L_Start == ~crashed /\ \E d \in Devs : \E sc \in StopScripts : DoStart(d, sc)
L_Append == ~crashed /\ \E d \in Devs : \E fs \in Packets : \E sc \in Scripts : DoAppend(d, fs, sc)
L_Stop == ~crashed /\ \E d \in Devs : \E sc \in StopScripts : DoStop(d, sc)
L_Close == ~crashed /\ \E d \in Devs : DoClose(d)
Next == L_Open \/ L_Set \/ L_Start \/ L_Append \/ L_Stop \/ L_Close
Spec == Init /\ [][Next]_vars

\* the call counter only matters until the fault has struck
NormCall == LET f == os.fault IN IF f.at = 0 THEN 0 ELSE IF os.ncall >= f.at THEN -1 ELSE os.ncall
View == <<dev, [os EXCEPT !.ncall = NormCall], gh, used, err, crashed>>

\* ---- properties ---------------------------------------------------------------------------------------------------
NoErr == err = {}
NoCrash == ~crashed
TypeOK == \A d \in Devs : /\ dev[d].state \in {CLOSED, AWAIT, ARMED, RUNNING}
                          /\ dev[d].ostate \in {CLOSED, AWAIT, ARMED, RUNNING}
                          /\ dev[d].lastOff >= 0 /\ dev[d].lastLink >= 0
\* repaired code: the writer holds a descriptor exactly while its `state` says Running, and it is the one in file_
AllFixed == FIX_TIFF = 1 /\ FIX_SBS = 1 /\ FIX_SET = 1
OwnsItsFile == AllFixed => \A d \in Devs : Owns(os, d) = (IF dev[d].state = RUNNING THEN {dev[d].fid} ELSE {})
\* repaired code: section offsets are aligned and increase; the link cursor lies inside the last directory
Cursors == AllFixed => \A d \in Devs : dev[d].state = RUNNING =>
              /\ dev[d].lastOff % A = 0 /\ dev[d].lastOff >= HdrSz
              /\ (dev[d].count > 0 => dev[d].lastLink + A <= dev[d].lastOff /\ dev[d].lastLink % A = 0)
\* repaired code: the inner writer of a composite is Running exactly when the composite is
InnerFollowsOuter == AllFixed => \A d \in Devs : dev[d].kind = "sbs" => ((dev[d].ostate = RUNNING) <=> (dev[d].state = RUNNING))

EmitEdge == PrintT(<<"EDGE", ToJson([fault |-> os.fault, path |-> hist'])>>)
=============================================================================
