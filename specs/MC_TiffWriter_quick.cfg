CONSTANTS NDev = 2 NPaths = 3 Kinds1 = {"tiff", "sbs"} MaxCycles = 2 MaxAppends = 2 MaxPacket = 2 Real = FALSE NKinds = 2
  NScripts = 4 MaxFaultAt = 12 MaxDepth = 4 FIX_TIFF = 1 FIX_SBS = 1 FIX_META = 1 MaxFd = 5 Ghost = TRUE Export = FALSE
SPECIFICATION Spec
VIEW View
INVARIANTS NoErr NoCrash TypeOK OwnsItsFile Cursors InnerFollowsOuter
CHECK_DEADLOCK FALSE
