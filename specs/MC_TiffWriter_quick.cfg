\* exhaustive check of the repaired tiff / tiff-json writer model, scaled sizes, file cells tracked (quick tier of C15)
CONSTANTS NDev = 1 NPaths = 3 Kinds1 = {"tiff", "sbs"} MaxCycles = 2 MaxAppends = 2 MaxPacket = 2 Real = FALSE NKinds = 3
  NScripts = 4 MaxFaultAt = 0 MaxDepth = 4 FIX_TIFF = 1 FIX_SBS = 1 FIX_META = 1 SetRunning = TRUE FIX_SET = 1 MaxFd = 5 Ghost = TRUE Export = FALSE
SPECIFICATION Spec
VIEW View
INVARIANTS NoErr NoCrash TypeOK OwnsItsFile Cursors InnerFollowsOuter
CHECK_DEADLOCK FALSE
