---------------------------- MODULE FrameLayout ----------------------------
(* Pure arithmetic of the frame packet layout (C05): source.c / filter.c compute
   bytes_of_frame = 8*((sizeof(VideoFrame) + bytes_of_image + 7) \div 8); a packet is a chain of such frames.
   TLC evaluates the formulas over all shapes in range and all sample sizes, and walks chains. *)
EXTENDS Naturals, Sequences, TLC
CONSTANTS Hdr, MaxW, MaxH, MaxChain
Bpps == {1, 2, 4}
Aligned(hdr, n) == 8 * ((hdr + n + 7) \div 8)
Shapes == (1..MaxW) \X (1..MaxH) \X Bpps
SizeOf(s) == Aligned(Hdr, s[1] * s[2] * s[3])
VARIABLES pos, len, shape
vars == <<pos, len, shape>>
Init == pos = 0 /\ len = 0 /\ shape \in Shapes
\* append one more frame of the (fixed per acquisition) shape; or switch the shape between acquisitions (new chain)
Next == \/ /\ len < MaxChain /\ pos' = pos + SizeOf(shape) /\ len' = len + 1 /\ shape' = shape
        \/ /\ len = MaxChain /\ pos' = 0 /\ len' = 0 /\ shape' \in Shapes
Spec == Init /\ [][Next]_vars
\* every header starts on an 8-byte boundary, the size field covers header + image and wastes less than 8 bytes
HeadersAligned == pos % 8 = 0
SizeField == LET n == shape[1] * shape[2] * shape[3] IN
             /\ SizeOf(shape) % 8 = 0 /\ SizeOf(shape) >= Hdr + n /\ SizeOf(shape) < Hdr + n + 8
\* all residues of the image size modulo 8 occur in the explored range (non-vacuity, checked as an ASSUME)
ASSUME \A r \in 0..7 : \E s \in Shapes : (s[1] * s[2] * s[3]) % 8 = r
=============================================================================
