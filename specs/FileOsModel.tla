---------------------------- MODULE FileOsModel ----------------------------
(***************************************************************************)
(* A small model of the operating-system file calls platform.c uses, shared *)
(* by the implementation-shaped writer models RawWriter and TiffWriter.     *)
(*                                                                         *)
(* Everything is a pure operator over a "machine" record m that an action   *)
(* threads through the code path of one API call:                           *)
(*   fdt    descriptor table: FirstFd..MaxFd -> file id, 0 = free           *)
(*   own    ghost: which device instance opened the descriptor              *)
(*   files  file id -> sequence of cells (HOLE where nothing was written)   *)
(*   ncall  number of fallible OS calls made so far (open, flock, pwrite)   *)
(*   fault  [at, pers]: the at-th fallible call fails (and, if pers, every  *)
(*          later one); at = 0: none                                        *)
(*   sw     short-write script still to be consumed by this API call        *)
(*          ("F" full, "H" half, "Z" nothing, "S1" one cell)                *)
(*   r, ok  result registers (descriptor / cells written; success flag)     *)
(*   failed an OS call returned an error during this API call (ghost)       *)
(*   err    ghost: names of property clauses broken so far                  *)
(*   log    OS calls of this API call (exported for replay into the code)   *)
(* Descriptor numbers are issued lowest-free-first, as POSIX does, so a     *)
(* number closed by one device is re-issued to the next opener.             *)
(***************************************************************************)
EXTENDS Naturals, Integers, Sequences, FiniteSets, TLC

CONSTANTS MaxFd,     \* descriptors FirstFd..MaxFd exist
          Ghost,     \* TRUE: file contents are tracked cell by cell; FALSE: only calls and offsets (export with real sizes)
          Export     \* TRUE: keep the OS calls and the history of API calls (witness paths for the replay export)

FirstFd == 3
FdSet == FirstFd..MaxFd
HOLE == <<0, 0, 0>>

Min(S) == CHOOSE x \in S : \A y \in S : x <= y
IsOpenFd(m, fd) == fd \in FdSet /\ m.fdt[fd] # 0

Fails(m) == m.fault.at > 0 /\ (m.ncall + 1 = m.fault.at \/ (m.fault.pers /\ m.ncall + 1 >= m.fault.at))
Bad(m, name) == [m EXCEPT !.err = @ \cup {name}]
Logged(m, rec) == IF Export THEN [m EXCEPT !.log = Append(@, rec)] ELSE m

\* int open(path, O_RDWR|O_CREAT): creates the file when absent, never truncates
OsOpen(m, d, p) ==
  LET free == {f \in FdSet : m.fdt[f] = 0}
      m1 == [m EXCEPT !.ncall = @ + 1] IN
  IF Fails(m) \/ free = {}
  THEN Logged([m1 EXCEPT !.r = -1, !.failed = TRUE], [c |-> "open", a |-> p, off |-> 0, n |-> 0, r |-> -1])
  ELSE LET f == Min(free) IN
       Logged([m1 EXCEPT !.r = f, !.fdt[f] = p, !.own[f] = d], [c |-> "open", a |-> p, off |-> 0, n |-> 0, r |-> f])

OsFlock(m, d, fd) ==
  LET m1 == [m EXCEPT !.ncall = @ + 1]
      bad == Fails(m) \/ ~IsOpenFd(m, fd) IN
  Logged([m1 EXCEPT !.r = IF bad THEN -1 ELSE 0, !.failed = @ \/ bad],
         [c |-> "flock", a |-> fd, off |-> 0, n |-> 0, r |-> IF bad THEN -1 ELSE 0])

\* int close(fd): the ghost records whose descriptor it was
OsClose(m, d, fd) ==
  LET m1 == IF IsOpenFd(m, fd) THEN (IF m.own[fd] = d THEN m ELSE Bad(m, "CloseForeignDescriptor"))
            ELSE IF fd >= 0 /\ fd < FirstFd THEN Bad(m, "CloseStdDescriptor")
            ELSE Bad(m, "CloseNotOpen")
      res == IF IsOpenFd(m, fd) \/ (fd >= 0 /\ fd < FirstFd) THEN 0 ELSE -1 IN
  Logged(IF IsOpenFd(m, fd) THEN [m1 EXCEPT !.fdt[fd] = 0, !.own[fd] = 0, !.r = res] ELSE [m1 EXCEPT !.r = res],
         [c |-> "close", a |-> fd, off |-> 0, n |-> 0, r |-> res])

Written(n, how) == IF how = "H" THEN (IF n > 1 THEN (n + 1) \div 2 ELSE n)
                   ELSE IF how = "Z" THEN 0
                   ELSE IF how = "S1" THEN 1
                   ELSE n

PutCells(old, off, cs) ==
  LET n == IF off + Len(cs) > Len(old) THEN off + Len(cs) ELSE Len(old) IN
  [i \in 1..n |-> IF i > off /\ i <= off + Len(cs) THEN cs[i - off] ELSE IF i <= Len(old) THEN old[i] ELSE HOLE]

\* ssize_t pwrite(fd, data, Len(data), off): may write fewer cells than asked (script), or fail (fault, bad descriptor)
OsPwrite(m, d, fd, off, data) ==
  LET m1 == [m EXCEPT !.ncall = @ + 1]
      how == IF m.sw = <<>> THEN "F" ELSE Head(m.sw)
      rest == IF m.sw = <<>> THEN <<>> ELSE Tail(m.sw) IN
  IF Fails(m)
  THEN Logged([m1 EXCEPT !.r = -1, !.failed = TRUE], [c |-> "pwrite", a |-> fd, off |-> off, n |-> Len(data), r |-> -1])
  ELSE IF ~IsOpenFd(m, fd)
  THEN Logged(Bad([m1 EXCEPT !.r = -1, !.failed = TRUE, !.sw = rest], "WriteNotOpen"),
              [c |-> "pwrite", a |-> fd, off |-> off, n |-> Len(data), r |-> -1])
  ELSE LET k == Written(Len(data), how)
           p == m.fdt[fd]
           m2 == IF m.own[fd] = d THEN m1 ELSE Bad(m1, "WriteForeignDescriptor") IN
       Logged([m2 EXCEPT !.r = k, !.sw = rest,
                         !.files[p] = IF Ghost /\ k > 0 THEN PutCells(@, off, SubSeq(data, 1, k)) ELSE @],
              [c |-> "pwrite", a |-> fd, off |-> off, n |-> Len(data), r |-> k])

OsUnlink(m, p) == Logged([m EXCEPT !.files[p] = <<>>], [c |-> "unlink", a |-> p, off |-> 0, n |-> 0, r |-> 0])

\* ---- platform.c ----------------------------------------------------------------------------------------
\* file_write: write-all loop; gives up after three calls that wrote nothing; an error ends it at once
RECURSIVE FileWriteLoop(_, _, _, _, _, _)
FileWriteLoop(m, d, fd, off, data, retries) ==
  IF data = <<>> \/ retries >= 3 THEN [m EXCEPT !.ok = retries < 3]
  ELSE LET m1 == OsPwrite(m, d, fd, off, data) IN
       IF m1.r < 0 THEN [m1 EXCEPT !.ok = FALSE]
       ELSE FileWriteLoop(m1, d, fd, off + m1.r, SubSeq(data, m1.r + 1, Len(data)), retries + (IF m1.r = 0 THEN 1 ELSE 0))
FileWrite(m, d, fd, off, data) == FileWriteLoop(m, d, fd, off, data, 0)

\* file_create: open + exclusive lock; on a lock failure the descriptor is closed again but its number stays in file->fid.
\* Result: .ok, and .r = the value left in file->fid
FileCreate(m, d, p) ==
  LET m1 == OsOpen(m, d, p) IN
  IF m1.r < 0 THEN [m1 EXCEPT !.ok = FALSE]
  ELSE LET fd == m1.r
           m2 == OsFlock(m1, d, fd) IN
       IF m2.r < 0 THEN [OsClose(m2, d, fd) EXCEPT !.ok = FALSE, !.r = fd]
       ELSE [m2 EXCEPT !.ok = TRUE, !.r = fd]

\* file_is_writable for a path that does not exist yet: create, close, unlink
FileIsWritable(m, d, p) ==
  LET m1 == OsOpen(m, d, p) IN
  IF m1.r < 0 THEN [m1 EXCEPT !.ok = FALSE]
  ELSE [OsUnlink(OsClose(m1, d, m1.r), p) EXCEPT !.ok = TRUE]

Machine(os, script) ==
  [fdt |-> os.fdt, own |-> os.own, files |-> os.files, ncall |-> os.ncall, fault |-> os.fault,
   sw |-> script, r |-> 0, ok |-> TRUE, failed |-> FALSE, err |-> {}, log |-> <<>>]
\* State kept between API calls. The cells of a file that no descriptor refers to any more are forgotten: paths are fresh
\* per acquisition, so a closed file can never be written again, and its clauses were evaluated when it was finished.
OsOf(m) == [fdt |-> m.fdt, own |-> m.own, ncall |-> m.ncall, fault |-> m.fault,
            files |-> [p \in DOMAIN m.files |-> IF \E f \in FdSet : m.fdt[f] = p THEN m.files[p] ELSE <<>>]]
Owns(os, d) == {f \in FdSet : os.own[f] = d /\ os.fdt[f] # 0}
=============================================================================
