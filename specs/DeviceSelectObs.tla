--------------------------- MODULE DeviceSelectObs ---------------------------
(***************************************************************************)
(* Observation specification for device enumeration / selection / opening   *)
(* (property C12), written as a TOTAL trace specification: every event of a *)
(* recorded implementation trace is consumed; an event that a rule forbids  *)
(* appends <<rule, line>> to `bad` instead of blocking.                     *)
(*                                                                         *)
(* It knows nothing about std::regex, identifiers_ or drivers_: only calls, *)
(* arguments, status codes, and which enumerated device came back.          *)
(*                                                                         *)
(* Events (ndjson, field e):                                                *)
(*   Reset{init, devs:[{kind, name:[bytes]}...]}                            *)
(*        a new device manager; devs = what device_manager_count/get        *)
(*        enumerated, in order (index i of the API is devs[i+1])            *)
(*   Select{op, kind, pat:[bytes], len, g, ast, status, index}              *)
(*        op "S": device_manager_select(kind, pat, len); the pattern is the *)
(*                first len bytes of the buffer pat                         *)
(*           "N": device_manager_select(kind, NULL, len)                    *)
(*           "F": device_manager_select_first(kind)                         *)
(*           "D": device_manager_select_default(kind)                       *)
(*        index = enumeration index of the identifier returned, -1 if the   *)
(*        call failed or returned something that was never enumerated       *)
(*        g = 1: the pattern is in the modelled grammar and ast is its AST  *)
(*   Get{index, status, same}     device_manager_get; same = identifier     *)
(*                                equals the one enumerated at that index   *)
(*   Open{index, status, kind_ok, name_ok, skipped}                         *)
(*        camera_open / storage_open of the identifier enumerated at index  *)
(*   Count{n}                     device_manager_count                      *)
(*   Crash{signal, exit, phase}   the process running the calls died        *)
(*   Exception                    an exception escaped a C API function     *)
(*   Slow{ms}                     a call exceeded the watchdog (NOT judged: *)
(*                                the property does not bound time)         *)
(*   End                          worker finished (not judged)              *)
(*                                                                         *)
(* Rules                                                                    *)
(*   patterns in the modelled grammar (g = 1), select_first, NULL/empty:    *)
(*        the result must be exactly DeviceSelect!SelectIn(devs, kind, ast) *)
(*        -- trailing NUL bytes of the pattern are ignored, ASCII case of   *)
(*        the pattern is irrelevant                                         *)
(*   any other byte string (g = 0), select_default:                         *)
(*        Err, or Ok with an enumerated device of the requested kind        *)
(*   kinds of which nothing is enumerated, out-of-range indices: Err        *)
(*   enumerated index: get succeeds with the enumerated identifier; opening *)
(*        it yields a device of that kind and name                          *)
(*   never a Crash or Exception event                                       *)
(***************************************************************************)
EXTENDS Naturals, Integers, Sequences, FiniteSets, TLC, Json, IOUtils

CONSTANTS ClassCells, NClass      \* the character-class table the ASTs in the trace refer to (see DeviceSelect)

\* the regex semantics, rendering and selection function are those of DeviceSelect; its enumeration constants and
\* its model variables play no role here (the table comes from the Reset event)
DS == INSTANCE DeviceSelect WITH DevCells <- {}, NDev <- 0, Alphabet <- {}, MaxNodes <- 0, Kinds <- {}, Emit <- 0,
                                 ast <- <<>>, stk <- <<>>, phase <- "obs"

Tr == ndJsonDeserialize(IOEnv.TRACE)

VARIABLES l,      \* next line of Tr
          devs,   \* enumeration table of the current device manager (from Reset)
          bad,    \* sequence of <<rule, line>> (first 200 only)
          nbad,   \* total number of refusals
          cnt,    \* how many events each family of rules judged (vacuity guard for the check)
          done

vars == <<l, devs, bad, nbad, cnt, done>>

Families == {"exact", "exact_some", "weak", "weak_ok", "unknown_kind", "get_in", "get_out", "open", "count", "slow", "padded"}

Init == /\ l = 1 /\ devs = <<>> /\ bad = <<>> /\ nbad = 0 /\ done = FALSE
        /\ cnt = [f \in Families |-> 0]

Ev == Tr[l]
Has(f) == f \in DOMAIN Ev
If(c, name) == IF c THEN <<name>> ELSE <<>>

IsByteSeq(s) == DOMAIN s = 1..Len(s) /\ \A i \in 1..Len(s) : s[i] \in 0..255

\* remove trailing NUL bytes
RECURSIVE Strip(_)
Strip(s) == IF Len(s) > 0 /\ s[Len(s)] = 0 THEN Strip(SubSeq(s, 1, Len(s) - 1)) ELSE s

InRange(i) == i \in 0..(Len(devs) - 1)
KindKnown(kd) == \E d \in 1..Len(devs) : devs[d].kind = kd

\* ---- rules: each yields a (possibly empty) sequence of violated rule names --------------------------------

Exact(kd, t, status, index) ==
  LET exp == DS!SelectIn(devs, kd, t) IN
  If(status \notin {0, 1}, "BadStatus")
  \o (IF exp = -1
      THEN If(status = 0, IF KindKnown(kd) THEN "SelectSpurious" ELSE "UnknownKindAccepted")
      ELSE If(status # 0, "SelectMissed") \o If(status = 0 /\ index # exp, "SelectWrongDevice"))

Weak(kd, status, index) ==
  If(status \notin {0, 1}, "BadStatus")
  \o If(status = 0 /\ ~KindKnown(kd), "UnknownKindAccepted")
  \o If(status = 0 /\ KindKnown(kd) /\ ~(InRange(index) /\ devs[index + 1].kind = kd), "SelectNotEnumeratedKind")

SelectShapeOK ==
  /\ Has("op") /\ Has("kind") /\ Has("pat") /\ Has("len") /\ Has("g") /\ Has("ast") /\ Has("status") /\ Has("index")
  /\ Ev.op \in {"S", "N", "F", "D"}
  /\ IsByteSeq(Ev.pat) /\ Ev.len \in Nat /\ Ev.g \in {0, 1}
  /\ Ev.op = "S" => Ev.len <= Len(Ev.pat)

SelectRules ==
  IF ~SelectShapeOK THEN <<"HarnessBadEvent">>
  ELSE IF Ev.op = "F" \/ (Ev.op = "N" /\ Ev.len = 0) THEN Exact(Ev.kind, <<>>, Ev.status, Ev.index)
  ELSE IF Ev.op = "N" \/ Ev.op = "D" THEN Weak(Ev.kind, Ev.status, Ev.index)
  ELSE LET p == Strip(SubSeq(Ev.pat, 1, Ev.len)) IN
       IF Ev.g = 1 THEN
          IF ~DS!WellFormed(Ev.ast) THEN <<"HarnessBadAst">>
          ELSE IF DS!FoldSeq(DS!Render(Ev.ast)) # DS!FoldSeq(p) THEN <<"HarnessAstMismatch">>
          ELSE Exact(Ev.kind, Ev.ast, Ev.status, Ev.index)
       ELSE IF p = <<>> THEN Exact(Ev.kind, <<>>, Ev.status, Ev.index)     \* empty or all-NUL: first of the kind
       \* a pattern the regex library itself refuses to compile (the harness tried, independently) must give an error -
       \* whatever was selected before
       ELSE IF Has("bad") /\ Ev.bad = 1 /\ Ev.status = 0 THEN <<"MalformedAccepted">>
       ELSE Weak(Ev.kind, Ev.status, Ev.index)

SelectIsExact == SelectShapeOK /\ (Ev.op = "F" \/ (Ev.op = "N" /\ Ev.len = 0) \/ (Ev.op = "S" /\ (Ev.g = 1 \/ Strip(SubSeq(Ev.pat, 1, Ev.len)) = <<>>)))

GetRules ==
  IF ~(Has("index") /\ Has("status") /\ Has("same") /\ Ev.index \in Nat) THEN <<"HarnessBadEvent">>
  ELSE IF InRange(Ev.index)
       THEN (IF devs[Ev.index + 1].ok = 1
             THEN If(Ev.status # 0, "GetFailed") \o If(Ev.status = 0 /\ Ev.same # 1, "GetWrongIdentifier")
             ELSE <<>>)
       ELSE If(Ev.status = 0, "GetOutOfRangeAccepted")

OpenRules ==
  IF ~(Has("index") /\ Has("status") /\ Has("kind_ok") /\ Has("name_ok") /\ Has("skipped")) THEN <<"HarnessBadEvent">>
  ELSE IF Ev.skipped = 1 THEN <<>>
  ELSE IF ~InRange(Ev.index) THEN <<"HarnessBadEvent">>
  ELSE If(Ev.status # 0, "OpenFailed")
       \o If(Ev.status = 0 /\ Ev.kind_ok # 1, "OpenWrongKind")
       \o If(Ev.status = 0 /\ Ev.name_ok # 1, "OpenWrongName")

ResetShapeOK ==
  /\ Has("devs") /\ DOMAIN Ev.devs = 1..Len(Ev.devs)
  /\ \A d \in 1..Len(Ev.devs) : /\ DOMAIN Ev.devs[d] = {"kind", "name", "ok"}
                                /\ IsByteSeq(Ev.devs[d].name)
                                /\ \A i \in 1..Len(Ev.devs[d].name) : Ev.devs[d].name[i] # 0

\* ---- one step per trace line ------------------------------------------------------------------------------
Flag(rules) == /\ bad' = (IF Len(bad) < 200 THEN bad \o [i \in 1..Len(rules) |-> <<rules[i], l>>] ELSE bad)
               /\ nbad' = nbad + Len(rules)
Bump(fs) == cnt' = [f \in Families |-> IF f \in fs THEN cnt[f] + 1 ELSE cnt[f]]

Step ==
  /\ l <= Len(Tr) /\ ~done
  /\ l' = l + 1 /\ done' = FALSE
  /\ LET e == IF Has("e") THEN Ev.e ELSE "?" IN
     CASE e = "Reset"  -> /\ devs' = (IF ResetShapeOK THEN Ev.devs ELSE <<>>)
                          /\ Flag(If(~ResetShapeOK, "HarnessBadEvent")) /\ Bump({})
       [] e = "Select" -> /\ Flag(SelectRules) /\ devs' = devs
                          /\ Bump((IF SelectIsExact THEN {"exact"} ELSE {"weak"})
                                  \cup (IF SelectIsExact /\ Ev.status = 0 THEN {"exact_some"} ELSE {})
                                  \cup (IF ~SelectIsExact /\ SelectShapeOK /\ Ev.status = 0 THEN {"weak_ok"} ELSE {})
                                  \cup (IF SelectShapeOK /\ ~KindKnown(Ev.kind) THEN {"unknown_kind"} ELSE {})
                                  \cup (IF SelectShapeOK /\ Ev.op = "S" /\ Ev.len > 0 /\ Ev.pat[Ev.len] = 0 THEN {"padded"} ELSE {}))
       [] e = "Get"    -> /\ Flag(GetRules) /\ devs' = devs
                          /\ Bump(IF Has("index") /\ Ev.index \in Nat /\ InRange(Ev.index) THEN {"get_in"} ELSE {"get_out"})
       [] e = "Open"   -> /\ Flag(OpenRules) /\ devs' = devs /\ Bump(IF Has("skipped") /\ Ev.skipped = 0 THEN {"open"} ELSE {})
       [] e = "Count"  -> /\ Flag(IF Has("n") THEN If(Ev.n # Len(devs), "CountMismatch") ELSE <<"HarnessBadEvent">>)
                          /\ devs' = devs /\ Bump({"count"})
       [] e = "Crash"  -> /\ Flag(<<"Crash">>) /\ devs' = devs /\ Bump({})
       [] e = "Exception" -> /\ Flag(<<"Exception">>) /\ devs' = devs /\ Bump({})
       [] e = "Slow"   -> /\ Flag(<<>>) /\ devs' = devs /\ Bump({"slow"})
       [] e = "End"    -> /\ Flag(<<>>) /\ devs' = devs /\ Bump({})
       [] e = "BadCase" -> /\ Flag(<<"HarnessBadCase">>) /\ devs' = devs /\ Bump({})
       [] OTHER        -> /\ Flag(<<"UnknownEvent">>) /\ devs' = devs /\ Bump({})

Finish ==
  /\ l = Len(Tr) + 1 /\ ~done
  /\ done' = TRUE
  /\ PrintT(<<"VERDICT", ToJson([consumed |-> l - 1, nbad |-> nbad, bad |-> bad, cnt |-> cnt])>>)
  /\ UNCHANGED <<l, devs, bad, nbad, cnt>>

Next == Step \/ Finish
Spec == Init /\ [][Next]_vars
=============================================================================
