----------------------------- MODULE ChannelObs -----------------------------
(***************************************************************************)
(* Observation specification of the ring-buffer channel (properties C01,   *)
(* C02 and the safety half of C03), written as a TOTAL trace specification: *)
(* every event of a recorded implementation trace is consumed; an event    *)
(* that a rule forbids appends <<rule, line>> to `bad` instead of blocking. *)
(*                                                                         *)
(* It knows nothing about head/high/cycle: only API calls, arguments,       *)
(* returned offsets/lengths/status and the bytes the reader actually saw.   *)
(*                                                                         *)
(* Byte model: the i-th byte ever committed has index i (0-based) and the   *)
(* harness stores (i % 251) there; discarded regions hold the poison 255.   *)
(*                                                                         *)
(* Events (ndjson, field e):                                                *)
(*   Reset{cap}                       new channel of capacity cap            *)
(*   WMap{n,off}                      write_map(n) returned offset off, -1 = no region *)
(*   WBlock{n}                        write_map(n) reached the cv wait (would block)   *)
(*   WCommit                          write_unmap                            *)
(*   WAbort                           abort_write                            *)
(*   Accept{b}                        accept_writes(b)                       *)
(*   RMap{r,off,len,st,seen}          read_map by reader r                   *)
(*   RUnmap{r,c,seen}                 read_unmap(r,c); seen = region re-read just before *)
(*   Hang{kind,wasleep,threads}       the deterministic scheduler found a deadlock / fair livelock *)
(*   End / Sched{ids}                 end of an execution / schedule taken (not judged)            *)
(*   Push / Pop                       save / restore the observation state   *)
(*                                    (exploration harness walks a tree)     *)
(***************************************************************************)
EXTENDS Naturals, Integers, Sequences, FiniteSets, TLC, Json, IOUtils

Tr == ndJsonDeserialize(IOEnv.TRACE)
MaxR == 8
Readers == 1..MaxR
POISON == 255
M == 251

VARIABLES l,      \* next line of Tr
          o,      \* observation state (record, see ObsInit)
          stk,    \* stack of saved observation states
          bad,    \* sequence of <<rule, line>> (first 100 only)
          nbad,   \* total number of refusals
          done

vars == <<l, o, stk, bad, nbad, done>>

ObsInit(cap) ==
  [ cap   |-> cap,
    mem   |-> [x \in 0..(cap-1) |-> -1],     \* committed byte index stored at offset x, -1 = dirty
    bnd   |-> [x \in 0..(cap-1) |-> FALSE],  \* mem[x] is the first byte of a write
    com   |-> 0,                             \* number of bytes committed so far
    acc   |-> TRUE,
    pend  |-> <<-1, 0>>,                     \* writer's pending region <<off, n>>
    next  |-> [r \in Readers |-> -1],        \* next byte index reader r must see; -1 = not joined
    held  |-> [r \in Readers |-> <<-1, 0>>]  \* region reader r has mapped <<off, len>>
  ]

Init == /\ l = 1 /\ o = ObsInit(1) /\ stk = <<>> /\ bad = <<>> /\ nbad = 0 /\ done = FALSE

Ev == Tr[l]
\* at most 20 entries per rule are kept (so that frequent refusals of one rule never hide another rule's)
Count(b, name) == Cardinality({j \in 1..Len(b) : b[j][1] = name})
RECURSIVE AddAll(_, _, _)
AddAll(b, rules, i) == IF i > Len(rules) THEN b
                       ELSE AddAll(IF Count(b, rules[i]) < 20 THEN Append(b, <<rules[i], l>>) ELSE b, rules, i + 1)
Flag(rules) == /\ bad' = AddAll(bad, rules, 1)
               /\ nbad' = nbad + Len(rules)
NoFlag == bad' = bad /\ nbad' = nbad
InBuf(off, n) == off >= 0 /\ n >= 0 /\ off + n <= o.cap

\* offsets whose content some joined reader still has to see (this includes what is currently mapped)
Needed(x) == o.mem[x] >= 0 /\ \E r \in Readers : o.next[r] >= 0 /\ o.mem[x] >= o.next[r]

AllDrained == \A r \in Readers : o.next[r] >= 0 => (o.next[r] = o.com /\ o.held[r][1] = -1)

\* ---- rules; each yields a (possibly empty) sequence of violated rule names -------------------
If(c, name) == IF c THEN <<name>> ELSE <<>>

WMapRules(n, off) ==
  IF off < 0 THEN
     \* "no region": legitimate only when the channel refuses writes (or the request is >= capacity)
     If(o.acc /\ n < o.cap, "WriteRefusedWhileAccepting")
  ELSE
     If(~InBuf(off, n), "WriteOutOfBuffer")
     \o If(InBuf(off, n) /\ \E x \in off..(off+n-1) : Needed(x), "WriterOverlapsUnread")
     \o If(~o.acc /\ \E r \in Readers : o.next[r] >= 0, "WriteGrantedWhileRefusing")

RMapRules(r, off, len, st, seen) ==
  LET joined == o.next[r] >= 0 IN
  If(st # 0, "ReaderStatusNotOk")
  \o If(o.held[r][1] # -1, "HarnessMisuseMapWhileMapped")
  \o (IF len = 0 THEN
        If(joined /\ o.next[r] # o.com, "EmptyNotDrained")
      ELSE IF len < 0 \/ ~InBuf(off, len) THEN <<"ReadOutOfBuffer">>
      ELSE IF Len(seen) # len THEN <<"HarnessSeenLength">>
      ELSE IF joined THEN
           If(\E i \in 0..(len-1) : o.mem[off+i] # o.next[r] + i, "ReadWrongPlace")
           \o If(\E i \in 0..(len-1) : seen[i+1] # (o.next[r] + i) % M, "ReadWrongBytes")
           \o If(o.next[r] + len > o.com, "ReadUncommitted")
      ELSE \* first delivery: must begin at a write boundary no later than the join
           LET b == o.mem[off] IN
           If(b < 0 \/ ~o.bnd[off], "JoinNotAtBoundary")
           \o If(b >= 0 /\ \E i \in 0..(len-1) : o.mem[off+i] # b + i, "ReadWrongPlace")
           \o If(b >= 0 /\ \E i \in 0..(len-1) : seen[i+1] # (b + i) % M, "ReadWrongBytes")
           \o If(b >= 0 /\ b + len > o.com, "ReadUncommitted"))

RUnmapRules(r, c, seen) ==
  LET off == o.held[r][1]  len == o.held[r][2] IN
  IF off = -1 THEN <<>>     \* unmap without a mapping is a no-op
  ELSE If(Len(seen) = len /\ \E i \in 0..(len-1) : seen[i+1] # (o.next[r] + i) % M, "MappedRegionModified")

\* ---- state updates ---------------------------------------------------------------------------
Min(a, b) == IF a < b THEN a ELSE b

DoWMap(n, off) ==
  IF off < 0 \/ ~InBuf(off, n) THEN o
  ELSE [o EXCEPT !.pend = <<off, n>>,
                 !.mem = [x \in 0..(o.cap-1) |-> IF x >= off /\ x < off + n THEN -1 ELSE o.mem[x]],
                 !.bnd = [x \in 0..(o.cap-1) |-> IF x >= off /\ x < off + n THEN FALSE ELSE o.bnd[x]]]

DoWCommit ==
  LET off == o.pend[1]  n == o.pend[2] IN
  IF off < 0 THEN o
  ELSE IF ~o.acc THEN [o EXCEPT !.pend = <<-1, 0>>]           \* a commit while refusing is discarded
  ELSE [o EXCEPT !.pend = <<-1, 0>>,
                 !.mem = [x \in 0..(o.cap-1) |-> IF x >= off /\ x < off + n THEN o.com + (x - off) ELSE o.mem[x]],
                 !.bnd = [x \in 0..(o.cap-1) |-> IF x >= off /\ x < off + n THEN x = off ELSE o.bnd[x]],
                 !.com = o.com + n]

DoRMap(r, off, len) ==
  IF len <= 0 \/ ~InBuf(off, len)
  THEN (IF o.next[r] < 0 THEN [o EXCEPT !.next[r] = o.com] ELSE o)   \* empty first read pins the start at "now"
  ELSE LET b == IF o.next[r] >= 0 THEN o.next[r] ELSE (IF o.mem[off] >= 0 THEN o.mem[off] ELSE o.com) IN
       [o EXCEPT !.next[r] = b, !.held[r] = <<off, len>>]

DoRUnmap(r, c) ==
  LET len == o.held[r][2] IN
  IF o.held[r][1] = -1 THEN o
  ELSE [o EXCEPT !.held[r] = <<-1, 0>>, !.next[r] = o.next[r] + Min(c, len)]

\* ---- one step per trace line -------------------------------------------------------------------
Step ==
  /\ l <= Len(Tr) /\ ~done
  /\ l' = l + 1 /\ done' = FALSE
  /\ LET e == Ev.e IN
     CASE e = "Reset"   -> /\ o' = ObsInit(Ev.cap) /\ stk' = <<>> /\ NoFlag
       [] e = "Push"    -> /\ stk' = Append(stk, o) /\ o' = o /\ NoFlag
       [] e = "Pop"     -> /\ (IF Len(stk) > 0
                               THEN o' = stk[Len(stk)] /\ stk' = SubSeq(stk, 1, Len(stk) - 1) /\ NoFlag
                               ELSE o' = o /\ stk' = stk /\ Flag(<<"HarnessPopEmpty">>))
       [] e = "WMap"    -> /\ Flag(WMapRules(Ev.n, Ev.off)) /\ o' = DoWMap(Ev.n, Ev.off) /\ stk' = stk
       [] e = "WBlock"  -> /\ Flag(If(AllDrained, "BlockedWhileDrained") \o If(~o.acc, "BlockedWhileRefusing"))
                           /\ o' = o /\ stk' = stk
       [] e = "WCommit" -> /\ o' = DoWCommit /\ stk' = stk /\ NoFlag
       [] e = "WAbort"  -> /\ o' = [o EXCEPT !.pend = <<-1, 0>>] /\ stk' = stk /\ NoFlag
       [] e = "Accept"  -> /\ o' = [o EXCEPT !.acc = Ev.b] /\ stk' = stk /\ NoFlag
       [] e = "RMap"    -> /\ Flag(RMapRules(Ev.r, Ev.off, Ev.len, Ev.st, Ev.seen))
                           /\ o' = DoRMap(Ev.r, Ev.off, Ev.len) /\ stk' = stk
       [] e = "RUnmap"  -> /\ Flag(RUnmapRules(Ev.r, Ev.c, Ev.seen))
                           /\ o' = DoRUnmap(Ev.r, Ev.c) /\ stk' = stk
       [] e = "Hang"    -> /\ Flag(IF Ev.wasleep /\ ~o.acc THEN <<"HangWriterAsleepWhileRefusing">>
                                    ELSE IF Ev.wasleep /\ AllDrained THEN <<"HangWriterAsleepWhileDrained">>
                                    ELSE <<>>)   \* a writer may wait for good for readers that stopped reading
                           /\ o' = o /\ stk' = stk
       \* the writer was asleep at a deadlock and obtained its region after a mere spurious wake-up: it had been blocked
       \* although the channel itself grants the request (a lost wake-up)
       [] e = "LostWakeup" -> /\ Flag(<<"WriterAsleepThoughGrantable">>) /\ o' = o /\ stk' = stk
       \* a reader that kept reading (map + consume everything) with the writer idle must be drained after a bounded
       \* number of non-empty reads (the old lap's remainder, then the new lap: 2; the bound used here is generous)
       [] e = "DrainProbe" -> /\ Flag(If(~Ev.drained \/ Ev.calls > 3, "DrainNotBounded")) /\ o' = o /\ stk' = stk
       [] e \in {"End", "Sched"} -> /\ NoFlag /\ o' = o /\ stk' = stk
       [] OTHER         -> /\ Flag(<<"UnknownEvent">>) /\ o' = o /\ stk' = stk

Finish ==
  /\ l = Len(Tr) + 1 /\ ~done
  /\ done' = TRUE
  /\ PrintT(<<"VERDICT", ToJson([consumed |-> l - 1, nbad |-> nbad, bad |-> bad])>>)
  /\ UNCHANGED <<l, o, stk, bad, nbad>>

Next == Step \/ Finish
Spec == Init /\ [][Next]_vars
=============================================================================
