---------------------------- MODULE LifecycleObs ----------------------------
(***************************************************************************)
(* Observation specification of the device life cycle under arbitrary      *)
(* client programs (property C08): total trace spec over the public API    *)
(* calls and the calls each opened device handle receives from the runtime. *)
(* Handles are numbered by the (mock) driver at open: hd.                    *)
(*  Api{op,ph,rc,st}  DevOpen/DevClose{kind,s,hd}  CamStart/CamStop/CamTrig/ *)
(*  CamFrame{hd}  StorStart/StorStop/StorAppend/StorFail{hd}                  *)
(*  ThreadStart/ThreadExit{name}  Hang  End                                 *)
(*  Api configure call {req}  Query{s,rcs,rcc,st,rb}  (read-back, an extension) *)
(***************************************************************************)
EXTENDS Naturals, Integers, Sequences, FiniteSets, TLC, Json, IOUtils
Tr == ndJsonDeserialize(IOEnv.TRACE)
ARMED == 2
RUNNING == 3
MaxH == 64
VARIABLES l, d, bad, nbad, done
vars == <<l, d, bad, nbad, done>>
DInit == [ open    |-> {},        \* handles open
           closed  |-> {},        \* handles closed
           running |-> {},        \* handles started and not yet stopped
           alive   |-> {},        \* worker threads created and not yet exited
           shut    |-> FALSE,     \* shutdown has returned
           active  |-> FALSE,     \* a start call has been made and no stop/abort has returned since
           req     |-> <<>>,      \* what the configure call in progress asked for (per stream: on, cam, sto, mfc, avg)
           conf    |-> <<>>,      \* what the last configure asked for if it succeeded, <<>> otherwise
           clean   |-> FALSE ]    \* no device has refused or failed anything since that configure call began
                                  \* (acquire_configure reports Ok even when a stream could not be configured)
Init == l = 1 /\ d = DInit /\ bad = <<>> /\ nbad = 0 /\ done = FALSE
Ev == Tr[l]
If(x, name) == IF x THEN <<name>> ELSE <<>>
\* at most 20 entries per rule are kept (so that frequent refusals of one rule never hide another rule's)
Count(b, name) == Cardinality({j \in 1..Len(b) : b[j][1] = name})
RECURSIVE AddAll(_, _, _)
AddAll(b, rules, i) == IF i > Len(rules) THEN b
                       ELSE AddAll(IF Count(b, rules[i]) < 20 THEN Append(b, <<rules[i], l>>) ELSE b, rules, i + 1)
Flag(rules) == /\ bad' = AddAll(bad, rules, 1)
               /\ nbad' = nbad + Len(rules)
NoFlag == bad' = bad /\ nbad' = nbad
H(e) == IF e.hd \in 1..MaxH THEN e.hd ELSE 0
Use(e) == If(H(e) \in d.closed, "UseAfterClose") \o If(H(e) \notin d.open \cup d.closed, "UseOfUnknownHandle") \o If(d.shut, "UseAfterShutdown")

\* acquire_get_configuration: device choice, frame limit and averaging window of every configured stream are those of the
\* last configure that succeeded; acquire_get_shape answers for a configured stream whenever the runtime is configured.
Readback(e) ==
  IF d.conf = <<>> \/ d.shut \/ ~d.clean THEN <<>>
  ELSE If(e.rcc = 0 /\ \E i \in 1..Len(d.conf) : i <= Len(e.rb) /\ d.conf[i].on = 1
                        /\ (e.rb[i].cam # d.conf[i].cam \/ e.rb[i].sto # d.conf[i].sto
                            \/ e.rb[i].mfc # d.conf[i].mfc \/ e.rb[i].avg # d.conf[i].avg), "ReadbackDisagrees")
       \o If(e.st \in {ARMED, RUNNING} /\ e.s + 1 \in 1..Len(d.conf) /\ d.conf[e.s + 1].on = 1 /\ e.rcs # 0, "ShapeQueryRefused")

Next1 ==
  /\ l <= Len(Tr) /\ ~done /\ l' = l + 1 /\ done' = FALSE
  /\ LET e == Ev  k == e.e IN
     CASE k = "Reset" -> d' = DInit /\ NoFlag
       [] k = "DevOpen" -> Flag(If(H(e) \in d.open \cup d.closed, "HandleReused") \o If(d.shut, "UseAfterShutdown")) /\ d' = [d EXCEPT !.open = d.open \cup {H(e)}]
       [] k = "DevClose" -> /\ Flag(If(H(e) \in d.closed, "ClosedTwice") \o If(H(e) \notin d.open \cup d.closed, "UseOfUnknownHandle")
                                   \o If(H(e) \in d.running, "ClosedWhileRunning") \o If(d.shut, "UseAfterShutdown"))
                            /\ d' = [d EXCEPT !.open = d.open \ {H(e)}, !.closed = d.closed \cup {H(e)}, !.running = d.running \ {H(e)}]
       [] k \in {"CamStart", "StorStart"} -> Flag(Use(e) \o If(H(e) \in d.running, "StartWhileRunning")) /\ d' = [d EXCEPT !.running = d.running \cup {H(e)}]
       [] k \in {"CamStop", "StorStop"} -> Flag(Use(e) \o If(H(e) \notin d.running, "StopWithoutStart")) /\ d' = [d EXCEPT !.running = d.running \ {H(e)}]
       [] k = "StorFail" -> Flag(Use(e)) /\ d' = [d EXCEPT !.running = d.running \ {H(e)}, !.clean = FALSE]   \* the device left the running state by itself
       [] k = "StorAppend" -> Flag(Use(e) \o If(H(e) \notin d.running, "AppendOutsideStartStop")) /\ d' = d
       [] k = "CamFrame" -> Flag(Use(e) \o If(H(e) \notin d.running, "FrameOutsideStartStop")) /\ d' = d
       [] k \in {"CamTrig", "DevUse"} -> Flag(Use(e)) /\ d' = d     \* (DevUse: set / get / get_meta / get_shape / reserve)
       [] k = "ThreadStart" -> d' = [d EXCEPT !.alive = d.alive \cup {e.name}] /\ NoFlag
       [] k = "ThreadExit" -> d' = [d EXCEPT !.alive = d.alive \ {e.name}] /\ NoFlag
       [] k = "Api" /\ e.ph = "call" -> d' = (IF e.op = "start" THEN [d EXCEPT !.active = TRUE]
                                               ELSE IF e.op = "configure" /\ "req" \in DOMAIN e THEN [d EXCEPT !.req = e.req, !.clean = TRUE]
                                               ELSE d) /\ NoFlag
       \* ---- beyond the listed properties: the read-only API reads back what the last successful configure stored ----
       [] k = "Query" -> Flag(Readback(e)) /\ d' = d
       [] k = "Api" /\ e.ph = "ret" ->
            (CASE e.op \in {"stop", "abort"} ->
                    /\ Flag(If(d.alive # {}, "WorkersAliveAfterStop") \o If(d.running # {}, "DeviceRunningAfterStop")
                            \o If(d.active /\ e.st # ARMED, "NotArmedAfterStop"))
                    /\ d' = [d EXCEPT !.active = FALSE]
               [] e.op = "shutdown" ->
                    /\ Flag(If(d.open # {}, "DeviceNotClosedByShutdown") \o If(d.alive # {}, "WorkersAliveAfterShutdown"))
                    /\ d' = [d EXCEPT !.shut = TRUE, !.active = FALSE]
               [] e.op = "state" -> Flag(If(e.st = RUNNING /\ d.alive = {}, "RunningWithoutWorkers")) /\ d' = d
               [] e.op = "start" -> d' = (IF e.rc # 0 THEN [d EXCEPT !.active = FALSE, !.clean = FALSE] ELSE d) /\ NoFlag
               [] e.op = "configure" -> d' = [d EXCEPT !.conf = IF e.rc = 0 THEN d.req ELSE <<>>] /\ NoFlag
               [] OTHER -> d' = d /\ NoFlag)
       [] k = "Hang" -> Flag(<<"Hang">>) /\ d' = d
       [] k = "Crash" -> Flag(<<"Crash">>) /\ d' = d
       [] k \in {"CamFail", "CamSetFail", "DevOpenFail"} -> d' = [d EXCEPT !.clean = FALSE] /\ NoFlag
       [] k \in {"End", "Sched", "CamNoData", "AvgSet", "MonMap", "MonUnmap", "Api2"} -> d' = d /\ NoFlag
       [] OTHER -> Flag(<<"UnknownEvent">>) /\ d' = d
Finish == /\ l = Len(Tr) + 1 /\ ~done /\ done' = TRUE
          /\ PrintT(<<"VERDICT", ToJson([consumed |-> l - 1, nbad |-> nbad, bad |-> bad])>>)
          /\ UNCHANGED <<l, d, bad, nbad>>
Next == Next1 \/ Finish
Spec == Init /\ [][Next]_vars
=============================================================================
