----------------------------- MODULE Lifecycle -----------------------------
(***************************************************************************)
(* Implementation-shaped model of the runtime's life-cycle logic (C08):    *)
(* acquire_configure / start / stop / abort / get_state / shutdown in       *)
(* acquire.c, video_source_configure / video_sink_configure and the HAL     *)
(* state guards, over 2 streams and 2 cameras x 2 storages. Worker threads  *)
(* are abstracted to "alive" plus the two device stops they issue when they *)
(* finish. Every step that the devices or the client can observe emits      *)
(* exactly one event (the `ev` variable); all other steps are silent, so    *)
(* the same module serves as the trace specification for recorded           *)
(* executions (LifecycleTrace.tla).                                         *)
(* Client programs are generated inside the model (any call in any order,   *)
(* up to MaxCalls), under the well-formedness assumptions of DESIGN.md:     *)
(* the device assignment of a stream is not changed while its workers are   *)
(* alive, and stop is only called when every running stream is finite.      *)
(***************************************************************************)
EXTENDS Naturals, Integers, Sequences, FiniteSets, TLC

CONSTANTS MaxCalls,     \* bound on the number of API calls per program
          Finite,       \* Finite[s]: stream s stops by itself (finite frame count)
          SameStore,    \* configurations in which both streams use the same storage device are offered to the client
          BadDev        \* configurations that name a device which cannot be opened are offered to the client
Streams == {0, 1}
Devs == {0, 1}
AWAIT == 1
ARMED == 2
RUNNING == 3
\* device assignments a configure call may ask for: <<cam0, sto0, cam1, sto1>>, -1 = stream not configured
Cfgs == {<<0, 0, -1, -1>>, <<0, 0, 1, 1>>, <<1, 1, -1, -1>>, <<-1, -1, 0, 0>>, <<0, 1, 1, 0>>, <<1, 0, -1, -1>>, <<-1, -1, -1, -1>>}
        \cup (IF SameStore THEN {<<0, 0, 1, 0>>} ELSE {})
        \cup (IF BadDev THEN {<<2, 0, -1, -1>>, <<0, 2, -1, -1>>} ELSE {})
\* BadDev: camera 2 / storage 2 are enumerated but cannot be opened. The stream is then not configured (acquire_configure
\* still answers Ok), the device it had is closed, and the other device of the stream is configured all the same.
\* SameStore: both streams may be pointed at storage device 0. A storage device has one writer (as the raw writer's file lock):
\* the second instance's start is refused by the driver, acquire_start fails and winds down what it had started (finding F11).

VARIABLES rstate, valid, cam, sto, camSt, stoSt, camDrv, stoDrv, alive, stopReq,
          pc, arg, cur, ncalls, want, ev,
          \* ghost: protocol bookkeeping per handle = (kind, stream slot holding it)
          opened, running, bad
vars == <<rstate, valid, cam, sto, camSt, stoSt, camDrv, stoDrv, alive, stopReq, pc, arg, cur, ncalls, want, ev, opened, running, bad>>

NoEv == [e |-> "none", a |-> 0, b |-> 0]
E(name, a, b) == [e |-> name, a |-> a, b |-> b]
Max(a, b) == IF a > b THEN a ELSE b
GS == IF rstate = RUNNING THEN (IF \E s \in valid : alive[s] THEN RUNNING ELSE ARMED) ELSE rstate
Required(c, s) == c[2 * s + 1] >= 0 /\ c[2 * s + 2] >= 0
AnyAlive == \E s \in Streams : alive[s]

Init ==
  /\ rstate = AWAIT /\ valid = {} /\ cam = [s \in Streams |-> -1] /\ sto = [s \in Streams |-> -1]
  /\ camSt = [s \in Streams |-> AWAIT] /\ stoSt = [s \in Streams |-> AWAIT]
  /\ camDrv = [s \in Streams |-> FALSE] /\ stoDrv = [s \in Streams |-> FALSE]
  /\ alive = [s \in Streams |-> FALSE] /\ stopReq = [s \in Streams |-> FALSE]
  /\ pc = "idle" /\ arg = <<-1, -1, -1, -1>> /\ cur = 0 /\ ncalls = 0 /\ want = <<-1, -1, -1, -1>> /\ ev = NoEv
  /\ opened = {} /\ running = {} /\ bad = "none"

\* ---- ghost protocol checks (the LifecycleObs rules evaluated inside the model) -----------------------
Open(k, d) == /\ opened' = opened \cup {<<k, d>>}
              /\ bad' = IF <<k, d>> \in opened THEN "OpenedTwice" ELSE bad
              /\ UNCHANGED running
Close(k, d) == /\ opened' = opened \ {<<k, d>>}
               /\ bad' = IF <<k, d>> \notin opened THEN "ClosedTwice" ELSE IF <<k, d>> \in running THEN "ClosedWhileRunning" ELSE bad
               /\ running' = running \ {<<k, d>>}
Start(k, d) == /\ running' = running \cup {<<k, d>>}
               /\ bad' = IF <<k, d>> \notin opened THEN "UseAfterClose" ELSE IF <<k, d>> \in running THEN "StartWhileRunning" ELSE bad
               /\ UNCHANGED opened
Stop(k, d) == /\ running' = running \ {<<k, d>>}
              /\ bad' = IF <<k, d>> \notin opened THEN "UseAfterClose" ELSE IF <<k, d>> \notin running THEN "StopWithoutStart" ELSE bad
              /\ UNCHANGED opened
NoDev == UNCHANGED <<opened, running, bad>>

\* ---- workers (abstract): the two device stops a finishing stream issues, then the threads are gone ------
MayFinish(s) == alive[s] /\ (Finite[s] \/ stopReq[s])
WCamStop(s) == /\ MayFinish(s) /\ camDrv[s]
               /\ camDrv' = [camDrv EXCEPT ![s] = FALSE] /\ camSt' = [camSt EXCEPT ![s] = ARMED]
               /\ ev' = E("CamStop", cam[s], 0) /\ Stop("cam", s)
               /\ UNCHANGED <<rstate, valid, cam, sto, stoSt, stoDrv, alive, stopReq, pc, arg, cur, ncalls, want>>
WStorStop(s) == /\ MayFinish(s) /\ stoDrv[s]
                /\ stoDrv' = [stoDrv EXCEPT ![s] = FALSE] /\ stoSt' = [stoSt EXCEPT ![s] = ARMED]
                /\ ev' = E("StorStop", sto[s], 0) /\ Stop("sto", s)
                /\ UNCHANGED <<rstate, valid, cam, sto, camSt, camDrv, alive, stopReq, pc, arg, cur, ncalls, want>>
WExit(s) == /\ MayFinish(s) /\ ~camDrv[s] /\ ~stoDrv[s]
            /\ alive' = [alive EXCEPT ![s] = FALSE] /\ stopReq' = [stopReq EXCEPT ![s] = FALSE]
            /\ ev' = NoEv /\ NoDev
            /\ UNCHANGED <<rstate, valid, cam, sto, camSt, stoSt, camDrv, stoDrv, pc, arg, cur, ncalls, want>>

\* ---- client: API calls as micro-steps ----------------------------------------------------------------------
Same == UNCHANGED <<rstate, valid, cam, sto, camSt, stoSt, camDrv, stoDrv, alive, stopReq>>
Goto(p) == pc' = p
CallBudget == pc = "idle" /\ ncalls < MaxCalls /\ ncalls' = ncalls + 1

\* configure(c): well-formed = while workers are alive the assignment of their streams stays as it is
CfgCall(c) == /\ CallBudget
              /\ \A s \in Streams : alive[s] => (c[2*s+1] = cam[s] /\ c[2*s+2] = sto[s])
              /\ want' = c /\ cur' = 0 /\ arg' = <<0, 0, 0, 0>> /\ Goto("cfg_cam_close")
              /\ ev' = E("ApiCall", 1, 0) /\ NoDev /\ Same
\* per stream: video_source_configure (close a different camera, open, set), video_sink_configure (same for storage)
CfgSkip == /\ pc = "cfg_cam_close" /\ cur \in Streams /\ ~Required(want, cur)
           /\ cur' = cur + 1 /\ ev' = NoEv /\ NoDev /\ Same /\ UNCHANGED <<pc, arg, ncalls, want>>
CfgCamClose == /\ pc = "cfg_cam_close" /\ cur \in Streams /\ Required(want, cur)
               /\ IF cam[cur] # -1 /\ cam[cur] # want[2*cur+1]
                  THEN /\ ev' = E("DevClose", 0, cam[cur]) /\ Close("cam", cur) /\ cam' = [cam EXCEPT ![cur] = -1]
                       /\ camDrv' = [camDrv EXCEPT ![cur] = FALSE]
                  ELSE /\ ev' = NoEv /\ NoDev /\ UNCHANGED <<cam, camDrv>>
               /\ Goto("cfg_cam_open") /\ UNCHANGED <<rstate, valid, sto, camSt, stoSt, stoDrv, alive, stopReq, arg, cur, ncalls, want>>
CfgCamOpen == /\ pc = "cfg_cam_open"
              /\ IF cam[cur] = -1 /\ want[2*cur+1] = 2
                 THEN /\ ev' = E("DevOpenFail", 0, 2) /\ NoDev /\ UNCHANGED <<cam, camSt>>      \* camera_open returns NULL
                 ELSE IF cam[cur] = -1
                 THEN /\ ev' = E("DevOpen", 0, want[2*cur+1]) /\ Open("cam", cur)
                      /\ cam' = [cam EXCEPT ![cur] = want[2*cur+1]] /\ camSt' = [camSt EXCEPT ![cur] = ARMED]
                 ELSE /\ ev' = NoEv /\ NoDev /\ UNCHANGED cam
                      /\ camSt' = [camSt EXCEPT ![cur] = IF camSt[cur] = RUNNING THEN RUNNING ELSE ARMED]   \* camera_set
              /\ arg' = (IF cam[cur] = -1 /\ want[2*cur+1] = 2 THEN [arg EXCEPT ![cur + 1] = 2] ELSE arg)   \* 2 = this stream failed
              /\ Goto("cfg_sto_close") /\ UNCHANGED <<rstate, valid, sto, stoSt, camDrv, stoDrv, alive, stopReq, cur, ncalls, want>>
CfgStoClose == /\ pc = "cfg_sto_close"
               /\ IF sto[cur] # -1 /\ sto[cur] # want[2*cur+2]
                  THEN \* storage_close stops a running device first (one event per step: stop, then close)
                       IF stoDrv[cur]
                       THEN /\ ev' = E("StorStop", sto[cur], 0) /\ Stop("sto", cur) /\ stoDrv' = [stoDrv EXCEPT ![cur] = FALSE]
                            /\ UNCHANGED <<sto, pc>>
                       ELSE /\ ev' = E("DevClose", 1, sto[cur]) /\ Close("sto", cur) /\ sto' = [sto EXCEPT ![cur] = -1]
                            /\ Goto("cfg_sto_open") /\ UNCHANGED stoDrv
                  ELSE /\ ev' = NoEv /\ NoDev /\ Goto("cfg_sto_open") /\ UNCHANGED <<sto, stoDrv>>
               /\ UNCHANGED <<rstate, valid, cam, camSt, stoSt, camDrv, alive, stopReq, arg, cur, ncalls, want>>
CfgStoOpen == /\ pc = "cfg_sto_open"
              /\ IF sto[cur] = -1 /\ want[2*cur+2] = 2
                 THEN /\ ev' = E("DevOpenFail", 1, 2) /\ NoDev /\ UNCHANGED <<sto, stoSt>>      \* storage_open returns NULL
                 ELSE IF sto[cur] = -1
                 THEN /\ ev' = E("DevOpen", 1, want[2*cur+2]) /\ Open("sto", cur)
                      /\ sto' = [sto EXCEPT ![cur] = want[2*cur+2]] /\ stoSt' = [stoSt EXCEPT ![cur] = ARMED]
                 ELSE /\ ev' = NoEv /\ NoDev /\ UNCHANGED sto
                      /\ stoSt' = [stoSt EXCEPT ![cur] = IF stoSt[cur] = RUNNING THEN RUNNING ELSE ARMED]   \* storage_set (repaired)
              /\ arg' = [arg EXCEPT ![cur + 1] = IF arg[cur + 1] = 2 \/ (sto[cur] = -1 /\ want[2*cur+2] = 2) THEN 2 ELSE 1]   \* stream configured, or not
              /\ cur' = cur + 1 /\ Goto("cfg_cam_close")
              /\ UNCHANGED <<rstate, valid, cam, camSt, camDrv, stoDrv, alive, stopReq, ncalls, want>>
CfgRet == /\ pc = "cfg_cam_close" /\ cur = 2
          /\ LET v == {s \in Streams : arg[s + 1] = 1}
                 rs == IF v = {} THEN AWAIT ELSE Max(rstate, ARMED)
                 gs == IF rs = RUNNING THEN (IF \E s \in v : alive[s] THEN RUNNING ELSE ARMED) ELSE rs IN
             /\ valid' = v /\ rstate' = gs /\ ev' = E("ApiRet", 1, gs)
          /\ Goto("idle") /\ NoDev
          /\ UNCHANGED <<cam, sto, camSt, stoSt, camDrv, stoDrv, alive, stopReq, arg, cur, ncalls, want>>

\* start
StartCall == /\ CallBudget /\ cur' = 0 /\ Goto("start_check") /\ ev' = E("ApiCall", 2, 0) /\ NoDev /\ Same /\ UNCHANGED <<arg, want>>
StartRefused == /\ pc = "start_check" /\ (GS = RUNNING \/ valid = {})
                /\ rstate' = (IF GS = RUNNING THEN RUNNING ELSE AWAIT)
                /\ ev' = E("ApiRet", 2, IF GS = RUNNING THEN RUNNING ELSE AWAIT) /\ arg' = <<1, 0, 0, 0>>   \* rc = error
                /\ Goto("idle") /\ NoDev
                /\ UNCHANGED <<valid, cam, sto, camSt, stoSt, camDrv, stoDrv, alive, stopReq, cur, ncalls, want>>
StartGo == /\ pc = "start_check" /\ GS # RUNNING /\ valid # {}
           /\ rstate' = GS /\ Goto("start_sto") /\ ev' = NoEv /\ NoDev
           /\ UNCHANGED <<valid, cam, sto, camSt, stoSt, camDrv, stoDrv, alive, stopReq, arg, cur, ncalls, want>>
StartSkip == /\ pc = "start_sto" /\ cur \in Streams /\ cur \notin valid
             /\ cur' = cur + 1 /\ ev' = NoEv /\ NoDev /\ Same /\ UNCHANGED <<pc, arg, ncalls, want>>
Busy(s) == \E t \in Streams \ {s} : stoDrv[t] /\ sto[t] = sto[s]      \* another open instance of the same device is running
StartSto == /\ pc = "start_sto" /\ cur \in valid /\ stoSt[cur] = ARMED /\ ~Busy(cur)
            /\ stoSt' = [stoSt EXCEPT ![cur] = RUNNING] /\ stoDrv' = [stoDrv EXCEPT ![cur] = TRUE]
            /\ ev' = E("StorStart", sto[cur], 0) /\ Start("sto", cur) /\ Goto("start_cam")
            /\ UNCHANGED <<rstate, valid, cam, sto, camSt, camDrv, alive, stopReq, arg, cur, ncalls, want>>
StartCam == /\ pc = "start_cam" /\ camSt[cur] = ARMED
            /\ camSt' = [camSt EXCEPT ![cur] = RUNNING] /\ camDrv' = [camDrv EXCEPT ![cur] = TRUE]
            /\ alive' = [alive EXCEPT ![cur] = TRUE] /\ stopReq' = [stopReq EXCEPT ![cur] = FALSE]
            /\ ev' = E("CamStart", cam[cur], 0) /\ Start("cam", cur) /\ cur' = cur + 1 /\ Goto("start_sto")
            /\ UNCHANGED <<rstate, valid, cam, sto, stoSt, stoDrv, arg, ncalls, want>>
\* video_sink_start fails: the driver refuses the start (the device is left AwaitingConfiguration), or the HAL refuses a
\* device that is not armed without calling the driver. acquire_start's error path asks every valid stream to stop, joins
\* the workers it had started, and reports AwaitingConfiguration.
StartStoRefused == /\ pc = "start_sto" /\ cur \in valid /\ stoSt[cur] = ARMED /\ Busy(cur)
                   /\ stoSt' = [stoSt EXCEPT ![cur] = AWAIT]
                   /\ ev' = E("StorStartRefused", sto[cur], 0)
                   /\ bad' = (IF <<"sto", cur>> \notin opened THEN "UseAfterClose" ELSE bad) /\ UNCHANGED <<opened, running>>
                   /\ Goto("start_err")
                   /\ UNCHANGED <<rstate, valid, cam, sto, camSt, camDrv, stoDrv, alive, stopReq, arg, cur, ncalls, want>>
StartStoNotArmed == /\ pc = "start_sto" /\ cur \in valid /\ stoSt[cur] # ARMED
                    /\ ev' = NoEv /\ NoDev /\ Goto("start_err") /\ Same /\ UNCHANGED <<arg, cur, ncalls, want>>
StartErr == /\ pc = "start_err"
            /\ stopReq' = [s \in Streams |-> IF s \in valid THEN TRUE ELSE stopReq[s]]
            /\ ev' = NoEv /\ NoDev /\ Goto("start_err_join")
            /\ UNCHANGED <<rstate, valid, cam, sto, camSt, stoSt, camDrv, stoDrv, alive, arg, cur, ncalls, want>>
StartErrRet == /\ pc = "start_err_join" /\ \A s \in valid : ~alive[s]
               /\ rstate' = AWAIT /\ ev' = E("ApiRet", 2, AWAIT) /\ arg' = <<1, 0, 0, 0>> /\ Goto("idle") /\ NoDev
               /\ UNCHANGED <<valid, cam, sto, camSt, stoSt, camDrv, stoDrv, alive, stopReq, cur, ncalls, want>>
StartRet == /\ pc = "start_sto" /\ cur = 2
            /\ ev' = E("ApiRet", 2, IF \E s \in valid : alive[s] THEN RUNNING ELSE ARMED)
            /\ rstate' = (IF \E s \in valid : alive[s] THEN RUNNING ELSE ARMED)
            /\ Goto("idle") /\ NoDev
            /\ UNCHANGED <<valid, cam, sto, camSt, stoSt, camDrv, stoDrv, alive, stopReq, arg, cur, ncalls, want>>

\* stop (op 3) / abort (op 4): abort asks every valid stream to stop; both then join the workers of the valid streams
StopCall == /\ CallBudget /\ \A s \in valid : alive[s] => Finite[s]         \* well-formed: stop waits for completion
            /\ arg' = <<3, 0, 0, 0>> /\ Goto("join") /\ ev' = E("ApiCall", 3, 0) /\ NoDev /\ Same /\ UNCHANGED <<cur, want>>
AbortCall == /\ CallBudget
             /\ stopReq' = [s \in Streams |-> IF s \in valid THEN TRUE ELSE stopReq[s]]
             /\ arg' = <<4, 0, 0, 0>> /\ Goto("join") /\ ev' = E("ApiCall", 4, 0) /\ NoDev
             /\ UNCHANGED <<rstate, valid, cam, sto, camSt, stoSt, camDrv, stoDrv, alive, cur, want>>
JoinRet == /\ pc = "join" /\ \A s \in valid : ~alive[s]
           /\ rstate' = ARMED /\ ev' = E("ApiRet", arg[1], ARMED) /\ Goto("idle") /\ NoDev
           /\ UNCHANGED <<valid, cam, sto, camSt, stoSt, camDrv, stoDrv, alive, stopReq, arg, cur, ncalls, want>>

\* get_state (op 5)
StateCall == /\ CallBudget /\ rstate' = GS /\ ev' = E("ApiRet", 5, GS) /\ NoDev
             /\ UNCHANGED <<valid, cam, sto, camSt, stoSt, camDrv, stoDrv, alive, stopReq, pc, arg, cur, want>>

\* shutdown (op 6): abort, then per stream: join, close camera, stop+close storage
ShutCall == /\ pc = "idle" /\ \A s \in Streams : alive[s] => s \in valid   \* (streams running outside `valid` are excluded by well-formedness)
            /\ stopReq' = [s \in Streams |-> IF s \in valid THEN TRUE ELSE stopReq[s]]
            /\ Goto("shut_join") /\ cur' = 0 /\ ev' = E("ApiCall", 6, 0) /\ NoDev /\ ncalls' = MaxCalls
            /\ UNCHANGED <<rstate, valid, cam, sto, camSt, stoSt, camDrv, stoDrv, alive, arg, want>>
ShutJoin == /\ pc = "shut_join" /\ \A s \in Streams : ~alive[s]
            /\ Goto("shut_cam") /\ rstate' = ARMED /\ ev' = NoEv /\ NoDev
            /\ UNCHANGED <<valid, cam, sto, camSt, stoSt, camDrv, stoDrv, alive, stopReq, arg, cur, ncalls, want>>
ShutCam == /\ pc = "shut_cam" /\ cur \in Streams
           /\ IF cam[cur] # -1 THEN /\ ev' = E("DevClose", 0, cam[cur]) /\ Close("cam", cur) /\ cam' = [cam EXCEPT ![cur] = -1]
                               ELSE /\ ev' = NoEv /\ NoDev /\ UNCHANGED cam
           /\ Goto("shut_sto") /\ UNCHANGED <<rstate, valid, sto, camSt, stoSt, camDrv, stoDrv, alive, stopReq, arg, cur, ncalls, want>>
ShutSto == /\ pc = "shut_sto"
           /\ IF sto[cur] # -1
              THEN IF stoDrv[cur]
                   THEN /\ ev' = E("StorStop", sto[cur], 0) /\ Stop("sto", cur) /\ stoDrv' = [stoDrv EXCEPT ![cur] = FALSE]
                        /\ UNCHANGED <<sto, pc, cur>>
                   ELSE /\ ev' = E("DevClose", 1, sto[cur]) /\ Close("sto", cur) /\ sto' = [sto EXCEPT ![cur] = -1]
                        /\ cur' = cur + 1 /\ Goto("shut_cam") /\ UNCHANGED stoDrv
              ELSE /\ ev' = NoEv /\ NoDev /\ cur' = cur + 1 /\ Goto("shut_cam") /\ UNCHANGED <<sto, stoDrv>>
           /\ UNCHANGED <<rstate, valid, cam, camSt, stoSt, camDrv, alive, stopReq, arg, ncalls, want>>
ShutRet == /\ pc = "shut_cam" /\ cur = 2
           /\ ev' = E("ApiRet", 6, 0) /\ Goto("done")
           /\ bad' = (IF opened # {} THEN "DeviceNotClosedByShutdown" ELSE bad) /\ UNCHANGED <<opened, running>>
           /\ UNCHANGED <<rstate, valid, cam, sto, camSt, stoSt, camDrv, stoDrv, alive, stopReq, arg, cur, ncalls, want>>

Worker == \E s \in Streams : WCamStop(s) \/ WStorStop(s) \/ WExit(s)
Client == \/ \E c \in Cfgs : CfgCall(c)
          \/ CfgSkip \/ CfgCamClose \/ CfgCamOpen \/ CfgStoClose \/ CfgStoOpen \/ CfgRet
          \/ StartCall \/ StartRefused \/ StartGo \/ StartSkip \/ StartSto \/ StartCam \/ StartRet
          \/ StartStoRefused \/ StartStoNotArmed \/ StartErr \/ StartErrRet
          \/ StopCall \/ AbortCall \/ JoinRet \/ StateCall
          \/ ShutCall \/ ShutJoin \/ ShutCam \/ ShutSto \/ ShutRet
Next == Worker \/ Client
Spec == Init /\ [][Next]_vars
FairSpec == Spec /\ WF_vars(Worker) /\ WF_vars(Client)

\* ---- properties -------------------------------------------------------------------------------------------------
NoBad == bad = "none"
\* Running is only reported while workers are alive; Armed after stop / abort (checked on the return events)
ReportedStateOK == (ev.e = "ApiRet" /\ ev.b = RUNNING) => \E s \in Streams : alive[s]
ArmedAfterStop == (ev.e = "ApiRet" /\ ev.a \in {3, 4}) => ev.b = ARMED
DriverTruth == \A s \in Streams : (camDrv[s] => cam[s] # -1) /\ (stoDrv[s] => sto[s] # -1)
\* liveness: stop / abort / shutdown return
Returns == (pc \in {"join", "shut_join", "start_err_join"}) ~> (pc \notin {"join", "shut_join", "start_err_join"})
\* a failed start leaves no device running and no worker alive (the repaired error path of acquire_start)
FailedStartWindsDown == (ev.e = "ApiRet" /\ ev.a = 2 /\ ev.b = AWAIT /\ valid # {}) =>
                          \A s \in valid : ~alive[s] /\ ~camDrv[s] /\ ~stoDrv[s]
View == <<rstate, valid, cam, sto, camSt, stoSt, camDrv, stoDrv, alive, stopReq, pc, arg, cur, ncalls, want, opened, running, bad>>
=============================================================================
