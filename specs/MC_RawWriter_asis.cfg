\* the raw writer as it was (offset carried over, unconditional close): TLC must report NoErr violated
CONSTANTS NDev = 2 NPaths = 3 MaxCycles = 2 MaxAppends = 2 PacketSizes = {1, 2, 3} NScripts = 5
  MaxFaultAt = 4 FIXED = 0 SetRunning = TRUE FIX_SET = 1 MaxFd = 5 Ghost = TRUE Export = FALSE
SPECIFICATION Spec
VIEW View
INVARIANTS NoErr TypeOK OwnsItsFile RunningFile
CHECK_DEADLOCK FALSE
