--------------------------- MODULE PipelineTrace ---------------------------
(***************************************************************************)
(* Binds the implementation-shaped model Pipeline.tla to the code: a       *)
(* recorded execution of the real runtime (projected to the events below)  *)
(* must be a behaviour of the model. Observable model steps consume one     *)
(* trace event; all other steps are silent. Acceptance = some interleaving  *)
(* of the model reaches the end of the trace (INVARIANT NotAccepted is      *)
(* violated); exhaustion without acceptance = DRIFT (never a violation).    *)
(* Events: StartCall StartRet CamFrame CamFail Append{n} StorFail StorStop  *)
(* CamStop ExitS ExitF ExitK MonMap{n} MonUnmap AbortCall StopCall StopRet  *)
(***************************************************************************)
EXTENDS Pipeline, Json, IOUtils
Tr == ndJsonDeserialize(IOEnv.TRACE)
VARIABLE l
tvars == <<vars, l>>
Obs1(name) == l <= Len(Tr) /\ Tr[l].e = name /\ l' = l + 1
ObsN(name, k) == l <= Len(Tr) /\ Tr[l].e = name /\ Tr[l].n = k /\ l' = l + 1
Sil == l' = l

TS3 == S3 /\ (IF got THEN (IF camFailed' /\ ~camFailed THEN Obs1("CamFail") ELSE Obs1("CamFrame")) ELSE Sil)
TS7 == S7 /\ (IF camRunning THEN Obs1("CamStop") ELSE Sil)
TK3 == K3 /\ (IF slice > 0 /\ old > 0 THEN (IF storFailed' /\ ~storFailed THEN Obs1("StorFail") ELSE ObsN("Append", old)) ELSE Sil)
TKG == KG /\ (IF slice > 0 /\ storRunning THEN (IF storFailed' /\ ~storFailed THEN Obs1("StorFail") ELSE ObsN("Append", slice)) ELSE Sil)
TKS == KS /\ Obs1("StorStop")
TS8 == S8 /\ Obs1("ExitS")
TFK == FK /\ Obs1("ExitF")
TKD == KD /\ Obs1("ExitK")
TKE3 == KE3 /\ Obs1("ExitK")
TC0 == C0 /\ Obs1("StartCall")
TC2 == C2r /\ Obs1("StartRet")
TC3m == C3m /\ (IF mslice' > 0 THEN ObsN("MonMap", mslice') ELSE Sil)
TC3u == C3u /\ (IF mslice > 0 THEN Obs1("MonUnmap") ELSE Sil)
TC4 == C4 /\ (IF aborted' /\ ~aborted THEN Obs1("AbortCall") ELSE Sil)
TC5 == C5 /\ (IF ~aborted THEN Obs1("StopCall") ELSE Sil)
TC9 == C9 /\ Obs1("StopRet")
Silent == /\ \/ S0 \/ S1 \/ S2 \/ S4 \/ S5 \/ S5j \/ S6
             \/ F0 \/ F1 \/ F2 \/ F3 \/ F4 \/ F5 \/ FF \/ FG \/ FH \/ FI \/ FJ
             \/ K0 \/ K1 \/ K2 \/ K4 \/ K5 \/ KF \/ KH \/ KE \/ KE1 \/ KE2
             \/ C1 \/ C2 \/ C3 \/ C4a \/ C5j \/ C6 \/ C7 \/ C8 \/ CX
          /\ Sil
TNext == TS3 \/ TS7 \/ TK3 \/ TKG \/ TKS \/ TS8 \/ TFK \/ TKD \/ TKE3 \/ TC0 \/ TC2 \/ TC3m \/ TC3u \/ TC4 \/ TC5 \/ TC9 \/ Silent
TInit == Init /\ l = 1 /\ TLCSet(1, 1)
\* diagnostics: the longest prefix of the trace any interleaving of the model could follow (workers = 1)
TrackMax == IF l' > TLCGet(1) THEN TLCSet(1, l') ELSE TRUE
Report == PrintT(<<"MAXL", TLCGet(1), Len(Tr)>>)
TSpec == TInit /\ [][TNext]_tvars
NotAccepted == l <= Len(Tr)
=============================================================================
