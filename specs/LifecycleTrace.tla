--------------------------- MODULE LifecycleTrace ---------------------------
(* A recorded execution of the real runtime (projected to the events Lifecycle.tla emits) must be a behaviour of the
   model: every model step that emits an event consumes one trace line, silent steps consume none. Acceptance =
   INVARIANT NotAccepted violated; exhaustion = DRIFT. *)
EXTENDS MCLifecycle, Json, IOUtils
\* ---- trace checking: a recorded execution (projected to the model's events) must be a behaviour of the model ----
Tr == ndJsonDeserialize(IOEnv.TRACE)
VARIABLE l
TInit == Init /\ l = 1 /\ TLCSet(1, 1)
TNext == /\ Next
         /\ IF ev'.e = "none" THEN l' = l
            ELSE /\ l <= Len(Tr) /\ Tr[l].e = ev'.e /\ Tr[l].a = ev'.a /\ Tr[l].b = ev'.b /\ l' = l + 1
TSpec == TInit /\ [][TNext]_<<vars, l>>
NotAccepted == l <= Len(Tr)
TrackMax == IF l' > TLCGet(1) THEN TLCSet(1, l') ELSE TRUE
Report == PrintT(<<"MAXL", TLCGet(1), Len(Tr)>>)
=============================================================================
