CONSTANTS NObj = 2 MaxDims = 2 FIXED = 1 HistMode = 0 SampleMod = 1 WalkDepth = 0 Depth = 4
 UriKinds = {0,2,3,4} MetaKinds = {0,3} KeyKinds = {0,3} NameKinds = {} InitDims = {0} BorrowKinds = {2,4} DimTags = {1} MsVals = {} WithBad = 0
SPECIFICATION Spec
CHECK_DEADLOCK FALSE
VIEW View
INVARIANTS NoErr NoShare NoDangling NoLeak DestroyedMeansEmpty Terminated
PROPERTIES CopyPost OthersUntouched
