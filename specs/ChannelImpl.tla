---------------------------- MODULE ChannelImpl ----------------------------
(***************************************************************************)
(* Implementation-shaped specification of channel.c (sequential view: each *)
(* API function is one atomic action, which is what the channel lock gives). *)
(* Variables mirror struct channel / struct channel_reader.  Ghost state is  *)
(* RELATIVE (age of the byte stored at each offset, clipped at Cap; lag of  *)
(* each reader) and lap counters only enter the fingerprint through a VIEW  *)
(* that subtracts their minimum, so the complete state graph is finite      *)
(* without bounding the number of committed bytes or laps.                  *)
(* `err` records the first violated observation-level clause (C01/C02).     *)
(* FIXED = 1 models the repaired code: channel_read_map continues into the  *)
(* writer's lap when the old lap is exhausted, and channel_write_map moves   *)
(* caught-up readers to the new lap when it wraps; FIXED = 0 = before.       *)
(***************************************************************************)
EXTENDS Naturals, Integers, Sequences, FiniteSets, TLC, Json
CONSTANTS Cap, MaxReaders, MaxWrite, WithAccept, FIXED, SampleMod
VARIABLES head, high, cycle, mapped, accepting, n, hpos, hcyc,
          rid, rpos, rcyc, rstate, rbeg, rlen,
          wmapped, wbeg, wend,
          age, bnd, lag, jlag, started, err, lastAct
vars0 == <<head, high, cycle, mapped, accepting, n, hpos, hcyc, rid, rpos, rcyc, rstate, rbeg, rlen, wmapped, wbeg, wend, age, bnd, lag, jlag, started, err>>
Readers == 1..MaxReaders
Offs == 0..(Cap-1)
OLD == Cap          \* age class: stale / dirty / never written
Clip(x) == IF x > Cap THEN Cap ELSE x

\* cycles are only compared for equality / +1 : keep them modulo 4 relative (writer cycle fixed at 0 would need shifting); simply bound by normalising:
CursorLess(ca,pa,cb,pb) == ca < cb \/ (ca = cb /\ pa < pb)
ArgMin == CHOOSE i \in 1..n : /\ \A j \in 1..n : ~CursorLess(hcyc[j],hpos[j],hcyc[i],hpos[i])
                              /\ \A j \in 1..(i-1) : CursorLess(hcyc[i],hpos[i],hcyc[j],hpos[j])
NextWrite(nb) ==
  LET a == ArgMin  tail == hpos[a] IN
  IF head < tail THEN <<nb <= tail - head, head, FALSE>>
  ELSE IF tail = head /\ cycle = hcyc[a] + 1 THEN <<FALSE, 0, FALSE>>
  ELSE IF nb <= Cap - head THEN <<TRUE, head, FALSE>>
  ELSE IF nb <= tail THEN <<TRUE, 0, FALSE>>
  ELSE IF tail = head THEN <<nb < Cap, 0, TRUE>>
  ELSE <<FALSE, 0, FALSE>>

\* normalise cycles: subtract the minimum over writer and registered readers (only differences matter)
MinCyc(c, hc, nn) == LET S == {c} \cup {hc[i] : i \in 1..nn} IN CHOOSE m \in S : \A x \in S : m <= x

Init ==
  /\ head = 0 /\ high = 0 /\ cycle = 0 /\ mapped = 0 /\ accepting = TRUE /\ n = 0
  /\ hpos = [i \in Readers |-> 0] /\ hcyc = [i \in Readers |-> 0]
  /\ rid = [r \in Readers |-> 0] /\ rpos = [r \in Readers |-> 0] /\ rcyc = [r \in Readers |-> 0]
  /\ rstate = [r \in Readers |-> "U"] /\ rbeg = [r \in Readers |-> 0] /\ rlen = [r \in Readers |-> 0]
  /\ wmapped = FALSE /\ wbeg = 0 /\ wend = 0
  /\ age = [o \in Offs |-> OLD] /\ bnd = [o \in Offs |-> FALSE]
  /\ lag = [r \in Readers |-> 0] /\ jlag = [r \in Readers |-> 0] /\ started = [r \in Readers |-> FALSE]
  /\ err = "none" /\ lastAct = [a |-> "Init", x |-> 0, r |-> 0]

Needed(o) == age[o] < OLD /\ \E r \in Readers : rid[r] > 0 /\ started[r] /\ age[o] < lag[r]
Dirty(b,e) == [o \in Offs |-> IF o >= b /\ o < e THEN OLD ELSE age[o]]

WriteMap(nb) ==
  /\ ~wmapped /\ nb >= 1 /\ nb < Cap
  /\ IF n = 0
     THEN LET wrap == head + nb >= Cap  b == IF wrap THEN 0 ELSE head IN
          /\ high' = IF wrap THEN head ELSE high
          /\ cycle' = IF wrap THEN cycle + 1 ELSE cycle
          /\ head' = IF wrap THEN 0 ELSE head
          /\ wbeg' = b /\ wend' = b + nb /\ mapped' = b + nb /\ wmapped' = TRUE
          /\ age' = Dirty(b, b+nb) /\ err' = err /\ UNCHANGED <<hpos, hcyc>>
     ELSE IF ~accepting THEN UNCHANGED <<high,cycle,head,wbeg,wend,mapped,wmapped,age,err,hpos,hcyc>>
     ELSE LET nw == NextWrite(nb) b == nw[2] IN
          /\ nw[1]
          /\ high' = IF b # head THEN head ELSE high
          /\ cycle' = IF b # head THEN cycle + 1 ELSE cycle
          /\ head' = b
          \* on a wrap, readers that are caught up with the old head continue at the start of the new lap
          \* (should_wrap: all of them, as coded originally; repaired code: also in the "fits before the tail" case)
          /\ LET Moves(i) == i <= n /\ (nw[3] \/ (FIXED = 1 /\ b # head /\ hpos[i] = head /\ hcyc[i] = cycle)) IN
             /\ hpos' = [i \in Readers |-> IF Moves(i) THEN 0 ELSE hpos[i]]
             /\ hcyc' = [i \in Readers |-> IF Moves(i) THEN cycle + 1 ELSE hcyc[i]]
          /\ wbeg' = b /\ wend' = b + nb /\ mapped' = b + nb /\ wmapped' = TRUE
          /\ err' = IF b + nb > Cap THEN "WriteOutOfBuffer"
                    ELSE IF \E o \in Offs : o >= b /\ o < b+nb /\ Needed(o) THEN "WriterOverlapsUnread" ELSE err
          /\ age' = Dirty(b, IF b+nb > Cap THEN Cap ELSE b+nb)
  /\ UNCHANGED <<accepting, n, rid, rpos, rcyc, rstate, rbeg, rlen, bnd, lag, jlag, started>>

WriteUnmap ==
  /\ wmapped /\ wmapped' = FALSE
  /\ IF accepting
     THEN LET k == wend - wbeg IN
          /\ head' = mapped
          /\ age' = [o \in Offs |-> IF o >= wbeg /\ o < wend THEN (wend - 1 - o) ELSE Clip(age[o] + k)]
          /\ bnd' = [o \in Offs |-> IF o >= wbeg /\ o < wend THEN o = wbeg ELSE bnd[o]]
          /\ lag' = [r \in Readers |-> IF rid[r] > 0 /\ started[r] THEN Clip(lag[r] + k) ELSE lag[r]]
          /\ jlag' = [r \in Readers |-> IF rid[r] > 0 /\ ~started[r] THEN Clip(jlag[r] + k) ELSE jlag[r]]
     ELSE UNCHANGED <<head, age, bnd, lag, jlag>>
  /\ UNCHANGED <<high, cycle, mapped, accepting, n, hpos, hcyc, rid, rpos, rcyc, rstate, rbeg, rlen, wbeg, wend, started, err>>

AbortWrite ==
  /\ wmapped /\ wmapped' = FALSE
  /\ mapped' = IF accepting THEN head ELSE mapped
  /\ UNCHANGED <<head, high, cycle, accepting, n, hpos, hcyc, rid, rpos, rcyc, rstate, rbeg, rlen, wbeg, wend, age, bnd, lag, jlag, started, err>>

ReadMap(r) ==
  /\ rstate[r] = "U"
  /\ (rid[r] = 0 => n < MaxReaders)
  /\ LET isNew == rid[r] = 0
         id == IF isNew THEN n + 1 ELSE rid[r]
         hp == IF isNew THEN [hpos EXCEPT ![id] = 0] ELSE hpos
         hc == IF isNew THEN [hcyc EXCEPT ![id] = cycle] ELSE hcyc
         pos == hp[id]  cyc == hc[id]
     IN
     /\ n' = (IF isNew THEN n + 1 ELSE n)
     /\ rid' = [rid EXCEPT ![r] = id]
     /\ IF pos = head /\ cyc = cycle
        THEN /\ hpos' = hp /\ hcyc' = hc
             /\ rbeg' = [rbeg EXCEPT ![r] = pos] /\ rlen' = [rlen EXCEPT ![r] = 0]
             /\ UNCHANGED <<rpos, rcyc, rstate>>
        ELSE IF (pos < head /\ cyc # cycle) \/ (pos >= head /\ cycle # cyc + 1)
        THEN /\ hpos' = [hp EXCEPT ![id] = head] /\ hcyc' = [hc EXCEPT ![id] = cycle]
             /\ rbeg' = [rbeg EXCEPT ![r] = 0] /\ rlen' = [rlen EXCEPT ![r] = 0 - 1]   \* -1 marks overflow status
             /\ UNCHANGED <<rpos, rcyc, rstate>>
        ELSE LET nb == IF pos < head THEN head - pos ELSE high - pos
                 np == IF pos < head THEN head ELSE 0
                 nc == IF pos < head THEN cycle ELSE cyc + 1 IN
             IF nb = 0
                THEN \* nothing left in the old lap: bookmarks go to the start of the writer's lap ...
                     /\ hpos' = [hp EXCEPT ![id] = 0] /\ hcyc' = [hc EXCEPT ![id] = cycle]
                     /\ IF FIXED = 1 /\ head > 0
                        THEN \* ... and (repaired code) the read continues with [0, head)
                             /\ rpos' = [rpos EXCEPT ![r] = head] /\ rcyc' = [rcyc EXCEPT ![r] = cycle]
                             /\ rstate' = [rstate EXCEPT ![r] = "M"]
                             /\ rbeg' = [rbeg EXCEPT ![r] = 0] /\ rlen' = [rlen EXCEPT ![r] = head]
                        ELSE /\ rpos' = [rpos EXCEPT ![r] = IF FIXED = 1 THEN head ELSE np]
                             /\ rcyc' = [rcyc EXCEPT ![r] = IF FIXED = 1 THEN cycle ELSE nc]
                             /\ rbeg' = [rbeg EXCEPT ![r] = 0] /\ rlen' = [rlen EXCEPT ![r] = 0]
                             /\ UNCHANGED <<rstate>>
                ELSE /\ rpos' = [rpos EXCEPT ![r] = np] /\ rcyc' = [rcyc EXCEPT ![r] = nc]
                     /\ hpos' = hp /\ hcyc' = hc
                     /\ rstate' = [rstate EXCEPT ![r] = "M"]
                     /\ rbeg' = [rbeg EXCEPT ![r] = pos] /\ rlen' = [rlen EXCEPT ![r] = nb]
  /\ LET len == rlen'[r]  b == rbeg'[r] IN
     IF len < 0 THEN /\ err' = "ReaderOverflowStatus" /\ UNCHANGED <<lag, jlag, started>>
     ELSE IF len = 0
     THEN /\ err' = IF started[r] /\ lag[r] # 0 THEN "EmptyNotDrained" ELSE err
          /\ started' = [started EXCEPT ![r] = TRUE]   \* an empty first read pins the start at "now"
          /\ lag' = IF started[r] THEN lag ELSE [lag EXCEPT ![r] = 0]
          /\ UNCHANGED jlag
     ELSE IF started[r]
          THEN /\ err' = IF b + len > Cap THEN "ReadOutOfBuffer"
                         ELSE IF \E i \in 0..(len-1) : age[b+i] # lag[r] - 1 - i THEN "ReadWrongBytes" ELSE err
               /\ UNCHANGED <<lag, jlag, started>>
          ELSE \* first delivery: must start at a write boundary no later than the join, bytes consecutive
               LET a0 == age[b] IN
               /\ err' = IF b + len > Cap THEN "ReadOutOfBuffer"
                         ELSE IF a0 = OLD \/ ~bnd[b] \/ a0 + 1 < jlag[r] THEN "JoinNotAtBoundary"
                         ELSE IF \E i \in 0..(len-1) : age[b+i] # a0 - i THEN "ReadWrongBytes" ELSE err
               /\ started' = [started EXCEPT ![r] = TRUE]
               /\ lag' = [lag EXCEPT ![r] = IF a0 = OLD THEN 0 ELSE a0 + 1]
               /\ UNCHANGED jlag
  /\ UNCHANGED <<head, high, cycle, mapped, accepting, wmapped, wbeg, wend, age, bnd>>

ReadUnmap(r, consumed) ==
  /\ rstate[r] = "M" /\ consumed \in 0..rlen[r]
  /\ LET id == rid[r] pos == hpos[id] cyc == hcyc[id]
         length == IF rpos[r] = pos /\ rcyc[r] = cyc THEN 0 ELSE IF rpos[r] = 0 THEN high - pos ELSE rpos[r] - pos
         c == IF consumed < length THEN consumed ELSE length
         p1 == IF c >= length THEN rpos[r] ELSE pos + c
         c1 == IF c >= length THEN rcyc[r] ELSE cyc
         roll == head < p1 /\ p1 = high IN
     /\ hpos' = [hpos EXCEPT ![id] = IF roll THEN 0 ELSE p1]
     /\ hcyc' = [hcyc EXCEPT ![id] = IF roll THEN c1 + 1 ELSE c1]
     /\ lag' = [lag EXCEPT ![r] = @ - c]
     /\ err' = IF length # rlen[r] THEN "UnmapLengthMismatch" ELSE err
  /\ rstate' = [rstate EXCEPT ![r] = "U"]
  /\ UNCHANGED <<head, high, cycle, mapped, accepting, n, rid, rpos, rcyc, rbeg, rlen, wmapped, wbeg, wend, age, bnd, jlag, started>>

Toggle == /\ WithAccept /\ accepting' = ~accepting
          /\ UNCHANGED <<head, high, cycle, mapped, n, hpos, hcyc, rid, rpos, rcyc, rstate, rbeg, rlen, wmapped, wbeg, wend, age, bnd, lag, jlag, started, err>>

Step == \/ \E nb \in 1..MaxWrite : WriteMap(nb)
        \/ WriteUnmap \/ AbortWrite
        \/ \E r \in Readers : ReadMap(r)
        \/ \E r \in Readers : \E c \in 0..Cap : ReadUnmap(r, c)
        \/ Toggle
\* ---- labelled next-state relation (lastAct is hidden by the VIEW; it labels exported transitions) ----
WriteMapBlocked(nb) == /\ ~wmapped /\ nb >= 1 /\ nb < Cap /\ n > 0 /\ accepting /\ ~NextWrite(nb)[1]
                       /\ UNCHANGED vars0
L_WMapBlocks == \E nb \in 1..MaxWrite : WriteMapBlocked(nb) /\ lastAct' = [a |-> "WMapBlocks", x |-> nb, r |-> 0]
L_WMap   == \E nb \in 1..MaxWrite : WriteMap(nb) /\ lastAct' = [a |-> "WMap", x |-> nb, r |-> 0]
L_WUnmap == WriteUnmap /\ lastAct' = [a |-> "WUnmap", x |-> 0, r |-> 0]
L_WAbort == AbortWrite /\ lastAct' = [a |-> "WAbort", x |-> 0, r |-> 0]
L_RMap   == \E r \in Readers : ReadMap(r) /\ lastAct' = [a |-> "RMap", x |-> 0, r |-> r]
L_RUnmap == \E r \in Readers : \E c \in 0..Cap : ReadUnmap(r, c) /\ lastAct' = [a |-> "RUnmap", x |-> c, r |-> r]
L_Toggle == Toggle /\ lastAct' = [a |-> "Toggle", x |-> 0, r |-> 0]
NextL == L_WMapBlocks \/ L_WMap \/ L_WUnmap \/ L_WAbort \/ L_RMap \/ L_RUnmap \/ L_Toggle
vars == <<vars0, lastAct>>
Next == NextL
Spec == Init /\ [][Next]_vars

\* VIEW: lap counters relative to their minimum, stale reader cursors masked
View == LET m == MinCyc(cycle, hcyc, n) IN
        \* (`mapped` is kept even while no write is mapped: an unmap refused by accept_writes(0) leaves it stale, and the
        \*  per-transition replay sets the implementation's field from it - a change that reads it there must meet it)
        <<head, high, cycle - m, mapped, accepting, n,
          [i \in Readers |-> IF i <= n THEN hpos[i] ELSE 0], [i \in Readers |-> IF i <= n THEN hcyc[i] - m ELSE 0],
          rid, [r \in Readers |-> IF rstate[r] = "M" THEN rpos[r] ELSE 0],
          [r \in Readers |-> IF rid[r] > 0 /\ rstate[r] = "M" THEN rcyc[r] - m ELSE 0], rstate,
          [r \in Readers |-> IF rstate[r] = "M" THEN rbeg[r] ELSE 0], [r \in Readers |-> IF rstate[r] = "M" THEN rlen[r] ELSE 0],
          wmapped, IF wmapped THEN wbeg ELSE 0, IF wmapped THEN wend ELSE 0, age, bnd, lag, started, err>>

\* ---- properties ---------------------------------------------------------------------------------
NoErr == err = "none"
TypeOK == /\ head \in 0..Cap /\ high \in 0..Cap /\ mapped \in 0..Cap /\ n \in 0..MaxReaders
          /\ \A i \in 1..n : hpos[i] \in 0..Cap
\* a reader never lags by more than the ring can hold
LagBounded == \A r \in Readers : lag[r] <= Cap
\* a mapped reader's region lies inside the buffer
MappedInside == \A r \in Readers : rstate[r] = "M" => rbeg[r] + rlen[r] <= Cap /\ rlen[r] > 0
\* cursors: every registered reader is in the writer's lap or exactly one behind (C02's inductive core)
Cursors == \A i \in 1..n : \/ (hcyc[i] = cycle /\ hpos[i] <= head)
                            \/ (hcyc[i] + 1 = cycle /\ hpos[i] >= head /\ hpos[i] <= high)
\* action property: a reader's lag only shrinks through its own unmap
LagStep == [][\A r \in Readers : lag'[r] < lag[r] => lastAct'.a = "RUnmap" /\ lastAct'.r = r]_vars

\* ---- export of every transition for the spec->code replay ----------------------------------------
B(x) == IF x THEN 1 ELSE 0
RS(f) == [r \in Readers |-> IF f[r] = "M" THEN 1 ELSE 0]
St == <<head, high, cycle, mapped, B(accepting), n>> \o hpos \o hcyc \o rid \o rpos \o rcyc \o RS(rstate)
StP == <<head', high', cycle', mapped', B(accepting'), n'>> \o hpos' \o hcyc' \o rid' \o rpos' \o rcyc' \o RS(rstate')
       \o <<IF wmapped' THEN wbeg' ELSE -1>> \o rbeg' \o rlen'
EmitEdge == PrintT(<<"EDGE", ToJson([s |-> St, a |-> lastAct', d |-> StP])>>)
\* sampled export for larger graphs: each transition is printed with probability 1/SampleMod
EmitSample == (RandomElement(1..SampleMod) # 1) \/ EmitEdge
=============================================================================
