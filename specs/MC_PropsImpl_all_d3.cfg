CONSTANTS NObj = 2 MaxDims = 2 FIXED = 1 HistMode = 0 SampleMod = 1 WalkDepth = 0 Depth = 3
 UriKinds = {0,2,3,4} MetaKinds = {0,3} KeyKinds = {0,2,3} NameKinds = {2,3,4} InitDims = {0,1,2} BorrowKinds = {2,4} DimTags = {1,2} MsVals = {0,1} WithBad = 1
SPECIFICATION Spec
CHECK_DEADLOCK FALSE
VIEW View
INVARIANTS NoErr NoShare NoDangling NoLeak DestroyedMeansEmpty Terminated
PROPERTIES CopyPost OthersUntouched
