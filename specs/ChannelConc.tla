----------------------------- MODULE ChannelConc -----------------------------
(***************************************************************************)
(* Concurrent implementation-shaped model of the channel (property C03,    *)
(* and C01/C02 under concurrency): a writer W, readers, and a controller C  *)
(* that toggles accept_writes, over the SAME transition operators as the    *)
(* sequential model (EXTENDS ChannelImpl), under explicit lock / condition- *)
(* variable control.  One action = "thread t runs from its current          *)
(* scheduling point to its next one", exactly the granularity of the        *)
(* deterministic scheduler the real channel.c is run under (vsched), so a   *)
(* behaviour of this spec is a thread schedule that can be replayed.        *)
(*                                                                         *)
(* LockedAccept = TRUE : channel_accept_writes stores the flag under the    *)
(*                       channel lock (the repaired code);                  *)
(* LockedAccept = FALSE: store + broadcast without the lock (as it was) -   *)
(*                       kept so the lost wake-up stays demonstrable.       *)
(***************************************************************************)
EXTENDS ChannelImpl

CONSTANTS NWrites,       \* number of write_map calls the writer makes
          NToggles,      \* number of accept_writes calls the controller makes
          LockedAccept,
          FullReaders,   \* TRUE: readers always consume everything they mapped (liveness configs)
          MayStall       \* TRUE: a reader may stop reading for good (slow / stuck consumer): only a refusal can then
                         \*       release a writer blocked on a full ring

VARIABLES pc,        \* pc[t] for t in Threads
          lockW,     \* TRUE iff the writer holds the channel lock across a scheduling point (at cv-wait entry)
          waiters,   \* threads sleeping on notify_space_available (only ever {W})
          wn,        \* size of the write in flight
          wleft,     \* write_map calls left
          cleft,     \* accept_writes calls left
          rc         \* rc[r]: consumed-bytes argument of reader r's unmap in flight

cvars == <<pc, lockW, waiters, wn, wleft, cleft, rc>>
allvars == <<vars, cvars>>

\* thread names are integers (TLC cannot mix strings and integers in one set): readers 1..MaxReaders, then W, then C
WT == MaxReaders + 1
CT == MaxReaders + 2
Threads == Readers \cup {WT, CT}
\* thread id in the deterministic scheduler: main = 0, W = 1, readers 2.., C last
Tid(t) == IF t = WT THEN 1 ELSE IF t = CT THEN 2 + MaxReaders ELSE 1 + t

CInit == /\ Init
         /\ pc = [t \in Threads |-> "idle"]
         /\ lockW = FALSE /\ waiters = {} /\ wn = 0 /\ wleft = NWrites /\ cleft = NToggles
         /\ rc = [r \in Readers |-> 0]

Lab(t, a, x) == lastAct' = [a |-> a, x |-> x, r |-> Tid(t)]
Goto(t, p) == pc' = [pc EXCEPT ![t] = p]
LockFree == ~lockW

\* ---------------------------------------------------------------- writer
WStart == /\ pc[WT] = "idle" /\ wleft > 0
          /\ \E nb \in 1..MaxWrite : wn' = nb /\ Lab(WT, "w_call", nb)
          /\ wleft' = wleft - 1 /\ Goto(WT, "wm_lock")
          /\ UNCHANGED <<vars0, lockW, waiters, cleft, rc>>

WDone == /\ pc[WT] = "idle" /\ wleft = 0
         /\ Goto(WT, "done") /\ Lab(WT, "w_exit", 0)
         /\ UNCHANGED <<vars0, lockW, waiters, wn, wleft, cleft, rc>>

\* evaluate the wait predicate with the lock held (first time or after a wake-up)
WTry == /\ pc[WT] \in {"wm_lock", "wm_wake"} /\ LockFree
        /\ \/ /\ WriteMap(wn) /\ Goto(WT, "wm_rel") /\ lockW' = FALSE /\ Lab(WT, "w_map", wn)
           \/ /\ WriteMapBlocked(wn) /\ Goto(WT, "wm_cvw") /\ lockW' = TRUE /\ Lab(WT, "w_block", wn)
        /\ UNCHANGED <<waiters, wn, wleft, cleft, rc>>

WSleep == /\ pc[WT] = "wm_cvw"
          /\ lockW' = FALSE /\ waiters' = waiters \cup {WT} /\ Goto(WT, "wm_sleep") /\ Lab(WT, "w_sleep", 0)
          /\ UNCHANGED <<vars0, wn, wleft, cleft, rc>>

WMapRet == /\ pc[WT] = "wm_rel"
           /\ Goto(WT, IF wmapped THEN "w_hold" ELSE "idle") /\ Lab(WT, "w_mapret", 0)
           /\ UNCHANGED <<vars0, lockW, waiters, wn, wleft, cleft, rc>>

WChoose == /\ pc[WT] = "w_hold"
           /\ \/ Goto(WT, "wu_lock") /\ Lab(WT, "w_commit_call", 0)
              \/ Goto(WT, "wa_lock") /\ Lab(WT, "w_abort_call", 0)
           /\ UNCHANGED <<vars0, lockW, waiters, wn, wleft, cleft, rc>>

WCommit == /\ pc[WT] = "wu_lock" /\ LockFree /\ WriteUnmap /\ Goto(WT, "wx_rel") /\ Lab(WT, "w_commit", 0)
           /\ UNCHANGED <<lockW, waiters, wn, wleft, cleft, rc>>
WAbort  == /\ pc[WT] = "wa_lock" /\ LockFree /\ AbortWrite /\ Goto(WT, "wx_rel") /\ Lab(WT, "w_abort", 0)
           /\ UNCHANGED <<lockW, waiters, wn, wleft, cleft, rc>>
WOpRet  == /\ pc[WT] = "wx_rel" /\ Goto(WT, "idle") /\ Lab(WT, "w_opret", 0)
           /\ UNCHANGED <<vars0, lockW, waiters, wn, wleft, cleft, rc>>

\* ---------------------------------------------------------------- readers
RStart(r) == /\ pc[r] = "idle" /\ rstate[r] = "U" /\ (rid[r] = 0 => (n < MaxReaders /\ (r > 1 => rid[r-1] > 0)))
             /\ Goto(r, "rm_lock") /\ Lab(r, "r_map_call", 0)
             /\ UNCHANGED <<vars0, lockW, waiters, wn, wleft, cleft, rc>>
RStall(r) == /\ MayStall /\ pc[r] = "idle" /\ rstate[r] = "U" /\ Goto(r, "stalled") /\ Lab(r, "r_stall", 0)
             /\ UNCHANGED <<vars0, lockW, waiters, wn, wleft, cleft, rc>>
RMapCS(r) == /\ pc[r] = "rm_lock" /\ LockFree /\ ReadMap(r) /\ Goto(r, "rm_rel") /\ Lab(r, "r_map", 0)
             /\ UNCHANGED <<lockW, waiters, wn, wleft, cleft, rc>>
RMapRet(r) == /\ pc[r] = "rm_rel" /\ Goto(r, IF rstate[r] = "M" THEN "r_hold" ELSE "idle") /\ Lab(r, "r_mapret", 0)
              /\ UNCHANGED <<vars0, lockW, waiters, wn, wleft, cleft, rc>>
RUnStart(r) == /\ pc[r] = "r_hold"
               /\ \E c \in (IF FullReaders THEN {rlen[r]} ELSE 0..rlen[r]) : rc' = [rc EXCEPT ![r] = c] /\ Lab(r, "r_unmap_call", c)
               /\ Goto(r, "ru_lock")
               /\ UNCHANGED <<vars0, lockW, waiters, wn, wleft, cleft>>
RUnCS(r) == /\ pc[r] = "ru_lock" /\ LockFree /\ ReadUnmap(r, rc[r]) /\ Goto(r, "ru_rel") /\ Lab(r, "r_unmap", rc[r])
            /\ UNCHANGED <<lockW, waiters, wn, wleft, cleft, rc>>
RUnRel(r) == /\ pc[r] = "ru_rel" /\ Goto(r, "ru_ntf") /\ Lab(r, "r_to_notify", 0)
             /\ UNCHANGED <<vars0, lockW, waiters, wn, wleft, cleft, rc>>
Wake(t, p) == pc' = [x \in Threads |-> IF x = t THEN p ELSE IF x \in waiters THEN "wm_wake" ELSE pc[x]]
RNotify(r) == /\ pc[r] = "ru_ntf" /\ Wake(r, "idle") /\ waiters' = {} /\ Lab(r, "r_notify", 0)
              /\ UNCHANGED <<vars0, lockW, wn, wleft, cleft, rc>>

\* ---------------------------------------------------------------- controller
SetFlag == /\ accepting' = ~accepting
           /\ UNCHANGED <<head, high, cycle, mapped, n, hpos, hcyc, rid, rpos, rcyc, rstate, rbeg, rlen, wmapped, wbeg, wend, age, bnd, lag, jlag, started, err>>
CStart == /\ pc[CT] = "idle" /\ cleft > 0 /\ cleft' = cleft - 1
          /\ IF LockedAccept
             THEN /\ Goto(CT, "ca_lock") /\ Lab(CT, "c_call", 0) /\ UNCHANGED vars0
             ELSE /\ SetFlag /\ Goto(CT, "ca_ntf") /\ Lab(CT, "c_store_unlocked", 0)
          /\ UNCHANGED <<lockW, waiters, wn, wleft, rc>>
CDone == /\ pc[CT] = "idle" /\ cleft = 0 /\ Goto(CT, "done") /\ Lab(CT, "c_exit", 0)
         /\ UNCHANGED <<vars0, lockW, waiters, wn, wleft, cleft, rc>>
CStore == /\ pc[CT] = "ca_lock" /\ LockFree /\ SetFlag /\ Goto(CT, "ca_rel") /\ Lab(CT, "c_store", 0)
          /\ UNCHANGED <<lockW, waiters, wn, wleft, cleft, rc>>
CRel == /\ pc[CT] = "ca_rel" /\ Goto(CT, "ca_ntf") /\ Lab(CT, "c_to_notify", 0)
        /\ UNCHANGED <<vars0, lockW, waiters, wn, wleft, cleft, rc>>
CNotify == /\ pc[CT] = "ca_ntf" /\ Wake(CT, "idle") /\ waiters' = {} /\ Lab(CT, "c_notify", 0)
           /\ UNCHANGED <<vars0, lockW, wn, wleft, cleft, rc>>

WStep == WStart \/ WDone \/ WTry \/ WSleep \/ WMapRet \/ WChoose \/ WCommit \/ WAbort \/ WOpRet
RStep(r) == RStart(r) \/ RStall(r) \/ RMapCS(r) \/ RMapRet(r) \/ RUnStart(r) \/ RUnCS(r) \/ RUnRel(r) \/ RNotify(r)
CStep == CStart \/ CDone \/ CStore \/ CRel \/ CNotify
CNext == WStep \/ CStep \/ \E r \in Readers : RStep(r)
CSpec == CInit /\ [][CNext]_allvars
FairSpec == CSpec /\ WF_allvars(WStep) /\ WF_allvars(CStep) /\ \A r \in Readers : WF_allvars(RStep(r))

CView == <<View, pc, lockW, waiters, wn, wleft, cleft, rc>>

\* ---------------------------------------------------------------- properties
\* A thread that has changed the predicate state and still owes a notify
\* (a reader that holds a mapping owes an unmap, whose critical section is followed by a notify: channel_read_map
\*  itself may advance the bookmark into the writer's lap without notifying, so the writer may stay asleep until that
\*  reader unmaps - legitimate under the reader contract "what is mapped is eventually unmapped")
Owing(t) == \/ pc[t] \in {"ru_rel", "ru_ntf", "ca_rel", "ca_ntf"}
            \/ (t \in Readers /\ rstate[t] = "M")
WouldProceed == ~accepting \/ n = 0 \/ NextWrite(wn)[1]
\* No lost wake-up: a sleeping writer whose predicate no longer holds has a notify on its way
NoLostWakeup == (pc[WT] = "wm_sleep" /\ WouldProceed) => \E t \in Threads \ {WT} : Owing(t)
SleepSound == (pc[WT] = "wm_sleep") <=> (WT \in waiters)
LockSound == lockW <=> (pc[WT] = "wm_cvw")
\* liveness (FairSpec, FullReaders): a sleeping writer always resumes; a refusal always reaches the writer
WriterResumes == (pc[WT] = "wm_sleep") ~> (pc[WT] # "wm_sleep")
WriterFinishes == <>(pc[WT] = "done")
\* the refusal always reaches a sleeping writer, even when no reader will ever unmap again
RefusalUnblocks == (pc[WT] = "wm_sleep" /\ ~accepting) ~> (pc[WT] # "wm_sleep")

\* ---------------------------------------------------------------- export of schedules
\* hist is carried through lastAct only; complete behaviours are printed by simulation (see cfg)
=============================================================================
