CONSTANTS Kind = "camera" MaxOpens = 2 FixOpenLeak = FALSE FixDescribeLeak = FALSE CloseStateFirst = TRUE SetKeepsRunning = TRUE SetStopsRejected = TRUE Strict = FALSE
SPECIFICATION Spec
VIEW View
CHECK_DEADLOCK FALSE
INVARIANTS TypeOK NoErr NoLeak ReportedStateFollowsDriver ClosedMeansClosed RunningIsTrue
PROPERTIES SetLeavesNoRunner
