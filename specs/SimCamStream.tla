--------------------------- MODULE SimCamStream ---------------------------
(***************************************************************************)
(* Implementation-shaped model of simulated.camera.c's streaming (C18):    *)
(* streamer thread S, controller C (start / trigger / stop), caller G       *)
(* (get_frame). One label = one run-to-next-scheduling-point; the lock,     *)
(* both condition variables (waitT = trigger_ready, waitF = frame_ready)    *)
(* and the UNLOCKED reads of is_running / frame_wanted are where the code   *)
(* has them. ResetAtStart = TRUE is the repaired code (start clears         *)
(* `triggered` / `frame_wanted`, a frame call released by stop reports      *)
(* nbytes = 0); FALSE is the code as it was.                                *)
(* `bad` is the Obs verdict evaluated inside the model.                     *)
(***************************************************************************)
EXTENDS Integers, Sequences, TLC
CONSTANTS Enable, Runs, MaxTrig, MaxGet, ResetAtStart, MaxFid, NSets,
          Toggle,       \* TRUE: every simcam_set switches the software trigger over (off fires the trigger first, as the code does)
          ClearAlways   \* TRUE: the streamer clears `triggered` with every exposure (the code); FALSE: only while the trigger is
                        \* enabled (seeded variant C18i, for the self-test of the re-gating rule)
(* --algorithm Cam {
variables
  is_running = FALSE, triggered = FALSE, frame_wanted = FALSE,
  frame_id = -1, last_emitted = -1, sfid = -1,
  lock = "none", waitT = FALSE, waitF = FALSE,
  alive = FALSE, run = 0,
  ntrig = 0, ndeliv = 0, lastHw = -1, bad = "none",
  stopping = FALSE, getPending = FALSE, inCall = FALSE,
  \* handshake between simcam_set and the streamer (guarded by the lock): a set waits for the frame in flight,
  \* the streamer starts no frame while a set waits; waitI = sleepers on streamer.idle
  is_rendering = FALSE, set_pending = 0, waitI = {}, setting = FALSE,
  \* the trigger setting (Enable = its initial value) and the ghost state of SimCamStreamObs' trigger rules
  enable = Enable, gated = Enable, oInCall = FALSE, callNew = FALSE, fresh = 3,
  re_on = FALSE, re_allow = 0, re_got = 0, re_trigs = 0;   \* (the ghost state moves only in Toggle configurations)
macro Acquire(me) { await lock = "none"; lock := me; }
macro Release() { lock := "none"; }

fair process (Streamer = "S")
{
T0: await alive \/ run = Runs + 1;
    if (run = Runs + 1) { goto TX; };
T1: sfid := frame_id;
L0: while (is_running) {
L1:   Acquire("S");
L1s:  if (set_pending > 0) { lock := "none"; waitI := waitI \cup {"S"}; goto L1w; };
L2:   if (enable /\ ~triggered) { lock := "none"; waitT := TRUE; goto L2w; }
      else { triggered := IF ClearAlways \/ enable THEN FALSE ELSE triggered; is_rendering := TRUE; lock := "none"; goto L3; };
L1w:  await "S" \notin waitI;
L1r:  Acquire("S"); goto L1s;
L2w:  await ~waitT;
L2r:  Acquire("S"); goto L2;
L3:   skip;                        \* render (outside the lock)
L3a:  await lock = "none";         \* done with the buffers: clear is_rendering under the lock, wake a waiting set
      is_rendering := FALSE; waitI := {};
L3b:  sfid := sfid + 1;            \* exposure sleep
L4:   if (frame_wanted) {
L5:     await lock = "none";       \* whole critical section is one step
        frame_id := sfid; frame_wanted := FALSE; waitF := FALSE;
      };
    };
TE: alive := FALSE; goto T0;
TX: skip;
}

fair process (Controller = "C")
variables k = 0;
{
C0: while (run < Runs) {
      \* simcam_start (client contract: no frame call of the previous run still in flight)
      \* ... and, with Toggle, no simcam_set in progress: one client thread configures and starts (as acquire_configure /
      \* acquire_start do); the trace spec reads the trigger setting of a run at its StartCall
      await ~inCall /\ (~Toggle \/ pc["Z"] \in {"Z0", "Done"});
      run := run + 1; is_running := TRUE; last_emitted := -1; frame_id := -1; ntrig := 0; ndeliv := 0; lastHw := -1;
      if (ResetAtStart) { triggered := FALSE; frame_wanted := FALSE; };
      gated := enable; fresh := 3; callNew := FALSE; re_on := FALSE;
      alive := TRUE; k := 0;
C1:   while (k < MaxTrig) {
         either { \* execute_trigger : one critical section
C2:        await lock = "none";
           frame_wanted := TRUE; triggered := TRUE; waitT := FALSE; ntrig := ntrig + 1; k := k + 1;
           if (Toggle) { fresh := 0; callNew := FALSE; re_trigs := IF re_on THEN re_trigs + 1 ELSE re_trigs; }; }
         or { k := MaxTrig; };
      };
      \* simcam_stop
C3:   stopping := TRUE; is_running := FALSE; re_on := FALSE;
C4:   await lock = "none";
      frame_wanted := TRUE; triggered := TRUE; waitT := FALSE;
C5:   waitF := FALSE;           \* notify frame_ready without the lock
C6:   await ~alive;             \* join
      stopping := FALSE;
    };
C9: run := Runs + 1;
}

\* simcam_set, called by a second client thread at any time (NSets times): with unchanged settings, or (Toggle) switching
\* the software trigger over each time. Disabling fires the trigger first, in a critical section of its own.
fair process (Setter = "Z")
variables z = 0, v = FALSE;
{
Z0: while (z < NSets) {
      v := IF Toggle THEN ~enable ELSE enable;
Zc:   \* (SetTrigCall in the trace: a disabling set ends the gated period and may leave a trigger latched)
      if (~v) { gated := FALSE; re_on := FALSE;
                if (enable) { fresh := 0; callNew := FALSE; }; };
Zt:   if (enable /\ ~v) { await lock = "none"; frame_wanted := TRUE; triggered := TRUE; waitT := FALSE; };
Z1:   Acquire("Z"); setting := TRUE; set_pending := set_pending + 1;
Z2:   if (is_rendering) { lock := "none"; waitI := waitI \cup {"Z"}; goto Z2w; } else { goto Z3; };
Z2w:  await "Z" \notin waitI;
Z2r:  Acquire("Z"); goto Z2;
Z3:   set_pending := set_pending - 1;      \* (properties and buffers are replaced here)
      \* (SetTrig in the trace) the trigger enabled while the camera runs: what may still come without a trigger
      if (v /\ ~enable /\ is_running) {
        re_on := TRUE; re_got := 0; re_trigs := 0;
        re_allow := 2 + (IF fresh >= 3 THEN 0 ELSE 1); };
      enable := v;
      waitI := {}; lock := "none"; setting := FALSE; z := z + 1;
    };
}

fair process (Caller = "G")
variables g = 0, res = "none";
{
G0: while (g < MaxGet /\ run <= Runs) {
      await is_running \/ run > Runs;      \* HAL: only called while the camera is Running
      if (run > Runs) { goto GX; } else { inCall := TRUE; if (Toggle) { oInCall := TRUE; callNew := TRUE; }; };
G1:   if (~is_running) { res := "err"; oInCall := FALSE; goto G5; };     \* CHECK(self->streamer.is_running)
G2:   Acquire("G");
      frame_wanted := TRUE; getPending := TRUE;
G3:   if (is_running /\ last_emitted >= frame_id) { lock := "none"; waitF := TRUE; goto G3w; } else { goto G4; };
G3w:  await ~waitF;
G3r:  Acquire("G"); goto G3;
G4:   last_emitted := frame_id;
      if (~is_running) { res := "ok_nodata";
             \* as it was: Ok with nbytes untouched = the previous frame delivered again
             if (~ResetAtStart) { bad := "StaleFrameReturned"; } }
      else { res := "data";
             bad := IF frame_id <= lastHw THEN "NotIncreasing"
                    ELSE IF gated /\ ndeliv + 1 > ntrig THEN "FrameWithoutTrigger"
                    ELSE IF re_on /\ re_got + 1 > re_allow + re_trigs THEN "FrameWithoutTriggerAfterEnable" ELSE bad;
             lastHw := frame_id; ndeliv := ndeliv + 1;
             re_got := IF re_on THEN re_got + 1 ELSE re_got;
             fresh := IF Toggle /\ callNew /\ fresh < 3 THEN fresh + 1 ELSE fresh; };
      getPending := FALSE; oInCall := FALSE; lock := "none";
G5:   g := g + 1; inCall := FALSE;
    };
GX: skip;
}
} *)
\* BEGIN TRANSLATION
VARIABLES pc, is_running, triggered, frame_wanted, frame_id, last_emitted, 
          sfid, lock, waitT, waitF, alive, run, ntrig, ndeliv, lastHw, bad, 
          stopping, getPending, inCall, is_rendering, set_pending, waitI, 
          setting, enable, gated, oInCall, callNew, fresh, re_on, re_allow, 
          re_got, re_trigs, k, z, v, g, res

vars == << pc, is_running, triggered, frame_wanted, frame_id, last_emitted, 
           sfid, lock, waitT, waitF, alive, run, ntrig, ndeliv, lastHw, bad, 
           stopping, getPending, inCall, is_rendering, set_pending, waitI, 
           setting, enable, gated, oInCall, callNew, fresh, re_on, re_allow, 
           re_got, re_trigs, k, z, v, g, res >>

ProcSet == {"S"} \cup {"C"} \cup {"Z"} \cup {"G"}

Init == (* Global variables *)
        /\ is_running = FALSE
        /\ triggered = FALSE
        /\ frame_wanted = FALSE
        /\ frame_id = -1
        /\ last_emitted = -1
        /\ sfid = -1
        /\ lock = "none"
        /\ waitT = FALSE
        /\ waitF = FALSE
        /\ alive = FALSE
        /\ run = 0
        /\ ntrig = 0
        /\ ndeliv = 0
        /\ lastHw = -1
        /\ bad = "none"
        /\ stopping = FALSE
        /\ getPending = FALSE
        /\ inCall = FALSE
        /\ is_rendering = FALSE
        /\ set_pending = 0
        /\ waitI = {}
        /\ setting = FALSE
        /\ enable = Enable
        /\ gated = Enable
        /\ oInCall = FALSE
        /\ callNew = FALSE
        /\ fresh = 3
        /\ re_on = FALSE
        /\ re_allow = 0
        /\ re_got = 0
        /\ re_trigs = 0
        (* Process Controller *)
        /\ k = 0
        (* Process Setter *)
        /\ z = 0
        /\ v = FALSE
        (* Process Caller *)
        /\ g = 0
        /\ res = "none"
        /\ pc = [self \in ProcSet |-> CASE self = "S" -> "T0"
                                        [] self = "C" -> "C0"
                                        [] self = "Z" -> "Z0"
                                        [] self = "G" -> "G0"]

T0 == /\ pc["S"] = "T0"
      /\ alive \/ run = Runs + 1
      /\ IF run = Runs + 1
            THEN /\ pc' = [pc EXCEPT !["S"] = "TX"]
            ELSE /\ pc' = [pc EXCEPT !["S"] = "T1"]
      /\ UNCHANGED << is_running, triggered, frame_wanted, frame_id, 
                      last_emitted, sfid, lock, waitT, waitF, alive, run, 
                      ntrig, ndeliv, lastHw, bad, stopping, getPending, inCall, 
                      is_rendering, set_pending, waitI, setting, enable, gated, 
                      oInCall, callNew, fresh, re_on, re_allow, re_got, 
                      re_trigs, k, z, v, g, res >>

T1 == /\ pc["S"] = "T1"
      /\ sfid' = frame_id
      /\ pc' = [pc EXCEPT !["S"] = "L0"]
      /\ UNCHANGED << is_running, triggered, frame_wanted, frame_id, 
                      last_emitted, lock, waitT, waitF, alive, run, ntrig, 
                      ndeliv, lastHw, bad, stopping, getPending, inCall, 
                      is_rendering, set_pending, waitI, setting, enable, gated, 
                      oInCall, callNew, fresh, re_on, re_allow, re_got, 
                      re_trigs, k, z, v, g, res >>

L0 == /\ pc["S"] = "L0"
      /\ IF is_running
            THEN /\ pc' = [pc EXCEPT !["S"] = "L1"]
            ELSE /\ pc' = [pc EXCEPT !["S"] = "TE"]
      /\ UNCHANGED << is_running, triggered, frame_wanted, frame_id, 
                      last_emitted, sfid, lock, waitT, waitF, alive, run, 
                      ntrig, ndeliv, lastHw, bad, stopping, getPending, inCall, 
                      is_rendering, set_pending, waitI, setting, enable, gated, 
                      oInCall, callNew, fresh, re_on, re_allow, re_got, 
                      re_trigs, k, z, v, g, res >>

L1 == /\ pc["S"] = "L1"
      /\ lock = "none"
      /\ lock' = "S"
      /\ pc' = [pc EXCEPT !["S"] = "L1s"]
      /\ UNCHANGED << is_running, triggered, frame_wanted, frame_id, 
                      last_emitted, sfid, waitT, waitF, alive, run, ntrig, 
                      ndeliv, lastHw, bad, stopping, getPending, inCall, 
                      is_rendering, set_pending, waitI, setting, enable, gated, 
                      oInCall, callNew, fresh, re_on, re_allow, re_got, 
                      re_trigs, k, z, v, g, res >>

L1s == /\ pc["S"] = "L1s"
       /\ IF set_pending > 0
             THEN /\ lock' = "none"
                  /\ waitI' = (waitI \cup {"S"})
                  /\ pc' = [pc EXCEPT !["S"] = "L1w"]
             ELSE /\ pc' = [pc EXCEPT !["S"] = "L2"]
                  /\ UNCHANGED << lock, waitI >>
       /\ UNCHANGED << is_running, triggered, frame_wanted, frame_id, 
                       last_emitted, sfid, waitT, waitF, alive, run, ntrig, 
                       ndeliv, lastHw, bad, stopping, getPending, inCall, 
                       is_rendering, set_pending, setting, enable, gated, 
                       oInCall, callNew, fresh, re_on, re_allow, re_got, 
                       re_trigs, k, z, v, g, res >>

L2 == /\ pc["S"] = "L2"
      /\ IF enable /\ ~triggered
            THEN /\ lock' = "none"
                 /\ waitT' = TRUE
                 /\ pc' = [pc EXCEPT !["S"] = "L2w"]
                 /\ UNCHANGED << triggered, is_rendering >>
            ELSE /\ triggered' = (IF ClearAlways \/ enable THEN FALSE ELSE triggered)
                 /\ is_rendering' = TRUE
                 /\ lock' = "none"
                 /\ pc' = [pc EXCEPT !["S"] = "L3"]
                 /\ waitT' = waitT
      /\ UNCHANGED << is_running, frame_wanted, frame_id, last_emitted, sfid, 
                      waitF, alive, run, ntrig, ndeliv, lastHw, bad, stopping, 
                      getPending, inCall, set_pending, waitI, setting, enable, 
                      gated, oInCall, callNew, fresh, re_on, re_allow, re_got, 
                      re_trigs, k, z, v, g, res >>

L1w == /\ pc["S"] = "L1w"
       /\ "S" \notin waitI
       /\ pc' = [pc EXCEPT !["S"] = "L1r"]
       /\ UNCHANGED << is_running, triggered, frame_wanted, frame_id, 
                       last_emitted, sfid, lock, waitT, waitF, alive, run, 
                       ntrig, ndeliv, lastHw, bad, stopping, getPending, 
                       inCall, is_rendering, set_pending, waitI, setting, 
                       enable, gated, oInCall, callNew, fresh, re_on, re_allow, 
                       re_got, re_trigs, k, z, v, g, res >>

L1r == /\ pc["S"] = "L1r"
       /\ lock = "none"
       /\ lock' = "S"
       /\ pc' = [pc EXCEPT !["S"] = "L1s"]
       /\ UNCHANGED << is_running, triggered, frame_wanted, frame_id, 
                       last_emitted, sfid, waitT, waitF, alive, run, ntrig, 
                       ndeliv, lastHw, bad, stopping, getPending, inCall, 
                       is_rendering, set_pending, waitI, setting, enable, 
                       gated, oInCall, callNew, fresh, re_on, re_allow, re_got, 
                       re_trigs, k, z, v, g, res >>

L2w == /\ pc["S"] = "L2w"
       /\ ~waitT
       /\ pc' = [pc EXCEPT !["S"] = "L2r"]
       /\ UNCHANGED << is_running, triggered, frame_wanted, frame_id, 
                       last_emitted, sfid, lock, waitT, waitF, alive, run, 
                       ntrig, ndeliv, lastHw, bad, stopping, getPending, 
                       inCall, is_rendering, set_pending, waitI, setting, 
                       enable, gated, oInCall, callNew, fresh, re_on, re_allow, 
                       re_got, re_trigs, k, z, v, g, res >>

L2r == /\ pc["S"] = "L2r"
       /\ lock = "none"
       /\ lock' = "S"
       /\ pc' = [pc EXCEPT !["S"] = "L2"]
       /\ UNCHANGED << is_running, triggered, frame_wanted, frame_id, 
                       last_emitted, sfid, waitT, waitF, alive, run, ntrig, 
                       ndeliv, lastHw, bad, stopping, getPending, inCall, 
                       is_rendering, set_pending, waitI, setting, enable, 
                       gated, oInCall, callNew, fresh, re_on, re_allow, re_got, 
                       re_trigs, k, z, v, g, res >>

L3 == /\ pc["S"] = "L3"
      /\ TRUE
      /\ pc' = [pc EXCEPT !["S"] = "L3a"]
      /\ UNCHANGED << is_running, triggered, frame_wanted, frame_id, 
                      last_emitted, sfid, lock, waitT, waitF, alive, run, 
                      ntrig, ndeliv, lastHw, bad, stopping, getPending, inCall, 
                      is_rendering, set_pending, waitI, setting, enable, gated, 
                      oInCall, callNew, fresh, re_on, re_allow, re_got, 
                      re_trigs, k, z, v, g, res >>

L3a == /\ pc["S"] = "L3a"
       /\ lock = "none"
       /\ is_rendering' = FALSE
       /\ waitI' = {}
       /\ pc' = [pc EXCEPT !["S"] = "L3b"]
       /\ UNCHANGED << is_running, triggered, frame_wanted, frame_id, 
                       last_emitted, sfid, lock, waitT, waitF, alive, run, 
                       ntrig, ndeliv, lastHw, bad, stopping, getPending, 
                       inCall, set_pending, setting, enable, gated, oInCall, 
                       callNew, fresh, re_on, re_allow, re_got, re_trigs, k, z, 
                       v, g, res >>

L3b == /\ pc["S"] = "L3b"
       /\ sfid' = sfid + 1
       /\ pc' = [pc EXCEPT !["S"] = "L4"]
       /\ UNCHANGED << is_running, triggered, frame_wanted, frame_id, 
                       last_emitted, lock, waitT, waitF, alive, run, ntrig, 
                       ndeliv, lastHw, bad, stopping, getPending, inCall, 
                       is_rendering, set_pending, waitI, setting, enable, 
                       gated, oInCall, callNew, fresh, re_on, re_allow, re_got, 
                       re_trigs, k, z, v, g, res >>

L4 == /\ pc["S"] = "L4"
      /\ IF frame_wanted
            THEN /\ pc' = [pc EXCEPT !["S"] = "L5"]
            ELSE /\ pc' = [pc EXCEPT !["S"] = "L0"]
      /\ UNCHANGED << is_running, triggered, frame_wanted, frame_id, 
                      last_emitted, sfid, lock, waitT, waitF, alive, run, 
                      ntrig, ndeliv, lastHw, bad, stopping, getPending, inCall, 
                      is_rendering, set_pending, waitI, setting, enable, gated, 
                      oInCall, callNew, fresh, re_on, re_allow, re_got, 
                      re_trigs, k, z, v, g, res >>

L5 == /\ pc["S"] = "L5"
      /\ lock = "none"
      /\ frame_id' = sfid
      /\ frame_wanted' = FALSE
      /\ waitF' = FALSE
      /\ pc' = [pc EXCEPT !["S"] = "L0"]
      /\ UNCHANGED << is_running, triggered, last_emitted, sfid, lock, waitT, 
                      alive, run, ntrig, ndeliv, lastHw, bad, stopping, 
                      getPending, inCall, is_rendering, set_pending, waitI, 
                      setting, enable, gated, oInCall, callNew, fresh, re_on, 
                      re_allow, re_got, re_trigs, k, z, v, g, res >>

TE == /\ pc["S"] = "TE"
      /\ alive' = FALSE
      /\ pc' = [pc EXCEPT !["S"] = "T0"]
      /\ UNCHANGED << is_running, triggered, frame_wanted, frame_id, 
                      last_emitted, sfid, lock, waitT, waitF, run, ntrig, 
                      ndeliv, lastHw, bad, stopping, getPending, inCall, 
                      is_rendering, set_pending, waitI, setting, enable, gated, 
                      oInCall, callNew, fresh, re_on, re_allow, re_got, 
                      re_trigs, k, z, v, g, res >>

TX == /\ pc["S"] = "TX"
      /\ TRUE
      /\ pc' = [pc EXCEPT !["S"] = "Done"]
      /\ UNCHANGED << is_running, triggered, frame_wanted, frame_id, 
                      last_emitted, sfid, lock, waitT, waitF, alive, run, 
                      ntrig, ndeliv, lastHw, bad, stopping, getPending, inCall, 
                      is_rendering, set_pending, waitI, setting, enable, gated, 
                      oInCall, callNew, fresh, re_on, re_allow, re_got, 
                      re_trigs, k, z, v, g, res >>

Streamer == T0 \/ T1 \/ L0 \/ L1 \/ L1s \/ L2 \/ L1w \/ L1r \/ L2w \/ L2r
               \/ L3 \/ L3a \/ L3b \/ L4 \/ L5 \/ TE \/ TX

C0 == /\ pc["C"] = "C0"
      /\ IF run < Runs
            THEN /\ ~inCall /\ (~Toggle \/ pc["Z"] \in {"Z0", "Done"})
                 /\ run' = run + 1
                 /\ is_running' = TRUE
                 /\ last_emitted' = -1
                 /\ frame_id' = -1
                 /\ ntrig' = 0
                 /\ ndeliv' = 0
                 /\ lastHw' = -1
                 /\ IF ResetAtStart
                       THEN /\ triggered' = FALSE
                            /\ frame_wanted' = FALSE
                       ELSE /\ TRUE
                            /\ UNCHANGED << triggered, frame_wanted >>
                 /\ gated' = enable
                 /\ fresh' = 3
                 /\ callNew' = FALSE
                 /\ re_on' = FALSE
                 /\ alive' = TRUE
                 /\ k' = 0
                 /\ pc' = [pc EXCEPT !["C"] = "C1"]
            ELSE /\ pc' = [pc EXCEPT !["C"] = "C9"]
                 /\ UNCHANGED << is_running, triggered, frame_wanted, frame_id, 
                                 last_emitted, alive, run, ntrig, ndeliv, 
                                 lastHw, gated, callNew, fresh, re_on, k >>
      /\ UNCHANGED << sfid, lock, waitT, waitF, bad, stopping, getPending, 
                      inCall, is_rendering, set_pending, waitI, setting, 
                      enable, oInCall, re_allow, re_got, re_trigs, z, v, g, 
                      res >>

C1 == /\ pc["C"] = "C1"
      /\ IF k < MaxTrig
            THEN /\ \/ /\ pc' = [pc EXCEPT !["C"] = "C2"]
                       /\ k' = k
                    \/ /\ k' = MaxTrig
                       /\ pc' = [pc EXCEPT !["C"] = "C1"]
            ELSE /\ pc' = [pc EXCEPT !["C"] = "C3"]
                 /\ k' = k
      /\ UNCHANGED << is_running, triggered, frame_wanted, frame_id, 
                      last_emitted, sfid, lock, waitT, waitF, alive, run, 
                      ntrig, ndeliv, lastHw, bad, stopping, getPending, inCall, 
                      is_rendering, set_pending, waitI, setting, enable, gated, 
                      oInCall, callNew, fresh, re_on, re_allow, re_got, 
                      re_trigs, z, v, g, res >>

C2 == /\ pc["C"] = "C2"
      /\ lock = "none"
      /\ frame_wanted' = TRUE
      /\ triggered' = TRUE
      /\ waitT' = FALSE
      /\ ntrig' = ntrig + 1
      /\ k' = k + 1
      /\ IF Toggle
            THEN /\ fresh' = 0
                 /\ callNew' = FALSE
                 /\ re_trigs' = IF re_on THEN re_trigs + 1 ELSE re_trigs
            ELSE /\ TRUE
                 /\ UNCHANGED << callNew, fresh, re_trigs >>
      /\ pc' = [pc EXCEPT !["C"] = "C1"]
      /\ UNCHANGED << is_running, frame_id, last_emitted, sfid, lock, waitF, 
                      alive, run, ndeliv, lastHw, bad, stopping, getPending, 
                      inCall, is_rendering, set_pending, waitI, setting, 
                      enable, gated, oInCall, re_on, re_allow, re_got, z, v, g, 
                      res >>

C3 == /\ pc["C"] = "C3"
      /\ stopping' = TRUE
      /\ is_running' = FALSE
      /\ re_on' = FALSE
      /\ pc' = [pc EXCEPT !["C"] = "C4"]
      /\ UNCHANGED << triggered, frame_wanted, frame_id, last_emitted, sfid, 
                      lock, waitT, waitF, alive, run, ntrig, ndeliv, lastHw, 
                      bad, getPending, inCall, is_rendering, set_pending, 
                      waitI, setting, enable, gated, oInCall, callNew, fresh, 
                      re_allow, re_got, re_trigs, k, z, v, g, res >>

C4 == /\ pc["C"] = "C4"
      /\ lock = "none"
      /\ frame_wanted' = TRUE
      /\ triggered' = TRUE
      /\ waitT' = FALSE
      /\ pc' = [pc EXCEPT !["C"] = "C5"]
      /\ UNCHANGED << is_running, frame_id, last_emitted, sfid, lock, waitF, 
                      alive, run, ntrig, ndeliv, lastHw, bad, stopping, 
                      getPending, inCall, is_rendering, set_pending, waitI, 
                      setting, enable, gated, oInCall, callNew, fresh, re_on, 
                      re_allow, re_got, re_trigs, k, z, v, g, res >>

C5 == /\ pc["C"] = "C5"
      /\ waitF' = FALSE
      /\ pc' = [pc EXCEPT !["C"] = "C6"]
      /\ UNCHANGED << is_running, triggered, frame_wanted, frame_id, 
                      last_emitted, sfid, lock, waitT, alive, run, ntrig, 
                      ndeliv, lastHw, bad, stopping, getPending, inCall, 
                      is_rendering, set_pending, waitI, setting, enable, gated, 
                      oInCall, callNew, fresh, re_on, re_allow, re_got, 
                      re_trigs, k, z, v, g, res >>

C6 == /\ pc["C"] = "C6"
      /\ ~alive
      /\ stopping' = FALSE
      /\ pc' = [pc EXCEPT !["C"] = "C0"]
      /\ UNCHANGED << is_running, triggered, frame_wanted, frame_id, 
                      last_emitted, sfid, lock, waitT, waitF, alive, run, 
                      ntrig, ndeliv, lastHw, bad, getPending, inCall, 
                      is_rendering, set_pending, waitI, setting, enable, gated, 
                      oInCall, callNew, fresh, re_on, re_allow, re_got, 
                      re_trigs, k, z, v, g, res >>

C9 == /\ pc["C"] = "C9"
      /\ run' = Runs + 1
      /\ pc' = [pc EXCEPT !["C"] = "Done"]
      /\ UNCHANGED << is_running, triggered, frame_wanted, frame_id, 
                      last_emitted, sfid, lock, waitT, waitF, alive, ntrig, 
                      ndeliv, lastHw, bad, stopping, getPending, inCall, 
                      is_rendering, set_pending, waitI, setting, enable, gated, 
                      oInCall, callNew, fresh, re_on, re_allow, re_got, 
                      re_trigs, k, z, v, g, res >>

Controller == C0 \/ C1 \/ C2 \/ C3 \/ C4 \/ C5 \/ C6 \/ C9

Z0 == /\ pc["Z"] = "Z0"
      /\ IF z < NSets
            THEN /\ v' = IF Toggle THEN ~enable ELSE enable
                 /\ pc' = [pc EXCEPT !["Z"] = "Zc"]
            ELSE /\ pc' = [pc EXCEPT !["Z"] = "Done"]
                 /\ v' = v
      /\ UNCHANGED << is_running, triggered, frame_wanted, frame_id, 
                      last_emitted, sfid, lock, waitT, waitF, alive, run, 
                      ntrig, ndeliv, lastHw, bad, stopping, getPending, inCall, 
                      is_rendering, set_pending, waitI, setting, enable, gated, 
                      oInCall, callNew, fresh, re_on, re_allow, re_got, 
                      re_trigs, k, z, g, res >>

Zc == /\ pc["Z"] = "Zc"
      /\ IF ~v
            THEN /\ gated' = FALSE
                 /\ re_on' = FALSE
                 /\ IF enable
                       THEN /\ fresh' = 0
                            /\ callNew' = FALSE
                       ELSE /\ TRUE
                            /\ UNCHANGED << callNew, fresh >>
            ELSE /\ TRUE
                 /\ UNCHANGED << gated, callNew, fresh, re_on >>
      /\ pc' = [pc EXCEPT !["Z"] = "Zt"]
      /\ UNCHANGED << is_running, triggered, frame_wanted, frame_id, 
                      last_emitted, sfid, lock, waitT, waitF, alive, run, 
                      ntrig, ndeliv, lastHw, bad, stopping, getPending, inCall, 
                      is_rendering, set_pending, waitI, setting, enable, 
                      oInCall, re_allow, re_got, re_trigs, k, z, v, g, res >>

Zt == /\ pc["Z"] = "Zt"
      /\ IF enable /\ ~v
            THEN /\ lock = "none"
                 /\ frame_wanted' = TRUE
                 /\ triggered' = TRUE
                 /\ waitT' = FALSE
            ELSE /\ TRUE
                 /\ UNCHANGED << triggered, frame_wanted, waitT >>
      /\ pc' = [pc EXCEPT !["Z"] = "Z1"]
      /\ UNCHANGED << is_running, frame_id, last_emitted, sfid, lock, waitF, 
                      alive, run, ntrig, ndeliv, lastHw, bad, stopping, 
                      getPending, inCall, is_rendering, set_pending, waitI, 
                      setting, enable, gated, oInCall, callNew, fresh, re_on, 
                      re_allow, re_got, re_trigs, k, z, v, g, res >>

Z1 == /\ pc["Z"] = "Z1"
      /\ lock = "none"
      /\ lock' = "Z"
      /\ setting' = TRUE
      /\ set_pending' = set_pending + 1
      /\ pc' = [pc EXCEPT !["Z"] = "Z2"]
      /\ UNCHANGED << is_running, triggered, frame_wanted, frame_id, 
                      last_emitted, sfid, waitT, waitF, alive, run, ntrig, 
                      ndeliv, lastHw, bad, stopping, getPending, inCall, 
                      is_rendering, waitI, enable, gated, oInCall, callNew, 
                      fresh, re_on, re_allow, re_got, re_trigs, k, z, v, g, 
                      res >>

Z2 == /\ pc["Z"] = "Z2"
      /\ IF is_rendering
            THEN /\ lock' = "none"
                 /\ waitI' = (waitI \cup {"Z"})
                 /\ pc' = [pc EXCEPT !["Z"] = "Z2w"]
            ELSE /\ pc' = [pc EXCEPT !["Z"] = "Z3"]
                 /\ UNCHANGED << lock, waitI >>
      /\ UNCHANGED << is_running, triggered, frame_wanted, frame_id, 
                      last_emitted, sfid, waitT, waitF, alive, run, ntrig, 
                      ndeliv, lastHw, bad, stopping, getPending, inCall, 
                      is_rendering, set_pending, setting, enable, gated, 
                      oInCall, callNew, fresh, re_on, re_allow, re_got, 
                      re_trigs, k, z, v, g, res >>

Z2w == /\ pc["Z"] = "Z2w"
       /\ "Z" \notin waitI
       /\ pc' = [pc EXCEPT !["Z"] = "Z2r"]
       /\ UNCHANGED << is_running, triggered, frame_wanted, frame_id, 
                       last_emitted, sfid, lock, waitT, waitF, alive, run, 
                       ntrig, ndeliv, lastHw, bad, stopping, getPending, 
                       inCall, is_rendering, set_pending, waitI, setting, 
                       enable, gated, oInCall, callNew, fresh, re_on, re_allow, 
                       re_got, re_trigs, k, z, v, g, res >>

Z2r == /\ pc["Z"] = "Z2r"
       /\ lock = "none"
       /\ lock' = "Z"
       /\ pc' = [pc EXCEPT !["Z"] = "Z2"]
       /\ UNCHANGED << is_running, triggered, frame_wanted, frame_id, 
                       last_emitted, sfid, waitT, waitF, alive, run, ntrig, 
                       ndeliv, lastHw, bad, stopping, getPending, inCall, 
                       is_rendering, set_pending, waitI, setting, enable, 
                       gated, oInCall, callNew, fresh, re_on, re_allow, re_got, 
                       re_trigs, k, z, v, g, res >>

Z3 == /\ pc["Z"] = "Z3"
      /\ set_pending' = set_pending - 1
      /\ IF v /\ ~enable /\ is_running
            THEN /\ re_on' = TRUE
                 /\ re_got' = 0
                 /\ re_trigs' = 0
                 /\ re_allow' = 2 + (IF fresh >= 3 THEN 0 ELSE 1)
            ELSE /\ TRUE
                 /\ UNCHANGED << re_on, re_allow, re_got, re_trigs >>
      /\ enable' = v
      /\ waitI' = {}
      /\ lock' = "none"
      /\ setting' = FALSE
      /\ z' = z + 1
      /\ pc' = [pc EXCEPT !["Z"] = "Z0"]
      /\ UNCHANGED << is_running, triggered, frame_wanted, frame_id, 
                      last_emitted, sfid, waitT, waitF, alive, run, ntrig, 
                      ndeliv, lastHw, bad, stopping, getPending, inCall, 
                      is_rendering, gated, oInCall, callNew, fresh, k, v, g, 
                      res >>

Setter == Z0 \/ Zc \/ Zt \/ Z1 \/ Z2 \/ Z2w \/ Z2r \/ Z3

G0 == /\ pc["G"] = "G0"
      /\ IF g < MaxGet /\ run <= Runs
            THEN /\ is_running \/ run > Runs
                 /\ IF run > Runs
                       THEN /\ pc' = [pc EXCEPT !["G"] = "GX"]
                            /\ UNCHANGED << inCall, oInCall, callNew >>
                       ELSE /\ inCall' = TRUE
                            /\ IF Toggle
                                  THEN /\ oInCall' = TRUE
                                       /\ callNew' = TRUE
                                  ELSE /\ TRUE
                                       /\ UNCHANGED << oInCall, callNew >>
                            /\ pc' = [pc EXCEPT !["G"] = "G1"]
            ELSE /\ pc' = [pc EXCEPT !["G"] = "GX"]
                 /\ UNCHANGED << inCall, oInCall, callNew >>
      /\ UNCHANGED << is_running, triggered, frame_wanted, frame_id, 
                      last_emitted, sfid, lock, waitT, waitF, alive, run, 
                      ntrig, ndeliv, lastHw, bad, stopping, getPending, 
                      is_rendering, set_pending, waitI, setting, enable, gated, 
                      fresh, re_on, re_allow, re_got, re_trigs, k, z, v, g, 
                      res >>

G1 == /\ pc["G"] = "G1"
      /\ IF ~is_running
            THEN /\ res' = "err"
                 /\ oInCall' = FALSE
                 /\ pc' = [pc EXCEPT !["G"] = "G5"]
            ELSE /\ pc' = [pc EXCEPT !["G"] = "G2"]
                 /\ UNCHANGED << oInCall, res >>
      /\ UNCHANGED << is_running, triggered, frame_wanted, frame_id, 
                      last_emitted, sfid, lock, waitT, waitF, alive, run, 
                      ntrig, ndeliv, lastHw, bad, stopping, getPending, inCall, 
                      is_rendering, set_pending, waitI, setting, enable, gated, 
                      callNew, fresh, re_on, re_allow, re_got, re_trigs, k, z, 
                      v, g >>

G2 == /\ pc["G"] = "G2"
      /\ lock = "none"
      /\ lock' = "G"
      /\ frame_wanted' = TRUE
      /\ getPending' = TRUE
      /\ pc' = [pc EXCEPT !["G"] = "G3"]
      /\ UNCHANGED << is_running, triggered, frame_id, last_emitted, sfid, 
                      waitT, waitF, alive, run, ntrig, ndeliv, lastHw, bad, 
                      stopping, inCall, is_rendering, set_pending, waitI, 
                      setting, enable, gated, oInCall, callNew, fresh, re_on, 
                      re_allow, re_got, re_trigs, k, z, v, g, res >>

G3 == /\ pc["G"] = "G3"
      /\ IF is_running /\ last_emitted >= frame_id
            THEN /\ lock' = "none"
                 /\ waitF' = TRUE
                 /\ pc' = [pc EXCEPT !["G"] = "G3w"]
            ELSE /\ pc' = [pc EXCEPT !["G"] = "G4"]
                 /\ UNCHANGED << lock, waitF >>
      /\ UNCHANGED << is_running, triggered, frame_wanted, frame_id, 
                      last_emitted, sfid, waitT, alive, run, ntrig, ndeliv, 
                      lastHw, bad, stopping, getPending, inCall, is_rendering, 
                      set_pending, waitI, setting, enable, gated, oInCall, 
                      callNew, fresh, re_on, re_allow, re_got, re_trigs, k, z, 
                      v, g, res >>

G3w == /\ pc["G"] = "G3w"
       /\ ~waitF
       /\ pc' = [pc EXCEPT !["G"] = "G3r"]
       /\ UNCHANGED << is_running, triggered, frame_wanted, frame_id, 
                       last_emitted, sfid, lock, waitT, waitF, alive, run, 
                       ntrig, ndeliv, lastHw, bad, stopping, getPending, 
                       inCall, is_rendering, set_pending, waitI, setting, 
                       enable, gated, oInCall, callNew, fresh, re_on, re_allow, 
                       re_got, re_trigs, k, z, v, g, res >>

G3r == /\ pc["G"] = "G3r"
       /\ lock = "none"
       /\ lock' = "G"
       /\ pc' = [pc EXCEPT !["G"] = "G3"]
       /\ UNCHANGED << is_running, triggered, frame_wanted, frame_id, 
                       last_emitted, sfid, waitT, waitF, alive, run, ntrig, 
                       ndeliv, lastHw, bad, stopping, getPending, inCall, 
                       is_rendering, set_pending, waitI, setting, enable, 
                       gated, oInCall, callNew, fresh, re_on, re_allow, re_got, 
                       re_trigs, k, z, v, g, res >>

G4 == /\ pc["G"] = "G4"
      /\ last_emitted' = frame_id
      /\ IF ~is_running
            THEN /\ res' = "ok_nodata"
                 /\ IF ~ResetAtStart
                       THEN /\ bad' = "StaleFrameReturned"
                       ELSE /\ TRUE
                            /\ bad' = bad
                 /\ UNCHANGED << ndeliv, lastHw, fresh, re_got >>
            ELSE /\ res' = "data"
                 /\ bad' = (IF frame_id <= lastHw THEN "NotIncreasing"
                            ELSE IF gated /\ ndeliv + 1 > ntrig THEN "FrameWithoutTrigger"
                            ELSE IF re_on /\ re_got + 1 > re_allow + re_trigs THEN "FrameWithoutTriggerAfterEnable" ELSE bad)
                 /\ lastHw' = frame_id
                 /\ ndeliv' = ndeliv + 1
                 /\ re_got' = IF re_on THEN re_got + 1 ELSE re_got
                 /\ fresh' = (IF Toggle /\ callNew /\ fresh < 3 THEN fresh + 1 ELSE fresh)
      /\ getPending' = FALSE
      /\ oInCall' = FALSE
      /\ lock' = "none"
      /\ pc' = [pc EXCEPT !["G"] = "G5"]
      /\ UNCHANGED << is_running, triggered, frame_wanted, frame_id, sfid, 
                      waitT, waitF, alive, run, ntrig, stopping, inCall, 
                      is_rendering, set_pending, waitI, setting, enable, gated, 
                      callNew, re_on, re_allow, re_trigs, k, z, v, g >>

G5 == /\ pc["G"] = "G5"
      /\ g' = g + 1
      /\ inCall' = FALSE
      /\ pc' = [pc EXCEPT !["G"] = "G0"]
      /\ UNCHANGED << is_running, triggered, frame_wanted, frame_id, 
                      last_emitted, sfid, lock, waitT, waitF, alive, run, 
                      ntrig, ndeliv, lastHw, bad, stopping, getPending, 
                      is_rendering, set_pending, waitI, setting, enable, gated, 
                      oInCall, callNew, fresh, re_on, re_allow, re_got, 
                      re_trigs, k, z, v, res >>

GX == /\ pc["G"] = "GX"
      /\ TRUE
      /\ pc' = [pc EXCEPT !["G"] = "Done"]
      /\ UNCHANGED << is_running, triggered, frame_wanted, frame_id, 
                      last_emitted, sfid, lock, waitT, waitF, alive, run, 
                      ntrig, ndeliv, lastHw, bad, stopping, getPending, inCall, 
                      is_rendering, set_pending, waitI, setting, enable, gated, 
                      oInCall, callNew, fresh, re_on, re_allow, re_got, 
                      re_trigs, k, z, v, g, res >>

Caller == G0 \/ G1 \/ G2 \/ G3 \/ G3w \/ G3r \/ G4 \/ G5 \/ GX

(* Allow infinite stuttering to prevent deadlock on termination. *)
Terminating == /\ \A self \in ProcSet: pc[self] = "Done"
               /\ UNCHANGED vars

Next == Streamer \/ Controller \/ Setter \/ Caller
           \/ Terminating

Spec == /\ Init /\ [][Next]_vars
        /\ WF_vars(Streamer)
        /\ WF_vars(Controller)
        /\ WF_vars(Setter)
        /\ WF_vars(Caller)

Termination == <>(\A self \in ProcSet: pc[self] = "Done")

\* END TRANSLATION
NoBad == bad = "none"
Bounded == sfid <= MaxFid
StopReturns == stopping ~> ~stopping
CallReleased == (inCall /\ stopping) ~> ~inCall
SetReturns == setting ~> ~setting
\* NOT a property of the code (DESIGN 15.6): with the trigger off and no set in progress the streamer can be asleep on
\* trigger_ready - a disabling set fires the trigger before it stores the setting, and the streamer can consume that trigger
\* and return to its gate in between. Checked only by the `stall` configuration, which expects the counterexample.
NeverStalled == ~(is_running /\ ~enable /\ pc["Z"] \in {"Z0", "Done"} /\ pc["S"] = "L2w" /\ waitT /\ ~triggered)
\* the buffers are never replaced while a frame is being rendered into them
NoSetWhileRendering == ~(pc["Z"] = "Z3" /\ is_rendering)
=============================================================================
