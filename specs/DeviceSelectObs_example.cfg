\* EXAMPLE ONLY.  tools/chk_select.py writes the real cfg next to the traces (the class table must be the one the ASTs in
\* the trace refer to).  By hand:  TRACE=<trace.ndjson> tlc -workers 1 -config DeviceSelectObs_example.cfg DeviceSelectObs.tla
CONSTANTS
 ClassCells = {1208948, 2323315, 2439738}
 NClass = 2
SPECIFICATION Spec
CHECK_DEADLOCK FALSE
