CONSTANTS Kind = "camera" MaxOpens = 2 FixOpenLeak = TRUE FixDescribeLeak = TRUE CloseStateFirst = TRUE SetKeepsRunning = TRUE SetStopsRejected = TRUE Strict = FALSE
SPECIFICATION Spec
VIEW View
CHECK_DEADLOCK FALSE
INVARIANTS TypeOK NoErr NoLeak ReportedStateFollowsDriver ClosedMeansClosed RunningIsTrue
PROPERTIES SetLeavesNoRunner
