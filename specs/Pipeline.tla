------------------------------ MODULE Pipeline ------------------------------
(***************************************************************************)
(* Implementation-shaped model of one video stream of the runtime          *)
(* (acquire.c, source.c, filter.c, sink.c over two channels), properties    *)
(* C04 C06 C07 C09 C10.  Processes: Source, Filter, Sink, Client; the       *)
(* queues are abstract (capacity K items, blocking writer, refuse-writes    *)
(* flag, readers registered at start); the unlocked is_stopping /           *)
(* is_running flags are separate steps exactly where the code reads / writes *)
(* them; stop = join x3 + re-accept + monitor flush + queue reset; abort =  *)
(* flag + refuse + trigger + stop.  One label = one scheduling segment.     *)
(*                                                                         *)
(* Repaired = TRUE models the code after the repairs (failing sink refuses  *)
(* writes, source joins the filter before it stops the sink, filter flush   *)
(* loops, stop resets the queues); Repaired = FALSE keeps the old behaviour *)
(* of those four so TLC still shows the defects. Readers are registered at  *)
(* start in both variants.                                                  *)
(* An item is <<epoch, first frame id, number of frames averaged>>.         *)
(***************************************************************************)
EXTENDS Naturals, Integers, Sequences, TLC

CONSTANTS N,          \* frames per acquisition
          K,          \* capacity of each queue in items
          AVG,        \* averaging window (1 = filter idle)
          Epochs,     \* number of acquisitions
          WithAbort, WithMonitor,
          Delay,      \* write delay: 0 = none; d > 0 = the sink holds back frames younger than the delay - abstracted as: a
                      \* look at the queue may write only a prefix of what it mapped (possibly nothing), at most d such
                      \* short looks in a row before time has passed and everything mapped is old enough
          CamFailAt,  \* frame index at which the camera fails in epoch 1 (>= N+1: never)
          StorFailAt, \* append index at which storage fails in epoch 1 (>= N+1: never)
          Repaired

Min(a, b) == IF a < b THEN a ELSE b

(* --algorithm Pipeline {
variables
  epoch = 0, phase = "idle", aborted = FALSE,
  \* source -> filter queue (only used when AVG > 1): items not yet read by the filter
  fq = <<>>, facc = TRUE,
  \* sink queue: items committed and not yet consumed by every registered reader; cursors are counts into sq
  sq = <<>>, sacc = TRUE, sreg = FALSE, sc = 0, mreg = FALSE, mc = 0,
  stopS = FALSE, stopF = FALSE, stopK = FALSE, runS = FALSE, runF = FALSE, runK = FALSE,
  doneS = TRUE, doneF = TRUE, doneK = TRUE,
  camRunning = FALSE, storRunning = FALSE, camFailed = FALSE, storFailed = FALSE,
  cam = 0, nappend = 0, stor = <<>>, monSeen = <<>>, bad = "none",
  acc = <<>>;   \* filter's open accumulator: <<epoch, first, count>> or <<>>

define {
  SLag == Len(sq) - (IF mreg /\ sreg THEN Min(sc, mc) ELSE IF sreg THEN sc ELSE IF mreg THEN mc ELSE Len(sq))
  SSpace == (~sreg /\ ~mreg) \/ SLag < K
  FSpace == Len(fq) < K
  Item(first, cnt) == <<epoch, first, cnt>>
  \* what storage must have received, given what the camera delivered: a prefix of the expected item sequence
  ExpectedItem(i) == IF AVG <= 1 THEN <<epoch, i - 1, 1>> ELSE <<epoch, AVG * (i - 1), AVG>>
  Clean == ~aborted /\ ~camFailed /\ ~storFailed
  \* (the last item may be a partial window: what the final flush found accumulated - after all full windows of a complete
  \* acquisition, or wherever an abort or a device failure cut the acquisition short; it never covers frames not acquired)
  StorOk == \A i \in 1..Len(stor) :
               \/ stor[i] = ExpectedItem(i)
               \/ (AVG > 1 /\ i = Len(stor) /\ stor[i][1] = epoch /\ stor[i][2] = AVG * (i - 1) /\ stor[i][3] < AVG /\ stor[i][3] >= 1
                   /\ (i > N \div AVG \/ ~Clean) /\ stor[i][2] + stor[i][3] <= cam)
  Complete == IF AVG <= 1 THEN Len(stor) = N ELSE Len(stor) >= N \div AVG
}

\* cursor updates trim what every registered reader has consumed (keeps the state space finite)
macro SinkConsume(n) {
  with (nsc = sc + n, m = IF mreg THEN Min(sc + n, mc) ELSE sc + n) {
    sq := SubSeq(sq, m + 1, Len(sq));
    sc := nsc - m;
    mc := IF mreg THEN mc - m ELSE 0;
  }
}
macro MonConsume(n) {
  with (nmc = mc + n, m = IF sreg THEN Min(sc, mc + n) ELSE mc + n) {
    sq := SubSeq(sq, m + 1, Len(sq));
    mc := nmc - m;
    sc := IF sreg THEN sc - m ELSE 0;
  }
}

fair process (Source = "S")
variables iframe = 0, got = FALSE;
{
S0: await runS /\ ~doneS;
    iframe := 0;
S1: while (~stopS /\ iframe < N) {
S2:   \* channel_write_map on the filter's queue (AVG > 1) or the sink's queue: blocks for space, NULL when refused
      if (AVG > 1) { await FSpace; got := TRUE; }
      else { either { await ~sacc; got := FALSE; } or { await sacc /\ SSpace; got := TRUE; } };
S3:   if (got) {
        \* camera_get_frame
        if (epoch = 1 /\ cam = CamFailAt) { camFailed := TRUE; camRunning := FALSE; goto S5; }
        else { cam := cam + 1; };
S4:     \* write_unmap (a commit while refusing is discarded)
        if (AVG > 1) { fq := Append(fq, iframe); }
        else if (sacc) { sq := Append(sq, Item(iframe, 1)); };
        iframe := iframe + 1;
      };
    };
S5: stopF := TRUE;                       \* sig_stop_filter
S5j: if (Repaired) { await doneF; };     \* ... which waits for the filter (repaired)
S6: stopK := TRUE;                       \* sig_stop_sink
S7: camRunning := FALSE;                 \* camera_stop
S8: stopS := FALSE; runS := FALSE; doneS := TRUE; goto S0;
}

fair process (Filter = "F")
variables batch = 0;
{
F0: await runF /\ ~doneF;
F1: while (~stopF) {
F2:   \* process_data: read everything available, accumulate, emit full windows into the sink's queue
      batch := Len(fq);
F3:   while (batch > 0) {
        if (acc = <<>>) {
          \* write_map on the sink's queue for a new accumulator
          either { await ~sacc; fq := Tail(fq); batch := batch - 1; }      \* refused: the input frame is dropped
          or { await sacc /\ SSpace; acc := <<epoch, Head(fq), 1>>; fq := Tail(fq); batch := batch - 1; };
        } else {
          acc := <<acc[1], acc[2], acc[3] + 1>>; fq := Tail(fq); batch := batch - 1;
        };
F4:     if (acc # <<>> /\ acc[3] >= AVG) { if (sacc) { sq := Append(sq, acc); }; acc := <<>>; };
      };
F5:   skip;    \* throttle
    };
FF: \* flush: once as it was, until drained when repaired
    batch := Len(fq);
FG: while (batch > 0) {
      if (acc = <<>>) {
        either { await ~sacc; fq := Tail(fq); batch := batch - 1; }
        or { await sacc /\ SSpace; acc := <<epoch, Head(fq), 1>>; fq := Tail(fq); batch := batch - 1; };
      } else { acc := <<acc[1], acc[2], acc[3] + 1>>; fq := Tail(fq); batch := batch - 1; };
FH:   if (acc # <<>> /\ acc[3] >= AVG) { if (sacc) { sq := Append(sq, acc); }; acc := <<>>; };
    };
FI: if (Repaired /\ Len(fq) > 0) { goto FF; };
FJ: if (acc # <<>>) { if (sacc) { sq := Append(sq, acc); }; acc := <<>>; };   \* trailing partial window
FK: runF := FALSE; stopF := FALSE; doneF := TRUE; goto F0;
}

fair process (Sink = "K")
variables slice = 0, old = 0, short = 0;
{
K0: await runK /\ ~doneK;
K1: while (~stopK /\ storRunning) {
K2:   \* read_map: everything available, or less (one read ends where the ring wraps);
      \* vfslice_split_at_delay_ms: the frames of it that are older than the write delay (all of them without a delay)
      with (n \in (IF Len(sq) - sc > 0 THEN 1..(Len(sq) - sc) ELSE {0})) {
        slice := n;
        with (c \in (IF Delay > 0 /\ short < Delay THEN 0..n ELSE {n})) {
          old := c;
          short := IF c < n THEN short + 1 ELSE 0;
        };
      };
K3:   if (slice > 0) {                               \* storage_append of the old part (nothing to do when it is empty)
        if (old > 0) {
          if (epoch = 1 /\ nappend = StorFailAt) { storFailed := TRUE; storRunning := FALSE; goto KE; }
          else { stor := stor \o SubSeq(sq, sc + 1, sc + old); nappend := nappend + 1; };
        };
K4:     SinkConsume(old);                            \* read_unmap of what was written
        goto K2;                                     \* (the inner loop runs as long as the mapped region was not empty)
      };
K5:   skip;                                          \* throttle
    };
KF: with (n \in (IF Len(sq) - sc > 0 THEN 1..(Len(sq) - sc) ELSE {0})) { slice := n; };   \* flush until drained
KG: if (slice > 0) {
      if (storRunning) {
        if (epoch = 1 /\ nappend = StorFailAt) { storFailed := TRUE; storRunning := FALSE; goto KE; }
        else { stor := stor \o SubSeq(sq, sc + 1, sc + slice); nappend := nappend + 1; };
      } else { goto KE; };                           \* storage_append refuses when not running
KH:   SinkConsume(slice); goto KF;
    };
KS: storRunning := FALSE;                            \* storage_stop
KD: runK := FALSE; stopK := FALSE; doneK := TRUE; goto K0;
KE: stopS := TRUE;                                   \* error path: sig_stop_source
KE1: if (Repaired) { sacc := FALSE; };               \* repaired: refuse writes so that a sleeping writer returns
KE2: storRunning := FALSE;
KE3: runK := FALSE; stopK := FALSE; doneK := TRUE; goto K0;
}

fair process (Client = "C")
variables polls = 0, mslice = 0, monitoring = FALSE;
{
C0: while (epoch < Epochs) {
      \* acquire_start: sink, filter, source
      epoch := epoch + 1; aborted := FALSE; camFailed := FALSE; storFailed := FALSE;
      cam := 0; nappend := 0; stor := <<>>; monSeen := <<>>;
      storRunning := TRUE; sacc := TRUE; stopK := FALSE; runK := TRUE; doneK := FALSE;
      sreg := TRUE; sc := Len(sq);   \* (late registration, the old code's free-running writer, is not modelled)
C1:   stopF := FALSE; runF := TRUE; doneF := FALSE;
C2:   camRunning := TRUE; stopS := FALSE; runS := TRUE; doneS := FALSE;      \* video_source_start: the source thread exists
C2r:  phase := "running"; polls := 0;                                        \* acquire_start returns
      with (m \in {TRUE, FALSE}) { monitoring := WithMonitor /\ m; };       \* this client monitors the acquisition, or not
C3:   \* a monitoring client polls until the acquisition is over (client contract), or does not monitor at all
      while (monitoring /\ (runS \/ runF \/ runK \/ (mreg /\ mc < Len(sq)))) {
        if (~mreg) { mreg := TRUE; mc := 0; };
C3m:    with (n \in (IF Len(sq) - mc > 0 THEN 1..(Len(sq) - mc) ELSE {0})) { mslice := n; };   \* map: all or up to the wrap
        monSeen := monSeen \o SubSeq(sq, mc + 1, mc + mslice);
C3u:    MonConsume(mslice);   \* (partial consumption and holding are exercised on the real code, not in this model)
      };
C4:   either { skip; }
      or { await WithAbort;                              \* acquire_abort
           aborted := TRUE; stopS := TRUE;
C4a:       sacc := FALSE; };
C5:   phase := "stopping";                               \* acquire_stop is called
C5j:  await doneS;                                       \* join source
C6:   await doneF;                                       \* join filter
C7:   await doneK;                                       \* join sink
C8:   sacc := TRUE;
      \* monitor flush, then (repaired) reset of both queues and all readers
      if (Repaired) { sq := <<>>; fq := <<>>; sc := 0; mc := 0; sreg := FALSE; mreg := FALSE; }
      else { if (mreg) { MonConsume(Len(sq) - mc); } };
C9:   phase := "armed";
      \* Obs rules evaluated when stop returns
      bad := IF runS \/ runF \/ runK THEN "WorkersAliveAfterStop"
             ELSE IF camRunning THEN "CameraRunningAfterStop"
             ELSE IF storRunning THEN "StorageRunningAfterStop"
             ELSE IF Clean /\ cam # N THEN "StopCameraIncomplete"
             ELSE IF Clean /\ ~Complete THEN "StopIncomplete"
             ELSE bad;
    };
CX: phase := "done";
}
} *)
\* BEGIN TRANSLATION
VARIABLES pc, epoch, phase, aborted, fq, facc, sq, sacc, sreg, sc, mreg, mc, 
          stopS, stopF, stopK, runS, runF, runK, doneS, doneF, doneK, 
          camRunning, storRunning, camFailed, storFailed, cam, nappend, stor, 
          monSeen, bad, acc

(* define statement *)
SLag == Len(sq) - (IF mreg /\ sreg THEN Min(sc, mc) ELSE IF sreg THEN sc ELSE IF mreg THEN mc ELSE Len(sq))
SSpace == (~sreg /\ ~mreg) \/ SLag < K
FSpace == Len(fq) < K
Item(first, cnt) == <<epoch, first, cnt>>

ExpectedItem(i) == IF AVG <= 1 THEN <<epoch, i - 1, 1>> ELSE <<epoch, AVG * (i - 1), AVG>>
Clean == ~aborted /\ ~camFailed /\ ~storFailed


StorOk == \A i \in 1..Len(stor) :
             \/ stor[i] = ExpectedItem(i)
             \/ (AVG > 1 /\ i = Len(stor) /\ stor[i][1] = epoch /\ stor[i][2] = AVG * (i - 1) /\ stor[i][3] < AVG /\ stor[i][3] >= 1
                 /\ (i > N \div AVG \/ ~Clean) /\ stor[i][2] + stor[i][3] <= cam)
Complete == IF AVG <= 1 THEN Len(stor) = N ELSE Len(stor) >= N \div AVG

VARIABLES iframe, got, batch, slice, old, short, polls, mslice, monitoring

vars == << pc, epoch, phase, aborted, fq, facc, sq, sacc, sreg, sc, mreg, mc, 
           stopS, stopF, stopK, runS, runF, runK, doneS, doneF, doneK, 
           camRunning, storRunning, camFailed, storFailed, cam, nappend, stor, 
           monSeen, bad, acc, iframe, got, batch, slice, old, short, polls, 
           mslice, monitoring >>

ProcSet == {"S"} \cup {"F"} \cup {"K"} \cup {"C"}

Init == (* Global variables *)
        /\ epoch = 0
        /\ phase = "idle"
        /\ aborted = FALSE
        /\ fq = <<>>
        /\ facc = TRUE
        /\ sq = <<>>
        /\ sacc = TRUE
        /\ sreg = FALSE
        /\ sc = 0
        /\ mreg = FALSE
        /\ mc = 0
        /\ stopS = FALSE
        /\ stopF = FALSE
        /\ stopK = FALSE
        /\ runS = FALSE
        /\ runF = FALSE
        /\ runK = FALSE
        /\ doneS = TRUE
        /\ doneF = TRUE
        /\ doneK = TRUE
        /\ camRunning = FALSE
        /\ storRunning = FALSE
        /\ camFailed = FALSE
        /\ storFailed = FALSE
        /\ cam = 0
        /\ nappend = 0
        /\ stor = <<>>
        /\ monSeen = <<>>
        /\ bad = "none"
        /\ acc = <<>>
        (* Process Source *)
        /\ iframe = 0
        /\ got = FALSE
        (* Process Filter *)
        /\ batch = 0
        (* Process Sink *)
        /\ slice = 0
        /\ old = 0
        /\ short = 0
        (* Process Client *)
        /\ polls = 0
        /\ mslice = 0
        /\ monitoring = FALSE
        /\ pc = [self \in ProcSet |-> CASE self = "S" -> "S0"
                                        [] self = "F" -> "F0"
                                        [] self = "K" -> "K0"
                                        [] self = "C" -> "C0"]

S0 == /\ pc["S"] = "S0"
      /\ runS /\ ~doneS
      /\ iframe' = 0
      /\ pc' = [pc EXCEPT !["S"] = "S1"]
      /\ UNCHANGED << epoch, phase, aborted, fq, facc, sq, sacc, sreg, sc, 
                      mreg, mc, stopS, stopF, stopK, runS, runF, runK, doneS, 
                      doneF, doneK, camRunning, storRunning, camFailed, 
                      storFailed, cam, nappend, stor, monSeen, bad, acc, got, 
                      batch, slice, old, short, polls, mslice, monitoring >>

S1 == /\ pc["S"] = "S1"
      /\ IF ~stopS /\ iframe < N
            THEN /\ pc' = [pc EXCEPT !["S"] = "S2"]
            ELSE /\ pc' = [pc EXCEPT !["S"] = "S5"]
      /\ UNCHANGED << epoch, phase, aborted, fq, facc, sq, sacc, sreg, sc, 
                      mreg, mc, stopS, stopF, stopK, runS, runF, runK, doneS, 
                      doneF, doneK, camRunning, storRunning, camFailed, 
                      storFailed, cam, nappend, stor, monSeen, bad, acc, 
                      iframe, got, batch, slice, old, short, polls, mslice, 
                      monitoring >>

S2 == /\ pc["S"] = "S2"
      /\ IF AVG > 1
            THEN /\ FSpace
                 /\ got' = TRUE
            ELSE /\ \/ /\ ~sacc
                       /\ got' = FALSE
                    \/ /\ sacc /\ SSpace
                       /\ got' = TRUE
      /\ pc' = [pc EXCEPT !["S"] = "S3"]
      /\ UNCHANGED << epoch, phase, aborted, fq, facc, sq, sacc, sreg, sc, 
                      mreg, mc, stopS, stopF, stopK, runS, runF, runK, doneS, 
                      doneF, doneK, camRunning, storRunning, camFailed, 
                      storFailed, cam, nappend, stor, monSeen, bad, acc, 
                      iframe, batch, slice, old, short, polls, mslice, 
                      monitoring >>

S3 == /\ pc["S"] = "S3"
      /\ IF got
            THEN /\ IF epoch = 1 /\ cam = CamFailAt
                       THEN /\ camFailed' = TRUE
                            /\ camRunning' = FALSE
                            /\ pc' = [pc EXCEPT !["S"] = "S5"]
                            /\ cam' = cam
                       ELSE /\ cam' = cam + 1
                            /\ pc' = [pc EXCEPT !["S"] = "S4"]
                            /\ UNCHANGED << camRunning, camFailed >>
            ELSE /\ pc' = [pc EXCEPT !["S"] = "S1"]
                 /\ UNCHANGED << camRunning, camFailed, cam >>
      /\ UNCHANGED << epoch, phase, aborted, fq, facc, sq, sacc, sreg, sc, 
                      mreg, mc, stopS, stopF, stopK, runS, runF, runK, doneS, 
                      doneF, doneK, storRunning, storFailed, nappend, stor, 
                      monSeen, bad, acc, iframe, got, batch, slice, old, short, 
                      polls, mslice, monitoring >>

S4 == /\ pc["S"] = "S4"
      /\ IF AVG > 1
            THEN /\ fq' = Append(fq, iframe)
                 /\ sq' = sq
            ELSE /\ IF sacc
                       THEN /\ sq' = Append(sq, Item(iframe, 1))
                       ELSE /\ TRUE
                            /\ sq' = sq
                 /\ fq' = fq
      /\ iframe' = iframe + 1
      /\ pc' = [pc EXCEPT !["S"] = "S1"]
      /\ UNCHANGED << epoch, phase, aborted, facc, sacc, sreg, sc, mreg, mc, 
                      stopS, stopF, stopK, runS, runF, runK, doneS, doneF, 
                      doneK, camRunning, storRunning, camFailed, storFailed, 
                      cam, nappend, stor, monSeen, bad, acc, got, batch, slice, 
                      old, short, polls, mslice, monitoring >>

S5 == /\ pc["S"] = "S5"
      /\ stopF' = TRUE
      /\ pc' = [pc EXCEPT !["S"] = "S5j"]
      /\ UNCHANGED << epoch, phase, aborted, fq, facc, sq, sacc, sreg, sc, 
                      mreg, mc, stopS, stopK, runS, runF, runK, doneS, doneF, 
                      doneK, camRunning, storRunning, camFailed, storFailed, 
                      cam, nappend, stor, monSeen, bad, acc, iframe, got, 
                      batch, slice, old, short, polls, mslice, monitoring >>

S5j == /\ pc["S"] = "S5j"
       /\ IF Repaired
             THEN /\ doneF
             ELSE /\ TRUE
       /\ pc' = [pc EXCEPT !["S"] = "S6"]
       /\ UNCHANGED << epoch, phase, aborted, fq, facc, sq, sacc, sreg, sc, 
                       mreg, mc, stopS, stopF, stopK, runS, runF, runK, doneS, 
                       doneF, doneK, camRunning, storRunning, camFailed, 
                       storFailed, cam, nappend, stor, monSeen, bad, acc, 
                       iframe, got, batch, slice, old, short, polls, mslice, 
                       monitoring >>

S6 == /\ pc["S"] = "S6"
      /\ stopK' = TRUE
      /\ pc' = [pc EXCEPT !["S"] = "S7"]
      /\ UNCHANGED << epoch, phase, aborted, fq, facc, sq, sacc, sreg, sc, 
                      mreg, mc, stopS, stopF, runS, runF, runK, doneS, doneF, 
                      doneK, camRunning, storRunning, camFailed, storFailed, 
                      cam, nappend, stor, monSeen, bad, acc, iframe, got, 
                      batch, slice, old, short, polls, mslice, monitoring >>

S7 == /\ pc["S"] = "S7"
      /\ camRunning' = FALSE
      /\ pc' = [pc EXCEPT !["S"] = "S8"]
      /\ UNCHANGED << epoch, phase, aborted, fq, facc, sq, sacc, sreg, sc, 
                      mreg, mc, stopS, stopF, stopK, runS, runF, runK, doneS, 
                      doneF, doneK, storRunning, camFailed, storFailed, cam, 
                      nappend, stor, monSeen, bad, acc, iframe, got, batch, 
                      slice, old, short, polls, mslice, monitoring >>

S8 == /\ pc["S"] = "S8"
      /\ stopS' = FALSE
      /\ runS' = FALSE
      /\ doneS' = TRUE
      /\ pc' = [pc EXCEPT !["S"] = "S0"]
      /\ UNCHANGED << epoch, phase, aborted, fq, facc, sq, sacc, sreg, sc, 
                      mreg, mc, stopF, stopK, runF, runK, doneF, doneK, 
                      camRunning, storRunning, camFailed, storFailed, cam, 
                      nappend, stor, monSeen, bad, acc, iframe, got, batch, 
                      slice, old, short, polls, mslice, monitoring >>

Source == S0 \/ S1 \/ S2 \/ S3 \/ S4 \/ S5 \/ S5j \/ S6 \/ S7 \/ S8

F0 == /\ pc["F"] = "F0"
      /\ runF /\ ~doneF
      /\ pc' = [pc EXCEPT !["F"] = "F1"]
      /\ UNCHANGED << epoch, phase, aborted, fq, facc, sq, sacc, sreg, sc, 
                      mreg, mc, stopS, stopF, stopK, runS, runF, runK, doneS, 
                      doneF, doneK, camRunning, storRunning, camFailed, 
                      storFailed, cam, nappend, stor, monSeen, bad, acc, 
                      iframe, got, batch, slice, old, short, polls, mslice, 
                      monitoring >>

F1 == /\ pc["F"] = "F1"
      /\ IF ~stopF
            THEN /\ pc' = [pc EXCEPT !["F"] = "F2"]
            ELSE /\ pc' = [pc EXCEPT !["F"] = "FF"]
      /\ UNCHANGED << epoch, phase, aborted, fq, facc, sq, sacc, sreg, sc, 
                      mreg, mc, stopS, stopF, stopK, runS, runF, runK, doneS, 
                      doneF, doneK, camRunning, storRunning, camFailed, 
                      storFailed, cam, nappend, stor, monSeen, bad, acc, 
                      iframe, got, batch, slice, old, short, polls, mslice, 
                      monitoring >>

F2 == /\ pc["F"] = "F2"
      /\ batch' = Len(fq)
      /\ pc' = [pc EXCEPT !["F"] = "F3"]
      /\ UNCHANGED << epoch, phase, aborted, fq, facc, sq, sacc, sreg, sc, 
                      mreg, mc, stopS, stopF, stopK, runS, runF, runK, doneS, 
                      doneF, doneK, camRunning, storRunning, camFailed, 
                      storFailed, cam, nappend, stor, monSeen, bad, acc, 
                      iframe, got, slice, old, short, polls, mslice, 
                      monitoring >>

F3 == /\ pc["F"] = "F3"
      /\ IF batch > 0
            THEN /\ IF acc = <<>>
                       THEN /\ \/ /\ ~sacc
                                  /\ fq' = Tail(fq)
                                  /\ batch' = batch - 1
                                  /\ acc' = acc
                               \/ /\ sacc /\ SSpace
                                  /\ acc' = <<epoch, Head(fq), 1>>
                                  /\ fq' = Tail(fq)
                                  /\ batch' = batch - 1
                       ELSE /\ acc' = <<acc[1], acc[2], acc[3] + 1>>
                            /\ fq' = Tail(fq)
                            /\ batch' = batch - 1
                 /\ pc' = [pc EXCEPT !["F"] = "F4"]
            ELSE /\ pc' = [pc EXCEPT !["F"] = "F5"]
                 /\ UNCHANGED << fq, acc, batch >>
      /\ UNCHANGED << epoch, phase, aborted, facc, sq, sacc, sreg, sc, mreg, 
                      mc, stopS, stopF, stopK, runS, runF, runK, doneS, doneF, 
                      doneK, camRunning, storRunning, camFailed, storFailed, 
                      cam, nappend, stor, monSeen, bad, iframe, got, slice, 
                      old, short, polls, mslice, monitoring >>

F4 == /\ pc["F"] = "F4"
      /\ IF acc # <<>> /\ acc[3] >= AVG
            THEN /\ IF sacc
                       THEN /\ sq' = Append(sq, acc)
                       ELSE /\ TRUE
                            /\ sq' = sq
                 /\ acc' = <<>>
            ELSE /\ TRUE
                 /\ UNCHANGED << sq, acc >>
      /\ pc' = [pc EXCEPT !["F"] = "F3"]
      /\ UNCHANGED << epoch, phase, aborted, fq, facc, sacc, sreg, sc, mreg, 
                      mc, stopS, stopF, stopK, runS, runF, runK, doneS, doneF, 
                      doneK, camRunning, storRunning, camFailed, storFailed, 
                      cam, nappend, stor, monSeen, bad, iframe, got, batch, 
                      slice, old, short, polls, mslice, monitoring >>

F5 == /\ pc["F"] = "F5"
      /\ TRUE
      /\ pc' = [pc EXCEPT !["F"] = "F1"]
      /\ UNCHANGED << epoch, phase, aborted, fq, facc, sq, sacc, sreg, sc, 
                      mreg, mc, stopS, stopF, stopK, runS, runF, runK, doneS, 
                      doneF, doneK, camRunning, storRunning, camFailed, 
                      storFailed, cam, nappend, stor, monSeen, bad, acc, 
                      iframe, got, batch, slice, old, short, polls, mslice, 
                      monitoring >>

FF == /\ pc["F"] = "FF"
      /\ batch' = Len(fq)
      /\ pc' = [pc EXCEPT !["F"] = "FG"]
      /\ UNCHANGED << epoch, phase, aborted, fq, facc, sq, sacc, sreg, sc, 
                      mreg, mc, stopS, stopF, stopK, runS, runF, runK, doneS, 
                      doneF, doneK, camRunning, storRunning, camFailed, 
                      storFailed, cam, nappend, stor, monSeen, bad, acc, 
                      iframe, got, slice, old, short, polls, mslice, 
                      monitoring >>

FG == /\ pc["F"] = "FG"
      /\ IF batch > 0
            THEN /\ IF acc = <<>>
                       THEN /\ \/ /\ ~sacc
                                  /\ fq' = Tail(fq)
                                  /\ batch' = batch - 1
                                  /\ acc' = acc
                               \/ /\ sacc /\ SSpace
                                  /\ acc' = <<epoch, Head(fq), 1>>
                                  /\ fq' = Tail(fq)
                                  /\ batch' = batch - 1
                       ELSE /\ acc' = <<acc[1], acc[2], acc[3] + 1>>
                            /\ fq' = Tail(fq)
                            /\ batch' = batch - 1
                 /\ pc' = [pc EXCEPT !["F"] = "FH"]
            ELSE /\ pc' = [pc EXCEPT !["F"] = "FI"]
                 /\ UNCHANGED << fq, acc, batch >>
      /\ UNCHANGED << epoch, phase, aborted, facc, sq, sacc, sreg, sc, mreg, 
                      mc, stopS, stopF, stopK, runS, runF, runK, doneS, doneF, 
                      doneK, camRunning, storRunning, camFailed, storFailed, 
                      cam, nappend, stor, monSeen, bad, iframe, got, slice, 
                      old, short, polls, mslice, monitoring >>

FH == /\ pc["F"] = "FH"
      /\ IF acc # <<>> /\ acc[3] >= AVG
            THEN /\ IF sacc
                       THEN /\ sq' = Append(sq, acc)
                       ELSE /\ TRUE
                            /\ sq' = sq
                 /\ acc' = <<>>
            ELSE /\ TRUE
                 /\ UNCHANGED << sq, acc >>
      /\ pc' = [pc EXCEPT !["F"] = "FG"]
      /\ UNCHANGED << epoch, phase, aborted, fq, facc, sacc, sreg, sc, mreg, 
                      mc, stopS, stopF, stopK, runS, runF, runK, doneS, doneF, 
                      doneK, camRunning, storRunning, camFailed, storFailed, 
                      cam, nappend, stor, monSeen, bad, iframe, got, batch, 
                      slice, old, short, polls, mslice, monitoring >>

FI == /\ pc["F"] = "FI"
      /\ IF Repaired /\ Len(fq) > 0
            THEN /\ pc' = [pc EXCEPT !["F"] = "FF"]
            ELSE /\ pc' = [pc EXCEPT !["F"] = "FJ"]
      /\ UNCHANGED << epoch, phase, aborted, fq, facc, sq, sacc, sreg, sc, 
                      mreg, mc, stopS, stopF, stopK, runS, runF, runK, doneS, 
                      doneF, doneK, camRunning, storRunning, camFailed, 
                      storFailed, cam, nappend, stor, monSeen, bad, acc, 
                      iframe, got, batch, slice, old, short, polls, mslice, 
                      monitoring >>

FJ == /\ pc["F"] = "FJ"
      /\ IF acc # <<>>
            THEN /\ IF sacc
                       THEN /\ sq' = Append(sq, acc)
                       ELSE /\ TRUE
                            /\ sq' = sq
                 /\ acc' = <<>>
            ELSE /\ TRUE
                 /\ UNCHANGED << sq, acc >>
      /\ pc' = [pc EXCEPT !["F"] = "FK"]
      /\ UNCHANGED << epoch, phase, aborted, fq, facc, sacc, sreg, sc, mreg, 
                      mc, stopS, stopF, stopK, runS, runF, runK, doneS, doneF, 
                      doneK, camRunning, storRunning, camFailed, storFailed, 
                      cam, nappend, stor, monSeen, bad, iframe, got, batch, 
                      slice, old, short, polls, mslice, monitoring >>

FK == /\ pc["F"] = "FK"
      /\ runF' = FALSE
      /\ stopF' = FALSE
      /\ doneF' = TRUE
      /\ pc' = [pc EXCEPT !["F"] = "F0"]
      /\ UNCHANGED << epoch, phase, aborted, fq, facc, sq, sacc, sreg, sc, 
                      mreg, mc, stopS, stopK, runS, runK, doneS, doneK, 
                      camRunning, storRunning, camFailed, storFailed, cam, 
                      nappend, stor, monSeen, bad, acc, iframe, got, batch, 
                      slice, old, short, polls, mslice, monitoring >>

Filter == F0 \/ F1 \/ F2 \/ F3 \/ F4 \/ F5 \/ FF \/ FG \/ FH \/ FI \/ FJ
             \/ FK

K0 == /\ pc["K"] = "K0"
      /\ runK /\ ~doneK
      /\ pc' = [pc EXCEPT !["K"] = "K1"]
      /\ UNCHANGED << epoch, phase, aborted, fq, facc, sq, sacc, sreg, sc, 
                      mreg, mc, stopS, stopF, stopK, runS, runF, runK, doneS, 
                      doneF, doneK, camRunning, storRunning, camFailed, 
                      storFailed, cam, nappend, stor, monSeen, bad, acc, 
                      iframe, got, batch, slice, old, short, polls, mslice, 
                      monitoring >>

K1 == /\ pc["K"] = "K1"
      /\ IF ~stopK /\ storRunning
            THEN /\ pc' = [pc EXCEPT !["K"] = "K2"]
            ELSE /\ pc' = [pc EXCEPT !["K"] = "KF"]
      /\ UNCHANGED << epoch, phase, aborted, fq, facc, sq, sacc, sreg, sc, 
                      mreg, mc, stopS, stopF, stopK, runS, runF, runK, doneS, 
                      doneF, doneK, camRunning, storRunning, camFailed, 
                      storFailed, cam, nappend, stor, monSeen, bad, acc, 
                      iframe, got, batch, slice, old, short, polls, mslice, 
                      monitoring >>

K2 == /\ pc["K"] = "K2"
      /\ \E n \in (IF Len(sq) - sc > 0 THEN 1..(Len(sq) - sc) ELSE {0}):
           /\ slice' = n
           /\ \E c \in (IF Delay > 0 /\ short < Delay THEN 0..n ELSE {n}):
                /\ old' = c
                /\ short' = (IF c < n THEN short + 1 ELSE 0)
      /\ pc' = [pc EXCEPT !["K"] = "K3"]
      /\ UNCHANGED << epoch, phase, aborted, fq, facc, sq, sacc, sreg, sc, 
                      mreg, mc, stopS, stopF, stopK, runS, runF, runK, doneS, 
                      doneF, doneK, camRunning, storRunning, camFailed, 
                      storFailed, cam, nappend, stor, monSeen, bad, acc, 
                      iframe, got, batch, polls, mslice, monitoring >>

K3 == /\ pc["K"] = "K3"
      /\ IF slice > 0
            THEN /\ IF old > 0
                       THEN /\ IF epoch = 1 /\ nappend = StorFailAt
                                  THEN /\ storFailed' = TRUE
                                       /\ storRunning' = FALSE
                                       /\ pc' = [pc EXCEPT !["K"] = "KE"]
                                       /\ UNCHANGED << nappend, stor >>
                                  ELSE /\ stor' = stor \o SubSeq(sq, sc + 1, sc + old)
                                       /\ nappend' = nappend + 1
                                       /\ pc' = [pc EXCEPT !["K"] = "K4"]
                                       /\ UNCHANGED << storRunning, storFailed >>
                       ELSE /\ pc' = [pc EXCEPT !["K"] = "K4"]
                            /\ UNCHANGED << storRunning, storFailed, nappend, 
                                            stor >>
            ELSE /\ pc' = [pc EXCEPT !["K"] = "K5"]
                 /\ UNCHANGED << storRunning, storFailed, nappend, stor >>
      /\ UNCHANGED << epoch, phase, aborted, fq, facc, sq, sacc, sreg, sc, 
                      mreg, mc, stopS, stopF, stopK, runS, runF, runK, doneS, 
                      doneF, doneK, camRunning, camFailed, cam, monSeen, bad, 
                      acc, iframe, got, batch, slice, old, short, polls, 
                      mslice, monitoring >>

K4 == /\ pc["K"] = "K4"
      /\ LET nsc == sc + old IN
           LET m == IF mreg THEN Min(sc + old, mc) ELSE sc + old IN
             /\ sq' = SubSeq(sq, m + 1, Len(sq))
             /\ sc' = nsc - m
             /\ mc' = IF mreg THEN mc - m ELSE 0
      /\ pc' = [pc EXCEPT !["K"] = "K2"]
      /\ UNCHANGED << epoch, phase, aborted, fq, facc, sacc, sreg, mreg, stopS, 
                      stopF, stopK, runS, runF, runK, doneS, doneF, doneK, 
                      camRunning, storRunning, camFailed, storFailed, cam, 
                      nappend, stor, monSeen, bad, acc, iframe, got, batch, 
                      slice, old, short, polls, mslice, monitoring >>

K5 == /\ pc["K"] = "K5"
      /\ TRUE
      /\ pc' = [pc EXCEPT !["K"] = "K1"]
      /\ UNCHANGED << epoch, phase, aborted, fq, facc, sq, sacc, sreg, sc, 
                      mreg, mc, stopS, stopF, stopK, runS, runF, runK, doneS, 
                      doneF, doneK, camRunning, storRunning, camFailed, 
                      storFailed, cam, nappend, stor, monSeen, bad, acc, 
                      iframe, got, batch, slice, old, short, polls, mslice, 
                      monitoring >>

KF == /\ pc["K"] = "KF"
      /\ \E n \in (IF Len(sq) - sc > 0 THEN 1..(Len(sq) - sc) ELSE {0}):
           slice' = n
      /\ pc' = [pc EXCEPT !["K"] = "KG"]
      /\ UNCHANGED << epoch, phase, aborted, fq, facc, sq, sacc, sreg, sc, 
                      mreg, mc, stopS, stopF, stopK, runS, runF, runK, doneS, 
                      doneF, doneK, camRunning, storRunning, camFailed, 
                      storFailed, cam, nappend, stor, monSeen, bad, acc, 
                      iframe, got, batch, old, short, polls, mslice, 
                      monitoring >>

KG == /\ pc["K"] = "KG"
      /\ IF slice > 0
            THEN /\ IF storRunning
                       THEN /\ IF epoch = 1 /\ nappend = StorFailAt
                                  THEN /\ storFailed' = TRUE
                                       /\ storRunning' = FALSE
                                       /\ pc' = [pc EXCEPT !["K"] = "KE"]
                                       /\ UNCHANGED << nappend, stor >>
                                  ELSE /\ stor' = stor \o SubSeq(sq, sc + 1, sc + slice)
                                       /\ nappend' = nappend + 1
                                       /\ pc' = [pc EXCEPT !["K"] = "KH"]
                                       /\ UNCHANGED << storRunning, storFailed >>
                       ELSE /\ pc' = [pc EXCEPT !["K"] = "KE"]
                            /\ UNCHANGED << storRunning, storFailed, nappend, 
                                            stor >>
            ELSE /\ pc' = [pc EXCEPT !["K"] = "KS"]
                 /\ UNCHANGED << storRunning, storFailed, nappend, stor >>
      /\ UNCHANGED << epoch, phase, aborted, fq, facc, sq, sacc, sreg, sc, 
                      mreg, mc, stopS, stopF, stopK, runS, runF, runK, doneS, 
                      doneF, doneK, camRunning, camFailed, cam, monSeen, bad, 
                      acc, iframe, got, batch, slice, old, short, polls, 
                      mslice, monitoring >>

KH == /\ pc["K"] = "KH"
      /\ LET nsc == sc + slice IN
           LET m == IF mreg THEN Min(sc + slice, mc) ELSE sc + slice IN
             /\ sq' = SubSeq(sq, m + 1, Len(sq))
             /\ sc' = nsc - m
             /\ mc' = IF mreg THEN mc - m ELSE 0
      /\ pc' = [pc EXCEPT !["K"] = "KF"]
      /\ UNCHANGED << epoch, phase, aborted, fq, facc, sacc, sreg, mreg, stopS, 
                      stopF, stopK, runS, runF, runK, doneS, doneF, doneK, 
                      camRunning, storRunning, camFailed, storFailed, cam, 
                      nappend, stor, monSeen, bad, acc, iframe, got, batch, 
                      slice, old, short, polls, mslice, monitoring >>

KS == /\ pc["K"] = "KS"
      /\ storRunning' = FALSE
      /\ pc' = [pc EXCEPT !["K"] = "KD"]
      /\ UNCHANGED << epoch, phase, aborted, fq, facc, sq, sacc, sreg, sc, 
                      mreg, mc, stopS, stopF, stopK, runS, runF, runK, doneS, 
                      doneF, doneK, camRunning, camFailed, storFailed, cam, 
                      nappend, stor, monSeen, bad, acc, iframe, got, batch, 
                      slice, old, short, polls, mslice, monitoring >>

KD == /\ pc["K"] = "KD"
      /\ runK' = FALSE
      /\ stopK' = FALSE
      /\ doneK' = TRUE
      /\ pc' = [pc EXCEPT !["K"] = "K0"]
      /\ UNCHANGED << epoch, phase, aborted, fq, facc, sq, sacc, sreg, sc, 
                      mreg, mc, stopS, stopF, runS, runF, doneS, doneF, 
                      camRunning, storRunning, camFailed, storFailed, cam, 
                      nappend, stor, monSeen, bad, acc, iframe, got, batch, 
                      slice, old, short, polls, mslice, monitoring >>

KE == /\ pc["K"] = "KE"
      /\ stopS' = TRUE
      /\ pc' = [pc EXCEPT !["K"] = "KE1"]
      /\ UNCHANGED << epoch, phase, aborted, fq, facc, sq, sacc, sreg, sc, 
                      mreg, mc, stopF, stopK, runS, runF, runK, doneS, doneF, 
                      doneK, camRunning, storRunning, camFailed, storFailed, 
                      cam, nappend, stor, monSeen, bad, acc, iframe, got, 
                      batch, slice, old, short, polls, mslice, monitoring >>

KE1 == /\ pc["K"] = "KE1"
       /\ IF Repaired
             THEN /\ sacc' = FALSE
             ELSE /\ TRUE
                  /\ sacc' = sacc
       /\ pc' = [pc EXCEPT !["K"] = "KE2"]
       /\ UNCHANGED << epoch, phase, aborted, fq, facc, sq, sreg, sc, mreg, mc, 
                       stopS, stopF, stopK, runS, runF, runK, doneS, doneF, 
                       doneK, camRunning, storRunning, camFailed, storFailed, 
                       cam, nappend, stor, monSeen, bad, acc, iframe, got, 
                       batch, slice, old, short, polls, mslice, monitoring >>

KE2 == /\ pc["K"] = "KE2"
       /\ storRunning' = FALSE
       /\ pc' = [pc EXCEPT !["K"] = "KE3"]
       /\ UNCHANGED << epoch, phase, aborted, fq, facc, sq, sacc, sreg, sc, 
                       mreg, mc, stopS, stopF, stopK, runS, runF, runK, doneS, 
                       doneF, doneK, camRunning, camFailed, storFailed, cam, 
                       nappend, stor, monSeen, bad, acc, iframe, got, batch, 
                       slice, old, short, polls, mslice, monitoring >>

KE3 == /\ pc["K"] = "KE3"
       /\ runK' = FALSE
       /\ stopK' = FALSE
       /\ doneK' = TRUE
       /\ pc' = [pc EXCEPT !["K"] = "K0"]
       /\ UNCHANGED << epoch, phase, aborted, fq, facc, sq, sacc, sreg, sc, 
                       mreg, mc, stopS, stopF, runS, runF, doneS, doneF, 
                       camRunning, storRunning, camFailed, storFailed, cam, 
                       nappend, stor, monSeen, bad, acc, iframe, got, batch, 
                       slice, old, short, polls, mslice, monitoring >>

Sink == K0 \/ K1 \/ K2 \/ K3 \/ K4 \/ K5 \/ KF \/ KG \/ KH \/ KS \/ KD
           \/ KE \/ KE1 \/ KE2 \/ KE3

C0 == /\ pc["C"] = "C0"
      /\ IF epoch < Epochs
            THEN /\ epoch' = epoch + 1
                 /\ aborted' = FALSE
                 /\ camFailed' = FALSE
                 /\ storFailed' = FALSE
                 /\ cam' = 0
                 /\ nappend' = 0
                 /\ stor' = <<>>
                 /\ monSeen' = <<>>
                 /\ storRunning' = TRUE
                 /\ sacc' = TRUE
                 /\ stopK' = FALSE
                 /\ runK' = TRUE
                 /\ doneK' = FALSE
                 /\ sreg' = TRUE
                 /\ sc' = Len(sq)
                 /\ pc' = [pc EXCEPT !["C"] = "C1"]
            ELSE /\ pc' = [pc EXCEPT !["C"] = "CX"]
                 /\ UNCHANGED << epoch, aborted, sacc, sreg, sc, stopK, runK, 
                                 doneK, storRunning, camFailed, storFailed, 
                                 cam, nappend, stor, monSeen >>
      /\ UNCHANGED << phase, fq, facc, sq, mreg, mc, stopS, stopF, runS, runF, 
                      doneS, doneF, camRunning, bad, acc, iframe, got, batch, 
                      slice, old, short, polls, mslice, monitoring >>

C1 == /\ pc["C"] = "C1"
      /\ stopF' = FALSE
      /\ runF' = TRUE
      /\ doneF' = FALSE
      /\ pc' = [pc EXCEPT !["C"] = "C2"]
      /\ UNCHANGED << epoch, phase, aborted, fq, facc, sq, sacc, sreg, sc, 
                      mreg, mc, stopS, stopK, runS, runK, doneS, doneK, 
                      camRunning, storRunning, camFailed, storFailed, cam, 
                      nappend, stor, monSeen, bad, acc, iframe, got, batch, 
                      slice, old, short, polls, mslice, monitoring >>

C2 == /\ pc["C"] = "C2"
      /\ camRunning' = TRUE
      /\ stopS' = FALSE
      /\ runS' = TRUE
      /\ doneS' = FALSE
      /\ pc' = [pc EXCEPT !["C"] = "C2r"]
      /\ UNCHANGED << epoch, phase, aborted, fq, facc, sq, sacc, sreg, sc, 
                      mreg, mc, stopF, stopK, runF, runK, doneF, doneK, 
                      storRunning, camFailed, storFailed, cam, nappend, stor, 
                      monSeen, bad, acc, iframe, got, batch, slice, old, short, 
                      polls, mslice, monitoring >>

C2r == /\ pc["C"] = "C2r"
       /\ phase' = "running"
       /\ polls' = 0
       /\ \E m \in {TRUE, FALSE}:
            monitoring' = (WithMonitor /\ m)
       /\ pc' = [pc EXCEPT !["C"] = "C3"]
       /\ UNCHANGED << epoch, aborted, fq, facc, sq, sacc, sreg, sc, mreg, mc, 
                       stopS, stopF, stopK, runS, runF, runK, doneS, doneF, 
                       doneK, camRunning, storRunning, camFailed, storFailed, 
                       cam, nappend, stor, monSeen, bad, acc, iframe, got, 
                       batch, slice, old, short, mslice >>

C3 == /\ pc["C"] = "C3"
      /\ IF monitoring /\ (runS \/ runF \/ runK \/ (mreg /\ mc < Len(sq)))
            THEN /\ IF ~mreg
                       THEN /\ mreg' = TRUE
                            /\ mc' = 0
                       ELSE /\ TRUE
                            /\ UNCHANGED << mreg, mc >>
                 /\ pc' = [pc EXCEPT !["C"] = "C3m"]
            ELSE /\ pc' = [pc EXCEPT !["C"] = "C4"]
                 /\ UNCHANGED << mreg, mc >>
      /\ UNCHANGED << epoch, phase, aborted, fq, facc, sq, sacc, sreg, sc, 
                      stopS, stopF, stopK, runS, runF, runK, doneS, doneF, 
                      doneK, camRunning, storRunning, camFailed, storFailed, 
                      cam, nappend, stor, monSeen, bad, acc, iframe, got, 
                      batch, slice, old, short, polls, mslice, monitoring >>

C3m == /\ pc["C"] = "C3m"
       /\ \E n \in (IF Len(sq) - mc > 0 THEN 1..(Len(sq) - mc) ELSE {0}):
            mslice' = n
       /\ monSeen' = monSeen \o SubSeq(sq, mc + 1, mc + mslice')
       /\ pc' = [pc EXCEPT !["C"] = "C3u"]
       /\ UNCHANGED << epoch, phase, aborted, fq, facc, sq, sacc, sreg, sc, 
                       mreg, mc, stopS, stopF, stopK, runS, runF, runK, doneS, 
                       doneF, doneK, camRunning, storRunning, camFailed, 
                       storFailed, cam, nappend, stor, bad, acc, iframe, got, 
                       batch, slice, old, short, polls, monitoring >>

C3u == /\ pc["C"] = "C3u"
       /\ LET nmc == mc + mslice IN
            LET m == IF sreg THEN Min(sc, mc + mslice) ELSE mc + mslice IN
              /\ sq' = SubSeq(sq, m + 1, Len(sq))
              /\ mc' = nmc - m
              /\ sc' = IF sreg THEN sc - m ELSE 0
       /\ pc' = [pc EXCEPT !["C"] = "C3"]
       /\ UNCHANGED << epoch, phase, aborted, fq, facc, sacc, sreg, mreg, 
                       stopS, stopF, stopK, runS, runF, runK, doneS, doneF, 
                       doneK, camRunning, storRunning, camFailed, storFailed, 
                       cam, nappend, stor, monSeen, bad, acc, iframe, got, 
                       batch, slice, old, short, polls, mslice, monitoring >>

C4 == /\ pc["C"] = "C4"
      /\ \/ /\ TRUE
            /\ pc' = [pc EXCEPT !["C"] = "C5"]
            /\ UNCHANGED <<aborted, stopS>>
         \/ /\ WithAbort
            /\ aborted' = TRUE
            /\ stopS' = TRUE
            /\ pc' = [pc EXCEPT !["C"] = "C4a"]
      /\ UNCHANGED << epoch, phase, fq, facc, sq, sacc, sreg, sc, mreg, mc, 
                      stopF, stopK, runS, runF, runK, doneS, doneF, doneK, 
                      camRunning, storRunning, camFailed, storFailed, cam, 
                      nappend, stor, monSeen, bad, acc, iframe, got, batch, 
                      slice, old, short, polls, mslice, monitoring >>

C4a == /\ pc["C"] = "C4a"
       /\ sacc' = FALSE
       /\ pc' = [pc EXCEPT !["C"] = "C5"]
       /\ UNCHANGED << epoch, phase, aborted, fq, facc, sq, sreg, sc, mreg, mc, 
                       stopS, stopF, stopK, runS, runF, runK, doneS, doneF, 
                       doneK, camRunning, storRunning, camFailed, storFailed, 
                       cam, nappend, stor, monSeen, bad, acc, iframe, got, 
                       batch, slice, old, short, polls, mslice, monitoring >>

C5 == /\ pc["C"] = "C5"
      /\ phase' = "stopping"
      /\ pc' = [pc EXCEPT !["C"] = "C5j"]
      /\ UNCHANGED << epoch, aborted, fq, facc, sq, sacc, sreg, sc, mreg, mc, 
                      stopS, stopF, stopK, runS, runF, runK, doneS, doneF, 
                      doneK, camRunning, storRunning, camFailed, storFailed, 
                      cam, nappend, stor, monSeen, bad, acc, iframe, got, 
                      batch, slice, old, short, polls, mslice, monitoring >>

C5j == /\ pc["C"] = "C5j"
       /\ doneS
       /\ pc' = [pc EXCEPT !["C"] = "C6"]
       /\ UNCHANGED << epoch, phase, aborted, fq, facc, sq, sacc, sreg, sc, 
                       mreg, mc, stopS, stopF, stopK, runS, runF, runK, doneS, 
                       doneF, doneK, camRunning, storRunning, camFailed, 
                       storFailed, cam, nappend, stor, monSeen, bad, acc, 
                       iframe, got, batch, slice, old, short, polls, mslice, 
                       monitoring >>

C6 == /\ pc["C"] = "C6"
      /\ doneF
      /\ pc' = [pc EXCEPT !["C"] = "C7"]
      /\ UNCHANGED << epoch, phase, aborted, fq, facc, sq, sacc, sreg, sc, 
                      mreg, mc, stopS, stopF, stopK, runS, runF, runK, doneS, 
                      doneF, doneK, camRunning, storRunning, camFailed, 
                      storFailed, cam, nappend, stor, monSeen, bad, acc, 
                      iframe, got, batch, slice, old, short, polls, mslice, 
                      monitoring >>

C7 == /\ pc["C"] = "C7"
      /\ doneK
      /\ pc' = [pc EXCEPT !["C"] = "C8"]
      /\ UNCHANGED << epoch, phase, aborted, fq, facc, sq, sacc, sreg, sc, 
                      mreg, mc, stopS, stopF, stopK, runS, runF, runK, doneS, 
                      doneF, doneK, camRunning, storRunning, camFailed, 
                      storFailed, cam, nappend, stor, monSeen, bad, acc, 
                      iframe, got, batch, slice, old, short, polls, mslice, 
                      monitoring >>

C8 == /\ pc["C"] = "C8"
      /\ sacc' = TRUE
      /\ IF Repaired
            THEN /\ sq' = <<>>
                 /\ fq' = <<>>
                 /\ sc' = 0
                 /\ mc' = 0
                 /\ sreg' = FALSE
                 /\ mreg' = FALSE
            ELSE /\ IF mreg
                       THEN /\ LET nmc == mc + (Len(sq) - mc) IN
                                 LET m == IF sreg THEN Min(sc, mc + (Len(sq) - mc)) ELSE mc + (Len(sq) - mc) IN
                                   /\ sq' = SubSeq(sq, m + 1, Len(sq))
                                   /\ mc' = nmc - m
                                   /\ sc' = IF sreg THEN sc - m ELSE 0
                       ELSE /\ TRUE
                            /\ UNCHANGED << sq, sc, mc >>
                 /\ UNCHANGED << fq, sreg, mreg >>
      /\ pc' = [pc EXCEPT !["C"] = "C9"]
      /\ UNCHANGED << epoch, phase, aborted, facc, stopS, stopF, stopK, runS, 
                      runF, runK, doneS, doneF, doneK, camRunning, storRunning, 
                      camFailed, storFailed, cam, nappend, stor, monSeen, bad, 
                      acc, iframe, got, batch, slice, old, short, polls, 
                      mslice, monitoring >>

C9 == /\ pc["C"] = "C9"
      /\ phase' = "armed"
      /\ bad' = (IF runS \/ runF \/ runK THEN "WorkersAliveAfterStop"
                 ELSE IF camRunning THEN "CameraRunningAfterStop"
                 ELSE IF storRunning THEN "StorageRunningAfterStop"
                 ELSE IF Clean /\ cam # N THEN "StopCameraIncomplete"
                 ELSE IF Clean /\ ~Complete THEN "StopIncomplete"
                 ELSE bad)
      /\ pc' = [pc EXCEPT !["C"] = "C0"]
      /\ UNCHANGED << epoch, aborted, fq, facc, sq, sacc, sreg, sc, mreg, mc, 
                      stopS, stopF, stopK, runS, runF, runK, doneS, doneF, 
                      doneK, camRunning, storRunning, camFailed, storFailed, 
                      cam, nappend, stor, monSeen, acc, iframe, got, batch, 
                      slice, old, short, polls, mslice, monitoring >>

CX == /\ pc["C"] = "CX"
      /\ phase' = "done"
      /\ pc' = [pc EXCEPT !["C"] = "Done"]
      /\ UNCHANGED << epoch, aborted, fq, facc, sq, sacc, sreg, sc, mreg, mc, 
                      stopS, stopF, stopK, runS, runF, runK, doneS, doneF, 
                      doneK, camRunning, storRunning, camFailed, storFailed, 
                      cam, nappend, stor, monSeen, bad, acc, iframe, got, 
                      batch, slice, old, short, polls, mslice, monitoring >>

Client == C0 \/ C1 \/ C2 \/ C2r \/ C3 \/ C3m \/ C3u \/ C4 \/ C4a \/ C5
             \/ C5j \/ C6 \/ C7 \/ C8 \/ C9 \/ CX

(* Allow infinite stuttering to prevent deadlock on termination. *)
Terminating == /\ \A self \in ProcSet: pc[self] = "Done"
               /\ UNCHANGED vars

Next == Source \/ Filter \/ Sink \/ Client
           \/ Terminating

Spec == /\ Init /\ [][Next]_vars
        /\ WF_vars(Source)
        /\ WF_vars(Filter)
        /\ WF_vars(Sink)
        /\ WF_vars(Client)

Termination == <>(\A self \in ProcSet: pc[self] = "Done")

\* END TRANSLATION

NoBad == bad = "none"
StorPrefix == StorOk
\* the monitor only ever sees items of the current acquisition, gap-free from where it joined
MonFresh == \A i \in 1..Len(monSeen) : monSeen[i][1] = epoch
\* nothing is appended after a storage failure; storage only receives data while running (by construction of KG/K3)
Bounded == Len(stor) <= N + 1
StopReturns == (phase = "stopping") ~> (phase = "armed")
Terminates == <>(phase = "done")
=============================================================================
