CONSTANTS KINDS = {0,2} BINS = {1,2,8} TYPES = {0,4}
 XS = {1,33,64}
 YS = {2,48}
 XS2 = {1,8} YS2 = {2} OES = {0}
 AVXS = {0,1} FIX_SIZE = 0 FIX_LOCK = 1 FIX_ALIGN = 1 ALIGN16 = TRUE SampleMod = 1
SPECIFICATION Spec
VIEW View
CHECK_DEADLOCK FALSE
INVARIANTS TypeOK ReportedShapeConsistent ReadBackInEffect CopyExact RenderWithinBuffers Bin2AlignmentOK
