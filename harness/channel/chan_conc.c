// Concurrent conformance harness: the real channel.c under the deterministic scheduler (C03, and C01/C02
// rules on concurrent histories). Threads: writer W, readers R1..Rn, controller C (accept_writes toggles).
//
//   chan_conc <config file>
//
// Config lines:   cap <n> | seed <n> | strategy random|pct|starve|rr | pct_depth <d> | starve <thread> <steps>
//                 spurious <k> | budget <n> | writer <n><c|a> ... | reader loop full|rand|hold
//                 reader script m u<c> m u<c> ... | controller <0|1> ... | schedule <tid> ... | out <file>
//                 steps <file>
//
// Events carry a sequence number taken while the channel lock is held (linearization order); the trace is
// written sorted by it. A deadlock / fair livelock ends the run with a Hang event.
#define _GNU_SOURCE
#include "runtime/channel.h"
#include "vsched.h"
#include <stdio.h>
#include <stdlib.h>
#include <string.h>
#include <unistd.h>

#define MAXR 8
#define MAXOPS 256
#define POISON 255
#define MOD 251

static struct channel ch;
static int CAP = 3;

struct wop
{
    int n;
    char kind;
};
static struct wop wprog[MAXOPS];
static int nw = 0;
struct rop
{
    char kind; // 'm' or 'u'
    int c;
};
static struct
{
    int loop;     // 1 = loop mode
    char policy;  // 'f' full, 'r' random, 'h' hold (yields while mapped, then full)
    struct rop ops[MAXOPS];
    int nops;
    struct channel_reader rd;
    int tid;
} RD[MAXR];
static int nreaders = 0;
static int cprog[MAXOPS], ncp = 0, cdelay = 0;
static int sched[1 << 16];
static long nsched_in = 0;
static char outpath[512] = "trace.ndjson", stepspath[512] = "";
static FILE* stepsf;

// ---- event buffer --------------------------------------------------------------------------------
struct ev
{
    long seq;
    char txt[400];
};
static struct ev* EV;
static long nev = 0, gseq = 0;
static long cur_seq[64]; // per thread: sequence number of the op in flight
static long committed = 0;
static int writer_done = 0, accepting_h = 1;
static int progress_obj;
static int writer_tid = -1;

#ifdef RT_MODE
// real threads: the event buffer and the sequence counter are shared
#include <pthread.h>
static pthread_mutex_t emu = PTHREAD_MUTEX_INITIALIZER;
#define EMIT_LOCK() pthread_mutex_lock(&emu)
#define EMIT_UNLOCK() pthread_mutex_unlock(&emu)
#define NEXT_SEQ() __atomic_add_fetch(&gseq, 1, __ATOMIC_SEQ_CST)
#else
#define EMIT_LOCK()
#define EMIT_UNLOCK()
#define NEXT_SEQ() (++gseq)
#endif

static void
emit(long seq, const char* txt)
{
    EMIT_LOCK();
    EV[nev].seq = seq;
    snprintf(EV[nev].txt, sizeof EV[nev].txt, "%s", txt);
    nev++;
    EMIT_UNLOCK();
}

static int
cmp_ev(const void* a, const void* b)
{
    long x = ((const struct ev*)a)->seq, y = ((const struct ev*)b)->seq;
    return x < y ? -1 : x > y;
}

static void
flush_trace(const char* last)
{
    EMIT_LOCK();
    qsort(EV, nev, sizeof *EV, cmp_ev);
    FILE* f = fopen(outpath, "w");
    if (!f)
        _exit(2);
    fprintf(f, "{\"e\":\"Reset\",\"cap\":%d}\n", CAP);
    for (long i = 0; i < nev; i++)
        fprintf(f, "%s\n", EV[i].txt);
    fprintf(f, "%s\n", last);
    // schedule actually taken, for replay
    const int* ids;
    const unsigned char* nc;
    long n = vs_schedule(&ids, &nc);
    fprintf(f, "{\"e\":\"Sched\",\"ids\":[");
    for (long i = 0; i < n; i++)
        fprintf(f, "%s%d", i ? "," : "", ids[i]);
    fprintf(f, "]}\n");
    fclose(f);
    if (stepsf)
        fclose(stepsf);
}

static void
lock_hook(void* lock, int is_cv)
{
    if (lock != (void*)&ch.lock)
        return;
    int t = vs_self();
    cur_seq[t] = NEXT_SEQ();
    if (is_cv) {
        char b[128];
        snprintf(b, sizeof b, "{\"e\":\"WBlock\",\"n\":%d,\"t\":%d}", 0, t);
        emit(cur_seq[t], b);
    }
}

static int stop_after_schedule = 0, draining = 0;
static int never_obj;
static void
op_done(void)
{
    if (!draining)
        vs_yield("op_done");
    while (draining)
        vs_wait(&never_obj, "parked");
}
static void flush_trace(const char* last);
static void
step_hook(int t, const char* at, int runnable)
{
    if (stepsf) {
        fprintf(stepsf, "%d %s %d | %zu %zu %zu %d %u", t, at ? at : "-", runnable, ch.head, ch.high, ch.cycle, ch.is_accepting_writes, ch.holds.n);
        for (unsigned i = 0; i < ch.holds.n && i < 8; i++)
            fprintf(stepsf, " %zu %zu", ch.holds.pos[i], ch.holds.cycles[i]);
        fprintf(stepsf, "\n");
    }
    // scripted replays end when the explicit schedule has been consumed (the scripts are prefixes of behaviours)
    // every thread then finishes the operation it is in (so that no effect goes unlogged) and parks.
    if (stop_after_schedule && nsched_in > 0 && vs_steps() >= nsched_in) {
        draining = 1;
        if (stepsf) {
            fclose(stepsf);
            stepsf = 0;
        }
    }
    return;
    if (!stepsf)
        return;
    fprintf(stepsf, "%d %s %d | %zu %zu %zu %d %u", t, at ? at : "-", runnable, ch.head, ch.high, ch.cycle, ch.is_accepting_writes, ch.holds.n);
    for (unsigned i = 0; i < ch.holds.n && i < 8; i++)
        fprintf(stepsf, " %zu %zu", ch.holds.pos[i], ch.holds.cycles[i]);
    fprintf(stepsf, "\n");
}

static int probing = 0, probe_done = 0;
static void
on_hang(const char* kind)
{
    char b[512];
    // Probe before anything else: wake the cv sleepers spuriously (always legal). If the writer then gets its region,
    // it had been asleep although the channel itself grants the request: a lost wake-up (reported by the writer).
    if (!probe_done && !strcmp(kind, "deadlock") && writer_tid >= 0 && vs_is_blocked_on_cv(writer_tid)) {
        probe_done = 1;
        probing = 1;
#ifdef RT_MODE
        condition_variable_notify_all(&ch.notify_space_available); // a broadcast nobody asked for: always legal
        return;
#else
        if (vs_spurious_wake_all() > 0)
            return;
#endif
    }
    if (draining || stop_after_schedule) {
        // scripted replays: the scripts are prefixes of behaviours, a writer left waiting for readers that have
        // finished their script is not a hang
        flush_trace("{\"e\":\"End\"}");
        _exit(0);
    }
    int n = snprintf(b, sizeof b, "{\"e\":\"Hang\",\"kind\":\"%s\",\"wasleep\":%s,\"threads\":[", kind,
                     (writer_tid >= 0 && vs_is_blocked_on_cv(writer_tid)) ? "true" : "false");
    for (int i = 0; i < vs_nthreads(); i++)
        n += snprintf(b + n, sizeof b - n, "%s\"%s:%s\"", i ? "," : "", vs_name(i), vs_status(i));
    snprintf(b + n, sizeof b - n, "]}");
    flush_trace(b);
    _exit(0);
}

// ---- threads -------------------------------------------------------------------------------------
static void
seen_list(char* dst, size_t cap, long off, long len)
{
    size_t n = 0;
    n += snprintf(dst + n, cap - n, "[");
    if (off >= 0 && len > 0 && off + len <= CAP)
        for (long i = 0; i < len && n + 8 < cap; i++)
            n += snprintf(dst + n, cap - n, "%s%d", i ? "," : "", (int)ch.data[off + i]);
    snprintf(dst + n, cap - n, "]");
}

static void
writer(void* arg)
{
    (void)arg;
    int me = vs_self();
    char b[256];
    for (int k = 0; k < nw; k++) {
        int n = wprog[k].n;
        cur_seq[me] = NEXT_SEQ();
        uint8_t* q = (uint8_t*)channel_write_map(&ch, n);
        long off = q ? (long)(q - ch.data) : -1;
        if (q && (off < 0 || off + n > CAP))
            off = CAP + 1000;
        snprintf(b, sizeof b, "{\"e\":\"WMap\",\"n\":%d,\"off\":%ld,\"t\":%d}", n, off, me);
        emit(cur_seq[me], b);
        if (probing) {
            probing = 0;
            if (q) { // granted only because of the spurious wake-up at the deadlock
                snprintf(b, sizeof b, "{\"e\":\"LostWakeup\",\"n\":%d,\"t\":%d}", n, me);
                emit(cur_seq[me], b);
            }
        }
        op_done();
        if (!q)
            continue;
        if (off >= 0 && off + n <= CAP)
            memset(ch.data + off, POISON, n);
        if (wprog[k].kind == 'c') {
            // fill in the payload before committing; whether the commit counts is decided under the lock by
            // channel_write_unmap (is_accepting_writes), so the byte values are chosen there too: the harness
            // mirrors that decision with the flag value it sees at the linearization point (lock_hook).
            cur_seq[me] = NEXT_SEQ();
            long base = committed;
            if (off >= 0 && off + n <= CAP)
                for (int i = 0; i < n; i++)
                    ch.data[off + i] = (unsigned char)((base + i) % MOD);
            size_t head_before = ch.head;
            channel_write_unmap(&ch);
            int took = ch.head != head_before || (n == 0);
            if (took)
                committed += n;
            else if (off >= 0 && off + n <= CAP)
                memset(ch.data + off, POISON, n);
            snprintf(b, sizeof b, "{\"e\":\"WCommit\",\"t\":%d}", me);
            emit(cur_seq[me], b);
        } else {
            cur_seq[me] = NEXT_SEQ();
            channel_abort_write(&ch);
            snprintf(b, sizeof b, "{\"e\":\"WAbort\",\"t\":%d}", me);
            emit(cur_seq[me], b);
        }
        vs_signal(&progress_obj);
        op_done();
    }
    writer_done = 1;
    vs_signal(&progress_obj);
}

static uint64_t rrng = 12345;
static unsigned
rr(void)
{
    rrng ^= rrng << 13;
    rrng ^= rrng >> 7;
    rrng ^= rrng << 17;
    return (unsigned)(rrng >> 13);
}

static long
do_rmap(int r, int me, long* off_out)
{
    char b[400], seen[200];
    cur_seq[me] = NEXT_SEQ();
    struct slice s = channel_read_map(&ch, &RD[r].rd);
    long len = (long)(s.end - s.beg);
    if (len > (1 << 20))
        len = 1 << 20;
    if (len < -1)
        len = -1;
    long off = (s.beg && len != 0) ? (long)(s.beg - ch.data) : 0;
    int inbuf = len > 0 && off >= 0 && off + len <= CAP;
    if (!inbuf && len != 0)
        off = CAP + 1000;
    seen_list(seen, sizeof seen, inbuf ? off : -1, len);
    snprintf(b, sizeof b, "{\"e\":\"RMap\",\"r\":%d,\"off\":%ld,\"len\":%ld,\"st\":%d,\"seen\":%s,\"t\":%d}", r + 1, off, len, (int)RD[r].rd.status, seen, me);
    emit(cur_seq[me], b);
    *off_out = off;
    return inbuf ? len : 0;
}

static void
do_runmap(int r, int me, long off, long len, int c)
{
    char b[400], seen[200];
    seen_list(seen, sizeof seen, off, len);
    cur_seq[me] = NEXT_SEQ();
    channel_read_unmap(&ch, &RD[r].rd, c);
    snprintf(b, sizeof b, "{\"e\":\"RUnmap\",\"r\":%d,\"c\":%d,\"seen\":%s,\"t\":%d}", r + 1, c, seen, me);
    emit(cur_seq[me], b);
}

static void
reader(void* arg)
{
    int r = (int)(intptr_t)arg;
    int me = vs_self();
    long off = 0, len = 0;
    if (!RD[r].loop) {
        for (int k = 0; k < RD[r].nops; k++) {
            if (RD[r].ops[k].kind == 'm') {
                len = do_rmap(r, me, &off);
            } else {
                do_runmap(r, me, len > 0 ? off : -1, len, RD[r].ops[k].c);
                len = 0;
            }
            op_done();
        }
        return;
    }
    long seen_progress = -1;
    int nmaps = 0;
    for (;;) {
        // 's' (stall): after a few reads the reader stops reading until the writer has finished, so the ring fills
        // up and only a refusal can release a blocked writer
        if ((RD[r].policy == 's' || RD[r].policy == 'S') && nmaps >= 2)
            while (!writer_done)
                vs_wait(&progress_obj, "stalled");
        if (RD[r].policy == 'H' && nmaps >= 1 + (int)(RD[r].tid % 2))
            while (!writer_done)
                vs_wait(&progress_obj, "stalled");
        int done_before = writer_done;
        long c0 = committed;
        len = do_rmap(r, me, &off);
        op_done();
        if (len > 0) {
            nmaps++; // only reads that delivered data count towards a stalling policy
            int c = (int)len;
            if (RD[r].policy == 'r' || RD[r].policy == 'S' || RD[r].policy == 'H')
                c = (int)(rr() % (unsigned)(len + 2));
            if (RD[r].policy == 'H') { // hold the mapping for a while (the writer typically blocks meanwhile)
                int h = 1 + rr() % 4;
                for (int i = 0; i < h; i++)
                    vs_yield("holding");
            }
            if (RD[r].policy == 'h') {
                int h = 1 + rr() % 3;
                for (int i = 0; i < h; i++)
                    vs_yield("holding");
            }
            do_runmap(r, me, off, len, c);
            op_done();
            continue;
        }
        // empty: drained as of that call. Finished if the writer had already finished before the call.
        if (done_before)
            return;
        (void)seen_progress;
        while (committed == c0 && !writer_done)
            vs_wait(&progress_obj, "wait_progress");
    }
}

static void
controller(void* arg)
{
    (void)arg;
    int me = vs_self();
    char b[128];
    for (int i = 0; i < cdelay; i++)
        vs_yield("delay");
    for (int k = 0; k < ncp; k++) {
        cur_seq[me] = NEXT_SEQ(); // unlocked store: linearizes at call entry; a locked implementation re-stamps it
        channel_accept_writes(&ch, cprog[k]);
        accepting_h = cprog[k];
        snprintf(b, sizeof b, "{\"e\":\"Accept\",\"b\":%s,\"t\":%d}", cprog[k] ? "true" : "false", me);
        emit(cur_seq[me], b);
        vs_signal(&progress_obj);
        op_done();
    }
}

int
main(int argc, char** argv)
{
    if (argc < 2)
        return 2;
    FILE* f = fopen(argv[1], "r");
    if (!f)
        return 2;
    struct vs_config cfg;
    memset(&cfg, 0, sizeof cfg);
    cfg.seed = 1;
    cfg.budget = 20000;
    cfg.fair_budget = 20000;
    char line[1 << 16];
    while (fgets(line, sizeof line, f)) {
        char* tok = strtok(line, " \t\n");
        if (!tok)
            continue;
        if (!strcmp(tok, "cap")) CAP = atoi(strtok(0, " \t\n"));
        else if (!strcmp(tok, "seed")) cfg.seed = strtoull(strtok(0, " \t\n"), 0, 10);
        else if (!strcmp(tok, "spurious")) cfg.spurious = atoi(strtok(0, " \t\n"));
        else if (!strcmp(tok, "budget")) cfg.budget = cfg.fair_budget = atol(strtok(0, " \t\n"));
        else if (!strcmp(tok, "pct_depth")) cfg.pct_depth = atoi(strtok(0, " \t\n"));
        else if (!strcmp(tok, "strategy")) {
            char* s = strtok(0, " \t\n");
            cfg.strategy = !strcmp(s, "pct") ? VS_PCT : !strcmp(s, "starve") ? VS_STARVE : !strcmp(s, "rr") ? VS_RR : VS_RANDOM;
        } else if (!strcmp(tok, "starve")) {
            cfg.starve_thread = atoi(strtok(0, " \t\n"));
            cfg.starve_steps = atol(strtok(0, " \t\n"));
        } else if (!strcmp(tok, "writer")) {
            char* s;
            while ((s = strtok(0, " \t\n")) && nw < MAXOPS) {
                wprog[nw].n = atoi(s);
                wprog[nw].kind = s[strlen(s) - 1] == 'a' ? 'a' : 'c';
                nw++;
            }
        } else if (!strcmp(tok, "reader") && nreaders < MAXR) {
            char* s = strtok(0, " \t\n");
            int r = nreaders++;
            if (s && !strcmp(s, "loop")) {
                RD[r].loop = 1;
                s = strtok(0, " \t\n");
                RD[r].policy = s ? (!strcmp(s, "pstall") ? 'S' : !strcmp(s, "hpstall") ? 'H' : s[0]) : 'f';
            } else {
                while ((s = strtok(0, " \t\n")) && RD[r].nops < MAXOPS) {
                    RD[r].ops[RD[r].nops].kind = s[0];
                    RD[r].ops[RD[r].nops].c = s[0] == 'u' ? atoi(s + 1) : 0;
                    RD[r].nops++;
                }
            }
        } else if (!strcmp(tok, "controller")) {
            char* s;
            while ((s = strtok(0, " \t\n")) && ncp < MAXOPS)
                cprog[ncp++] = atoi(s);
        } else if (!strcmp(tok, "stop_after_schedule")) {
            stop_after_schedule = atoi(strtok(0, " \t\n"));
        } else if (!strcmp(tok, "window")) {
            // window LABEL INDEX THREAD STEPS
            static char wl[32];
            snprintf(wl, sizeof wl, "%s", strtok(0, " \t\n"));
            cfg.window_label = wl;
            cfg.window_index = atoi(strtok(0, " \t\n"));
            cfg.window_thread = atoi(strtok(0, " \t\n"));
            cfg.window_steps = atoi(strtok(0, " \t\n"));
        } else if (!strcmp(tok, "cdelay")) {
            cdelay = atoi(strtok(0, " \t\n"));
        } else if (!strcmp(tok, "schedule")) {
            char* s;
            while ((s = strtok(0, " \t\n")) && nsched_in < (1 << 16))
                sched[nsched_in++] = atoi(s);
        } else if (!strcmp(tok, "out")) snprintf(outpath, sizeof outpath, "%s", strtok(0, " \t\n"));
        else if (!strcmp(tok, "steps")) snprintf(stepspath, sizeof stepspath, "%s", strtok(0, " \t\n"));
    }
    fclose(f);
    cfg.replay = sched;
    cfg.nreplay = nsched_in;
    rrng = cfg.seed * 0x9E3779B97F4A7C15ull + 77;
    EV = (struct ev*)malloc(sizeof(struct ev) * 200000);
    if (stepspath[0])
        stepsf = fopen(stepspath, "w");
    vs_init(&cfg, on_hang);
    vs_set_lock_hook(lock_hook);
    vs_set_step_hook(step_hook);
    channel_new(&ch, CAP);
    writer_tid = vs_spawn("W", writer, 0);
    for (int r = 0; r < nreaders; r++)
        RD[r].tid = vs_spawn(r == 0 ? "R1" : r == 1 ? "R2" : r == 2 ? "R3" : "Rn", reader, (void*)(intptr_t)r);
    if (ncp)
        vs_spawn("C", controller, 0);
    vs_activate(1);
    vs_join_all();
    vs_activate(0);
    flush_trace("{\"e\":\"End\"}");
    return 0;
}
