// Sequential conformance harness for the real channel.c (built from /repo on every check).
//
//  explore <cap> <nreaders> <maxw> <with_accept> <max_states> <outprefix> <chunk_events>
//      implementation-driven BFS over the real struct's state graph; afterwards a DFS over the BFS tree
//      writes EVERY transition (tree and non-tree) as events with Push/Pop, so that one linear trace per
//      chunk lets the TLA+ observation spec (ChannelObs) judge every transition of the real code.
//  random <seed> <nprog> <maxops> <outfile>
//      seeded random op programs (capacity 2..64, up to 8 readers, toggles), one Reset per program.
//  replay <edgesfile> <cap> <nreaders>
//      spec->code: per-transition replay of TLC-exported edges of ChannelImpl (source state is *set*).
//
// condition_variable_wait is wrapped: reaching it means "the call would block"; it is reported, never slept.
#include "runtime/channel.h"
#include <cstdio>
#include <cstdlib>
#include <cstring>
#include <csetjmp>
#include <string>
#include <vector>
#include <unordered_map>
#include <algorithm>
#include <cstdint>
#include <pthread.h>

extern "C" void __real_condition_variable_wait(struct condition_variable*, struct lock*);
static jmp_buf jb;
static int blocked;
extern "C" void
__wrap_condition_variable_wait(struct condition_variable* cv, struct lock* l)
{
    (void)cv;
    blocked = 1;
    lock_release(l);
    longjmp(jb, 1);
}

// This harness is single-threaded: a channel lock that is still held when the next call wants it was left behind by an
// earlier call (an early return that skips lock_release). The real program would block for ever there; the harness says so
// and dies with SIGABRT, which the checks report as a crash of the code under test.
extern "C" void
__wrap_lock_acquire(struct lock* l)
{
    if (pthread_mutex_trylock(&l->inner_) != 0) {
        printf("{\"note\":\"lock_acquire would block for ever: the lock was left held by an earlier call (single-threaded harness)\"}\n");
        fflush(stdout);
        abort();
    }
}

#define MAXR 8
#define MAXCAP 64
static const int POISON = 255, MOD = 251;

struct Ghost
{
    long com;
    long idx[MAXCAP];
    char first[MAXCAP];
    long next[MAXR];
    int hoff[MAXR], hlen[MAXR];
    int poff, pn;
    int acc;
};

struct Snap
{
    size_t head, high, cycle, mapped;
    unsigned char acc;
    size_t pos[8], cycles[8];
    unsigned n;
    unsigned char data[MAXCAP];
    struct channel_reader R[MAXR];
    Ghost g;
};

static struct channel ch;
static struct channel_reader R[MAXR];
static Ghost g;
static int CAP, NR, MAXW, WITH_ACC;

static void
fresh(int cap)
{
    static int made = 0;
    static int made_cap = 0;
    if (!made || made_cap != cap) {
        if (made)
            channel_release(&ch);
        channel_new(&ch, cap);
        made = 1;
        made_cap = cap;
    }
    ch.head = ch.high = ch.cycle = ch.mapped = 0;
    ch.is_accepting_writes = 1;
    memset(&ch.holds, 0, sizeof ch.holds);
    memset(ch.data, 0, cap);
    memset(R, 0, sizeof R);
    memset(&g, 0, sizeof g);
    for (int i = 0; i < MAXCAP; i++)
        g.idx[i] = -1;
    for (int i = 0; i < MAXR; i++) {
        g.next[i] = -1;
        g.hoff[i] = -1;
    }
    g.poff = -1;
    g.acc = 1;
    CAP = cap;
}

static void
save(Snap& s)
{
    s.head = ch.head; s.high = ch.high; s.cycle = ch.cycle; s.mapped = ch.mapped;
    s.acc = ch.is_accepting_writes;
    memcpy(s.pos, ch.holds.pos, sizeof s.pos);
    memcpy(s.cycles, ch.holds.cycles, sizeof s.cycles);
    s.n = ch.holds.n;
    memcpy(s.data, ch.data, CAP);
    memcpy(s.R, R, sizeof R);
    s.g = g;
}

static void
restore(const Snap& s)
{
    ch.head = s.head; ch.high = s.high; ch.cycle = s.cycle; ch.mapped = s.mapped;
    ch.is_accepting_writes = s.acc;
    memcpy(ch.holds.pos, s.pos, sizeof s.pos);
    memcpy(ch.holds.cycles, s.cycles, sizeof s.cycles);
    ch.holds.n = s.n;
    memcpy(ch.data, s.data, CAP);
    memcpy(R, s.R, sizeof R);
    g = s.g;
}

// dedup key: concrete scalars (laps relative to their minimum) + relative ghost (ages, lags). Used only to
// decide what counts as "the same state" during exploration, never for a verdict.
static std::string
key()
{
    std::string k;
    size_t m = ch.cycle;
    for (unsigned i = 0; i < ch.holds.n && i < 8; i++)
        m = std::min(m, ch.holds.cycles[i]);
    for (int r = 0; r < NR; r++)
        if (R[r].state == ChannelState_Mapped)
            m = std::min(m, R[r].cycle);
    auto put = [&](long v) { k.append((const char*)&v, sizeof v); };
    put(ch.head); put(ch.high); put(ch.cycle - m); put(g.poff >= 0 ? (long)ch.mapped : -1 - (long)(ch.mapped != ch.head)) /* (a stale `mapped` left by a refused unmap is state too) */; put(ch.is_accepting_writes); put(ch.holds.n);
    for (unsigned i = 0; i < ch.holds.n && i < 8; i++) { put(ch.holds.pos[i]); put(ch.holds.cycles[i] - m); }
    for (int r = 0; r < NR; r++) {
        put(R[r].id); put(R[r].state); put(R[r].status);
        if (R[r].state == ChannelState_Mapped) { put(R[r].pos); put(R[r].cycle - m); }
        long lag = g.next[r] < 0 ? -1 : std::min<long>(g.com - g.next[r], CAP + 1);
        put(lag); put(g.hoff[r]); put(g.hlen[r]);
    }
    for (int x = 0; x < CAP; x++) {
        long age = g.idx[x] < 0 ? -1 : std::min<long>(g.com - 1 - g.idx[x], CAP);
        put(age); put(g.first[x]);
    }
    put(g.poff); put(g.pn);
    return k;
}

struct Op
{
    char kind; // 'w' map, 'c' commit, 'a' abort, 'x' abort then unmap (source.c's idiom for an empty frame), 'r' rmap, 'u' runmap, 't' toggle
    int x, r;
};

static void
alphabet(std::vector<Op>& ops)
{
    ops.clear();
    if (g.poff < 0) {
        for (int k = 1; k <= MAXW && k < CAP; k++)
            ops.push_back({ 'w', k, 0 });
    } else {
        ops.push_back({ 'c', 0, 0 });
        ops.push_back({ 'a', 0, 0 });
        ops.push_back({ 'x', 0, 0 });
    }
    for (int r = 0; r < NR; r++) {
        if (g.hoff[r] >= 0) {
            for (int c = 0; c <= g.hlen[r] + 1; c++)
                ops.push_back({ 'u', c, r });
        } else {
            // readers join in order (symmetry): reader r may join only after reader r-1
            if (R[r].id == 0 && r > 0 && R[r - 1].id == 0)
                continue;
            ops.push_back({ 'r', 0, r });
        }
    }
    if (WITH_ACC)
        ops.push_back({ 't', 0, 0 });
}

static std::string
seen_list(long off, long len)
{
    std::string s = "[";
    if (off >= 0 && len > 0 && off + len <= CAP)
        for (long i = 0; i < len; i++) {
            char b[8];
            snprintf(b, sizeof b, "%s%d", i ? "," : "", (int)ch.data[off + i]);
            s += b;
        }
    s += "]";
    return s;
}

// executes op on the real channel, updates the harness ghost, returns the event line
static std::string
exec_op(const Op& op)
{
    char buf[512];
    blocked = 0;
    switch (op.kind) {
        case 'w': {
            uint8_t* volatile q = 0;
            if (!setjmp(jb)) {
                q = (uint8_t*)channel_write_map(&ch, op.x);
            }
            if (blocked) {
                snprintf(buf, sizeof buf, "{\"e\":\"WBlock\",\"n\":%d}", op.x);
                return buf;
            }
            long off = q ? (long)(q - ch.data) : -1;
            if (q && off >= 0 && off + op.x <= CAP) {
                memset(ch.data + off, POISON, op.x);
                for (int i = 0; i < op.x; i++) { g.idx[off + i] = -1; g.first[off + i] = 0; }
                g.poff = (int)off; g.pn = op.x;
            } else if (q) {
                g.poff = 0; g.pn = 0; // wild region: do not touch memory; Obs flags WriteOutOfBuffer
                off = off < 0 ? -2 : off;
                if (off < 0) off = CAP + 1000;
            }
            snprintf(buf, sizeof buf, "{\"e\":\"WMap\",\"n\":%d,\"off\":%ld}", op.x, off);
            return buf;
        }
        case 'c': {
            if (g.acc && g.pn > 0) {
                for (int i = 0; i < g.pn; i++) {
                    ch.data[g.poff + i] = (unsigned char)((g.com + i) % MOD);
                    g.idx[g.poff + i] = g.com + i;
                    g.first[g.poff + i] = (i == 0);
                }
                g.com += g.pn;
            }
            channel_write_unmap(&ch);
            g.poff = -1; g.pn = 0;
            return "{\"e\":\"WCommit\"}";
        }
        case 'a': {
            channel_abort_write(&ch);
            g.poff = -1; g.pn = 0;
            return "{\"e\":\"WAbort\"}";
        }
        case 'x': { // what the source thread does with a frame that came back empty: abort the write, then unmap anyway
            channel_abort_write(&ch);
            g.poff = -1; g.pn = 0;
            channel_write_unmap(&ch);
            return "{\"e\":\"WAbort\"}\n{\"e\":\"WCommit\"}";
        }
        case 't': {
            g.acc = !g.acc;
            channel_accept_writes(&ch, g.acc);
            snprintf(buf, sizeof buf, "{\"e\":\"Accept\",\"b\":%s}", g.acc ? "true" : "false");
            return buf;
        }
        case 'r': {
            struct slice s = channel_read_map(&ch, &R[op.r]);
            long len = (long)(s.end - s.beg);
            if (len > (1 << 20)) len = (1 << 20);
            if (len < -1) len = -1;
            long off = (s.beg && len != 0) ? (long)(s.beg - ch.data) : 0;
            bool inbuf = len > 0 && off >= 0 && off + len <= CAP;
            std::string seen = inbuf ? seen_list(off, len) : "[]";
            if (!inbuf && len != 0) { off = CAP + 1000; }
            if (inbuf) {
                if (g.next[op.r] < 0) g.next[op.r] = g.idx[off] >= 0 ? g.idx[off] : g.com;
                g.hoff[op.r] = (int)off; g.hlen[op.r] = (int)len;
            } else if (g.next[op.r] < 0) {
                g.next[op.r] = g.com;
            }
            snprintf(buf, sizeof buf, "{\"e\":\"RMap\",\"r\":%d,\"off\":%ld,\"len\":%ld,\"st\":%d,\"seen\":", op.r + 1, off, len, (int)R[op.r].status);
            return std::string(buf) + seen + "}";
        }
        case 'u': {
            std::string seen = seen_list(g.hoff[op.r], g.hlen[op.r]);
            channel_read_unmap(&ch, &R[op.r], op.x);
            if (g.hoff[op.r] >= 0) {
                g.next[op.r] += std::min(op.x, g.hlen[op.r]);
                g.hoff[op.r] = -1; g.hlen[op.r] = 0;
            }
            snprintf(buf, sizeof buf, "{\"e\":\"RUnmap\",\"r\":%d,\"c\":%d,\"seen\":", op.r + 1, op.x);
            return std::string(buf) + seen + "}";
        }
    }
    return "{}";
}

// ------------------------------------------------------------------------------------------------
struct Node
{
    Snap s;
    int parent;
    int pop; // index of op in parent's alphabet
    int depth;
};
static std::vector<Node> nodes;
static std::unordered_map<std::string, int> index_;

static FILE* out;
static long ev_in_chunk, chunk_limit, nchunks, total_events, total_trans;
static std::string prefix;
static std::vector<std::string> pathev;

static void
open_chunk()
{
    char name[600];
    snprintf(name, sizeof name, "%s.%04ld.ndjson", prefix.c_str(), nchunks++);
    out = fopen(name, "w");
    if (!out) { perror("open chunk"); exit(2); }
    fprintf(out, "{\"e\":\"Reset\",\"cap\":%d}\n", CAP);
    for (auto& e : pathev)
        fprintf(out, "{\"e\":\"Push\"}\n%s\n", e.c_str());
    ev_in_chunk = 1 + 2 * (long)pathev.size();
    total_events += ev_in_chunk;
}
static void
emit(const std::string& e)
{
    fprintf(out, "%s\n", e.c_str());
    ev_in_chunk++;
    total_events++;
}

// C03 "readers that keep reading reach the drained state in a bounded number of calls": from this state, with the
// writer idle, reader r maps and fully consumes until a read comes back empty; the calls are ordinary events (judged
// like any other), followed by a DrainProbe event carrying the number of non-empty reads it took.
static void
drain_probe(int id)
{
    restore(nodes[id].s);
    if (g.poff >= 0)
        return;
    for (int r = 0; r < NR; r++) {
        restore(nodes[id].s);
        if (g.next[r] < 0 || g.hoff[r] >= 0)
            continue;
        emit("{\"e\":\"Push\"}");
        int nonempty = 0, drained = 0;
        for (int k = 0; k < 8 && !drained; k++) {
            emit(exec_op({ 'r', 0, r }));
            if (g.hoff[r] >= 0) {
                nonempty++;
                emit(exec_op({ 'u', g.hlen[r], r }));
            } else
                drained = 1;
        }
        char b[128];
        snprintf(b, sizeof b, "{\"e\":\"DrainProbe\",\"r\":%d,\"calls\":%d,\"drained\":%s}", r + 1, nonempty, drained ? "true" : "false");
        emit(b);
        emit("{\"e\":\"Pop\"}");
    }
}

static void
dfs(int id)
{
    std::vector<Op> ops;
    drain_probe(id);
    restore(nodes[id].s);
    alphabet(ops);
    for (size_t i = 0; i < ops.size(); i++) {
        if (ev_in_chunk >= chunk_limit) {
            fclose(out);
            open_chunk();
        }
        restore(nodes[id].s);
        std::string e = exec_op(ops[i]);
        total_trans++;
        std::string k = key();
        auto it = index_.find(k);
        bool child = it != index_.end() && nodes[it->second].parent == id && nodes[it->second].pop == (int)i;
        emit("{\"e\":\"Push\"}");
        emit(e);
        if (child) {
            pathev.push_back(e);
            dfs(it->second);
            pathev.pop_back();
        }
        emit("{\"e\":\"Pop\"}");
    }
}

static int
explore(int argc, char** argv)
{
    if (argc < 9) return 2;
    int cap = atoi(argv[2]);
    NR = atoi(argv[3]); MAXW = atoi(argv[4]); WITH_ACC = atoi(argv[5]);
    long max_states = atol(argv[6]);
    prefix = argv[7];
    chunk_limit = atol(argv[8]);
    fresh(cap);
    nodes.reserve(1 << 16);
    Node root; save(root.s); root.parent = -1; root.pop = -1; root.depth = 0;
    nodes.push_back(root);
    index_[key()] = 0;
    std::vector<Op> ops;
    bool truncated = false;
    int maxdepth = 0;
    for (size_t cur = 0; cur < nodes.size(); cur++) {
        restore(nodes[cur].s);
        alphabet(ops);
        std::vector<Op> myops = ops;
        for (size_t i = 0; i < myops.size(); i++) {
            restore(nodes[cur].s);
            exec_op(myops[i]);
            if (blocked) continue;
            std::string k = key();
            if (index_.find(k) == index_.end()) {
                if ((long)nodes.size() >= max_states) { truncated = true; continue; }
                Node nn; save(nn.s); nn.parent = (int)cur; nn.pop = (int)i; nn.depth = nodes[cur].depth + 1;
                maxdepth = std::max(maxdepth, nn.depth);
                index_[k] = (int)nodes.size();
                nodes.push_back(nn);
            }
        }
    }
    open_chunk();
    dfs(0);
    fclose(out);
    printf("{\"states\":%zu,\"transitions\":%ld,\"events\":%ld,\"chunks\":%ld,\"depth\":%d,\"truncated\":%s}\n",
           nodes.size(), total_trans, total_events, nchunks, maxdepth, truncated ? "true" : "false");
    return 0;
}

// ------------------------------------------------------------------------------------------------
static uint64_t rng_s;
static uint32_t
rnd()
{
    rng_s ^= rng_s << 13; rng_s ^= rng_s >> 7; rng_s ^= rng_s << 17;
    return (uint32_t)(rng_s >> 11);
}

static int
random_programs(int argc, char** argv)
{
    if (argc < 6) return 2;
    rng_s = 0x9E3779B97F4A7C15ull ^ (uint64_t)atoll(argv[2]) * 0xD1B54A32D192ED03ull;
    if (!rng_s) rng_s = 1;
    long nprog = atol(argv[3]);
    int maxops = atoi(argv[4]);
    out = fopen(argv[5], "w");
    if (!out) return 2;
    long events = 0, blocks = 0;
    std::vector<Op> ops;
    for (long p = 0; p < nprog; p++) {
        static const int caps[] = { 2, 3, 4, 5, 6, 7, 8, 9, 12, 16, 17, 31, 32, 33, 64 };
        int cap = caps[rnd() % (sizeof caps / sizeof caps[0])];
        NR = 1 + rnd() % 8;
        MAXW = 1 + rnd() % (cap - 1);
        WITH_ACC = (rnd() % 4) == 0;
        fresh(cap);
        fprintf(out, "{\"e\":\"Reset\",\"cap\":%d}\n", cap);
        events++;
        // bias profile for this program: how eager readers are vs. the writer
        int wbias = 1 + rnd() % 6, rbias = 1 + rnd() % 6;
        for (int k = 0; k < maxops; k++) {
            alphabet(ops);
            // weighted choice
            std::vector<int> w(ops.size());
            long tot = 0;
            for (size_t i = 0; i < ops.size(); i++) {
                int wt = 1;
                switch (ops[i].kind) {
                    case 'w': wt = wbias * 2; break;
                    case 'c': wt = wbias * 6; break;
                    case 'a': wt = 1; break;
                    case 'x': wt = 2; break;
                    case 'r': wt = rbias * 2; break;
                    case 'u': wt = (ops[i].x >= g.hlen[ops[i].r]) ? rbias * 3 : rbias; break;
                    case 't': wt = 1; break;
                }
                w[i] = wt; tot += wt;
            }
            long pick = rnd() % tot;
            size_t i = 0;
            while (pick >= w[i]) { pick -= w[i]; i++; }
            std::string e = exec_op(ops[i]);
            if (blocked) blocks++;
            fprintf(out, "%s\n", e.c_str());
            events++;
        }
    }
    fclose(out);
    printf("{\"programs\":%ld,\"events\":%ld,\"blocks\":%ld}\n", nprog, events, blocks);
    return 0;
}

// ------------------------------------------------------------------------------------------------
// spec -> code replay. One edge per line:
//   act x r | head high cycle mapped acc n  pos[NR] cyc[NR]  rid[NR] rpos[NR] rcyc[NR] rst[NR] | <same> wbeg rbeg[NR] rlen[NR]
static int
replay(int argc, char** argv)
{
    if (argc < 5) return 2;
    FILE* f = fopen(argv[2], "r");
    if (!f) return 2;
    int cap = atoi(argv[3]);
    NR = atoi(argv[4]);
    fresh(cap);
    char line[4096], act[32];
    long n = 0, mism = 0, wouldblock = 0, neg = 0;
    const int NS = 6 + 6 * NR;
    std::vector<long> s(NS), d(NS + 1 + 2 * NR);
    while (fgets(line, sizeof line, f)) {
        int x, r, off = 0;
        char* p = line;
        if (sscanf(p, "%31s %d %d |%n", act, &x, &r, &off) < 3) continue;
        p += off;
        for (int i = 0; i < NS; i++) s[i] = strtol(p, &p, 10);
        p = strchr(p, '|');
        if (!p) continue;
        p++;
        for (size_t i = 0; i < d.size(); i++) d[i] = strtol(p, &p, 10);
        auto load = [&](std::vector<long>& v) {
            ch.head = v[0]; ch.high = v[1]; ch.cycle = v[2]; ch.mapped = v[3]; ch.is_accepting_writes = (unsigned char)v[4]; ch.holds.n = (unsigned)v[5];
            for (int i = 0; i < NR; i++) { ch.holds.pos[i] = v[6 + i]; ch.holds.cycles[i] = v[6 + NR + i]; }
            for (int i = 0; i < NR; i++) {
                R[i].id = (unsigned)v[6 + 2 * NR + i]; R[i].pos = v[6 + 3 * NR + i]; R[i].cycle = v[6 + 4 * NR + i];
                R[i].state = v[6 + 5 * NR + i] ? ChannelState_Mapped : ChannelState_Unmapped; R[i].status = Channel_Ok;
            }
        };
        load(s);
        long rbeg = -1, rlen = -9, wbeg = -1;
        blocked = 0;
        if (!setjmp(jb)) {
            if (!strcmp(act, "WMap") || !strcmp(act, "WMapBlocks")) { uint8_t* q = (uint8_t*)channel_write_map(&ch, x); wbeg = q ? q - ch.data : -1; }
            else if (!strcmp(act, "WUnmap")) channel_write_unmap(&ch);
            else if (!strcmp(act, "WAbort")) channel_abort_write(&ch);
            else if (!strcmp(act, "RMap")) { struct slice sl = channel_read_map(&ch, &R[r - 1]); rlen = sl.end - sl.beg; rbeg = sl.beg ? sl.beg - ch.data : -1; }
            else if (!strcmp(act, "RUnmap")) channel_read_unmap(&ch, &R[r - 1], x);
            else if (!strcmp(act, "Toggle")) channel_accept_writes(&ch, !ch.is_accepting_writes);
        }
        n++;
        if (!strcmp(act, "WMapBlocks")) {
            neg++;
            if (!blocked) { mism++; if (mism < 8) printf("MISMATCH model-blocks-code-proceeds: %s", line); }
            continue;
        }
        if (blocked) { wouldblock++; mism++; if (wouldblock < 8) printf("MISMATCH code-blocks-model-proceeds: %s", line); continue; }
        bool ok = ch.head == (size_t)d[0] && ch.high == (size_t)d[1] && ch.cycle == (size_t)d[2] && ch.is_accepting_writes == d[4] && ch.holds.n == (unsigned)d[5];
        // `mapped` is only meaningful while a write is pending or just committed
        if (!strcmp(act, "WMap") && wbeg >= 0) ok = ok && ch.mapped == (size_t)d[3];
        for (int i = 0; i < NR && ok; i++) {
            if (i < (int)ch.holds.n) ok = ok && ch.holds.pos[i] == (size_t)d[6 + i] && ch.holds.cycles[i] == (size_t)d[6 + NR + i];
            ok = ok && R[i].id == (unsigned)d[6 + 2 * NR + i] && (R[i].state == ChannelState_Mapped) == (d[6 + 5 * NR + i] != 0);
            if (R[i].state == ChannelState_Mapped) ok = ok && R[i].pos == (size_t)d[6 + 3 * NR + i] && R[i].cycle == (size_t)d[6 + 4 * NR + i];
        }
        if (!strcmp(act, "WMap")) ok = ok && wbeg == d[NS];
        if (!strcmp(act, "RMap")) {
            long erlen = d[NS + 1 + NR + (r - 1)], erbeg = d[NS + 1 + (r - 1)];
            if (erlen < 0) ok = ok && R[r - 1].status != Channel_Ok; // model says overflow status
            else { ok = ok && rlen == erlen && R[r - 1].status == Channel_Ok; if (erlen > 0) ok = ok && rbeg == erbeg; }
        }
        if (!ok) {
            mism++;
            if (mism < 8)
                printf("MISMATCH state: %s   got head=%zu high=%zu cycle=%zu mapped=%zu acc=%d n=%u pos0=%zu cyc0=%zu wbeg=%ld rbeg=%ld rlen=%ld\n",
                       line, ch.head, ch.high, ch.cycle, ch.mapped, ch.is_accepting_writes, ch.holds.n, ch.holds.pos[0], ch.holds.cycles[0], wbeg, rbeg, rlen);
        }
    }
    printf("{\"replayed\":%ld,\"mismatches\":%ld,\"negative\":%ld,\"unexpected_blocks\":%ld}\n", n, mism, neg, wouldblock);
    return 0;
}

// script <cap> <opsfile> <outfile>: run "w k" / "c" / "a" / "t" / "r i" / "u i c" lines from a fresh channel
static int
script(int argc, char** argv)
{
    if (argc < 5) return 2;
    int cap = atoi(argv[2]);
    FILE* f = fopen(argv[3], "r");
    out = fopen(argv[4], "w");
    if (!f || !out) return 2;
    NR = MAXR; MAXW = cap - 1; WITH_ACC = 1;
    fresh(cap);
    fprintf(out, "{\"e\":\"Reset\",\"cap\":%d}\n", cap);
    char line[128];
    while (fgets(line, sizeof line, f)) {
        char k = 0; int a = 0, b = 0;
        if (sscanf(line, " %c %d %d", &k, &a, &b) < 1) continue;
        Op op{ k, 0, 0 };
        if (k == 'w') op.x = a;
        else if (k == 'r') op.r = a - 1;
        else if (k == 'u') { op.r = a - 1; op.x = b; }
        if (op.r < 0 || op.r >= MAXR) continue;
        if ((k == 'c' || k == 'a' || k == 'x') && g.poff < 0) continue;
        if (k == 'w' && g.poff >= 0) continue;
        std::string e = exec_op(op);
        fprintf(out, "%s\n", e.c_str());
    }
    fclose(out);
    return 0;
}

int
main(int argc, char** argv)
{
    if (argc < 2) return 2;
    if (!strcmp(argv[1], "explore")) return explore(argc, argv);
    if (!strcmp(argv[1], "random")) return random_programs(argc, argv);
    if (!strcmp(argv[1], "replay")) return replay(argc, argv);
    if (!strcmp(argv[1], "script")) return script(argc, argv);
    return 2;
}
