// Sequential harness for the device HAL wrappers (property C11).
//
// The real camera.c / storage.c / driver.c (+ logger.c, props/device.c) are linked against a scripted mock
// driver; `device_manager_get_driver`, the only thing the wrappers need from the device manager, is provided
// here (the DeviceManager/Driver seam).
//
//   hal_seq replay  <scripts.txt> <trace.ndjson>           spec -> code: replay TLC-exported transitions
//   hal_seq script  <scripts.txt> <trace.ndjson>           same, nothing compared (witness replay)
//   hal_seq walk    <edges.txt> <camera|storage> <depth> <trace.ndjson|->
//                                                           spec -> code: every model history up to a depth
//   hal_seq explore <camera|storage> <maxdepth> <maxopens> <trace.ndjson>
//                                                           code -> spec: implementation-driven exploration
//   hal_seq random  <seed> <histories> <length> <trace.ndjson>
//
// Script format (replay): one history per block
//   R <camera|storage> <id>
//   C <f> <a> | <driver answers...> | <expected driver calls...> | <expected rc> <expected state>
//   E
// f: open set get get_meta get_shape start stop trigger get_frame append reserve close get_state
// a: 0 normal; open: -1 = no driver, 1..8 = that vtable entry is NULL; -9 = NULL device; -8 = NULL 2nd argument;
//    append: 1 = empty range, 2 = reversed range
//
// The mock's close keeps the device block alive, poisons it (function table -> trap functions, driver -> trap
// driver) and shadow-copies it: a later call through the table or any changed byte is reported as a Touch event
// at the next step. Built with -DHAL_REALLY_FREE (and -fsanitize=address) the mock frees the block instead.
#define _GNU_SOURCE
#include "device/hal/camera.h"
#include "device/hal/storage.h"
#include "device/hal/driver.h"
#include "device/hal/device.manager.h"
#include "device/kit/camera.h"
#include "device/kit/storage.h"
#include "device/kit/driver.h"
#include "device/props/components.h"
#include "logger.h"
#include <stdio.h>
#include <stdlib.h>
#include <string.h>
#include <stdarg.h>
#include <stddef.h>

enum
{
    K_CAM = 0,
    K_STO = 1
};
enum
{
    A_NORMAL = 0,
    A_NODRIVER = -1,
    A_NULLSELF = -9,
    A_NULLARG = -8,
    A_EMPTY = 1,
    A_REVERSED = 2
};
#define ST_AWAIT 1
#define ST_ARMED 2
#define ST_RUNNING 3
#define POISON_STATE 0x5a5a5a5a

// ------------------------------------------------------------------------------------------------ event log
static FILE* EVF;
static long nevents;
static int ev_off; // the trace is not wanted (output "-"): only count
static void
ev(const char* fmt, ...)
{
    if (ev_off) {
        nevents++;
        return;
    }
    va_list ap;
    va_start(ap, fmt);
    vfprintf(EVF, fmt, ap);
    va_end(ap);
    fputc('\n', EVF);
    nevents++;
#ifdef HAL_REALLY_FREE
    fflush(EVF); // the sanitizer may kill the process at any moment
#endif
}

// ------------------------------------------------------------------------------------------------ answers
// scripted answers of the driver for the HAL call in progress, or an enumerating / random oracle
enum
{
    SRC_SCRIPT,
    SRC_ORACLE,
    SRC_RANDOM
};
static int ans_src = SRC_SCRIPT;
static int rq[16], rqn, rqi;
static int unscripted;
static int cstack[16], cdom[16], cdepth, cpos;
static unsigned long long rng = 88172645463325252ULL;
static unsigned
rnd(unsigned n)
{
    rng ^= rng << 13;
    rng ^= rng >> 7;
    rng ^= rng << 17;
    return (unsigned)((rng >> 11) % n);
}
static int
choose(int n)
{
    int v;
    if (cpos < cdepth)
        v = cstack[cpos];
    else {
        cstack[cdepth] = 0;
        cdom[cdepth] = n;
        cdepth++;
        v = 0;
    }
    cpos++;
    return v;
}
static int
choice_advance(void)
{
    while (cdepth > 0 && cstack[cdepth - 1] + 1 >= cdom[cdepth - 1])
        cdepth--;
    if (cdepth == 0)
        return 0;
    cstack[cdepth - 1]++;
    return 1;
}

// what the driver was asked during the HAL call in progress
static char calls[16][12];
static int answers[16];
static int ncalls;

static int
answer(const char* f, int dom, int dflt)
{
    int r;
    if (ans_src == SRC_ORACLE)
        r = choose(dom);
    else if (ans_src == SRC_RANDOM)
        r = (int)rnd((unsigned)dom);
    else if (rqi < rqn)
        r = rq[rqi++];
    else {
        r = dflt;
        unscripted++;
    }
    if (ncalls < 16) {
        snprintf(calls[ncalls], sizeof calls[ncalls], "%s", f);
        answers[ncalls] = r;
        ncalls++;
    }
    return r;
}

// ------------------------------------------------------------------------------------------------ mock devices
struct mdev
{
    int id;
    void* block; // struct Camera / struct Storage
    size_t size;
    unsigned char* shadow;
    int closed;
};
#define MAXH 256
static struct mdev devs[MAXH];
static int ndevs;
static int g_kind;
static int g_null_entry;
static int g_nodriver;
static struct Driver mock_driver, trap_driver;

// mirrors of the observation state of the client's device (only used as part of the exploration key)
static int m_run_s, m_run_l, m_exp;

static struct mdev*
lookup(const void* block)
{
    for (int i = ndevs - 1; i >= 0; --i)
        if (devs[i].block == block)
            return &devs[i];
    return 0;
}
static int
hid(const void* block)
{
    struct mdev* d = lookup(block);
    return d ? d->id : 0;
}

static void
check_touch(void)
{
#ifndef HAL_REALLY_FREE
    for (int i = 0; i < ndevs; ++i) {
        struct mdev* d = &devs[i];
        if (d->closed && d->shadow && memcmp(d->block, d->shadow, d->size)) {
            size_t off = 0;
            while (((unsigned char*)d->block)[off] == d->shadow[off])
                off++;
            ev("{\"e\":\"Touch\",\"h\":%d,\"what\":\"write\",\"off\":%zu}", d->id, off);
            memcpy(d->shadow, d->block, d->size);
        }
    }
#endif
}

static void
mirror_drv(const char* f, int r)
{
    if (g_kind == K_CAM) {
        if (!strcmp(f, "start") && r == 0)
            m_run_s = m_run_l = 1;
        if (!strcmp(f, "stop") && r == 0)
            m_run_s = m_run_l = 0;
    } else {
        if (!strcmp(f, "set")) {
            if (r == ST_RUNNING) // neither accepting nor rejecting settings stops a running device
                m_run_l = 1;
        } else if (!strcmp(f, "start") || !strcmp(f, "append") || !strcmp(f, "stop"))
            m_run_l = (r == ST_RUNNING);
        if (!strcmp(f, "start") && r == ST_RUNNING)
            m_run_s = 1;
        if (!strcmp(f, "stop") && r != ST_RUNNING)
            m_run_s = 0;
    }
}

// a device call received by the driver
static int
drv(const char* f, const void* self, int dom, int dflt)
{
    check_touch();
    int r = answer(f, dom, dflt);
    ev("{\"e\":\"Drv\",\"f\":\"%s\",\"h\":%d,\"r\":%d}", f, hid(self), r);
    mirror_drv(f, r);
    return r;
}

// --- camera function table
static enum DeviceStatusCode
mc_set(struct Camera* c, struct CameraProperties* s)
{
    (void)s;
    return (enum DeviceStatusCode)drv("set", c, 2, 0);
}
static enum DeviceStatusCode
mc_get(const struct Camera* c, struct CameraProperties* s)
{
    (void)s;
    return (enum DeviceStatusCode)drv("get", c, 2, 0);
}
static enum DeviceStatusCode
mc_get_meta(const struct Camera* c, struct CameraPropertyMetadata* m)
{
    (void)m;
    return (enum DeviceStatusCode)drv("get_meta", c, 2, 0);
}
static enum DeviceStatusCode
mc_get_shape(const struct Camera* c, struct ImageShape* s)
{
    (void)s;
    return (enum DeviceStatusCode)drv("get_shape", c, 2, 0);
}
static enum DeviceStatusCode
mc_start(struct Camera* c)
{
    return (enum DeviceStatusCode)drv("start", c, 2, 0);
}
static enum DeviceStatusCode
mc_stop(struct Camera* c)
{
    return (enum DeviceStatusCode)drv("stop", c, 2, 0);
}
static enum DeviceStatusCode
mc_trigger(struct Camera* c)
{
    return (enum DeviceStatusCode)drv("trigger", c, 2, 0);
}
static enum DeviceStatusCode
mc_get_frame(struct Camera* c, void* im, size_t* nbytes, struct ImageInfo* info)
{
    (void)im;
    (void)info;
    int r = drv("get_frame", c, 2, 0);
    if (nbytes)
        *nbytes = 0;
    return (enum DeviceStatusCode)r;
}

// --- storage function table
static enum DeviceState
ms_set(struct Storage* s, const struct StorageProperties* p)
{
    (void)p;
    return (enum DeviceState)drv("set", s, 5, ST_ARMED);
}
static void
ms_get(const struct Storage* s, struct StorageProperties* p)
{
    (void)p;
    drv("get", s, 1, 0);
}
static void
ms_get_meta(const struct Storage* s, struct StoragePropertyMetadata* m)
{
    (void)m;
    drv("get_meta", s, 1, 0);
}
static enum DeviceState
ms_start(struct Storage* s)
{
    return (enum DeviceState)drv("start", s, 5, ST_RUNNING);
}
static enum DeviceState
ms_append(struct Storage* s, const struct VideoFrame* f, size_t* nbytes)
{
    (void)f;
    (void)nbytes;
    return (enum DeviceState)drv("append", s, 5, ST_RUNNING);
}
static enum DeviceState
ms_stop(struct Storage* s)
{
    return (enum DeviceState)drv("stop", s, 5, ST_ARMED);
}
static void
ms_destroy(struct Storage* s)
{
    drv("destroy", s, 1, 0);
}
static void
ms_reserve(struct Storage* s, const struct ImageShape* shape)
{
    (void)shape;
    drv("reserve", s, 1, 0);
}

// --- traps: what a released device's function table and driver pointer lead to
static void
trap(const void* self, const char* f)
{
    ev("{\"e\":\"Touch\",\"h\":%d,\"what\":\"vcall\",\"f\":\"%s\"}", hid(self), f);
}
#define TRAPC(name, ret, args, self)                                                                                   \
    static ret tc_##name args                                                                                          \
    {                                                                                                                  \
        trap(self, #name);                                                                                             \
        return (ret)1;                                                                                                 \
    }
TRAPC(set, enum DeviceStatusCode, (struct Camera * c, struct CameraProperties* s), c)
TRAPC(get, enum DeviceStatusCode, (const struct Camera* c, struct CameraProperties* s), c)
TRAPC(get_meta, enum DeviceStatusCode, (const struct Camera* c, struct CameraPropertyMetadata* s), c)
TRAPC(get_shape, enum DeviceStatusCode, (const struct Camera* c, struct ImageShape* s), c)
TRAPC(start, enum DeviceStatusCode, (struct Camera * c), c)
TRAPC(stop, enum DeviceStatusCode, (struct Camera * c), c)
TRAPC(trigger, enum DeviceStatusCode, (struct Camera * c), c)
TRAPC(get_frame, enum DeviceStatusCode, (struct Camera * c, void* im, size_t* n, struct ImageInfo* i), c)
TRAPC(sset, enum DeviceState, (struct Storage * c, const struct StorageProperties* s), c)
TRAPC(sstart, enum DeviceState, (struct Storage * c), c)
TRAPC(sappend, enum DeviceState, (struct Storage * c, const struct VideoFrame* f, size_t* n), c)
TRAPC(sstop, enum DeviceState, (struct Storage * c), c)
static void
tc_sget(const struct Storage* c, struct StorageProperties* s)
{
    (void)s;
    trap(c, "get");
}
static void
tc_sget_meta(const struct Storage* c, struct StoragePropertyMetadata* s)
{
    (void)s;
    trap(c, "get_meta");
}
static void
tc_sdestroy(struct Storage* c)
{
    trap(c, "destroy");
}
static void
tc_sreserve(struct Storage* c, const struct ImageShape* s)
{
    (void)s;
    trap(c, "reserve");
}
static uint32_t
td_count(struct Driver* d)
{
    (void)d;
    trap(0, "driver.device_count");
    return 0;
}
static enum DeviceStatusCode
td_describe(const struct Driver* d, struct DeviceIdentifier* id, uint64_t i)
{
    (void)d;
    (void)id;
    (void)i;
    trap(0, "driver.describe");
    return Device_Err;
}
static enum DeviceStatusCode
td_open(struct Driver* d, uint64_t i, struct Device** out)
{
    (void)d;
    (void)i;
    (void)out;
    trap(0, "driver.open");
    return Device_Err;
}
static enum DeviceStatusCode
td_close(struct Driver* d, struct Device* in)
{
    (void)d;
    trap(in, "driver.close"); // struct Device is the first member of the block
    return Device_Err;
}
static enum DeviceStatusCode
td_shutdown(struct Driver* d)
{
    (void)d;
    trap(0, "driver.shutdown");
    return Device_Err;
}

static void
poison(struct mdev* d)
{
    memset(d->block, 0xdb, d->size);
    if (g_kind == K_CAM) {
        struct Camera* c = (struct Camera*)d->block;
        c->device.driver = &trap_driver;
        c->state = (enum DeviceState)POISON_STATE;
        c->set = tc_set;
        c->get = tc_get;
        c->get_meta = tc_get_meta;
        c->get_shape = tc_get_shape;
        c->start = tc_start;
        c->stop = tc_stop;
        c->execute_trigger = tc_trigger;
        c->get_frame = tc_get_frame;
    } else {
        struct Storage* s = (struct Storage*)d->block;
        s->device.driver = &trap_driver;
        s->state = (enum DeviceState)POISON_STATE;
        s->set = tc_sset;
        s->get = tc_sget;
        s->get_meta = tc_sget_meta;
        s->start = tc_sstart;
        s->append = tc_sappend;
        s->stop = tc_sstop;
        s->destroy = tc_sdestroy;
        s->reserve_image_shape = tc_sreserve;
    }
    d->shadow = (unsigned char*)malloc(d->size);
    memcpy(d->shadow, d->block, d->size);
}

// --- the driver
static uint32_t
md_count(struct Driver* d)
{
    (void)d;
    return 1;
}
static enum DeviceStatusCode
md_describe(const struct Driver* d, struct DeviceIdentifier* id, uint64_t i)
{
    (void)d;
    check_touch();
    int r = answer("describe", 2, 0);
    // (outside scripted replays, where the model dictates every answer:) a driver that describes the device it just opened as
    // being of the other kind - a stale identifier, a re-enumeration between select and open
    int other = (ans_src != SRC_SCRIPT && r == 0) ? answer("describe_kind", 2, 0) : 0;
    ev("{\"e\":\"Drv\",\"f\":\"describe\",\"h\":0,\"r\":%d}", r);
    if (id) {
        memset(id, 0, sizeof *id);
        id->device_id = (uint8_t)i;
        id->kind = ((g_kind == K_CAM) != (other != 0)) ? DeviceKind_Camera : DeviceKind_Storage;
        snprintf(id->name, sizeof id->name, "mock %s", g_kind == K_CAM ? "camera" : "storage");
    }
    return (enum DeviceStatusCode)r;
}
static enum DeviceStatusCode
md_open(struct Driver* drvr, uint64_t device_id, struct Device** out)
{
    (void)drvr;
    (void)device_id;
    check_touch();
    int r = answer("open", 3, 0);
    if (r == 0 && ndevs < MAXH) {
        struct mdev* d = &devs[ndevs];
        memset(d, 0, sizeof *d);
        d->id = ndevs + 1;
        if (g_kind == K_CAM) {
            struct Camera* c = (struct Camera*)calloc(1, sizeof *c);
            c->state = DeviceState_AwaitingConfiguration;
            c->set = mc_set;
            c->get = mc_get;
            c->get_shape = mc_get_shape;
            c->get_meta = mc_get_meta;
            c->start = mc_start;
            c->stop = mc_stop;
            c->execute_trigger = mc_trigger;
            c->get_frame = mc_get_frame;
            switch (g_null_entry) {
                case 1: c->set = 0; break;
                case 2: c->get = 0; break;
                case 3: c->get_shape = 0; break;
                case 4: c->get_meta = 0; break;
                case 5: c->start = 0; break;
                case 6: c->stop = 0; break;
                case 7: c->execute_trigger = 0; break;
                case 8: c->get_frame = 0; break;
            }
            d->block = c;
            d->size = sizeof *c;
            *out = &c->device;
        } else {
            struct Storage* s = (struct Storage*)calloc(1, sizeof *s);
            s->state = DeviceState_AwaitingConfiguration;
            s->set = ms_set;
            s->get = ms_get;
            s->get_meta = ms_get_meta;
            s->start = ms_start;
            s->append = ms_append;
            s->stop = ms_stop;
            s->destroy = ms_destroy;
            s->reserve_image_shape = ms_reserve;
            switch (g_null_entry) {
                case 1: s->set = 0; break;
                case 2: s->get = 0; break;
                case 3: s->get_meta = 0; break;
                case 4: s->start = 0; break;
                case 5: s->append = 0; break;
                case 6: s->stop = 0; break;
                case 7: s->destroy = 0; break;
                case 8: s->reserve_image_shape = 0; break;
            }
            d->block = s;
            d->size = sizeof *s;
            *out = &s->device;
        }
        ndevs++;
        m_run_s = m_run_l = 0;
        m_exp = ST_AWAIT;
        ev("{\"e\":\"Drv\",\"f\":\"open\",\"h\":%d,\"r\":0,\"st0\":%d}", d->id, ST_AWAIT);
        return Device_Ok;
    }
    ev("{\"e\":\"Drv\",\"f\":\"open\",\"h\":0,\"r\":%d}", r);
    if (r == 2) {
        *out = 0;
        return Device_Ok;
    }
    // (outside scripted replays:) a driver whose open fails after it has stored a pointer in *out - a unit found busy, an
    // allocation released again on an init error. Nothing was opened: any call the HAL makes with that pointer reaches
    // the driver as a call on a device it does not know (h = 0).
    if (ans_src != SRC_SCRIPT && out && answer("open_writes_out", 2, 0)) {
        static union { struct Camera c; struct Storage s; } never_opened;
        memset(&never_opened, 0, sizeof never_opened);
        *out = g_kind == K_CAM ? &never_opened.c.device : &never_opened.s.device;
    }
    return Device_Err;
}
static enum DeviceStatusCode
md_close(struct Driver* drvr, struct Device* in)
{
    (void)drvr;
    check_touch();
    int r = answer("close", 2, 0);
    struct mdev* d = lookup(in); // struct Device is the first member of the block
    ev("{\"e\":\"Drv\",\"f\":\"close\",\"h\":%d,\"r\":%d}", d ? d->id : 0, r);
    if (d && !d->closed) {
        d->closed = 1;
#ifdef HAL_REALLY_FREE
        free(d->block); // d->block keeps the stale address for lookups only
#else
        poison(d);
#endif
    }
    return (enum DeviceStatusCode)r;
}
static enum DeviceStatusCode
md_shutdown(struct Driver* d)
{
    (void)d;
    return Device_Ok;
}

// the seam towards the device manager
struct Driver*
device_manager_get_driver(const struct DeviceManager* self, const struct DeviceIdentifier* identifier)
{
    (void)self;
    (void)identifier;
    return g_nodriver ? 0 : &mock_driver;
}

// ------------------------------------------------------------------------------------------------ the client
static struct Camera* cam;
static struct Storage* sto;
static int cur_h;  // handle id of the client's device
static int n_open; // open attempts in this execution

static void
new_execution(int kind)
{
    for (int i = 0; i < ndevs; ++i) {
#ifndef HAL_REALLY_FREE
        free(devs[i].block);
        free(devs[i].shadow);
#else
        if (!devs[i].closed)
            free(devs[i].block);
#endif
    }
    ndevs = 0;
    g_kind = kind;
    cam = 0;
    sto = 0;
    cur_h = 0;
    n_open = 0;
    m_run_s = m_run_l = 0;
    m_exp = 0;
    ev("{\"e\":\"Reset\",\"kind\":\"%s\"}", kind == K_CAM ? "camera" : "storage");
}
static void
end_execution(void)
{
    check_touch();
    ev("{\"e\":\"End\"}");
}
static int
has_dev(void)
{
    return g_kind == K_CAM ? cam != 0 : sto != 0;
}
static int
reported_state(void)
{
    if (g_kind == K_CAM)
        return cam ? (int)camera_get_state(cam) : -1;
    return sto ? (int)storage_get_state(sto) : -1;
}

static void
mirror_ret(const char* f, int st)
{
    (void)f;
    m_exp = st; // the observation spec takes the reported state as the baseline for the next call
}

// one HAL call; returns 0, or -1 if the call cannot be made in the present situation (script error)
static int
hal_call(const char* f, int a, int* rc_out, int* st_out)
{
    static struct CameraProperties cprops;
    static struct CameraPropertyMetadata cmeta;
    static struct StorageProperties sprops;
    static struct StoragePropertyMetadata smeta;
    static struct ImageShape shape;
    static struct ImageInfo info;
    static struct DeviceIdentifier ident;
    static uint64_t fbuf[64];
    int rc = 0, h = cur_h;
    const int nullself = a == A_NULLSELF, nullarg = a == A_NULLARG;
    const int isopen = !strcmp(f, "open");
    if (isopen ? has_dev() : (!nullself && !has_dev()))
        return -1;
    struct Camera* c = nullself ? 0 : cam;
    struct Storage* s = nullself ? 0 : sto;
    if (nullself)
        h = 0;
    ncalls = 0;
    ev("{\"e\":\"Hal\",\"f\":\"%s\",\"a\":%d}", f, a);
    if (isopen) {
        n_open++;
        g_nodriver = a == A_NODRIVER;
        g_null_entry = a > 0 ? a : 0;
        memset(&ident, 0, sizeof ident);
        ident.kind = g_kind == K_CAM ? DeviceKind_Camera : DeviceKind_Storage;
        if (g_kind == K_CAM) {
            cam = camera_open(0, &ident);
            rc = cam ? 0 : 1;
            h = cur_h = cam ? hid(cam) : 0;
        } else {
            sto = storage_open(0, &ident);
            rc = sto ? 0 : 1;
            h = cur_h = sto ? hid(sto) : 0;
        }
        g_nodriver = 0;
        g_null_entry = 0;
    } else if (!strcmp(f, "close")) {
        if (g_kind == K_CAM)
            camera_close(c);
        else
            storage_close(s);
        if (!nullself) {
            cam = 0;
            sto = 0;
            cur_h = 0;
        }
    } else if (!strcmp(f, "get_state")) {
        rc = g_kind == K_CAM ? (int)camera_get_state(c) : (int)storage_get_state(s);
    } else if (g_kind == K_CAM) {
        if (!strcmp(f, "set")) {
            memset(&cprops, 0, sizeof cprops);
            rc = camera_set(c, nullarg ? 0 : &cprops);
        } else if (!strcmp(f, "get"))
            rc = camera_get(c, nullarg ? 0 : &cprops);
        else if (!strcmp(f, "get_meta"))
            rc = camera_get_meta(c, nullarg ? 0 : &cmeta);
        else if (!strcmp(f, "get_shape"))
            rc = camera_get_image_shape(c, nullarg ? 0 : &shape);
        else if (!strcmp(f, "start"))
            rc = camera_start(c);
        else if (!strcmp(f, "stop"))
            rc = camera_stop(c);
        else if (!strcmp(f, "trigger"))
            rc = camera_execute_trigger(c);
        else if (!strcmp(f, "get_frame")) {
            size_t nbytes = sizeof fbuf;
            rc = camera_get_frame(c, fbuf, &nbytes, &info);
        } else
            return -1;
    } else {
        if (!strcmp(f, "set")) {
            memset(&sprops, 0, sizeof sprops);
            rc = storage_set(s, nullarg ? 0 : &sprops);
        } else if (!strcmp(f, "get"))
            rc = storage_get(s, &sprops);
        else if (!strcmp(f, "get_meta"))
            rc = storage_get_meta(s, &smeta);
        else if (!strcmp(f, "start"))
            rc = storage_start(s);
        else if (!strcmp(f, "stop"))
            rc = storage_stop(s);
        else if (!strcmp(f, "append")) {
            const struct VideoFrame* beg = (const struct VideoFrame*)fbuf;
            const struct VideoFrame* end = (const struct VideoFrame*)(fbuf + 32);
            if (a == A_EMPTY)
                end = beg;
            else if (a == A_REVERSED) {
                const struct VideoFrame* t = beg;
                beg = end;
                end = t;
            }
            rc = storage_append(s, beg, end);
        } else if (!strcmp(f, "reserve"))
            rc = storage_reserve_image_shape(s, &shape);
        else
            return -1;
    }
    check_touch();
    int st = reported_state(); // of the client's device, also after a call that was given a NULL device
    if (!nullself && has_dev())
        mirror_ret(f, st);
    ev("{\"e\":\"Ret\",\"f\":\"%s\",\"rc\":%d,\"st\":%d,\"h\":%d}", f, rc, st, h);
    *rc_out = rc;
    *st_out = st;
    return 0;
}

// ------------------------------------------------------------------------------------------------ replay
static long n_scripts, n_steps, n_mismatch;
static int no_compare; // `script` mode: run the history, record the trace, expect nothing
static void
mismatch(const char* id, int step, const char* line, const char* what, const char* expd, const char* got)
{
    if (no_compare)
        return;
    n_mismatch++;
    if (n_mismatch <= 40)
        printf("MISMATCH script=%s step=%d what=%s expected=[%s] got=[%s] call=[%s]\n", id, step, what, expd, got, line);
}

// one script line `C f a | answers | expected driver calls | rc st`: make the call, compare. -1: malformed,
// 1: the call cannot be made in the present situation, 0: done
static int
exec_line(const char* text, const char* id, int step)
{
    char line[1024];
    snprintf(line, sizeof line, "%s", text);
    char* sec[4] = { 0, 0, 0, 0 };
    int ns = 0;
    char* p = line + 1;
    sec[ns++] = p;
    while ((p = strchr(p, '|')) && ns < 4) {
        *p++ = 0;
        sec[ns++] = p;
    }
    if (ns != 4)
        return -1;
    char fn[32];
    int a = 0, erc = 0, est = 0;
    if (sscanf(sec[0], "%31s %d", fn, &a) != 2 || sscanf(sec[3], "%d %d", &erc, &est) != 2)
        return -1;
    rqn = rqi = 0;
    for (char* t = strtok(sec[1], " "); t && rqn < 16; t = strtok(0, " "))
        rq[rqn++] = atoi(t);
    char ecalls[256] = "";
    for (char* t = strtok(sec[2], " "); t; t = strtok(0, " ")) {
        if (ecalls[0])
            strcat(ecalls, " ");
        strncat(ecalls, t, sizeof ecalls - strlen(ecalls) - 2);
    }
    unscripted = 0;
    ans_src = SRC_SCRIPT;
    int rc, st;
    n_steps++;
    if (hal_call(fn, a, &rc, &st)) {
        mismatch(id, step, text, "not-callable", "", "");
        return 1;
    }
    if (no_compare)
        return 0;
    char gcalls[256] = "";
    for (int i = 0; i < ncalls; ++i) {
        if (i)
            strcat(gcalls, " ");
        strcat(gcalls, calls[i]);
    }
    char eb[64], gb[64];
    if (strcmp(gcalls, ecalls) || unscripted || rqi != rqn)
        mismatch(id, step, text, "driver-calls", ecalls, gcalls);
    if (rc != erc) {
        snprintf(eb, sizeof eb, "%d", erc);
        snprintf(gb, sizeof gb, "%d", rc);
        mismatch(id, step, text, "return-code", eb, gb);
    }
    if (st != est) {
        snprintf(eb, sizeof eb, "%d", est);
        snprintf(gb, sizeof gb, "%d", st);
        mismatch(id, step, text, "hal-state", eb, gb);
    }
    return 0;
}

static int
replay(const char* path)
{
    FILE* f = fopen(path, "r");
    if (!f) {
        fprintf(stderr, "cannot open %s\n", path);
        return 2;
    }
    char line[1024], id[64] = "";
    int step = 0, active = 0;
    while (fgets(line, sizeof line, f)) {
        line[strcspn(line, "\n")] = 0;
        if (line[0] == 'R') {
            char kind[32];
            if (sscanf(line, "R %31s %63s", kind, id) != 2)
                return 2;
            new_execution(!strcmp(kind, "camera") ? K_CAM : K_STO);
            n_scripts++;
            step = 0;
            active = 1;
        } else if (line[0] == 'E') {
            if (active)
                end_execution();
            active = 0;
        } else if (line[0] == 'C' && active) {
            int r = exec_line(line, id, ++step);
            if (r < 0)
                return 2;
            if (r > 0) { // the rest of this history makes no sense
                active = 0;
                end_execution();
            }
        }
    }
    fclose(f);
    return 0;
}

// ------------------------------------------------------------------------------------------------ walk
// All histories of the model graph up to a depth: edges file lines `<src> <dst> C f a | answers | calls | rc st`
// (state 0 is the initial one). Every maximal path of at most `depth` edges is replayed from a fresh device
// and compared call by call.
struct wedge
{
    int src, dst;
    char* line;
};
static struct wedge* W;
static int nW;
static int* wfirst; // edges sorted by src: wfirst[s]..wfirst[s+1]
static int wpath[64];
static int wkind;
static long n_leaves;

static void
walk_run(int n)
{
    char id[32];
    snprintf(id, sizeof id, "w%ld", n_leaves);
    new_execution(wkind);
    n_scripts++;
    for (int i = 0; i < n; ++i)
        if (exec_line(W[wpath[i]].line, id, i + 1))
            break;
    end_execution();
    n_leaves++;
}
static void
walk_dfs(int state, int n, int depth)
{
    int b = wfirst[state], e = wfirst[state + 1];
    if (n == depth || b == e) {
        if (n > 0)
            walk_run(n);
        return;
    }
    for (int i = b; i < e; ++i) {
        wpath[n] = i;
        walk_dfs(W[i].dst, n + 1, depth);
    }
}
static int
cmp_wedge(const void* a, const void* b)
{
    const struct wedge *x = (const struct wedge*)a, *y = (const struct wedge*)b;
    return x->src != y->src ? x->src - y->src : (x->line < y->line ? -1 : x->line > y->line);
}
static int
walk(const char* path, int kind, int depth)
{
    FILE* f = fopen(path, "r");
    if (!f)
        return 2;
    char line[1024];
    int cap = 0, nstates = 0;
    while (fgets(line, sizeof line, f)) {
        line[strcspn(line, "\n")] = 0;
        int s, d, off = 0;
        if (sscanf(line, "%d %d %n", &s, &d, &off) < 2 || line[off] != 'C')
            return 2;
        if (nW == cap) {
            cap = cap ? cap * 2 : 1024;
            W = (struct wedge*)realloc(W, (size_t)cap * sizeof *W);
        }
        W[nW].src = s;
        W[nW].dst = d;
        W[nW].line = strdup(line + off);
        nW++;
        if (s >= nstates)
            nstates = s + 1;
        if (d >= nstates)
            nstates = d + 1;
    }
    fclose(f);
    qsort(W, (size_t)nW, sizeof *W, cmp_wedge);
    wfirst = (int*)calloc((size_t)nstates + 2, sizeof(int));
    for (int i = 0; i < nW; ++i)
        wfirst[W[i].src + 1]++;
    for (int s = 0; s <= nstates; ++s)
        wfirst[s + 1] += wfirst[s];
    wkind = kind;
    if (depth > 60)
        depth = 60;
    walk_dfs(0, 0, depth);
    return 0;
}

// ------------------------------------------------------------------------------------------------ actions
struct action
{
    const char* f;
    int a;
};
static const struct action CAM_ACTS[] = {
    { "open", -1 }, { "open", 0 }, { "open", 1 }, { "open", 2 }, { "open", 3 }, { "open", 4 }, { "open", 5 },
    { "open", 6 }, { "open", 7 }, { "open", 8 }, { "set", 0 }, { "set", -8 }, { "set", -9 }, { "get", 0 },
    { "get", -8 }, { "get", -9 }, { "get_meta", 0 }, { "get_meta", -8 }, { "get_meta", -9 }, { "get_shape", 0 },
    { "get_shape", -8 }, { "get_shape", -9 }, { "start", 0 }, { "start", -9 }, { "stop", 0 }, { "stop", -9 },
    { "trigger", 0 }, { "trigger", -9 }, { "get_frame", 0 }, { "get_frame", -9 }, { "close", 0 }, { "close", -9 },
    { "get_state", 0 }, { "get_state", -9 },
};
static const struct action STO_ACTS[] = {
    { "open", -1 }, { "open", 0 }, { "open", 1 }, { "open", 2 }, { "open", 3 }, { "open", 4 }, { "open", 5 },
    { "open", 6 }, { "open", 7 }, { "open", 8 }, { "set", 0 }, { "set", -8 }, { "set", -9 }, { "get", 0 },
    { "get", -9 }, { "get_meta", 0 }, { "get_meta", -9 }, { "start", 0 }, { "start", -9 }, { "stop", 0 },
    { "stop", -9 }, { "append", 0 }, { "append", 1 }, { "append", 2 }, { "append", -9 }, { "reserve", 0 },
    { "reserve", -9 }, { "close", 0 }, { "close", -9 }, { "get_state", 0 }, { "get_state", -9 },
};
#define NACTS(k) ((k) == K_CAM ? (int)(sizeof CAM_ACTS / sizeof *CAM_ACTS) : (int)(sizeof STO_ACTS / sizeof *STO_ACTS))
#define ACT(k, i) ((k) == K_CAM ? CAM_ACTS[i] : STO_ACTS[i])

static int
applicable(const struct action* ac, int maxopens)
{
    if (!strcmp(ac->f, "open"))
        return !has_dev() && n_open < maxopens;
    return ac->a == A_NULLSELF || has_dev();
}

// ------------------------------------------------------------------------------------------------ explore
#define MAXDEPTH 16
struct step
{
    int act;
    int nr;
    int rs[8];
};
struct path
{
    int n;
    struct step s[MAXDEPTH];
};

static void
state_key(char* buf, size_t n)
{
    int leaked = 0;
    for (int i = 0; i < ndevs; ++i)
        if (!devs[i].closed && devs[i].id != cur_h)
            leaked++;
    snprintf(buf, n, "%d/%d/%d/%d/%d/%d/%d", has_dev(), reported_state(), m_run_s, m_run_l, has_dev() ? m_exp : 0,
             n_open, leaked);
}

static int
explore(int kind, int maxdepth, int maxopens)
{
    size_t qcap = 1024, qn = 0, qh = 0, nkeys = 0, kcap = 1024;
    struct path* q = (struct path*)malloc(qcap * sizeof *q);
    char(*keys)[48] = (char(*)[48])malloc(kcap * 48);
    long transitions = 0, maxlen = 0;
    q[qn++].n = 0;
    new_execution(kind);
    state_key(keys[nkeys++], 48);
    end_execution();
    while (qh < qn) {
        struct path cur = q[qh++];
        for (int ai = 0; ai < NACTS(kind); ++ai) {
            struct action ac = ACT(kind, ai);
            cdepth = 0;
            do {
                int rc, st, ok = 1;
                new_execution(kind);
                ans_src = SRC_SCRIPT;
                for (int i = 0; i < cur.n && ok; ++i) {
                    struct action pa = ACT(kind, cur.s[i].act);
                    rqn = cur.s[i].nr;
                    rqi = 0;
                    memcpy(rq, cur.s[i].rs, sizeof(int) * (size_t)rqn);
                    ok = hal_call(pa.f, pa.a, &rc, &st) == 0;
                }
                if (!ok || !applicable(&ac, maxopens)) {
                    end_execution();
                    break;
                }
                ans_src = SRC_ORACLE;
                cpos = 0;
                hal_call(ac.f, ac.a, &rc, &st);
                ans_src = SRC_SCRIPT;
                end_execution();
                transitions++;
                if (cur.n + 1 > maxlen)
                    maxlen = cur.n + 1;
                char key[48];
                state_key(key, sizeof key);
                int seen = 0;
                for (size_t k = 0; k < nkeys && !seen; ++k)
                    seen = !strcmp(keys[k], key);
                if (!seen) {
                    if (nkeys == kcap) {
                        kcap *= 2;
                        keys = (char(*)[48])realloc(keys, kcap * 48);
                    }
                    memcpy(keys[nkeys++], key, 48);
                    if (cur.n + 1 < maxdepth && cur.n + 1 < MAXDEPTH) {
                        if (qn == qcap) {
                            qcap *= 2;
                            q = (struct path*)realloc(q, qcap * sizeof *q);
                        }
                        q[qn] = cur;
                        struct step* s = &q[qn].s[cur.n];
                        s->act = ai;
                        s->nr = ncalls < 8 ? ncalls : 8;
                        for (int i = 0; i < s->nr; ++i)
                            s->rs[i] = answers[i];
                        q[qn].n = cur.n + 1;
                        qn++;
                    }
                }
            } while (choice_advance());
        }
    }
    printf("{\"kind\":\"%s\",\"states\":%zu,\"transitions\":%ld,\"longest_history\":%ld,\"events\":%ld}\n",
           kind == K_CAM ? "camera" : "storage", nkeys, transitions, maxlen, nevents);
    free(q);
    free(keys);
    return 0;
}

// ------------------------------------------------------------------------------------------------ random
static int
random_histories(unsigned long long seed, long n, int len)
{
    rng ^= seed * 0x9E3779B97F4A7C15ULL + 1;
    long calls_made = 0;
    for (long i = 0; i < n; ++i) {
        int kind = (int)rnd(2);
        new_execution(kind);
        for (int k = 0; k < len; ++k) {
            struct action ac;
            int tries = 0;
            do {
                ac = ACT(kind, (int)rnd((unsigned)NACTS(kind)));
            } while ((!applicable(&ac, 6) || (ac.a == A_NULLSELF && rnd(4))) && ++tries < 200);
            if (tries >= 200)
                break;
            int rc, st;
            ans_src = SRC_RANDOM;
            hal_call(ac.f, ac.a, &rc, &st);
            calls_made++;
        }
        end_execution();
    }
    printf("{\"histories\":%ld,\"calls\":%ld,\"events\":%ld}\n", n, calls_made, nevents);
    return 0;
}

int
main(int argc, char** argv)
{
    mock_driver.device_count = md_count;
    mock_driver.describe = md_describe;
    mock_driver.open = md_open;
    mock_driver.close = md_close;
    mock_driver.shutdown = md_shutdown;
    trap_driver.device_count = td_count;
    trap_driver.describe = td_describe;
    trap_driver.open = td_open;
    trap_driver.close = td_close;
    trap_driver.shutdown = td_shutdown;
    if (argc < 2)
        return 2;
    const char* out = argv[argc - 1];
    ev_off = !strcmp(out, "-");
    EVF = fopen(ev_off ? "/dev/null" : out, "w");
    if (!EVF)
        return 2;
    static char iobuf[1 << 20];
    setvbuf(EVF, iobuf, _IOFBF, sizeof iobuf);
    int rc = 2;
    no_compare = !strcmp(argv[1], "script");
    if ((!strcmp(argv[1], "replay") || no_compare) && argc == 4) {
        rc = replay(argv[2]);
        printf("{\"scripts\":%ld,\"steps\":%ld,\"mismatches\":%ld,\"events\":%ld}\n", n_scripts, n_steps, n_mismatch,
               nevents);
    } else if (!strcmp(argv[1], "walk") && argc == 6) {
        rc = walk(argv[2], !strcmp(argv[3], "camera") ? K_CAM : K_STO, atoi(argv[4]));
        printf("{\"histories\":%ld,\"steps\":%ld,\"mismatches\":%ld,\"events\":%ld}\n", n_leaves, n_steps, n_mismatch,
               nevents);
    } else if (!strcmp(argv[1], "explore") && argc == 6) {
        rc = explore(!strcmp(argv[2], "camera") ? K_CAM : K_STO, atoi(argv[3]), atoi(argv[4]));
    } else if (!strcmp(argv[1], "random") && argc == 6) {
        rc = random_histories(strtoull(argv[2], 0, 10), atol(argv[3]), atoi(argv[4]));
    }
    fclose(EVF);
    return rc;
}
