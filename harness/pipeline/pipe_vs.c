// The real runtime (acquire.c, source.c, sink.c, filter.c, channel.c, HAL, device manager) under the
// deterministic scheduler with a scriptable mock driver. Records observation events (PipelineObs).
//
//   pipe_vs <config>
//
// config lines (see tools/chk_pipeline.py for the generators):
//   seed N | strategy random|pct|starve|rr | pct_depth D | starve T K | budget N | spurious K
//   cap BYTES | fill 0|1 | streams 1|2
//   stream S frames N w W h H type u8|u16|i8|i16|u10|u12|u14|f32 avg K delay_ms D trigger 0|1 camfail I stofail J slow K pace P zero Z
//   prog OP...      OP = start | stop | abort | map S | unmap S K | trigger S | state | yield K | waitstor S N | configure
//   aborter DELAY abort|stop
//   schedule T... | out FILE
#define _GNU_SOURCE
#include "acquire.h"
#include "device/hal/device.manager.h"
#include "device/kit/driver.h"
#include "device/kit/camera.h"
#include "device/kit/storage.h"
#include "device/props/components.h"
#include "runtime/channel.h"
#include "vsched.h"
#include <stdio.h>
#include <stdlib.h>
#include <string.h>
#include <stdarg.h>
#include <unistd.h>
#include <math.h>

#define containerof(P, T, F) ((T*)(((char*)(P)) - offsetof(T, F)))
#define MAXS 2
#define MAXF 4096

// ---------------------------------------------------------------------------------------- configuration
static struct scfg
{
    long frames;
    uint32_t w, h;
    enum SampleType type;
    int avg;
    float delay_ms;
    int trigger;
    long camfail, stofail;
    long shapefail; // the camera's get_shape fails when frame `shapefail` is next (first acquisition only), -1 = never
    long flip_at;       // from hardware frame `flip_at` on the camera has another region of interest (fw x fh), -1 = never
    uint32_t fw, fh;
    int vary; // the shape reported WITH a frame differs from get_shape on odd frames (same bytes: dims swapped, u16-family type varied)
    long setfail_at, setfail_n; // the camera's set fails on its calls number setfail_at .. setfail_at+setfail_n-1 (counted per camera), -1 = never
    int slow, pace;
    int camstop; // the camera's stop takes this many extra scheduling steps (a real camera's stop may block for a while)
    int zero_at; // camera returns "no data" (nbytes 0) once at this frame index (>=0)
    int hwgap_at; // the camera's own frame counter skips one id before this frame index (a frame the camera dropped), every acquisition
} SC[MAXS];
static int nstreams = 1;
static size_t ring_cap = 300;
static int ring_fill = 0;
static char outpath[512] = "pipe.ndjson";
static char prog[2048][24];
static int nprog = 0;
static int aborter_delay = -1;
static char aborter_op[16] = "abort";
static int sched_in[1 << 16];
static long nsched_in = 0;

// ---------------------------------------------------------------------------------------- event log
static char* EVB;
static size_t evcap = 0, evlen = 0;
static long nevents = 0;
static void
ev(const char* fmt, ...)
{
    if (evlen + 8192 > evcap) {
        evcap = evcap ? evcap * 2 : (1 << 20);
        EVB = (char*)realloc(EVB, evcap);
    }
    va_list ap;
    va_start(ap, fmt);
    int n = vsnprintf(EVB + evlen, evcap - evlen - 2, fmt, ap);
    va_end(ap);
    if (n < 0)
        return;
    evlen += (size_t)n;
    EVB[evlen++] = '\n';
    nevents++;
}

static void
flush_trace(void)
{
    FILE* f = fopen(outpath, "w");
    if (!f)
        _exit(2);
    fwrite(EVB, 1, evlen, f);
    const int* ids;
    long n = vs_schedule(&ids, 0);
    fprintf(f, "{\"e\":\"Sched\",\"ids\":[");
    for (long i = 0; i < n && i < 60000; i++)
        fprintf(f, "%s%d", i ? "," : "", ids[i]);
    fprintf(f, "]}\n");
    fclose(f);
}

#include <signal.h>
#include <fcntl.h>
// A crash of the code under test (SIGSEGV/SIGBUS/SIGABRT/SIGFPE) is recorded as an event; the trace so far is kept.
static void
on_crash(int sig)
{
    char tail[96];
    int n = snprintf(tail, sizeof tail, "{\"e\":\"Crash\",\"sig\":%d}\n", sig);
    int fd = open(outpath, O_WRONLY | O_CREAT | O_TRUNC, 0644);
    if (fd >= 0) {
        ssize_t w = write(fd, EVB, evlen);
        w = write(fd, tail, (size_t)n);
        (void)w;
        close(fd);
    }
    _exit(0);
}

static const char* pending_api = "";
static void
on_hang(const char* kind)
{
    char b[2048];
    int n = snprintf(b, sizeof b, "{\"e\":\"Hang\",\"kind\":\"%s\",\"api\":\"%s\",\"threads\":[", kind, pending_api);
    for (int i = 0; i < vs_nthreads(); i++)
        n += snprintf(b + n, sizeof b - n, "%s\"%s:%s\"", i ? "," : "", vs_name(i), vs_status(i));
    snprintf(b + n, sizeof b - n, "]}");
    ev("%s", b);
    flush_trace();
    _exit(0);
}

static void
thread_hook(int t, const char* name, int is_exit)
{
    (void)t;
    if (strncmp(name, "sink", 4) && strncmp(name, "filter", 6) && strncmp(name, "source", 6))
        return; // only the runtime's worker threads are observed
    ev("{\"e\":\"%s\",\"name\":\"%s\"}", is_exit ? "ThreadExit" : "ThreadStart", name);
}

// ---------------------------------------------------------------------------------------- payload
static int epoch = 0; // acquisition counter (incremented at every start call)
static inline uint8_t
pix(int s, int e, uint64_t hw, size_t i)
{
    return (uint8_t)(hw * 31 + i * 7 + (uint64_t)s * 101 + (uint64_t)e * 53 + 1);
}
static unsigned
tag_of(const uint8_t* p, size_t n)
{
    uint32_t h = 2166136261u;
    for (size_t i = 0; i < n; i++) {
        h ^= p[i];
        h *= 16777619u;
    }
    return h & 0x3fffffff;
}
#define CLIP(x, m) ((uint64_t)(x) > (uint64_t)(m) ? (uint64_t)(m) : (uint64_t)(x))
static const char*
tyname(enum SampleType t)
{
    switch (t) {
        case SampleType_u8: return "u8";
        case SampleType_u16: return "u16";
        case SampleType_i8: return "i8";
        case SampleType_i16: return "i16";
        case SampleType_f32: return "f32";
        case SampleType_u10: return "u10";
        case SampleType_u12: return "u12";
        case SampleType_u14: return "u14";
        default: return "other";
    }
}
static double
sample_at(const uint8_t* base, enum SampleType t, size_t i)
{
    switch (t) {
        case SampleType_u8: return (double)base[i];
        case SampleType_i8: return (double)((const int8_t*)base)[i];
        case SampleType_u10:
        case SampleType_u12:
        case SampleType_u14:
        case SampleType_u16: return (double)((const uint16_t*)base)[i];
        case SampleType_i16: return (double)((const int16_t*)base)[i];
        default: return 0;
    }
}

// ---------------------------------------------------------------------------------------- mock driver
static int next_handle = 1;
struct MCam
{
    struct Camera cam;
    int h;
    struct CameraProperties props;
    struct ImageShape shape;
    int s;
    uint64_t next_hw;
    long triggers;
    int running;
    int zero_done;
    int gaps;
};
struct MSto
{
    struct Storage sto;
    int h;
    int s;
    int running;
    long nappend;
    long nframes;
};
static int trig_obj[MAXS];
static long stor_count[MAXS];
static int sto_busy[MAXS + 2]; // handle of the running instance per storage device, 0 = none

static enum DeviceStatusCode
c_set(struct Camera* c, struct CameraProperties* p)
{
    struct MCam* m = containerof(c, struct MCam, cam);
    ev("{\"e\":\"DevUse\",\"kind\":\"cam\",\"hd\":%d,\"call\":\"set\"}", m->h);
    // (only a camera that is not running rejects settings here: a rejection while it runs makes the HAL stop it from the
    // client's thread while the source thread is using it - a device fault during acquisition, which is C09's domain)
    static long nset[MAXS];
    long k = (m->running || c->state == DeviceState_Running) ? -1 : nset[m->s]++; // (also not while the HAL still says Running)
    if (SC[m->s].setfail_at >= 0 && k >= SC[m->s].setfail_at && k < SC[m->s].setfail_at + SC[m->s].setfail_n) {
        ev("{\"e\":\"CamSetFail\",\"s\":%d,\"hd\":%d}", m->s, m->h);
        return Device_Err; // settings rejected (nothing applied)
    }
    m->props = *p;
    uint32_t w = SC[m->s].w, h = SC[m->s].h;
    m->props.shape.x = w;
    m->props.shape.y = h;
    m->props.pixel_type = SC[m->s].type;
    m->shape = (struct ImageShape){ .dims = { 1, w, h, 1 }, .strides = { 1, 1, w, (int64_t)w * h }, .type = SC[m->s].type };
    return Device_Ok;
}
static enum DeviceStatusCode
c_get(const struct Camera* c, struct CameraProperties* p)
{
    ev("{\"e\":\"DevUse\",\"kind\":\"cam\",\"hd\":%d,\"call\":\"get\"}", containerof(c, struct MCam, cam)->h);
    *p = containerof(c, struct MCam, cam)->props;
    return Device_Ok;
}
static enum DeviceStatusCode
c_meta(const struct Camera* c, struct CameraPropertyMetadata* m)
{
    ev("{\"e\":\"DevUse\",\"kind\":\"cam\",\"hd\":%d,\"call\":\"get_meta\"}", containerof(c, struct MCam, cam)->h);
    memset(m, 0, sizeof *m);
    return Device_Ok;
}
// the camera's shape for the frame that comes next (a camera may change its region of interest in mid-stream: the source asks
// for the shape before every frame)
static struct ImageShape
cur_shape(const struct MCam* m)
{
    struct ImageShape sh = m->shape;
    if (m->running && epoch == 1 && SC[m->s].flip_at >= 0 && (long)m->next_hw >= SC[m->s].flip_at) {
        sh.dims.width = SC[m->s].fw;
        sh.dims.height = SC[m->s].fh;
        sh.strides = (typeof(sh.strides)){ 1, 1, (int64_t)SC[m->s].fw, (int64_t)SC[m->s].fw * SC[m->s].fh };
    }
    return sh;
}
static enum DeviceStatusCode
c_shape(const struct Camera* c, struct ImageShape* s)
{
    struct MCam* m = containerof(c, struct MCam, cam);
    if (!m->running) // (while running the source asks before every frame: CamFrame events already show the device in use)
        ev("{\"e\":\"DevUse\",\"kind\":\"cam\",\"hd\":%d,\"call\":\"get_shape\"}", m->h);
    *s = cur_shape(m);
    if (m->running && epoch == 1 && SC[m->s].shapefail >= 0 && (long)m->next_hw == SC[m->s].shapefail) {
        ev("{\"e\":\"CamFail\",\"s\":%d,\"hw\":%ld,\"call\":\"get_shape\"}", m->s, (long)m->next_hw);
        vs_yield("cam_shape");
        return Device_Err;
    }
    vs_yield("cam_shape"); // (the source's loop asks for the shape every round: a loop that gets no queue space must stay preemptible)
    return Device_Ok;
}
static enum DeviceStatusCode
c_start(struct Camera* c)
{
    struct MCam* m = containerof(c, struct MCam, cam);
    m->running = 1;
    m->next_hw = 0;
    m->triggers = 0;
    m->zero_done = 0;
    m->gaps = 0;
    ev("{\"e\":\"CamStart\",\"s\":%d,\"hd\":%d}", m->s, m->h);
    vs_yield("cam_start");
    return Device_Ok;
}
static enum DeviceStatusCode
c_stop(struct Camera* c)
{
    struct MCam* m = containerof(c, struct MCam, cam);
    m->running = 0;
    ev("{\"e\":\"CamStop\",\"s\":%d,\"hd\":%d}", m->s, m->h);
    vs_signal(&trig_obj[m->s]);
    for (int i = 0; i <= SC[m->s].camstop; i++)
        vs_yield("cam_stop");
    return Device_Ok;
}
static enum DeviceStatusCode
c_trig(struct Camera* c)
{
    struct MCam* m = containerof(c, struct MCam, cam);
    m->triggers++;
    ev("{\"e\":\"CamTrig\",\"s\":%d,\"hd\":%d}", m->s, m->h);
    vs_signal(&trig_obj[m->s]);
    vs_yield("cam_trigger"); // every device call is a scheduling point: a real driver call takes time / locks
    return Device_Ok;
}
static int abort_requested[MAXS];
static enum DeviceStatusCode
c_frame(struct Camera* c, void* im, size_t* nbytes, struct ImageInfo* info)
{
    struct MCam* m = containerof(c, struct MCam, cam);
    int s = m->s;
    for (int i = 0; i <= SC[s].pace; i++)
        vs_yield("cam_get_frame");
    if (SC[s].trigger) {
        while (m->running && m->triggers <= 0)
            vs_wait(&trig_obj[s], "cam_wait_trigger");
        if (!m->running) {
            *nbytes = 0; // released by the camera's own stop: no data
            return Device_Ok;
        }
        // a trigger releases exactly one frame, whoever fired it (acquire_abort fires one to release a waiting source)
        m->triggers--;
    }
    if (epoch == 1 && (long)m->next_hw == SC[s].camfail) { // faults are one-shot: first acquisition only
        ev("{\"e\":\"CamFail\",\"s\":%d,\"hw\":%ld}", s, (long)m->next_hw);
        return Device_Err;
    }
    if (epoch == 1 && (long)m->next_hw == SC[s].zero_at && !m->zero_done) {
        m->zero_done = 1;
        *nbytes = 0;
        ev("{\"e\":\"CamNoData\",\"s\":%d}", s);
        return Device_Ok;
    }
    const struct ImageShape shp = cur_shape(m);
    size_t n = bytes_of_image(&shp);
    if (SC[s].hwgap_at >= 0 && (long)m->next_hw == SC[s].hwgap_at && !m->gaps)
        m->next_hw++, m->gaps = 1; // (the camera dropped a frame by itself: its counter moves on; once per acquisition)
    uint64_t hw = m->next_hw++;
    for (size_t i = 0; i < n; i++)
        ((uint8_t*)im)[i] = pix(s, epoch, hw, i);
    info->shape = shp;
    if (SC[s].vary && (hw & 1)) {
        // what the camera reports for THIS frame: the same number of bytes, other dimensions and (2-byte types) another type
        uint32_t w = shp.dims.width, h = shp.dims.height;
        info->shape.dims.width = h;
        info->shape.dims.height = w;
        info->shape.strides = (typeof(info->shape.strides)){ 1, 1, (int64_t)h, (int64_t)w * h };
        if (bytes_of_type(shp.type) == 2)
            info->shape.type = (hw & 2) ? SampleType_u12 : SampleType_u10;
    }
    info->hardware_frame_id = hw;
    info->hardware_timestamp = hw;
    *nbytes = n;
    ev("{\"e\":\"CamFrame\",\"s\":%d,\"hd\":%d,\"hw\":%ld,\"w\":%u,\"h\":%u,\"ty\":\"%s\",\"tag\":%u}", s, m->h, (long)hw, info->shape.dims.width,
       info->shape.dims.height, tyname(info->shape.type), tag_of((const uint8_t*)im, n));
    return Device_Ok;
}

// Describe a packet [p,e) as a JSON frame list; returns leftover ("rest": 0 = lands exactly on the end, -1 = malformed)
static long
describe_packet(char* dst, size_t cap, const uint8_t* p, const uint8_t* e, int s)
{
    size_t n = 0;
    long rest = 0;
    int k = 0;
    n += snprintf(dst + n, cap - n, "[");
    while (p < e && n + 400 < cap) {
        const struct VideoFrame* v = (const struct VideoFrame*)p;
        if ((size_t)(e - p) < sizeof *v || v->bytes_of_frame < sizeof *v || v->bytes_of_frame > (size_t)(e - p)) {
            rest = -1;
            break;
        }
        size_t npx = (size_t)v->shape.dims.width * v->shape.dims.height;
        size_t nimg = bytes_of_image(&v->shape);
        int ok = 1;
        if (sizeof *v + nimg > v->bytes_of_frame) {
            ok = 0;
            nimg = 0;
        } else if (v->shape.type == SampleType_f32 && SC[s].avg > 1) {
            // exact mean of the window starting at frame_id (input frame ids == hardware ids for the mock camera)
            const float* x = (const float*)v->data;
            enum SampleType it = SC[s].type;
            size_t bpp = bytes_of_type(it);
            static uint8_t tmp[8][1 << 14];
            int kk = SC[s].avg;
            if (npx * bpp <= sizeof tmp[0] && kk <= 8) {
                for (int j = 0; j < kk; j++)
                    for (size_t i = 0; i < npx * bpp; i++)
                        tmp[j][i] = pix(s, epoch, v->frame_id + (uint64_t)j, i);
                for (size_t i = 0; i < npx && ok; i++) {
                    float acc = 0;
                    for (int j = 0; j < kk; j++)
                        acc += (float)sample_at(tmp[j], it, i);
                    float m1 = acc * (1.0f / (float)kk), m2 = acc / (float)kk;
                    float lo = fminf(m1, m2), hi = fmaxf(m1, m2);
                    if (!(x[i] >= nextafterf(lo, -INFINITY) && x[i] <= nextafterf(hi, INFINITY)))
                        ok = 0;
                }
            }
        } else {
            for (size_t i = 0; i < nimg; i++)
                if (v->data[i] != pix(s, epoch, v->hardware_frame_id, i)) {
                    ok = 0;
                    break;
                }
        }
        n += snprintf(dst + n, cap - n, "%s{\"id\":%ld,\"hw\":%ld,\"w\":%u,\"h\":%u,\"ty\":\"%s\",\"nb\":%ld,\"al\":%d,\"tag\":%u,\"ok\":%s}", k ? "," : "",
                      // (values from the header as found, clipped to what TLC's 32-bit integers can multiply: garbage stays garbage)
                      (long)CLIP(v->frame_id, 1000000000), (long)CLIP(v->hardware_frame_id, 1000000000), (unsigned)CLIP(v->shape.dims.width, 20000),
                      (unsigned)CLIP(v->shape.dims.height, 20000), tyname(v->shape.type), (long)CLIP(v->bytes_of_frame, 2000000000),
                      (int)(((uintptr_t)p) % 8), tag_of(v->data, nimg), ok ? "true" : "false");
        k++;
        p += v->bytes_of_frame;
    }
    if (p != e && rest == 0)
        rest = (long)(e - p);
    snprintf(dst + n, cap - n, "]");
    return rest;
}

static enum DeviceState
s_set(struct Storage* s, const struct StorageProperties* p)
{
    (void)p;
    ev("{\"e\":\"DevUse\",\"kind\":\"sto\",\"hd\":%d,\"call\":\"set\"}", containerof(s, struct MSto, sto)->h);
    return DeviceState_Armed;
}
static void
s_get(const struct Storage* s, struct StorageProperties* p)
{
    (void)p;
    ev("{\"e\":\"DevUse\",\"kind\":\"sto\",\"hd\":%d,\"call\":\"get\"}", containerof(s, struct MSto, sto)->h);
}
static void
s_meta(const struct Storage* s, struct StoragePropertyMetadata* m)
{
    ev("{\"e\":\"DevUse\",\"kind\":\"sto\",\"hd\":%d,\"call\":\"get_meta\"}", containerof(s, struct MSto, sto)->h);
    memset(m, 0, sizeof *m);
}
static enum DeviceState
s_start(struct Storage* st)
{
    struct MSto* m = containerof(st, struct MSto, sto);
    // one writer per destination (as the raw writer's file lock): a second open instance of the same storage device cannot
    // start while the first is running - a failure that comes from the client's device choices, not from a device fault
    if (sto_busy[m->s]) {
        ev("{\"e\":\"DevUse\",\"kind\":\"sto\",\"hd\":%d,\"call\":\"start_refused\",\"s\":%d}", m->h, m->s);
        vs_yield("sto_start");
        return DeviceState_AwaitingConfiguration;
    }
    sto_busy[m->s] = m->h;
    m->running = 1;
    m->nappend = 0;
    m->nframes = 0;
    stor_count[m->s] = 0;
    ev("{\"e\":\"StorStart\",\"s\":%d,\"hd\":%d}", m->s, m->h);
    vs_yield("sto_start");
    return DeviceState_Running;
}
static enum DeviceState
s_stop(struct Storage* st)
{
    struct MSto* m = containerof(st, struct MSto, sto);
    m->running = 0;
    if (sto_busy[m->s] == m->h)
        sto_busy[m->s] = 0;
    ev("{\"e\":\"StorStop\",\"s\":%d,\"hd\":%d}", m->s, m->h);
    vs_yield("sto_stop");
    return DeviceState_Armed;
}
static enum DeviceState
s_append(struct Storage* st, const struct VideoFrame* f, size_t* nbytes)
{
    struct MSto* m = containerof(st, struct MSto, sto);
    int s = m->s;
    char* buf = (char*)malloc(1 << 16); // per call: other storage threads run while this one yields
    // the packet is described when the call is made (zero-copy: it must not change while the device holds it)
    long rest = describe_packet(buf, 1 << 16, (const uint8_t*)f, (const uint8_t*)f + *nbytes, s);
    unsigned t0 = tag_of((const uint8_t*)f, *nbytes);
    for (int k = 0; k <= SC[s].slow; k++)
        vs_yield("sto_slow");
    unsigned t1 = tag_of((const uint8_t*)f, *nbytes);
    if (m->nappend++ == SC[s].stofail && epoch == 1) {
        if (sto_busy[s] == m->h)
            sto_busy[s] = 0;
        ev("{\"e\":\"StorFail\",\"s\":%d}", s);
        free(buf);
        return DeviceState_AwaitingConfiguration;
    }
    // count frames
    {
        const uint8_t *p = (const uint8_t*)f, *e = p + *nbytes;
        while (p < e) {
            const struct VideoFrame* v = (const struct VideoFrame*)p;
            if (v->bytes_of_frame < sizeof *v || v->bytes_of_frame > (size_t)(e - p))
                break;
            stor_count[s]++;
            p += v->bytes_of_frame;
        }
    }
    ev("{\"e\":\"StorAppend\",\"s\":%d,\"hd\":%d,\"nbytes\":%ld,\"stable\":%s,\"rest\":%ld,\"frames\":%s}", s, m->h, (long)*nbytes, t0 == t1 ? "true" : "false", rest, buf);
    free(buf);
    return DeviceState_Running;
}
static void
s_destroy(struct Storage* s)
{
    struct MSto* m = containerof(s, struct MSto, sto);
    if (sto_busy[m->s] == m->h)
        sto_busy[m->s] = 0;
    free(m);
}
static void
s_reserve(struct Storage* s, const struct ImageShape* sh)
{
    (void)sh;
    ev("{\"e\":\"DevUse\",\"kind\":\"sto\",\"hd\":%d,\"call\":\"reserve\"}", containerof(s, struct MSto, sto)->h);
}

// devices 0,1: cameras vcam0/1; 2,3: storages vstore0/1; 4: camera "vcam2" and 5: storage "vstore2" are enumerated but cannot
// be opened (an unplugged / busy device)
static uint32_t d_count(struct Driver* d) { (void)d; return 6; }
static enum DeviceStatusCode
d_describe(const struct Driver* d, struct DeviceIdentifier* id, uint64_t i)
{
    (void)d;
    if (i >= 6)
        return Device_Err;
    memset(id, 0, sizeof *id);
    id->device_id = (uint8_t)i;
    id->kind = (i < 2 || i == 4) ? DeviceKind_Camera : DeviceKind_Storage;
    snprintf(id->name, sizeof id->name, "%s%d", (i < 2 || i == 4) ? "vcam" : "vstore", i >= 4 ? 2 : (int)(i % 2));
    return Device_Ok;
}
static enum DeviceStatusCode
d_open(struct Driver* d, uint64_t i, struct Device** out)
{
    (void)d;
    if (i >= 4) {
        ev("{\"e\":\"DevOpenFail\",\"kind\":\"%s\"}", i == 4 ? "cam" : "sto");
        return Device_Err;
    }
    if (i < 2) {
        struct MCam* c = (struct MCam*)calloc(1, sizeof *c);
        c->s = (int)i;
        c->h = next_handle++;
        c->cam = (struct Camera){ .state = DeviceState_AwaitingConfiguration, .set = c_set, .get = c_get, .get_meta = c_meta, .get_shape = c_shape,
                                  .start = c_start, .stop = c_stop, .execute_trigger = c_trig, .get_frame = c_frame };
        *out = &c->cam.device;
        ev("{\"e\":\"DevOpen\",\"kind\":\"cam\",\"s\":%d,\"hd\":%d}", (int)i, c->h);
    } else {
        struct MSto* s = (struct MSto*)calloc(1, sizeof *s);
        s->s = (int)(i - 2);
        s->h = next_handle++;
        s->sto = (struct Storage){ .state = DeviceState_AwaitingConfiguration, .set = s_set, .get = s_get, .get_meta = s_meta, .start = s_start,
                                   .append = s_append, .stop = s_stop, .destroy = s_destroy, .reserve_image_shape = s_reserve };
        *out = &s->sto.device;
        ev("{\"e\":\"DevOpen\",\"kind\":\"sto\",\"s\":%d,\"hd\":%d}", (int)(i - 2), s->h);
    }
    return Device_Ok;
}
static enum DeviceStatusCode
d_close(struct Driver* d, struct Device* dev)
{
    (void)d;
    if (dev->identifier.kind == DeviceKind_Camera) {
        struct MCam* mc = containerof(containerof(dev, struct Camera, device), struct MCam, cam);
        ev("{\"e\":\"DevClose\",\"kind\":\"cam\",\"s\":%d,\"hd\":%d}", (int)dev->identifier.device_id, mc->h);
        free(mc);
    } else {
        struct Storage* s = containerof(dev, struct Storage, device);
        ev("{\"e\":\"DevClose\",\"kind\":\"sto\",\"s\":%d,\"hd\":%d}", (int)dev->identifier.device_id - 2, containerof(s, struct MSto, sto)->h);
        s->destroy(s);
    }
    return Device_Ok;
}
static enum DeviceStatusCode d_shutdown(struct Driver* d) { (void)d; return Device_Ok; }
static struct Driver g_driver = { .device_count = d_count, .describe = d_describe, .open = d_open, .close = d_close, .shutdown = d_shutdown };

struct Driver*
__wrap_driver_load(const char* name, void (*reporter)(int, const char*, int, const char*, const char*))
{
    (void)reporter;
    return strcmp(name, "acquire-driver-common") == 0 ? &g_driver : 0;
}

void __real_channel_new(struct channel*, size_t);
void
__wrap_channel_new(struct channel* c, size_t cap)
{
    (void)cap;
    __real_channel_new(c, ring_cap);
    if (ring_fill)
        memset(c->data, 0x3f, ring_cap);
}

static void
reporter(int is_error, const char* file, int line, const char* function, const char* msg)
{
    (void)file; (void)line; (void)function; (void)msg; (void)is_error;
    vs_yield("log");
}

// ---------------------------------------------------------------------------------------- client
static int aborter_done = 1, start_returned = 0;
static int cam_of[MAXS] = { 0, 1 }, sto_of[MAXS] = { 0, 1 }; // device chosen per stream (-1 = stream not configured)
static int explicit_map = 0, noinit = 0;
static struct AcquireRuntime* rt;
static struct AcquireProperties props;
static struct VideoFrame *mbeg[MAXS], *mend[MAXS];

static void
do_configure(void)
{
    const struct DeviceManager* dm = acquire_device_manager(rt);
    memset(&props, 0, sizeof props);
    acquire_get_configuration(rt, &props);
    for (int s = 0; s < MAXS; s++) {
        int on = explicit_map ? (cam_of[s] >= 0 && sto_of[s] >= 0) : (s < nstreams);
        if (!on) {
            memset(&props.video[s].camera.identifier, 0, sizeof props.video[s].camera.identifier);
            memset(&props.video[s].storage.identifier, 0, sizeof props.video[s].storage.identifier);
            continue;
        }
        int c = explicit_map ? cam_of[s] : s, t = explicit_map ? sto_of[s] : s;
        char nm[32];
        snprintf(nm, sizeof nm, "vcam%d", c);
        device_manager_select(dm, DeviceKind_Camera, nm, strlen(nm), &props.video[s].camera.identifier);
        snprintf(nm, sizeof nm, "vstore%d", t);
        device_manager_select(dm, DeviceKind_Storage, nm, strlen(nm), &props.video[s].storage.identifier);
        props.video[s].camera.settings.shape.x = SC[c < MAXS ? c : 0].w;
        props.video[s].camera.settings.shape.y = SC[c < MAXS ? c : 0].h;
        props.video[s].max_frame_count = SC[s].frames < 0 ? (uint64_t)-1 : (uint64_t)SC[s].frames;
        props.video[s].frame_average_count = (uint32_t)SC[s].avg;
        props.video[s].storage.write_delay_ms = SC[s].delay_ms;
    }
}

// "vcam3" / "vstore1" -> 3 / 1; anything else -> -1
static int
dev_index(const struct DeviceIdentifier* id, const char* prefix)
{
    size_t n = strlen(prefix);
    char nm[sizeof id->name + 1];
    memcpy(nm, id->name, sizeof id->name);
    nm[sizeof id->name] = 0;
    if (strncmp(nm, prefix, n) || nm[n] < '0' || nm[n] > '9')
        return -1;
    return atoi(nm + n);
}
// the part of a configuration that acquire_get_configuration reads back from the runtime itself (not from a device)
static int
conf_json(char* b, size_t cap, const struct AcquireProperties* p)
{
    int n = snprintf(b, cap, "[");
    for (int s = 0; s < MAXS; s++) {
        const struct aq_properties_video_s* v = &p->video[s];
        int on = v->camera.identifier.kind == DeviceKind_Camera && v->storage.identifier.kind == DeviceKind_Storage;
        long long m = v->max_frame_count > 0x3fffffffULL ? -1 : (long long)v->max_frame_count;
        n += snprintf(b + n, cap - (size_t)n, "%s{\"on\":%d,\"cam\":%d,\"sto\":%d,\"mfc\":%lld,\"avg\":%ld}", s ? "," : "", on,
                      dev_index(&v->camera.identifier, "vcam"), dev_index(&v->storage.identifier, "vstore"), m,
                      (long)(v->frame_average_count > 0x3fffffffU ? 0x3fffffff : v->frame_average_count));
    }
    n += snprintf(b + n, cap - (size_t)n, "]");
    return n;
}

static int start_may = 0, last_rc = 0;
static void
api(const char* op)
{
    pending_api = op;
    if (!strcmp(op, "configure")) {
        char cj[512];
        conf_json(cj, sizeof cj, &props);
        ev("{\"e\":\"Api\",\"op\":\"%s\",\"ph\":\"call\",\"req\":%s}", op, cj);
    } else
        ev("{\"e\":\"Api\",\"op\":\"%s\",\"ph\":\"call\"}", op);
    int rc = 0;
    if (!strcmp(op, "start")) {
        epoch++;
        for (int s = 0; s < nstreams; s++) {
            char nm[32];
            snprintf(nm, sizeof nm, "sink%d", s); vs_name_next(nm);
            snprintf(nm, sizeof nm, "filter%d", s); vs_name_next(nm);
            snprintf(nm, sizeof nm, "source%d", s); vs_name_next(nm);
            abort_requested[s] = 0;
        }
        rc = acquire_start(rt);
        start_returned = 1;
    } else if (!strcmp(op, "stop"))
        rc = acquire_stop(rt);
    else if (!strcmp(op, "abort")) {
        for (int s = 0; s < nstreams; s++)
            abort_requested[s] = 1;
        rc = acquire_abort(rt);
    } else if (!strcmp(op, "configure"))
        rc = acquire_configure(rt, &props);
    else if (!strcmp(op, "shutdown")) {
        for (int s = 0; s < nstreams; s++)
            abort_requested[s] = 1;
        rc = acquire_shutdown(rt);
    }
    int st = !strcmp(op, "shutdown") ? -1 : (int)acquire_get_state(rt);
    if (start_may && !strcmp(op, "start")) // (a start the client does not expect to succeed: a failed device was not configured again)
        ev("{\"e\":\"Api\",\"op\":\"%s\",\"ph\":\"ret\",\"rc\":%d,\"st\":%d,\"may\":1}", op, rc, st);
    else
        ev("{\"e\":\"Api\",\"op\":\"%s\",\"ph\":\"ret\",\"rc\":%d,\"st\":%d}", op, rc, st);
    last_rc = rc;
    pending_api = "";
}

static enum SampleType parse_type(const char* s);

static void
run_prog(void)
{
    static char buf[1 << 16];
    for (int i = 0; i < nprog; i++) {
        const char* op = prog[i];
        if (!strcmp(op, "start") || !strcmp(op, "stop") || !strcmp(op, "abort") || !strcmp(op, "configure")) {
            api(op);
        } else if (!strcmp(op, "startmay")) {
            // a start right after a device failure, without configuring the device again: it may be refused (the device is
            // not armed). If it is accepted the acquisition is an ordinary one and is ended at once.
            start_may = 1;
            api("start");
            start_may = 0;
            if (last_rc == 0) {
                int finite = 1;
                for (int s = 0; s < nstreams; s++)
                    finite = finite && SC[s].frames >= 0;
                api(finite ? "stop" : "abort");
            }
        } else if (!strcmp(op, "map")) {
            int s = atoi(prog[++i]);
            struct VideoFrame *b = 0, *e = 0;
            int rc = acquire_map_read(rt, (uint32_t)s, &b, &e);
            long rest = 0;
            buf[0] = '['; buf[1] = ']'; buf[2] = 0;
            if (rc == 0 && b && e > b)
                rest = describe_packet(buf, sizeof buf, (const uint8_t*)b, (const uint8_t*)e, s);
            mbeg[s] = b;
            mend[s] = e;
            ev("{\"e\":\"MonMap\",\"s\":%d,\"rc\":%d,\"rest\":%ld,\"frames\":%s}", s, rc, rest, buf);
        } else if (!strcmp(op, "unmap")) {
            int s = atoi(prog[++i]);
            int k = atoi(prog[++i]); // -1 = all
            size_t nbytes = 0;
            int kk = 0;
            const uint8_t *p = (const uint8_t*)mbeg[s], *e = (const uint8_t*)mend[s];
            while (p && p < e && (k < 0 || kk < k)) {
                const struct VideoFrame* v = (const struct VideoFrame*)p;
                if (v->bytes_of_frame < sizeof *v || v->bytes_of_frame > (size_t)(e - p))
                    break;
                nbytes += v->bytes_of_frame;
                p += v->bytes_of_frame;
                kk++;
            }
            // re-describe what the client still sees just before releasing it: it must not have changed
            long rest = 0;
            buf[0] = '['; buf[1] = ']'; buf[2] = 0;
            if (mbeg[s] && mend[s] > mbeg[s])
                rest = describe_packet(buf, sizeof buf, (const uint8_t*)mbeg[s], (const uint8_t*)mend[s], s);
            int rc = acquire_unmap_read(rt, (uint32_t)s, nbytes);
            ev("{\"e\":\"MonUnmap\",\"s\":%d,\"k\":%d,\"rc\":%d,\"rest\":%ld,\"frames\":%s}", s, kk, rc, rest, buf);
            mbeg[s] = mend[s] = 0;
        } else if (!strcmp(op, "trigger")) {
            int s = atoi(prog[++i]);
            acquire_execute_trigger(rt, (uint32_t)s);
        } else if (!strcmp(op, "triggers")) {
            // triggers S N K: N software triggers, K yields after each (stops early once the acquisition is over)
            int s = atoi(prog[++i]);
            int n = atoi(prog[++i]);
            int k = atoi(prog[++i]);
            for (int t = 0; t < n && acquire_get_state(rt) == DeviceState_Running; t++) {
                acquire_execute_trigger(rt, (uint32_t)s);
                for (int j = 0; j < k; j++)
                    vs_yield_low("client_trig");
            }
        } else if (!strcmp(op, "cfg")) {
            // cfg C0 S0 C1 S1: choose devices per stream (-1 -1 = stream not configured), then acquire_configure
            cam_of[0] = atoi(prog[++i]); sto_of[0] = atoi(prog[++i]);
            cam_of[1] = atoi(prog[++i]); sto_of[1] = atoi(prog[++i]);
            explicit_map = 1;
            do_configure();
            api("configure");
        } else if (!strcmp(op, "shape")) {
            // shape S W H: the camera of stream S gets a new region of interest (takes effect with the configure that follows)
            int s = atoi(prog[++i]);
            SC[s].w = (uint32_t)atoi(prog[++i]);
            SC[s].h = (uint32_t)atoi(prog[++i]);
            do_configure();
            api("configure");
        } else if (!strcmp(op, "setavg")) {
            // setavg S K: another averaging window for stream S (takes effect with the configure that follows)
            int s = atoi(prog[++i]);
            SC[s].avg = atoi(prog[++i]);
            ev("{\"e\":\"AvgSet\",\"s\":%d,\"avg\":%d}", s, SC[s].avg);
            do_configure();
            api("configure");
        } else if (!strcmp(op, "pixtype")) {
            // pixtype S TYPE: the camera of stream S gets another sample type at unchanged dimensions (then configure)
            int s = atoi(prog[++i]);
            SC[s].type = parse_type(prog[++i]);
            do_configure();
            api("configure");
        } else if (!strcmp(op, "join2")) {
            while (!aborter_done)
                vs_yield_low("wait_aborter");
        } else if (!strcmp(op, "pollstate")) {
            // poll acquire_get_state until the runtime no longer reports Running (a client waiting for a finite
            // acquisition to finish by itself, without calling stop), then report the state seen
            int st = (int)acquire_get_state(rt);
            // (no give-up: a finite acquisition ends; one that does not is reported by the scheduler's hang oracle)
            for (long j = 0; j < 2000000 && st == DeviceState_Running; j++) {
                vs_yield_low("client_pollstate");
                st = (int)acquire_get_state(rt);
            }
            ev("{\"e\":\"Api\",\"op\":\"state\",\"ph\":\"ret\",\"rc\":0,\"st\":%d}", st);
        } else if (!strcmp(op, "state")) {
            int st = (int)acquire_get_state(rt);
            ev("{\"e\":\"Api\",\"op\":\"state\",\"ph\":\"ret\",\"rc\":0,\"st\":%d}", st);
        } else if (!strcmp(op, "query")) {
            // query S: the read-only part of the API (shape of stream S, configuration read-back, property metadata, backlog)
            int s = atoi(prog[++i]);
            struct ImageShape shp;
            static struct AcquireProperties rb;
            static struct AcquirePropertyMetadata md;
            pending_api = "query";
            ev("{\"e\":\"Api\",\"op\":\"query\",\"ph\":\"call\"}");
            int rc = (int)acquire_get_shape(rt, (uint32_t)s, &shp);
            int rcc = (int)acquire_get_configuration(rt, &rb);
            rc |= rcc << 1;
            rc |= (int)acquire_get_configuration_metadata(rt, &md) << 2;
            (void)acquire_bytes_waiting_to_be_written_to_disk(rt, (uint32_t)s);
            {
                char cj[512];
                conf_json(cj, sizeof cj, &rb);
                ev("{\"e\":\"Query\",\"s\":%d,\"rcs\":%d,\"rcc\":%d,\"st\":%d,\"rb\":%s}", s, rc & 1, rcc, (int)acquire_get_state(rt), cj);
            }
            ev("{\"e\":\"Api\",\"op\":\"query\",\"ph\":\"ret\",\"rc\":%d,\"st\":%d}", rc, (int)acquire_get_state(rt));
            pending_api = "";
        } else if (!strcmp(op, "mark")) {
            vs_yield("client_mark"); // a scheduling point a `window` line can refer to
        } else if (!strcmp(op, "yield")) {
            int k = atoi(prog[++i]);
            for (int j = 0; j < k; j++)
                vs_yield("client");
        } else if (!strcmp(op, "monitor")) {
            // monitor S MODE HOLD: poll like a real client until the acquisition is no longer running:
            // map, hold for HOLD yields, unmap (MODE: -1 all, k>0 first k frames), repeat.
            int s = atoi(prog[++i]);
            int mode = atoi(prog[++i]);
            int hold = atoi(prog[++i]);
            for (int it = 0; it < 4000; it++) {
                struct VideoFrame *b = 0, *e = 0;
                int rc = acquire_map_read(rt, (uint32_t)s, &b, &e);
                long rest = 0;
                buf[0] = '['; buf[1] = ']'; buf[2] = 0;
                if (rc == 0 && b && e > b)
                    rest = describe_packet(buf, sizeof buf, (const uint8_t*)b, (const uint8_t*)e, s);
                if (rc != 0 || e > b)
                    ev("{\"e\":\"MonMap\",\"s\":%d,\"rc\":%d,\"rest\":%ld,\"frames\":%s}", s, rc, rest, buf);
                for (int j = 0; j < hold && e > b; j++)
                    vs_yield("client_hold");
                size_t nbytes = 0;
                int kk = 0;
                const uint8_t *p = (const uint8_t*)b, *pe = (const uint8_t*)e;
                while (p && p < pe && (mode < 0 || kk < mode)) {
                    const struct VideoFrame* v = (const struct VideoFrame*)p;
                    if (v->bytes_of_frame < sizeof *v || v->bytes_of_frame > (size_t)(pe - p))
                        break;
                    nbytes += v->bytes_of_frame;
                    p += v->bytes_of_frame;
                    kk++;
                }
                if (e > b) {
                    rest = describe_packet(buf, sizeof buf, (const uint8_t*)b, (const uint8_t*)e, s);
                    int rc2 = acquire_unmap_read(rt, (uint32_t)s, nbytes);
                    ev("{\"e\":\"MonUnmap\",\"s\":%d,\"k\":%d,\"rc\":%d,\"rest\":%ld,\"frames\":%s}", s, kk, rc2, rest, buf);
                } else
                    acquire_unmap_read(rt, (uint32_t)s, 0);
                if (rc != 0)
                    break;
                if (e <= b && acquire_get_state(rt) != DeviceState_Running)
                    break;
                vs_yield_low("client_poll");
            }
        } else if (!strcmp(op, "waitstor")) {
            int s = atoi(prog[++i]);
            long n = atol(prog[++i]);
            for (int j = 0; j < 3000 && stor_count[s] < n; j++)
                vs_yield_low("client_wait");
        }
    }
}

static void
aborter(void* arg)
{
    (void)arg;
    while (!start_returned) // the second client acts on an acquisition that has been started
        vs_yield_low("aborter_wait_start");
    for (int i = 0; i < aborter_delay; i++)
        vs_yield("aborter_delay");
    ev("{\"e\":\"Api2\",\"op\":\"%s\",\"ph\":\"call\"}", aborter_op);
    for (int s = 0; s < nstreams; s++)
        abort_requested[s] = !strcmp(aborter_op, "abort");
    int rc = !strcmp(aborter_op, "abort") ? acquire_abort(rt) : acquire_stop(rt);
    ev("{\"e\":\"Api2\",\"op\":\"%s\",\"ph\":\"ret\",\"rc\":%d}", aborter_op, rc);
    aborter_done = 1;
}

static enum SampleType
parse_type(const char* s)
{
    return !strcmp(s, "u16") ? SampleType_u16 : !strcmp(s, "i8") ? SampleType_i8 : !strcmp(s, "i16") ? SampleType_i16 :
           !strcmp(s, "u10") ? SampleType_u10 : !strcmp(s, "u12") ? SampleType_u12 : !strcmp(s, "u14") ? SampleType_u14 :
           !strcmp(s, "f32") ? SampleType_f32 : SampleType_u8;
}

int
main(int argc, char** argv)
{
    if (argc < 2)
        return 2;
    FILE* f = fopen(argv[1], "r");
    if (!f)
        return 2;
    struct vs_config cfg;
    memset(&cfg, 0, sizeof cfg);
    cfg.seed = 1;
    cfg.budget = 60000;
    cfg.fair_budget = 60000;
    for (int s = 0; s < MAXS; s++)
        SC[s] = (struct scfg){ .frames = 5, .w = 5, .h = 3, .type = SampleType_u8, .avg = 1, .camfail = -1, .stofail = -1, .shapefail = -1, .setfail_at = -1, .setfail_n = 1, .zero_at = -1, .flip_at = -1, .hwgap_at = -1 };
    static char line[1 << 18];
    while (fgets(line, sizeof line, f)) {
        char* tok = strtok(line, " \t\n");
        if (!tok)
            continue;
        if (!strcmp(tok, "seed")) cfg.seed = strtoull(strtok(0, " \t\n"), 0, 10);
        else if (!strcmp(tok, "spurious")) cfg.spurious = atoi(strtok(0, " \t\n"));
        else if (!strcmp(tok, "window")) {
            // window LABEL INDEX THREAD STEPS [x]: see vsched.h (x = exclude THREAD instead of running it exclusively)
            static char wl[64];
            snprintf(wl, sizeof wl, "%s", strtok(0, " \t\n"));
            cfg.window_label = wl;
            cfg.window_index = atoi(strtok(0, " \t\n"));
            cfg.window_thread = atoi(strtok(0, " \t\n"));
            cfg.window_steps = atoi(strtok(0, " \t\n"));
            char* x = strtok(0, " \t\n");
            cfg.window_exclude = x && x[0] == 'x';
        }
        else if (!strcmp(tok, "budget")) cfg.budget = cfg.fair_budget = atol(strtok(0, " \t\n"));
        else if (!strcmp(tok, "pct_depth")) cfg.pct_depth = atoi(strtok(0, " \t\n"));
        else if (!strcmp(tok, "pct_len")) cfg.pct_len = atol(strtok(0, " \t\n"));
        else if (!strcmp(tok, "strategy")) {
            char* s = strtok(0, " \t\n");
            cfg.strategy = !strcmp(s, "pct") ? VS_PCT : !strcmp(s, "starve") ? VS_STARVE : !strcmp(s, "rr") ? VS_RR : VS_RANDOM;
        } else if (!strcmp(tok, "starve")) {
            cfg.starve_thread = atoi(strtok(0, " \t\n"));
            cfg.starve_steps = atol(strtok(0, " \t\n"));
        } else if (!strcmp(tok, "cap")) ring_cap = (size_t)atol(strtok(0, " \t\n"));
        else if (!strcmp(tok, "fill")) ring_fill = atoi(strtok(0, " \t\n"));
        else if (!strcmp(tok, "streams")) nstreams = atoi(strtok(0, " \t\n"));
        else if (!strcmp(tok, "noinit")) noinit = atoi(strtok(0, " \t\n"));
        else if (!strcmp(tok, "stream")) {
            int s = atoi(strtok(0, " \t\n"));
            char* k;
            while ((k = strtok(0, " \t\n"))) {
                char* v = strtok(0, " \t\n");
                if (!v) break;
                if (!strcmp(k, "frames")) SC[s].frames = atol(v);
                else if (!strcmp(k, "w")) SC[s].w = (uint32_t)atoi(v);
                else if (!strcmp(k, "h")) SC[s].h = (uint32_t)atoi(v);
                else if (!strcmp(k, "type")) SC[s].type = parse_type(v);
                else if (!strcmp(k, "avg")) SC[s].avg = atoi(v);
                else if (!strcmp(k, "delay_ms")) SC[s].delay_ms = (float)atof(v);
                else if (!strcmp(k, "trigger")) SC[s].trigger = atoi(v);
                else if (!strcmp(k, "camfail")) SC[s].camfail = atol(v);
                else if (!strcmp(k, "shapefail")) SC[s].shapefail = atol(v);
                else if (!strcmp(k, "vary")) SC[s].vary = atoi(v);
                else if (!strcmp(k, "flipat")) SC[s].flip_at = atol(v);
                else if (!strcmp(k, "fw")) SC[s].fw = (uint32_t)atoi(v);
                else if (!strcmp(k, "fh")) SC[s].fh = (uint32_t)atoi(v);
                else if (!strcmp(k, "setfail")) SC[s].setfail_at = atol(v);
                else if (!strcmp(k, "setfailn")) SC[s].setfail_n = atol(v);
                else if (!strcmp(k, "stofail")) SC[s].stofail = atol(v);
                else if (!strcmp(k, "slow")) SC[s].slow = atoi(v);
                else if (!strcmp(k, "pace")) SC[s].pace = atoi(v);
                else if (!strcmp(k, "camstop")) SC[s].camstop = atoi(v);
                else if (!strcmp(k, "zero")) SC[s].zero_at = atoi(v);
                else if (!strcmp(k, "hwgap")) SC[s].hwgap_at = atoi(v);
            }
        } else if (!strcmp(tok, "prog")) {
            char* s;
            while ((s = strtok(0, " \t\n")) && nprog < 2048)
                snprintf(prog[nprog++], sizeof prog[0], "%s", s);
        } else if (!strcmp(tok, "aborter")) {
            aborter_delay = atoi(strtok(0, " \t\n"));
            snprintf(aborter_op, sizeof aborter_op, "%s", strtok(0, " \t\n"));
        } else if (!strcmp(tok, "schedule")) {
            char* s;
            while ((s = strtok(0, " \t\n")) && nsched_in < (1 << 16))
                sched_in[nsched_in++] = atoi(s);
        } else if (!strcmp(tok, "out")) snprintf(outpath, sizeof outpath, "%s", strtok(0, " \t\n"));
    }
    fclose(f);
    cfg.replay = sched_in;
    cfg.nreplay = nsched_in;
    vs_init(&cfg, on_hang);
    vs_set_thread_hook(thread_hook);
    signal(SIGSEGV, on_crash);
    signal(SIGBUS, on_crash);
    signal(SIGABRT, on_crash);
    signal(SIGFPE, on_crash);

    ev("{\"e\":\"Reset\",\"hdr\":%d,\"cap\":%ld,\"ns\":%d,\"streams\":[{\"n\":%ld,\"avg\":%d,\"bpp\":%d,\"trig\":%d,\"fault\":%s},{\"n\":%ld,\"avg\":%d,\"bpp\":%d,\"trig\":%d,\"fault\":%s}]}",
       (int)sizeof(struct VideoFrame), (long)ring_cap, nstreams, SC[0].frames, SC[0].avg, (int)bytes_of_type(SC[0].type), SC[0].trigger,
       (SC[0].camfail >= 0 || SC[0].stofail >= 0 || SC[0].shapefail >= 0) ? "true" : "false", SC[1].frames, SC[1].avg, (int)bytes_of_type(SC[1].type), SC[1].trigger,
       (SC[1].camfail >= 0 || SC[1].stofail >= 0 || SC[1].shapefail >= 0) ? "true" : "false");

    rt = acquire_init(reporter);
    if (!rt)
        return 2;
    if (!noinit) {
        do_configure();
        pending_api = "configure";
        ev("{\"e\":\"Api\",\"op\":\"configure\",\"ph\":\"call\"}");
        int rc = acquire_configure(rt, &props);
        ev("{\"e\":\"Api\",\"op\":\"configure\",\"ph\":\"ret\",\"rc\":%d,\"st\":%d}", rc, (int)acquire_get_state(rt));
        if (rc != 0) {
            flush_trace();
            return 2;
        }
    } else {
        memset(&props, 0, sizeof props);
        acquire_get_configuration(rt, &props);
    }
    vs_activate(1);
    if (aborter_delay >= 0) {
        aborter_done = 0;
        vs_spawn("aborter", aborter, 0);
    }
    run_prog();
    pending_api = "wait_for_second_client";
    while (!aborter_done)
        vs_yield_low("wait_aborter"); // the runtime must not be shut down under a client that is still inside a call
    api("shutdown");
    vs_join_all();
    vs_activate(0);
    ev("{\"e\":\"End\"}");
    flush_trace();
    return 0;
}
