// C17: configuration, shapes and buffer sizes of the REAL simulated cameras (simulated.camera.c + bin2.*.c +
// imfill.pattern.cpp + popcount.cpp + pcg), driven through the HAL entry points of device/hal/camera.c
// (camera_set / get / get_meta / get_image_shape / start / stop / get_frame) on real threads with the real platform.c.
//
//   simcam_cfg <histories.txt> <trace.ndjson> <first-history-index> <mis 0|1> [seconds allowed per history, default 20]
//
// histories.txt: one history per line
//     <id> <kind> ; OP ARGS [= 21 expected observables] ; OP ...
//     S gate b t ox oy sx sy ex   camera_set.  gate (only meaningful while the camera runs): 1 = with the streamer
//                                 parked between two iterations, 2 = parked just after it dropped im.lock without
//                                 publishing (as found: shape captured, render not begun), 3 = parked inside the
//                                 render loop (first pcg32_random / sinf call of an iteration), 0 = no parking (racy)
//     T                           camera_start          P   camera_stop
//     F mode                      camera_get_frame, capacity = bytes_of_image(shape) (+64 if mode 1, -1 if mode 2)
// The expected observables are those of specs/SimCamConfig.tla (operator Observables); a disagreement is printed as
// a DRIFT line on stdout, it is never a verdict.  What decides is the ndjson trace judged by specs/SimCamObs.tla.
//
// Seams (objcopy --redefine-sym on simulated.camera.o / imfill.pattern.o only, nothing else is redirected):
//   malloc/realloc/free        -> vh_malloc/vh_realloc/vh_free : Alloc/Free events; without ASan a checking allocator
//                                 (head/tail canaries, always-moving realloc, poisoned quarantine, optional blocks
//                                 that are 16- but not 32-byte aligned, which is all realloc promises)
//   lock_acquire/lock_release/condition_variable_wait/condition_variable_notify_all/thread_join and pcg32_random / sinf
//                              -> gates that park the streamer thread at a chosen point while the client calls set
// Built also with -fsanitize=address: the ASan report is turned into a StrayAccess event by the error callback.
#define _GNU_SOURCE
#include "simcams/simulated.camera.h"
#include "device/kit/camera.h"
#include "device/hal/camera.h"
#include "device/props/components.h"
#include "platform.h"
#include "logger.h"

#include <errno.h>
#include <fcntl.h>
#include <math.h>
#include <pthread.h>
#include <signal.h>
#include <stdarg.h>
#include <stdint.h>
#include <stdio.h>
#include <stdlib.h>
#include <string.h>
#include <time.h>
#include <unistd.h>

#if defined(__SANITIZE_ADDRESS__)
#define HAVE_ASAN 1
void
__asan_set_error_report_callback(void (*cb)(const char*));
#else
#define HAVE_ASAN 0
#endif
#ifdef __AVX2__
#define HAVE_AVX 1
#else
#define HAVE_AVX 0
#endif

// ---------------------------------------------------------------------------------------------------------------
// trace
static int trace_fd = -1;
static char tbuf[1 << 16];
static size_t tlen = 0;

static void
tflush(void)
{
    size_t off = 0;
    while (off < tlen) {
        ssize_t w = write(trace_fd, tbuf + off, tlen - off);
        if (w <= 0)
            _exit(2);
        off += (size_t)w;
    }
    tlen = 0;
}
static void
emit(const char* fmt, ...)
{
    va_list ap;
    if (tlen > sizeof(tbuf) - 2048)
        tflush();
    va_start(ap, fmt);
    int n = vsnprintf(tbuf + tlen, sizeof(tbuf) - tlen - 2, fmt, ap);
    va_end(ap);
    if (n < 0)
        _exit(2);
    tlen += (size_t)n;
    tbuf[tlen++] = '\n';
}
static long
i31(unsigned long long v) // traces carry 32-bit integers only
{
    return v > 2147483647ULL ? 2147483647L : (long)v;
}
static long
s31(long long v)
{
    return v > 2147483647LL ? 2147483647L : (v < -2147483647LL ? -2147483647L : (long)v);
}

// async-signal-safe crash record
static void
on_crash(int sig)
{
    char b[64];
    int n = snprintf(b, sizeof b, "{\"e\":\"Crash\",\"sig\":%d}\n", sig);
    tflush();
    if (write(trace_fd, b, (size_t)n) < 0) {
    }
    _exit(40);
}
static void
on_alarm(int sig)
{
    (void)sig;
    const char b[] = "{\"e\":\"Hang\"}\n";
    tflush();
    if (write(trace_fd, b, sizeof b - 1) < 0) {
    }
    _exit(41);
}

#if HAVE_ASAN
static void
on_asan(const char* report)
{
    // "==123==ERROR: AddressSanitizer: heap-buffer-overflow on address ... \nWRITE of size 4 at ...\n    #0 0x.. in im_fill_rand ..."
    char kind[64] = "unknown", rw[16] = "?", fn[64] = "?";
    const char* p = strstr(report, "AddressSanitizer: ");
    if (p)
        sscanf(p + 18, "%63[a-zA-Z0-9-]", kind);
    if (strstr(report, "\nWRITE of size"))
        strcpy(rw, "WRITE");
    else if (strstr(report, "\nREAD of size"))
        strcpy(rw, "READ");
    p = strstr(report, "#0 ");
    if (p && (p = strstr(p, " in ")))
        sscanf(p + 4, "%63[a-zA-Z0-9_<>:]", fn);
    // may run on the streamer thread while the main thread owns the trace buffer: write one self-contained line
    char b[320];
    int n = snprintf(b, sizeof b, "\n{\"e\":\"StrayAccess\",\"kind\":\"asan-%s\",\"rw\":\"%s\",\"fn\":\"%s\"}\n", kind, rw, fn);
    if (write(trace_fd, b, (size_t)n) < 0) {
    }
}
#endif

// ---------------------------------------------------------------------------------------------------------------
// allocation seam (references from simulated.camera.o only)
#define CAN_HEAD 64
#define CANARY 0xC5
#define POISON 0xDD
#define SPAN 4096 // bytes of a tail redzone / of a freed body that are filled and checked (the rest only absorbs)
#define MAXBLK 256
struct blk
{
    int id, fn, live;
    unsigned char *raw, *user;
    size_t n, tail;
};
static struct blk blks[MAXBLK];
static int nblk = 0, next_id = 1, misalign = 0;
static long stray_events = 0;

static void
stray(const char* kind, int id, long off)
{
    ++stray_events;
    emit("{\"e\":\"StrayAccess\",\"kind\":\"%s\",\"id\":%d,\"off\":%ld}", kind, id, off);
}

static struct blk*
find_blk(void* p)
{
    for (int i = 0; i < nblk; ++i)
        if (blks[i].user == (unsigned char*)p && blks[i].live)
            return blks + i;
    return 0;
}

#if !HAVE_ASAN
static size_t
tail_for(size_t n)
{
    size_t t = 70 * n + 4096;
    return t > (8u << 20) ? (8u << 20) : t;
}
static void
check_blk(struct blk* b)
{
    for (size_t i = 0; i < CAN_HEAD; ++i)
        if (b->user[-1 - (long)i] != CANARY) {
            stray(b->live ? "canary-head" : "canary-head-freed", b->id, -1 - (long)i);
            memset(b->user - CAN_HEAD, CANARY, CAN_HEAD);
            break;
        }
    unsigned char* t = b->user + b->n;
    for (size_t i = 0; i < b->tail && i < SPAN; ++i)
        if (t[i] != CANARY) {
            stray(b->live ? "canary-tail" : "canary-tail-freed", b->id, i31(i));
            memset(t, CANARY, b->tail < SPAN ? b->tail : SPAN);
            break;
        }
    if (!b->live) { // quarantined: (the head of) the body must still be poison
        for (size_t i = 0; i < b->n && i < SPAN; ++i)
            if (b->user[i] != POISON) {
                stray("write-after-free", b->id, i31(i));
                memset(b->user, POISON, b->n < SPAN ? b->n : SPAN);
                break;
            }
    }
}
#endif
static void
check_all(void)
{
#if !HAVE_ASAN
    for (int i = 0; i < nblk; ++i)
        if (blks[i].raw)
            check_blk(blks + i);
#endif
}

static void*
blk_new(size_t n, int fn)
{
    if (nblk >= MAXBLK) {
        fprintf(stderr, "harness: block table full\n");
        _exit(2);
    }
    struct blk* b = blks + nblk;
    memset(b, 0, sizeof *b);
#if HAVE_ASAN
    b->raw = b->user = (unsigned char*)malloc(n ? n : 1);
    if (!b->raw)
        return 0;
#else
    b->tail = tail_for(n);
    b->raw = (unsigned char*)malloc(n + b->tail + CAN_HEAD + 96);
    if (!b->raw)
        return 0;
    uintptr_t u = ((uintptr_t)b->raw + CAN_HEAD + 31) & ~(uintptr_t)31;
    if (misalign && fn == 1)
        u += 16; // 16-byte aligned, not 32: legal for realloc
    b->user = (unsigned char*)u;
    memset(b->user - CAN_HEAD, CANARY, CAN_HEAD);
    memset(b->user + n, CANARY, b->tail < SPAN ? b->tail : SPAN);
#endif
    b->n = n;
    b->fn = fn;
    b->id = next_id++;
    b->live = 1;
    ++nblk;
    emit("{\"e\":\"Alloc\",\"fn\":%d,\"id\":%d,\"size\":%ld,\"a32\":%d}", fn, b->id, i31(n), ((uintptr_t)b->user & 31) == 0);
    return b->user;
}
static void
blk_release(struct blk* b)
{
    emit("{\"e\":\"Free\",\"id\":%d}", b->id);
#if HAVE_ASAN
    b->live = 0;
    free(b->raw);
    b->raw = 0;
#else
    check_blk(b); // canaries, while still live
    b->live = 0;
    memset(b->user, POISON, b->n < SPAN ? b->n : SPAN); // stays quarantined until the history ends
#endif
}
static void
blk_reset(void) // end of a history: final check, really free
{
    check_all();
    for (int i = 0; i < nblk; ++i) {
        if (blks[i].live)
            emit("{\"e\":\"Leak\",\"id\":%d}", blks[i].id);
#if !HAVE_ASAN
        free(blks[i].raw);
#else
        if (blks[i].live)
            free(blks[i].raw);
#endif
    }
    nblk = 0;
}

void*
vh_malloc(size_t n)
{
    return blk_new(n, 0);
}
void
vh_free(void* p)
{
    if (!p)
        return;
    struct blk* b = find_blk(p);
    if (!b) {
        emit("{\"e\":\"Free\",\"id\":-1}");
        return;
    }
    blk_release(b);
}
void*
vh_realloc(void* p, size_t n)
{
    if (!p)
        return blk_new(n, 1);
    struct blk* b = find_blk(p);
    if (!b) {
        emit("{\"e\":\"Free\",\"id\":-1}");
        return blk_new(n, 1);
    }
    if (n == 0) { // glibc semantics: frees and returns NULL
        blk_release(b);
        return 0;
    }
    size_t keep = b->n < n ? b->n : n;
    unsigned char* old = b->user;
    void* q = blk_new(n, 1); // always moves
    if (!q)
        return 0;
    b = find_blk(old);
    memcpy(q, old, keep);
    blk_release(b);
    return q;
}

// ---------------------------------------------------------------------------------------------------------------
// gates on the streamer thread
static pthread_t main_tid;
static pthread_mutex_t gm = PTHREAD_MUTEX_INITIALIZER;
static pthread_cond_t gc = PTHREAD_COND_INITIALIZER;
static volatile int gate_armed = 0, parked = 0, go = 0;
static volatile int st_holds = 0, st_notified = 0, serialized = 0;
static volatile long iter_calls = 0, last_iter_calls = -1;
#define MIDN 1

static int
is_streamer(void)
{
    return !pthread_equal(pthread_self(), main_tid);
}
static void
park_if(int g)
{
    pthread_mutex_lock(&gm);
    if (gate_armed == g) {
        gate_armed = 0;
        parked = g;
        pthread_cond_broadcast(&gc);
        while (!go)
            pthread_cond_wait(&gc, &gm);
        go = 0;
        parked = 0;
        pthread_cond_broadcast(&gc);
    }
    pthread_mutex_unlock(&gm);
}
static void
gate_arm(int g)
{
    pthread_mutex_lock(&gm);
    gate_armed = g;
    go = 0;
    pthread_mutex_unlock(&gm);
}
static int
gate_wait_parked(int ms)
{
    struct timespec ts;
    clock_gettime(CLOCK_REALTIME, &ts);
    ts.tv_sec += ms / 1000;
    ts.tv_nsec += (long)(ms % 1000) * 1000000L;
    if (ts.tv_nsec >= 1000000000L) {
        ts.tv_sec++;
        ts.tv_nsec -= 1000000000L;
    }
    pthread_mutex_lock(&gm);
    while (!parked) {
        if (pthread_cond_timedwait(&gc, &gm, &ts) == ETIMEDOUT)
            break;
    }
    int p = parked;
    if (!p)
        gate_armed = 0; // timed out: the streamer must not park later, while the client is inside the call under test
    pthread_mutex_unlock(&gm);
    return p;
}
static void
gate_release(void)
{
    pthread_mutex_lock(&gm);
    gate_armed = 0;
    if (parked) {
        go = 1;
        pthread_cond_broadcast(&gc);
        while (parked)
            pthread_cond_wait(&gc, &gm);
    }
    pthread_mutex_unlock(&gm);
}

void
vh_lock_acquire(struct lock* l)
{
    if (is_streamer()) {
        if (iter_calls > 0) {
            last_iter_calls = iter_calls;
            iter_calls = 0;
        }
        park_if(1);
        lock_acquire(l);
        st_holds++;
        st_notified = 0;
    } else {
        if (parked && st_holds > 0) { // the parked streamer owns the lock this call needs: let it finish first
            serialized = 1;
            gate_release();
        }
        lock_acquire(l);
    }
}
void
vh_lock_release(struct lock* l)
{
    if (is_streamer()) {
        st_holds--;
        lock_release(l);
        if (!st_notified)
            park_if(2);
    } else
        lock_release(l);
}
void
vh_cv_notify_all(struct condition_variable* cv)
{
    if (is_streamer())
        st_notified = 1;
    condition_variable_notify_all(cv);
}
void
vh_cv_wait(struct condition_variable* cv, struct lock* l)
{
    // the client is about to sleep until the streamer makes progress (repaired simcam_set waits for the frame in
    // flight): a streamer we parked must be let go, otherwise the harness deadlocks itself
    if (!is_streamer() && parked) {
        serialized = 1;
        gate_release();
    }
    condition_variable_wait(cv, l);
}
void
vh_thread_join(struct thread* t) // simcam_stop: the streamer must be able to run to its exit
{
    gate_release();
    thread_join(t);
}
uint32_t
pcg32_random(void);
uint32_t
vh_pcg32_random(void)
{
    if (is_streamer() && ++iter_calls == MIDN)
        park_if(3);
    return pcg32_random();
}
float
vh_sinf(float x)
{
    if (is_streamer() && ++iter_calls == MIDN)
        park_if(3);
    return sinf(x);
}

// camera.c (camera_open) references these; camera_open is not used here
struct Driver;
struct DeviceManager;
struct Driver*
device_manager_get_driver(const struct DeviceManager* dm, const struct DeviceIdentifier* id)
{
    (void)dm;
    (void)id;
    return 0;
}
enum DeviceStatusCode
driver_open_device(struct Driver* d, uint8_t id, struct Device** out)
{
    (void)d;
    (void)id;
    (void)out;
    return Device_Err;
}

static void
quiet(int is_error, const char* file, int line, const char* function, const char* msg)
{
    (void)is_error;
    (void)file;
    (void)line;
    (void)function;
    (void)msg;
}

// ---------------------------------------------------------------------------------------------------------------
static struct Camera* cam;
static long n_hist = 0, n_steps = 0, n_mismatch = 0, n_frames = 0, n_parked[4] = { 0 }, n_serialized = 0, n_compared = 0;
static int cur_hist = -1, cur_step = 0, cur_kind = 0;
static unsigned hist_alarm_s = 20; // a history that takes longer is reported as a Hang event

static void
drift(const char* field, long long exp, long long got)
{
    ++n_mismatch;
    if (n_mismatch <= 40)
        printf("DRIFT history %d step %d %s expected %lld got %lld\n", cur_hist, cur_step, field, exp, got);
}

struct readback
{
    struct CameraProperties p;
    struct ImageShape s;
    struct CameraPropertyMetadata m;
};
static void
read_back(struct readback* r)
{
    memset(r, 0, sizeof *r);
    camera_get(cam, &r->p);
    camera_get_image_shape(cam, &r->s);
    camera_get_meta(cam, &r->m);
}
static void
emit_shape(const struct readback* r)
{
    emit("{\"e\":\"Shape\",\"d\":[%ld,%ld,%ld,%ld],\"s\":[%ld,%ld,%ld,%ld],\"t\":%ld,\"xh\":%ld,\"yh\":%ld,\"hs\":%d}",
         i31(r->s.dims.channels), i31(r->s.dims.width), i31(r->s.dims.height), i31(r->s.dims.planes),
         s31(r->s.strides.channels), s31(r->s.strides.width), s31(r->s.strides.height), s31(r->s.strides.planes),
         s31((long long)r->s.type), s31((long long)r->m.shape.x.high), s31((long long)r->m.shape.y.high), (int)cam->state);
}

// compare with the model's Observables:
// <<hs, run, b,t,ox,oy,sx,sy,ex, w,h,ty, sh,sp, fs,rs, xh, oxh,oyh, st,cp>>
static void
compare(const long* x, const struct readback* r, int st, long cp)
{
    ++n_compared;
#define CMP(name, e, g)                                                                                                 \
    if ((long long)(e) != (long long)(g))                                                                               \
    drift(name, (long long)(e), (long long)(g))
    CMP("hal_state", x[0], cam->state);
    CMP("binning", x[2], r->p.binning);
    CMP("pixel_type", x[3], r->p.pixel_type);
    CMP("offset.x", x[4], r->p.offset.x);
    CMP("offset.y", x[5], r->p.offset.y);
    CMP("shape.x", x[6], r->p.shape.x);
    CMP("shape.y", x[7], r->p.shape.y);
    CMP("exposure", x[8], (long long)r->p.exposure_time_us);
    CMP("dims.width", x[9], r->s.dims.width);
    CMP("dims.height", x[10], r->s.dims.height);
    CMP("shape.type", x[11], r->s.type);
    CMP("dims.channels", 1, r->s.dims.channels);
    CMP("dims.planes", 1, r->s.dims.planes);
    CMP("strides.channels", 1, r->s.strides.channels);
    CMP("strides.width", 1, r->s.strides.width);
    CMP("strides.height", x[12], r->s.strides.height);
    CMP("strides.planes", x[13], r->s.strides.planes);
    { // the two image buffers as seen through the realloc seam
        long got[2] = { 0, 0 };
        int k = 0, extra = 0;
        for (int i = 0; i < nblk; ++i)
            if (blks[i].live && blks[i].fn == 1) {
                if (k < 2)
                    got[k++] = i31(blks[i].n);
                else
                    ++extra;
            }
        long e0 = x[14] < x[15] ? x[14] : x[15], e1 = x[14] < x[15] ? x[15] : x[14];
        long g0 = got[0] < got[1] ? got[0] : got[1], g1 = got[0] < got[1] ? got[1] : got[0];
        CMP("buffer_bytes(min)", e0, g0);
        CMP("buffer_bytes(max)", e1, g1);
        CMP("extra_realloc_blocks", 0, extra);
    }
    CMP("meta.shape.x.high", x[16], (long long)r->m.shape.x.high);
    CMP("meta.shape.y.high", x[16], (long long)r->m.shape.y.high);
    CMP("meta.offset.x.high", x[17], (long long)r->m.offset.x.high);
    CMP("meta.offset.y.high", x[18], (long long)r->m.offset.y.high);
    CMP("status", x[19], st);
    CMP("bytes_copied", x[20], cp);
#undef CMP
}

static void
sync_iteration(void) // wait until the streamer is between two iterations
{
    if (cam->state != DeviceState_Running)
        return;
    gate_arm(1);
    gate_wait_parked(2000);
    gate_release();
}

static int
do_set(int gate, const long* a, int* st_out)
{
    struct CameraProperties p = { 0 };
    camera_get(cam, &p);
    p.binning = (uint8_t)a[0];
    p.pixel_type = (enum SampleType)a[1];
    p.offset.x = (uint32_t)a[2];
    p.offset.y = (uint32_t)a[3];
    p.shape.x = (uint32_t)a[4];
    p.shape.y = (uint32_t)a[5];
    p.exposure_time_us = (float)a[6];
    p.input_triggers.frame_start.enable = 0;
    int at = 0;
    const int was_running = cam->state == DeviceState_Running;
    if (was_running && gate > 0) {
        int g = gate;
        if (g == 3) { // nothing is called inside the render of the empty camera, or of the sin camera for a type it skips
            struct ImageShape cur = { 0 };
            camera_get_image_shape(cam, &cur);
            if (cur_kind == 2 || (cur_kind == 1 && (int)cur.type > (int)SampleType_f32))
                g = 2;
        }
        serialized = 0;
        gate_arm(g);
        at = gate_wait_parked(2000);
        if (at)
            n_parked[at]++;
    }
    tflush();
    int st = (int)camera_set(cam, &p);
    gate_release();
    if (serialized) {
        n_serialized++;
        serialized = 0;
    }
    if (was_running)
        sync_iteration(); // let an iteration that was in flight run to its end before looking at the canaries
    check_all();
    struct readback r;
    read_back(&r);
    emit("{\"e\":\"Set\",\"at\":%d,\"run\":%d,\"in\":[%ld,%ld,%ld,%ld,%ld,%ld,%ld],\"st\":%d,"
         "\"out\":[%ld,%ld,%ld,%ld,%ld,%ld,%ld],\"mx\":[%ld,%ld],\"hs\":%d}",
         at, was_running, a[0], a[1], a[2], a[3], a[4], a[5], a[6], st, i31(r.p.binning), s31((long long)r.p.pixel_type),
         i31(r.p.offset.x), i31(r.p.offset.y), i31(r.p.shape.x), i31(r.p.shape.y), s31((long long)r.p.exposure_time_us),
         s31((long long)r.m.shape.x.high), s31((long long)r.m.shape.y.high), (int)cam->state);
    *st_out = st;
    return at;
}

static long
do_frame(int mode, int* st_out)
{
    struct ImageShape shape = { 0 };
    camera_get_image_shape(cam, &shape);
    size_t need = bytes_of_image(&shape);
    size_t cap = need;
    if (mode == 1)
        cap = need + 64;
    else if (mode == 2)
        cap = need ? need - 1 : 0;
    const int was_running = cam->state == DeviceState_Running;
#if HAVE_ASAN
    const size_t guard = 0;
#else
    const size_t guard = 64;
#endif
    unsigned char* area = (unsigned char*)malloc(cap + 2 * guard + 1);
    unsigned char* buf = area + guard;
    long filled = 0, lo = -1;
    int canary_ok = 1, st = 0, tries = 0;
    size_t nb = 0;
    struct ImageInfo info;
    static const unsigned char sent[4] = { 0xA5, 0x5A, 0x3C, 0xE7 };
    for (tries = 0; tries < 4; ++tries) {
        memset(area, 0xC5, guard);
        memset(buf, sent[tries], cap);
        memset(buf + cap, 0xC5, guard);
        memset(&info, 0, sizeof info);
        nb = cap;
        tflush();
        st = (int)camera_get_frame(cam, buf, &nb, &info);
        long hi = 0, l0 = -1;
        for (size_t i = 0; i < cap; ++i)
            if (buf[i] != sent[tries]) {
                hi = (long)i + 1;
                if (l0 < 0)
                    l0 = (long)i;
            }
        for (size_t i = 0; i < guard; ++i)
            if (area[i] != 0xC5 || buf[cap + i] != 0xC5)
                canary_ok = 0;
        if (hi > filled)
            filled = hi;
        if (l0 >= 0 && (lo < 0 || l0 < lo))
            lo = l0;
        if (st == 0)
            ++n_frames;
        // a byte of the image may coincide with the sentinel: measure again with another sentinel before
        // reporting fewer bytes than a whole image (measurement robustness only, nothing is judged here)
        if (st != 0 || filled >= (long)bytes_of_image(&info.shape) || cam->state != DeviceState_Running)
            break;
    }
    check_all();
    emit("{\"e\":\"Frame\",\"mode\":%d,\"run\":%d,\"st\":%d,\"cap\":%ld,\"nb\":%ld,\"filled\":%ld,\"lo\":%ld,\"canary\":%d,\"calls\":%d,"
         "\"d\":[%ld,%ld,%ld,%ld],\"s\":[%ld,%ld,%ld,%ld],\"t\":%ld,\"rc\":%ld,\"hs\":%d}",
         mode, was_running, st, i31(cap), i31(nb), filled, lo, canary_ok, tries + (tries < 4), i31(info.shape.dims.channels),
         i31(info.shape.dims.width), i31(info.shape.dims.height), i31(info.shape.dims.planes), s31(info.shape.strides.channels),
         s31(info.shape.strides.width), s31(info.shape.strides.height), s31(info.shape.strides.planes),
         s31((long long)info.shape.type), s31(last_iter_calls), (int)cam->state);
    memset(area, 0, cap + 2 * guard + 1); // do not leave sentinel patterns behind in the heap
    free(area);
    *st_out = st;
    return st == 0 ? filled : 0;
}

static int
run_history(char* line)
{
    int id = 0, kind = 0, off = 0;
    if (sscanf(line, "%d %d%n", &id, &kind, &off) != 2)
        return -1;
    cur_hist = id;
    cur_kind = kind;
    cur_step = 0;
    ++n_hist;
    alarm(hist_alarm_s);
    last_iter_calls = -1;
    iter_calls = 0;
    emit("{\"e\":\"Open\",\"id\":%d,\"kind\":%d,\"avx\":%d,\"mis\":%d,\"asan\":%d}", id, kind, HAVE_AVX, misalign, HAVE_ASAN);
    cam = simcam_make_camera((enum BasicDeviceKind)kind);
    if (!cam) {
        fprintf(stderr, "simcam_make_camera failed\n");
        _exit(2);
    }
    {
        struct readback r;
        read_back(&r);
        emit_shape(&r);
    }
    char* save = 0;
    char* seg = strtok_r(line + off, ";", &save);
    for (; seg; seg = strtok_r(0, ";", &save)) {
        while (*seg == ' ')
            ++seg;
        if (!*seg || *seg == '\n')
            continue;
        ++cur_step;
        ++n_steps;
        char op = *seg++;
        long a[8] = { 0 }, x[21];
        int have_x = 0, st = 0;
        long cp = 0;
        char* eq = strchr(seg, '=');
        if (eq) {
            *eq++ = 0;
            int n = 0, k;
            char* q = eq;
            while (n < 21 && sscanf(q, "%ld%n", &x[n], &k) == 1) {
                q += k;
                ++n;
            }
            have_x = n == 21;
        }
        {
            int n = 0, k;
            char* q = seg;
            while (n < 8 && sscanf(q, "%ld%n", &a[n], &k) == 1) {
                q += k;
                ++n;
            }
        }
        switch (op) {
            case 'S':
                do_set((int)a[0], a + 1, &st);
                break;
            case 'T':
                tflush();
                st = (int)camera_start(cam);
                emit("{\"e\":\"Start\",\"st\":%d,\"hs\":%d}", st, (int)cam->state);
                break;
            case 'P':
                tflush();
                st = (int)camera_stop(cam);
                check_all();
                emit("{\"e\":\"Stop\",\"st\":%d,\"hs\":%d}", st, (int)cam->state);
                break;
            case 'F':
                cp = do_frame((int)a[0], &st);
                break;
            default:
                fprintf(stderr, "bad op '%c' in history %d\n", op, id);
                _exit(2);
        }
        struct readback r;
        read_back(&r);
        emit_shape(&r);
        if (have_x)
            compare(x, &r, st, cp);
        tflush();
    }
    gate_release();
    if (cam->state == DeviceState_Running) {
        sync_iteration();
        camera_stop(cam);
    }
    check_all();
    simcam_close_camera(cam);
    cam = 0;
    emit("{\"e\":\"Close\"}");
    blk_reset();
    tflush();
    alarm(0);
    return 0;
}

int
main(int argc, char** argv)
{
    if (argc < 5) {
        fprintf(stderr, "usage: %s histories.txt trace.ndjson first mis\n", argv[0]);
        return 2;
    }
    main_tid = pthread_self();
    logger_set_reporter(quiet);
    FILE* f = fopen(argv[1], "r");
    if (!f)
        return 2;
    int first = atoi(argv[3]);
    misalign = atoi(argv[4]);
    if (argc > 5 && atoi(argv[5]) > 0)
        hist_alarm_s = (unsigned)atoi(argv[5]);
    trace_fd = open(argv[2], first > 0 ? (O_WRONLY | O_APPEND | O_CREAT) : (O_WRONLY | O_TRUNC | O_CREAT), 0644);
    if (trace_fd < 0)
        return 2;
    signal(SIGSEGV, on_crash);
    signal(SIGBUS, on_crash);
    signal(SIGABRT, on_crash);
    signal(SIGFPE, on_crash);
    signal(SIGILL, on_crash);
    signal(SIGALRM, on_alarm);
#if HAVE_ASAN
    __asan_set_error_report_callback(on_asan);
#endif
    char* line = 0;
    size_t cap = 0;
    int idx = 0;
    while (getline(&line, &cap, f) > 0) {
        if (idx++ < first)
            continue;
        if (line[0] == '#' || line[0] == '\n')
            continue;
        if (run_history(line) < 0) {
            fprintf(stderr, "unparsable history line %d\n", idx);
            return 2;
        }
    }
    tflush();
    printf("{\"histories\":%ld,\"steps\":%ld,\"compared\":%ld,\"mismatches\":%ld,\"frames\":%ld,\"parked_between\":%ld,"
           "\"parked_after_capture\":%ld,\"parked_in_render\":%ld,\"serialized\":%ld,\"stray\":%ld}\n",
           n_hist, n_steps, n_compared, n_mismatch, n_frames, n_parked[1], n_parked[2], n_parked[3], n_serialized, stray_events);
    return 0;
}
