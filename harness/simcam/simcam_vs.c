// The real simulated.camera.c (streamer thread, locks, condition variables) under the deterministic scheduler (C18).
//
//   simcam_vs <config>
// config:  seed N | strategy ... | pct_depth D | starve T K | spurious K | budget N
//          kind 0|1|2 | trig 0|1 (software frame trigger enabled by the initial set)
//          ctl OP...   OP = start | stop | trigger | settrig 0|1 | setshape W H T | setline L | yield K | waitidle | waitframes N
//          caller N    (the caller thread makes up to N get_frame calls per run, then idles until the next run)
//          out FILE
// Events carry a sequence number taken at the call's linearization point (last release of the camera lock inside the call,
// or call entry for unlocked stores); the trace is written sorted by it.
#define _GNU_SOURCE
#include "simcams/simulated.camera.h"
#include "device/kit/camera.h"
#include "device/props/components.h"
#include "logger.h"
#include "vsched.h"
#include <stdio.h>
#include <stdlib.h>
#include <string.h>
#include <unistd.h>

#define BUF_CAP (64u * 64u * 4u)
#define SENT(i) ((uint8_t)(((i) * 7u + 3u) & 0xffu))
static struct Camera* cam;
static struct CameraProperties props;
static size_t img_bytes;
static char outpath[512] = "simcam.ndjson";
static char ctl[1024][16];
static int nctl = 0;
static int caller_calls = 4;
static int kind = 2, trig0 = 0;

struct ev
{
    long seq;
    char txt[256];
};
static struct ev* EV;
static long nev = 0, gseq = 0;
static long cur_seq[64];

static void
emit(long seq, const char* txt)
{
    EV[nev].seq = seq;
    snprintf(EV[nev].txt, sizeof EV[nev].txt, "%s", txt);
    nev++;
}
static int
cmp_ev(const void* a, const void* b)
{
    long x = ((const struct ev*)a)->seq, y = ((const struct ev*)b)->seq;
    return x < y ? -1 : x > y;
}
static void
flush_trace(const char* last)
{
    qsort(EV, nev, sizeof *EV, cmp_ev);
    FILE* f = fopen(outpath, "w");
    if (!f)
        _exit(2);
    fprintf(f, "{\"e\":\"Reset\",\"trig\":%s}\n", trig0 ? "true" : "false");
    for (long i = 0; i < nev; i++)
        fprintf(f, "%s\n", EV[i].txt);
    fprintf(f, "%s\n", last);
    const int* ids;
    long n = vs_schedule(&ids, 0);
    fprintf(f, "{\"e\":\"Sched\",\"ids\":[");
    for (long i = 0; i < n && i < 50000; i++)
        fprintf(f, "%s%d", i ? "," : "", ids[i]);
    fprintf(f, "]}\n");
    fclose(f);
}

static const char* ctl_pending = "";
static int caller_in_call = 0;
static void
on_hang(const char* k)
{
    char b[1024];
    int n = snprintf(b, sizeof b, "{\"e\":\"Hang\",\"kind\":\"%s\",\"ctl\":\"%s\",\"incall\":%s,\"threads\":[", k, ctl_pending, caller_in_call ? "true" : "false");
    for (int i = 0; i < vs_nthreads(); i++)
        n += snprintf(b + n, sizeof b - n, "%s\"%s:%s\"", i ? "," : "", vs_name(i), vs_status(i));
    snprintf(b + n, sizeof b - n, "]}");
    flush_trace(b);
    _exit(0);
}

// The streamer thread of the current run and the number of lock releases / cv waits it has made: an upper bound (by a factor
// of two or three) of the frames it can have generated since this start - "the count restarts with each start".
static int streamer_tid = -1, caller_tid = -1;
static long streamer_rel = 0;
static void
lock_hook(void* lock, int is_cv)
{
    (void)lock;
    (void)is_cv;
    cur_seq[vs_self()] = ++gseq;
    if (vs_self() == streamer_tid)
        streamer_rel++;
}
static void
thread_hook(int t, const char* name, int is_exit)
{
    (void)name;
    if (!is_exit && t != caller_tid && t != 0) {
        streamer_tid = t;
        streamer_rel = 0;
    }
}

static void
reporter(int is_error, const char* file, int line, const char* function, const char* msg)
{
    (void)is_error; (void)file; (void)line; (void)function; (void)msg;
    vs_yield("log");
}

// ---- caller thread: get_frame loop --------------------------------------------------------------------
static volatile int run_no = 0, running = 0, finished = 0;
static long frames_got = 0;
static uint8_t* prev_img; // the image the previous data-bearing frame call of this run delivered (random camera only)
static long prev_len = -1;
static int prev_run = -1;
static volatile int paused = 0;
static int run_obj;

static void
caller(void* arg)
{
    (void)arg;
    int me = vs_self();
    // (large enough for every shape a `setshape` op may configure; filled with a position-dependent sentinel before each call)
    uint8_t* buf = (uint8_t*)malloc(BUF_CAP + 64);
    prev_img = (uint8_t*)malloc(BUF_CAP + 64);
    int seen_run = 0;
    for (;;) {
        while (!finished && (run_no == seen_run || !running))
            vs_wait(&run_obj, "caller_idle");
        if (finished)
            break;
        seen_run = run_no;
        for (int k = 0; k < caller_calls && running && run_no == seen_run; k++) {
            char b[256];
            while (paused && running && !finished && run_no == seen_run) // (ctl op `pause`: no frame call for a while)
                vs_wait(&run_obj, "caller_paused");
            if (!running || finished || run_no != seen_run)
                break;
            struct ImageInfo info;
            memset(&info, 0, sizeof info);
            info.hardware_frame_id = (uint64_t)-7; // sentinel: the camera did not fill it in
            size_t nb = BUF_CAP;
            for (size_t i = 0; i < BUF_CAP + 64; i++)
                buf[i] = SENT(i);
            caller_in_call = 1;
            cur_seq[me] = ++gseq;
            snprintf(b, sizeof b, "{\"e\":\"GetFrameCall\",\"t\":%d}", me);
            emit(cur_seq[me], b);
            cur_seq[me] = ++gseq;
            int rc = cam->get_frame(cam, buf, &nb, &info);
            long hw = (long)(int64_t)info.hardware_frame_id;
            if (hw > 1000000000L || hw < -1000000000L)
                hw = -9;
            // C17 on a camera that is re-configured while a frame call is pending: the bytes delivered are those of the
            // shape reported with the frame, nothing is written past them, and the image is filled to its end
            long expb = (rc == 0 && nb > 0) ? (long)bytes_of_image(&info.shape) : (long)nb;
            int past = 0, filled = 1;
            if (rc == 0 && nb > 0 && (size_t)expb <= BUF_CAP) { // (*nbytes is the caller's capacity, the camera does not change it)
                for (size_t i = (size_t)expb; i < BUF_CAP + 64 && !past; i++)
                    past = buf[i] != SENT(i);
                if ((size_t)expb <= BUF_CAP && expb >= 8) {
                    int same = 1;
                    for (size_t i = (size_t)expb - 8; i < (size_t)expb; i++)
                        same = same && buf[i] == SENT(i);
                    filled = !same;
                }
            }
            // "never the same frame twice": the random camera draws every image afresh, so two frame calls of one run that
            // deliver the same >= 16 bytes delivered the same image (dup); other kinds repeat their content legitimately
            int dup = 0;
            if (rc == 0 && nb > 0 && kind == 0 && expb >= 16 && (size_t)expb <= BUF_CAP) {
                dup = prev_run == run_no && prev_len == expb && !memcmp(prev_img, buf, (size_t)expb);
                memcpy(prev_img, buf, (size_t)expb);
                prev_len = expb;
                prev_run = run_no;
            }
            snprintf(b, sizeof b, "{\"e\":\"GetFrameRet\",\"rc\":%d,\"nbytes\":%ld,\"hw\":%ld,\"t\":%d,\"exp\":%ld,\"past\":%s,\"filled\":%s,\"gen\":%ld,\"dup\":%s}", rc,
                     (long)nb, hw, me, expb, past ? "true" : "false", filled ? "true" : "false", streamer_rel, dup ? "true" : "false");
            emit(cur_seq[me], b);
            if (rc == 0 && nb > 0)
                frames_got++;
            caller_in_call = 0;
            vs_signal(&run_obj);
            vs_yield("caller_between_calls");
        }
    }
    free(buf);
}

static void
controller(void)
{
    char b[256];
    int me = vs_self();
    for (int i = 0; i < nctl; i++) {
        const char* op = ctl[i];
        ctl_pending = op;
        if (!strcmp(op, "start")) {
            // client contract: no frame call of the previous run is still in flight
            while (caller_in_call)
                vs_wait(&run_obj, "ctl_wait_caller");
            cur_seq[me] = ++gseq;
            emit(cur_seq[me], "{\"e\":\"StartCall\"}");
            frames_got = 0;
            cam->start(cam);
            cur_seq[me] = ++gseq;
            emit(cur_seq[me], "{\"e\":\"StartRet\"}");
            run_no++;
            running = 1;
            vs_signal(&run_obj);
        } else if (!strcmp(op, "mark")) {
            vs_yield("ctl_mark"); // a scheduling point a `window` line can refer to
        } else if (!strcmp(op, "pause")) {
            // pause: the caller makes no further frame call until `resume` (or stop). Gives a call in progress some time to
            // complete, but does not insist: nothing promises that a camera delivers a frame (a camera whose trigger was
            // disabled while it ran can sit waiting for a trigger, see DESIGN 15.6) - SimCamStreamObs accounts for a call
            // that is still pending.
            paused = 1;
            for (int j = 0; j < 400 && caller_in_call; j++)
                vs_yield_low("ctl_pause");
        } else if (!strcmp(op, "resume")) {
            paused = 0;
            vs_signal(&run_obj);
        } else if (!strcmp(op, "stop")) {
            paused = 0;
            vs_signal(&run_obj);
            running = 0;
            cur_seq[me] = ++gseq;
            emit(cur_seq[me], "{\"e\":\"StopCall\"}");
            cam->stop(cam);
            cur_seq[me] = ++gseq;
            emit(cur_seq[me], "{\"e\":\"StopRet\"}");
            ctl_pending = "after_stop_wait_caller";
            while (caller_in_call) // stop must have released a pending frame call
                vs_wait(&run_obj, "ctl_wait_caller");
        } else if (!strcmp(op, "trigger")) {
            cur_seq[me] = ++gseq;
            cam->execute_trigger(cam);
            emit(cur_seq[me], "{\"e\":\"Trig\"}");
        } else if (!strcmp(op, "settrig")) {
            int v = atoi(ctl[++i]);
            props.input_triggers.frame_start.enable = (uint8_t)v;
            cur_seq[me] = ++gseq;
            snprintf(b, sizeof b, "{\"e\":\"SetTrigCall\",\"b\":%s}", v ? "true" : "false");
            emit(cur_seq[me], b); // from here on the setting is in flux (disabling fires the trigger before it takes effect)
            cur_seq[me] = ++gseq;
            int rc = cam->set(cam, &props);
            snprintf(b, sizeof b, "{\"e\":\"SetTrig\",\"b\":%s,\"rc\":%d}", v ? "true" : "false", rc);
            emit(cur_seq[me], b);
        } else if (!strcmp(op, "setline")) {
            // setline L: re-apply the settings with another input line for the frame trigger (the trigger setting stays as it is;
            // the camera only has the software line 0 and reports that back)
            props.input_triggers.frame_start.line = (uint8_t)atoi(ctl[++i]);
            int v = props.input_triggers.frame_start.enable;
            cur_seq[me] = ++gseq;
            snprintf(b, sizeof b, "{\"e\":\"SetTrigCall\",\"b\":%s}", v ? "true" : "false");
            emit(cur_seq[me], b);
            cur_seq[me] = ++gseq;
            int rc = cam->set(cam, &props);
            snprintf(b, sizeof b, "{\"e\":\"SetTrig\",\"b\":%s,\"rc\":%d}", v ? "true" : "false", rc);
            emit(cur_seq[me], b);
            cam->get(cam, &props); // continue from what the camera says is in effect
        } else if (!strcmp(op, "setshape")) {
            // setshape W H T: re-configure shape and sample type (the trigger setting stays as it is), possibly while running
            props.shape.x = (uint32_t)atoi(ctl[++i]);
            props.shape.y = (uint32_t)atoi(ctl[++i]);
            props.pixel_type = (enum SampleType)atoi(ctl[++i]);
            int v = props.input_triggers.frame_start.enable;
            cur_seq[me] = ++gseq;
            snprintf(b, sizeof b, "{\"e\":\"SetTrigCall\",\"b\":%s}", v ? "true" : "false");
            emit(cur_seq[me], b);
            cur_seq[me] = ++gseq;
            int rc = cam->set(cam, &props);
            snprintf(b, sizeof b, "{\"e\":\"SetTrig\",\"b\":%s,\"rc\":%d}", v ? "true" : "false", rc);
            emit(cur_seq[me], b);
        } else if (!strcmp(op, "yield")) {
            int k = atoi(ctl[++i]);
            for (int j = 0; j < k; j++)
                vs_yield("ctl_yield");
        } else if (!strcmp(op, "waitidle")) {
            while (caller_in_call)
                vs_wait(&run_obj, "ctl_wait_caller");
        } else if (!strcmp(op, "waitframes")) {
            long n = atol(ctl[++i]);
            for (int j = 0; j < 4000 && frames_got < n; j++)
                vs_yield_low("ctl_waitframes");
        }
    }
    ctl_pending = "";
}

int
main(int argc, char** argv)
{
    if (argc < 2)
        return 2;
    FILE* f = fopen(argv[1], "r");
    if (!f)
        return 2;
    struct vs_config cfg;
    memset(&cfg, 0, sizeof cfg);
    cfg.seed = 1;
    cfg.budget = 40000;
    cfg.fair_budget = 40000;
    static char line[1 << 16];
    while (fgets(line, sizeof line, f)) {
        char* tok = strtok(line, " \t\n");
        if (!tok)
            continue;
        if (!strcmp(tok, "seed")) cfg.seed = strtoull(strtok(0, " \t\n"), 0, 10);
        else if (!strcmp(tok, "spurious")) cfg.spurious = atoi(strtok(0, " \t\n"));
        else if (!strcmp(tok, "window")) {
            // window LABEL INDEX THREAD STEPS [x]: see vsched.h (x = exclude THREAD instead of running it exclusively)
            static char wl[64];
            snprintf(wl, sizeof wl, "%s", strtok(0, " \t\n"));
            cfg.window_label = wl;
            cfg.window_index = atoi(strtok(0, " \t\n"));
            cfg.window_thread = atoi(strtok(0, " \t\n"));
            cfg.window_steps = atoi(strtok(0, " \t\n"));
            char* x = strtok(0, " \t\n");
            cfg.window_exclude = x && x[0] == 'x';
        }
        else if (!strcmp(tok, "budget")) cfg.budget = cfg.fair_budget = atol(strtok(0, " \t\n"));
        else if (!strcmp(tok, "pct_depth")) cfg.pct_depth = atoi(strtok(0, " \t\n"));
        else if (!strcmp(tok, "pct_len")) cfg.pct_len = atol(strtok(0, " \t\n"));
        else if (!strcmp(tok, "strategy")) {
            char* s = strtok(0, " \t\n");
            cfg.strategy = !strcmp(s, "pct") ? VS_PCT : !strcmp(s, "starve") ? VS_STARVE : !strcmp(s, "rr") ? VS_RR : VS_RANDOM;
        } else if (!strcmp(tok, "starve")) {
            cfg.starve_thread = atoi(strtok(0, " \t\n"));
            cfg.starve_steps = atol(strtok(0, " \t\n"));
        } else if (!strcmp(tok, "kind")) kind = atoi(strtok(0, " \t\n"));
        else if (!strcmp(tok, "trig")) trig0 = atoi(strtok(0, " \t\n"));
        else if (!strcmp(tok, "caller")) caller_calls = atoi(strtok(0, " \t\n"));
        else if (!strcmp(tok, "ctl")) {
            char* s;
            while ((s = strtok(0, " \t\n")) && nctl < 1024)
                snprintf(ctl[nctl++], sizeof ctl[0], "%s", s);
        } else if (!strcmp(tok, "out")) snprintf(outpath, sizeof outpath, "%s", strtok(0, " \t\n"));
    }
    fclose(f);
    EV = (struct ev*)malloc(sizeof(struct ev) * 100000);
    logger_set_reporter(reporter);
    vs_init(&cfg, on_hang);
    vs_set_lock_hook(lock_hook);
    vs_set_thread_hook(thread_hook);
    cam = simcam_make_camera((enum BasicDeviceKind)kind);
    if (!cam)
        return 2;
    cam->get(cam, &props);
    props.binning = 1;
    props.shape.x = 4;
    props.shape.y = 4;
    props.exposure_time_us = 2000;
    props.pixel_type = SampleType_u8;
    props.input_triggers.frame_start.enable = (uint8_t)trig0;
    if (cam->set(cam, &props) != Device_Ok)
        return 2;
    struct ImageShape shape;
    cam->get_shape(cam, &shape);
    img_bytes = bytes_of_image(&shape);
    caller_tid = vs_spawn("caller", caller, 0);
    vs_activate(1);
    controller();
    if (running) { // never leave the streamer running at the end of a program
        snprintf(ctl[0], sizeof ctl[0], "stop");
        nctl = 1;
        controller();
    }
    finished = 1;
    vs_signal(&run_obj);
    ctl_pending = "join";
    vs_join_all();
    vs_activate(0);
    flush_trace("{\"e\":\"End\"}");
    return 0;
}
