// Deterministic scheduler for the real multi-threaded code (see DESIGN.md section 4.2).
// Exactly one thread runs at a time; every primitive of platform.h that can block or synchronise is a
// scheduling point owned by this scheduler (wrapped at link time with --wrap), time is virtual.
#ifndef VERIF_VSCHED_H
#define VERIF_VSCHED_H
#include <stdint.h>
#ifdef __cplusplus
extern "C"
{
#endif

    enum vs_strategy
    {
        VS_RANDOM = 0, // uniform among runnable threads
        VS_PCT = 1,    // priority based with `pct_depth` random priority change points
        VS_STARVE = 2, // thread `starve_thread` is not chosen for the first `starve_steps` decisions
        VS_RR = 3,     // round robin
    };

    struct vs_config
    {
        uint64_t seed;
        int strategy;
        int pct_depth;
        long pct_len; // estimated run length for PCT change points
        int starve_thread;
        long starve_steps;
        long budget;      // decisions under the strategy before switching to fair round-robin
        long fair_budget; // further decisions under round-robin before a hang is declared
        int spurious;     // 1/spurious chance that a cv sleeper is woken without notify (0 = never)
        const int* replay; // explicit schedule (thread ids), used first
        long nreplay;
        int verbose;
        // window injection: the window_index-th time (0-based) any thread stops at scheduling point `window_label`,
        // thread `window_thread` is run for the next `window_steps` decisions (if runnable) before the strategy resumes.
        // Sweeping (index, thread, steps) places another thread's steps systematically inside a check-then-sleep window.
        // window_exclude != 0 inverts it: `window_thread` is NOT run for the next `window_steps` decisions (unless nothing
        // else is runnable) - a consumer that lags while everybody else proceeds.
        const char* window_label;
        int window_index, window_thread, window_steps;
        int window_exclude;
    };

    // hang callback: kind = "deadlock" | "livelock"; must not return (write the trace, then _exit)
    typedef void (*vs_hang_fn)(const char* kind);
    // called with the lock still held, just before lock_release / cv wait releases it (linearization hook)
    typedef void (*vs_lock_hook_fn)(void* lock, int is_cv_wait);

    void vs_init(const struct vs_config* cfg, vs_hang_fn on_hang);
    void vs_set_lock_hook(vs_lock_hook_fn fn);
    // called at every scheduling decision, before the next thread is chosen: `t` just finished a step at point `at`
    typedef void (*vs_step_hook_fn)(int t, const char* at, int new_status_runnable);
    void vs_set_step_hook(vs_step_hook_fn fn);
    void vs_activate(int on); // wrappers are pass-through (single-threaded set-up) while inactive
    int vs_spawn(const char* name, void (*fn)(void*), void* arg);
    void vs_name_next(const char* name); // queue a name for the next thread created through thread_create (FIFO, <= 16)
    typedef void (*vs_thread_hook_fn)(int t, const char* name, int is_exit);
    void vs_set_thread_hook(vs_thread_hook_fn fn); // called when a thread function starts / has returned
    void vs_yield(const char* at);
    void vs_yield_low(const char* at); // yield of a polling loop: gives way to every other thread under PCT
    void vs_wait(void* obj, const char* at);   // block until vs_signal(obj)
    void vs_signal(void* obj);
    int vs_spurious_wake_all(void); // probe: wake every cv sleeper (legal spurious wake-up); returns how many
    void vs_join_all(void); // main thread: run the others until all are done
    int vs_self(void);
    const char* vs_name(int t);
    int vs_nthreads(void);
    long vs_steps(void);
    uint64_t vs_now_ns(void);
    // per-thread status for hang reports: returns a static string such as "BLK_CV@cv_sleep"
    const char* vs_status(int t);
    int vs_is_blocked_on_cv(int t);
    int vs_is_done(int t);
    // schedule actually taken (thread id per decision) and the number of runnable candidates per decision
    long vs_schedule(const int** ids, const unsigned char** ncand);
    // bitmask of runnable threads at each decision (for bounded-exhaustive DFS drivers); threads < 32
    const uint32_t* vs_candidates(void);

#ifdef __cplusplus
}
#endif
#endif
