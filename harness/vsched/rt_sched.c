// "rt" implementation of the vsched API on REAL pthreads with the REAL platform.c (locks, condition variables,
// threads are not replaced): the same harness programs run genuinely concurrently, which exercises platform.c's
// pthread wrappers that the deterministic scheduler bypasses. Only lock_release and condition_variable_wait are wrapped
// (pass-through) so that events can be stamped at their linearization points and sleepers can be seen.
// Hang oracle: a watchdog in vs_join_all - no thread finished and no event was stamped for QUIET_MS.
//   link with --wrap=lock_release,--wrap=condition_variable_wait
#define _GNU_SOURCE
#include "vsched.h"
#include "platform.h"
#include <pthread.h>
#include <sched.h>
#include <stdio.h>
#include <stdlib.h>
#include <string.h>
#include <time.h>
#include <unistd.h>

#define MAXT 32
#define QUIET_MS 4000
static struct
{
    pthread_t th;
    void (*fn)(void*);
    void* arg;
    char name[32];
    volatile int done, in_cv, waiting;
    const char* at;
} T[MAXT];
static int NT = 1;
static __thread int self_id = 0;
static vs_hang_fn on_hang;
static vs_lock_hook_fn lock_hook;
static pthread_mutex_t wmu = PTHREAD_MUTEX_INITIALIZER;
static pthread_cond_t wcv = PTHREAD_COND_INITIALIZER;
static volatile long progress = 0;
static uint64_t rng = 88172645463325252ull;

void __real_lock_release(struct lock*);
void __real_condition_variable_wait(struct condition_variable*, struct lock*);

void
__wrap_lock_release(struct lock* l)
{
    if (lock_hook)
        lock_hook(l, 0);
    __atomic_add_fetch(&progress, 1, __ATOMIC_RELAXED);
    __real_lock_release(l);
}
void
__wrap_condition_variable_wait(struct condition_variable* cv, struct lock* l)
{
    if (lock_hook)
        lock_hook(l, 1);
    T[self_id].in_cv = 1;
    __real_condition_variable_wait(cv, l);
    T[self_id].in_cv = 0;
    __atomic_add_fetch(&progress, 1, __ATOMIC_RELAXED);
}

void
vs_init(const struct vs_config* cfg, vs_hang_fn hang)
{
    on_hang = hang;
    rng ^= cfg->seed * 2654435761u;
    snprintf(T[0].name, sizeof T[0].name, "main");
}
void vs_set_lock_hook(vs_lock_hook_fn fn) { lock_hook = fn; }
void vs_set_step_hook(vs_step_hook_fn fn) { (void)fn; }
void vs_set_thread_hook(vs_thread_hook_fn fn) { (void)fn; }
void vs_activate(int on) { (void)on; }
int vs_self(void) { return self_id; }
const char* vs_name(int t) { return T[t].name; }
int vs_nthreads(void) { return NT; }
long vs_steps(void) { return progress; }
uint64_t vs_now_ns(void) { return 0; }
int vs_is_blocked_on_cv(int t) { return T[t].in_cv; }
int vs_is_done(int t) { return T[t].done; }
void vs_name_next(const char* n) { (void)n; }
const uint32_t* vs_candidates(void) { return 0; }
long
vs_schedule(const int** ids, const unsigned char** nc)
{
    if (ids) *ids = 0;
    if (nc) *nc = 0;
    return 0;
}
const char*
vs_status(int t)
{
    static __thread char b[64];
    snprintf(b, sizeof b, "%s@%s", T[t].done ? "DONE" : T[t].in_cv ? "BLK_CV" : T[t].waiting ? "BLK_WAIT" : "RUN", T[t].at ? T[t].at : "-");
    return b;
}
int vs_spurious_wake_all(void) { return 0; } // the rt harness broadcasts on the channel's cv itself

static void*
tramp(void* p)
{
    int id = (int)(intptr_t)p;
    self_id = id;
    T[id].fn(T[id].arg);
    T[id].done = 1;
    __atomic_add_fetch(&progress, 1, __ATOMIC_RELAXED);
    pthread_mutex_lock(&wmu);
    pthread_cond_broadcast(&wcv);
    pthread_mutex_unlock(&wmu);
    return 0;
}
int
vs_spawn(const char* name, void (*fn)(void*), void* arg)
{
    int id = NT++;
    snprintf(T[id].name, sizeof T[id].name, "%s", name);
    T[id].fn = fn;
    T[id].arg = arg;
    pthread_create(&T[id].th, 0, tramp, (void*)(intptr_t)id);
    return id;
}
// a yield point: give other threads a chance (sometimes a short sleep, to shake the interleavings)
void
vs_yield(const char* at)
{
    T[self_id].at = at;
    uint64_t r = __atomic_add_fetch(&rng, 0x9E3779B97F4A7C15ull, __ATOMIC_RELAXED);
    r ^= r >> 29;
    if ((r & 15) == 0) {
        struct timespec ts = { 0, (long)((r >> 8) % 200000) };
        nanosleep(&ts, 0);
    } else if (r & 1)
        sched_yield();
}
void vs_yield_low(const char* at) { vs_yield(at); }
void
vs_wait(void* obj, const char* at)
{
    (void)obj;
    T[self_id].at = at;
    T[self_id].waiting = 1;
    pthread_mutex_lock(&wmu);
    struct timespec ts;
    clock_gettime(CLOCK_REALTIME, &ts);
    ts.tv_nsec += 2000000; // callers re-check their condition in a loop: a short timed wait is enough
    if (ts.tv_nsec >= 1000000000) { ts.tv_sec++; ts.tv_nsec -= 1000000000; }
    pthread_cond_timedwait(&wcv, &wmu, &ts);
    pthread_mutex_unlock(&wmu);
    T[self_id].waiting = 0;
}
void
vs_signal(void* obj)
{
    (void)obj;
    __atomic_add_fetch(&progress, 1, __ATOMIC_RELAXED);
    pthread_mutex_lock(&wmu);
    pthread_cond_broadcast(&wcv);
    pthread_mutex_unlock(&wmu);
}
void
vs_join_all(void)
{
    long last = -1;
    int quiet = 0, probed = 0;
    for (;;) {
        int alldone = 1;
        for (int i = 1; i < NT; i++)
            if (!T[i].done)
                alldone = 0;
        if (alldone)
            break;
        usleep(20000);
        long p = progress;
        // threads parked in vs_wait poll with a timeout; only lock/cv/exit activity counts as progress
        if (p == last)
            quiet += 20;
        else
            quiet = 0;
        last = p;
        if (quiet >= QUIET_MS) {
            if (on_hang)
                on_hang(probed ? "deadlock-after-probe" : "deadlock"); // returns only to let a probe take effect
            probed = 1;
            quiet = QUIET_MS / 2;
        }
    }
    for (int i = 1; i < NT; i++)
        pthread_join(T[i].th, 0);
}
