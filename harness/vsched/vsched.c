// Deterministic scheduler: see vsched.h. Link with
//   --wrap=lock_init,lock_acquire,try_lock_acquire,lock_release,condition_variable_init,condition_variable_wait,
//   condition_variable_notify_all,event_init,event_destroy,event_set,event_wait,event_notify_all,thread_init,thread_create,
//   thread_join,clock_init,clock_tic,clock_toc,clock_toc_ms,clock_cmp_now,clock_sleep_ms
#define _GNU_SOURCE
#include "vsched.h"
#include "platform.h"
#include <semaphore.h>
#include <signal.h>
#include <sys/time.h>
#include <stdio.h>
#include <stdlib.h>
#include <string.h>
#include <unistd.h>

enum
{
    ST_RUN,
    ST_BLK_LOCK,
    ST_BLK_CV,
    ST_BLK_EV,
    ST_BLK_JOIN,
    ST_BLK_WAIT,
    ST_BLK_JOINALL,
    ST_SLEEP,
    ST_DONE
};
static const char* SN[] = { "RUN", "BLK_LOCK", "BLK_CV", "BLK_EV", "BLK_JOIN", "BLK_WAIT", "BLK_JOINALL", "SLEEP", "DONE" };

#define MAXT 32
#define MAXSCHED (1 << 20)
typedef struct
{
    pthread_t th;
    sem_t sem;
    int st;
    void* obj;
    void (*fn)(void*);
    void* arg;
    char name[32];
    uint64_t wake;
    const char* at;
    long prio;
} vt_t;

static vt_t T[MAXT];
static int NT = 0, cur = 0;
static int active = 0;
static struct vs_config C;
static vs_hang_fn on_hang;
static vs_lock_hook_fn lock_hook;
static vs_step_hook_fn step_hook;
static struct
{
    void* addr;
    int owner;
} L[256];
static int NL = 0;
static uint64_t now_ns = 1000000000ull;
static uint64_t rng = 88172645463325252ull;
static long steps = 0;
static int* sched_ids;
static unsigned char* sched_nc;
static uint32_t* sched_mask;
static long nsched = 0;
static int diverged = 0;
static char next_names[16][32];
static int nn_head = 0, nn_tail = 0;
static vs_thread_hook_fn thread_hook;
static long pct_points[16];
static long low_prio = -1;
static int rr_last = -1;
static long window_hits = 0, window_left = 0;

static uint64_t
rnd(void)
{
    rng ^= rng << 13;
    rng ^= rng >> 7;
    rng ^= rng << 17;
    return rng;
}

static int*
owner_of(void* a)
{
    for (int i = 0; i < NL; i++)
        if (L[i].addr == a)
            return &L[i].owner;
    if (NL >= 256) {
        fprintf(stderr, "vsched: too many locks\n");
        _exit(2);
    }
    L[NL].addr = a;
    L[NL].owner = -1;
    return &L[NL++].owner;
}

// A thread that spins in the code under test without ever reaching a scheduling point (no lock, wait, sleep, device call)
// cannot be preempted by this scheduler: a CPU-time watchdog, re-armed at every scheduling decision, reports it as a hang.
#define SPIN_SECONDS 3
static void
on_spin(int sig)
{
    (void)sig;
    if (on_hang)
        on_hang("spin");
    _exit(5);
}
static void
arm_spin_watchdog(void)
{
    struct itimerval it = { { 0, 0 }, { SPIN_SECONDS, 0 } };
    setitimer(ITIMER_VIRTUAL, &it, 0);
}

void
vs_init(const struct vs_config* cfg, vs_hang_fn hang)
{
    C = *cfg;
    on_hang = hang;
    signal(SIGVTALRM, on_spin);
    if (C.budget <= 0)
        C.budget = 200000;
    if (C.fair_budget <= 0)
        C.fair_budget = 200000;
    rng = C.seed * 2654435761u + 88172645463325252ull;
    for (int i = 0; i < 4; i++)
        rnd();
    memset(T, 0, sizeof T);
    snprintf(T[0].name, sizeof T[0].name, "main");
    T[0].st = ST_RUN;
    T[0].prio = (long)(rnd() % 1000) + 1000;
    sem_init(&T[0].sem, 0, 0);
    NT = 1;
    cur = 0;
    NL = 0;
    steps = 0;
    nsched = 0;
    window_hits = 0;
    window_left = 0;
    if (!sched_ids) {
        sched_ids = (int*)malloc(sizeof(int) * MAXSCHED);
        sched_nc = (unsigned char*)malloc(MAXSCHED);
        sched_mask = (uint32_t*)malloc(sizeof(uint32_t) * MAXSCHED);
    }
    for (int i = 0; i < 16; i++)
        pct_points[i] = -1;
    if (C.strategy == VS_PCT) {
        long len = C.pct_len > 0 ? C.pct_len : 300;
        for (int i = 0; i < C.pct_depth && i < 16; i++)
            pct_points[i] = (long)(rnd() % (uint64_t)len);
    }
}

void vs_set_lock_hook(vs_lock_hook_fn fn) { lock_hook = fn; }
void vs_set_step_hook(vs_step_hook_fn fn) { step_hook = fn; }
void vs_activate(int on) { active = on; }
int vs_self(void) { return cur; }
const char* vs_name(int t) { return T[t].name; }
int vs_nthreads(void) { return NT; }
long vs_steps(void) { return steps; }
uint64_t vs_now_ns(void) { return now_ns; }
int vs_is_blocked_on_cv(int t) { return T[t].st == ST_BLK_CV; }
int vs_is_done(int t) { return T[t].st == ST_DONE; }
void
vs_name_next(const char* name)
{
    snprintf(next_names[nn_tail % 16], 32, "%s", name);
    nn_tail++;
}
void vs_set_thread_hook(vs_thread_hook_fn fn) { thread_hook = fn; }

const char*
vs_status(int t)
{
    static char buf[96];
    snprintf(buf, sizeof buf, "%s@%s", SN[T[t].st], T[t].at ? T[t].at : "-");
    return buf;
}

long
vs_schedule(const int** ids, const unsigned char** ncand)
{
    if (ids)
        *ids = sched_ids;
    if (ncand)
        *ncand = sched_nc;
    return nsched;
}
const uint32_t* vs_candidates(void) { return sched_mask; }

static int
pick(void)
{
    int c[MAXT], n = 0;
    uint32_t mask = 0;
    if (step_hook)
        step_hook(cur, T[cur].at, T[cur].st == ST_RUN || T[cur].st == ST_SLEEP);
    for (int i = 0; i < NT; i++)
        if (T[i].st == ST_RUN || T[i].st == ST_SLEEP) {
            c[n++] = i;
            mask |= 1u << i;
        }
    if (n == 0) {
        int alldone = 1;
        for (int i = 0; i < NT; i++)
            if (T[i].st != ST_DONE)
                alldone = 0;
        if (alldone)
            return -1;
        if (on_hang)
            on_hang("deadlock"); // may return after making some thread runnable again (e.g. a spurious cv wake-up probe)
        for (int i = 0; i < NT; i++)
            if (T[i].st == ST_RUN || T[i].st == ST_SLEEP) {
                c[n++] = i;
                mask |= 1u << i;
            }
        if (n == 0) {
            fprintf(stderr, "vsched: DEADLOCK\n");
            _exit(3);
        }
    }
    ++steps;
    if ((steps & 63) == 1)
        arm_spin_watchdog();
    if (steps > C.budget + C.fair_budget) {
        if (on_hang)
            on_hang("livelock");
        fprintf(stderr, "vsched: BUDGET\n");
        _exit(4);
    }
    int k = -1;
    int strategy = C.strategy;
    if (C.window_label && T[cur].at && T[cur].st != ST_DONE && !strcmp(T[cur].at, C.window_label)) {
        if (window_hits == C.window_index)
            window_left = C.window_steps;
        window_hits++;
        T[cur].at = "window_seen"; // count each stop once
    }
    if (window_left > 0 && C.window_exclude) {
        window_left--;
        if ((mask & (1u << C.window_thread)) && n > 1) { // drop the excluded thread from the candidates
            int m = 0;
            for (int i = 0; i < n; i++)
                if (c[i] != C.window_thread)
                    c[m++] = c[i];
            n = m;
            mask &= ~(1u << C.window_thread);
        }
    } else if (window_left > 0) {
        window_left--;
        if (mask & (1u << C.window_thread))
            k = C.window_thread;
    }
    if (steps > C.budget)
        strategy = VS_RR;
    if (k < 0 && nsched < C.nreplay && !diverged) {
        int want = C.replay[nsched];
        for (int i = 0; i < n; i++)
            if (c[i] == want)
                k = want;
        if (k < 0)
            diverged = 1;
    }
    if (k < 0) {
        switch (strategy) {
            case VS_RR: {
                for (int d = 1; d <= NT && k < 0; d++) {
                    int cand = (rr_last + d) % NT;
                    if (mask & (1u << cand))
                        k = cand;
                }
                rr_last = k;
                break;
            }
            case VS_PCT: {
                for (int i = 0; i < 16; i++)
                    if (pct_points[i] == steps)
                        T[cur].prio = low_prio--;
                for (int i = 0; i < n; i++)
                    if (k < 0 || T[c[i]].prio > T[k].prio)
                        k = c[i];
                break;
            }
            case VS_STARVE: {
                if (steps <= C.starve_steps) {
                    int d[MAXT], m = 0;
                    for (int i = 0; i < n; i++)
                        if (c[i] != C.starve_thread)
                            d[m++] = c[i];
                    if (m > 0) {
                        k = d[rnd() % m];
                        break;
                    }
                }
                k = c[rnd() % n];
                break;
            }
            default:
                k = c[rnd() % n];
        }
    }
    if (nsched < MAXSCHED) {
        sched_ids[nsched] = k;
        sched_nc[nsched] = (unsigned char)n;
        sched_mask[nsched] = mask;
        nsched++;
    }
    if (T[k].st == ST_SLEEP) {
        if (T[k].wake > now_ns)
            now_ns = T[k].wake;
        T[k].st = ST_RUN;
    }
    if (C.verbose)
        fprintf(stderr, "  pick %s (of %d)\n", T[k].name, n);
    return k;
}

static void
switch_to(int next)
{
    int me = cur;
    if (next == me)
        return;
    cur = next;
    sem_post(&T[next].sem);
    sem_wait(&T[me].sem);
}

static void
resched(void)
{
    int n = pick();
    if (n >= 0)
        switch_to(n);
}

void
vs_yield(const char* what)
{
    if (!active)
        return;
    T[cur].at = what;
    resched();
}

// a polling / sleeping thread gives way: under the priority strategy (PCT) it drops to the lowest priority, otherwise a
// high-priority busy-poll loop would starve every other thread (which no real machine does)
void
vs_yield_low(const char* what)
{
    if (!active)
        return;
    T[cur].prio = low_prio--;
    T[cur].at = what;
    resched();
}

static void
block(int st, void* obj, const char* at)
{
    T[cur].st = st;
    T[cur].obj = obj;
    T[cur].at = at;
    resched();
}

static void
wake_all(int st, void* obj)
{
    for (int i = 0; i < NT; i++)
        if (T[i].st == st && T[i].obj == obj)
            T[i].st = ST_RUN;
}

static void*
tramp(void* p)
{
    vt_t* t = (vt_t*)p;
    sem_wait(&t->sem);
    t->fn(t->arg);
    t->st = ST_DONE;
    t->at = "exit";
    if (thread_hook)
        thread_hook((int)(t - T), t->name, 1);
    wake_all(ST_BLK_JOIN, t);
    int alldone = 1;
    for (int i = 1; i < NT; i++)
        if (T[i].st != ST_DONE)
            alldone = 0;
    if (alldone)
        for (int i = 0; i < NT; i++)
            if (T[i].st == ST_BLK_JOINALL)
                T[i].st = ST_RUN;
    int n = pick();
    if (n >= 0) {
        cur = n;
        sem_post(&T[n].sem);
    }
    return 0;
}

int
vs_spawn(const char* name, void (*fn)(void*), void* arg)
{
    if (NT >= MAXT) {
        fprintf(stderr, "vsched: too many threads\n");
        _exit(2);
    }
    vt_t* t = &T[NT];
    memset(t, 0, sizeof *t);
    snprintf(t->name, sizeof t->name, "%s", name && *name ? name : "t");
    t->fn = fn;
    t->arg = arg;
    t->st = ST_RUN;
    t->prio = (long)(rnd() % 1000) + 1000;
    t->at = "spawned";
    sem_init(&t->sem, 0, 0);
    pthread_attr_t a;
    pthread_attr_init(&a);
    pthread_attr_setstacksize(&a, 1 << 20);
    pthread_create(&t->th, &a, tramp, t);
    pthread_detach(t->th);
    if (thread_hook)
        thread_hook(NT, t->name, 0); // a thread is alive from its creation, whether or not it has been scheduled yet
    return NT++;
}

void
vs_wait(void* obj, const char* at)
{
    block(ST_BLK_WAIT, obj, at);
}

// Spurious wake-up of every thread sleeping on a condition variable (always legal for condition variables).
// Used as a probe at a deadlock: a waiter that then proceeds had been asleep although its predicate was satisfiable.
int
vs_spurious_wake_all(void)
{
    int k = 0;
    for (int i = 0; i < NT; i++)
        if (T[i].st == ST_BLK_CV) {
            T[i].st = ST_RUN;
            k++;
        }
    return k;
}

void
vs_signal(void* obj)
{
    wake_all(ST_BLK_WAIT, obj);
}

void
vs_join_all(void)
{
    for (;;) {
        int alldone = 1;
        for (int i = 1; i < NT; i++)
            if (T[i].st != ST_DONE)
                alldone = 0;
        if (alldone)
            return;
        block(ST_BLK_JOINALL, 0, "join_all");
    }
}

// ---------------------------------------------------------------------------------------------------
// wrapped platform API
static void
acquire_lock(struct lock* l)
{
    int* o = owner_of(l);
    while (*o != -1)
        block(ST_BLK_LOCK, l, "lock(blocked)");
    *o = cur;
}
static void
release_lock(struct lock* l)
{
    int* o = owner_of(l);
    *o = -1;
    wake_all(ST_BLK_LOCK, l);
}

void __wrap_lock_init(struct lock* l) { memset(l, 0, sizeof *l); *owner_of(l) = -1; }

void
__wrap_lock_acquire(struct lock* l)
{
    if (!active) {
        *owner_of(l) = cur;
        return;
    }
    vs_yield("lock_acquire");
    acquire_lock(l);
}

int
__wrap_try_lock_acquire(struct lock* l)
{
    if (active)
        vs_yield("try_lock");
    int* o = owner_of(l);
    if (*o != -1)
        return 0;
    *o = cur;
    return 1;
}

void
__wrap_lock_release(struct lock* l)
{
    if (lock_hook)
        lock_hook(l, 0);
    release_lock(l);
    if (active)
        vs_yield("lock_released");
}

void __wrap_condition_variable_init(struct condition_variable* cv) { memset(cv, 0, sizeof *cv); }

void
__wrap_condition_variable_wait(struct condition_variable* cv, struct lock* l)
{
    vs_yield("cv_wait_enter"); // the caller has evaluated its predicate; it has not released the lock yet
    if (lock_hook)
        lock_hook(l, 1);
    release_lock(l);
    if (C.spurious > 0 && (rnd() % (uint64_t)C.spurious) == 0)
        vs_yield("cv_spurious_wake");
    else
        block(ST_BLK_CV, cv, "cv_sleep");
    acquire_lock(l);
}

void
__wrap_condition_variable_notify_all(struct condition_variable* cv)
{
    if (active)
        vs_yield("notify_all");
    wake_all(ST_BLK_CV, cv);
}

void __wrap_event_init(struct event* e) { memset(e, 0, sizeof *e); }
void __wrap_event_destroy(struct event* e) { (void)e; }
void __wrap_event_set(struct event* e) { e->state_ = 1; wake_all(ST_BLK_EV, e); }
void
__wrap_event_wait(struct event* e)
{
    if (active)
        vs_yield("event_wait");
    while (!e->state_)
        block(ST_BLK_EV, e, "event_sleep");
    e->state_ = 0;
}
void
__wrap_event_notify_all(struct event* e)
{
    if (active)
        vs_yield("event_notify");
    e->state_ = 1;
    wake_all(ST_BLK_EV, e);
}

void
__wrap_thread_init(struct thread* t)
{
    memset(t, 0, sizeof *t);
}

uint8_t
__wrap_thread_create(struct thread* t, void (*proc)(void*), void* args)
{
    char nm[32];
    if (nn_head < nn_tail) {
        snprintf(nm, sizeof nm, "%s", next_names[nn_head % 16]);
        nn_head++;
    } else
        snprintf(nm, sizeof nm, "t%d", NT);
    int id = vs_spawn(nm, proc, args);
    t->inner_ = (pthread_t)(uintptr_t)id;
    t->is_live_ = 1;
    if (active)
        vs_yield("thread_create");
    return 1;
}

void
__wrap_thread_join(struct thread* t)
{
    if (!t->is_live_)
        return;
    if (active)
        vs_yield("thread_join");
    vt_t* x = &T[(int)(uintptr_t)t->inner_];
    while (x->st != ST_DONE)
        block(ST_BLK_JOIN, x, "join_wait");
    t->is_live_ = 0;
}

// every clock read advances virtual time a little, so that code which busy-waits on the clock (the sink's write
// delay) makes progress even when no thread sleeps
void __wrap_clock_init(struct clock* c) { now_ns += 50000; c->origin = now_ns; }
uint64_t
__wrap_clock_tic(struct clock* c)
{
    now_ns += 1000;
    if (c)
        c->origin = now_ns;
    return now_ns;
}
int64_t __wrap_clock_toc(struct clock* c) { now_ns += 100; return (int64_t)(now_ns - c->origin); }
double __wrap_clock_toc_ms(struct clock* c) { now_ns += 100; return 1e-6 * (double)(int64_t)(now_ns - c->origin); }
int8_t
__wrap_clock_cmp_now(struct clock* c)
{
    now_ns += 100;
    return (now_ns < c->origin) ? -1 : ((now_ns > c->origin) ? 1 : 0);
}
void
__wrap_clock_sleep_ms(struct clock* c, float ms)
{
    uint64_t base = c ? c->origin : now_ns;
    uint64_t wake = base + (uint64_t)(ms > 0 ? (double)ms * 1e6 : 0);
    if (!active) {
        if (wake > now_ns)
            now_ns = wake;
        if (c)
            c->origin = now_ns;
        return;
    }
    if (wake <= now_ns + 1000000ull) { // less than 1 ms remaining: the real clock_sleep_ms does not sleep either
        vs_yield_low("sleep_skipped");
        return;
    }
    T[cur].prio = low_prio--;
    T[cur].wake = wake;
    T[cur].st = ST_SLEEP;
    T[cur].at = "sleep";
    resched();
    now_ns += 1000;
    if (c)
        c->origin = now_ns;
}
